//! `vharness probe`: feed stdin lines to a real `Runtime` and print every event (witness checks).
use basic::mach::{Event, Runtime};
use std::panic::{catch_unwind, AssertUnwindSafe};

pub fn session() {
    let mut rt = Runtime::default();
    let stdin = std::io::stdin();
    let mut line = String::new();
    // drain the intro
    loop {
        match rt.execute(5000) {
            Event::Stopped => break,
            _ => {}
        }
    }
    while stdin.read_line(&mut line).unwrap_or(0) > 0 {
        let l = line.trim_end_matches(&['\n', '\r'][..]).to_string();
        line.clear();
        println!("> {}", l);
        let r = catch_unwind(AssertUnwindSafe(|| {
            rt.enter(&l);
            for _ in 0..100000 {
                match rt.execute(5000) {
                    Event::Stopped => break,
                    Event::Print(s) => print!("{}", s),
                    Event::Errors(es) => {
                        for e in es.iter() {
                            println!("{}", e);
                        }
                    }
                    Event::List((s, _)) => println!("{}", s),
                    Event::Running => {}
                    other => {
                        println!("[{:?}]", other);
                        break;
                    }
                }
            }
        }));
        if r.is_err() {
            println!("*** PANIC ***");
            return;
        }
    }
}
