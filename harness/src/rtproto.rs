//! Canonical text of events and VM state (shared with lean/BasicModel/ProtoRt.lean).
use crate::progproto::{show_errs, show_program};
use crate::proto::{code_of, hex, show_val};
use basic::mach::{Event, Listing, Runtime};

pub fn show_event(e: &Event) -> String {
    match e {
        Event::Errors(es) => format!("E[{}]", show_errs(es)),
        Event::Input(p, caps) => format!("I{},{}", hex(p), if *caps { 1 } else { 0 }),
        Event::Print(s) => format!("P{}", hex(s)),
        Event::List((t, cols)) => {
            // diagnostics of one line come out in HashMap order: canonicalise
            let mut cv: Vec<(usize, usize)> = cols.iter().map(|c| (c.start, c.end)).collect();
            cv.sort();
            let cs: Vec<String> = cv.iter().map(|c| format!("{}-{}", c.0, c.1)).collect();
            format!("L{},[{}]", hex(t), cs.join(","))
        }
        Event::Running => "r".into(),
        Event::Stopped => "S".into(),
        Event::Load(s) => format!("LOAD{}", hex(s)),
        Event::Run(s) => format!("RUN{}", hex(s)),
        Event::Save(s) => format!("SAVE{}", hex(s)),
        Event::Cls => "CLS".into(),
        Event::Inkey => "K".into(),
    }
}

fn ln_of_debug(s: &str) -> String {
    // "Some(10)" | "None"
    if let Some(r) = s.strip_prefix("Some(") {
        r.trim_end_matches(')').to_string()
    } else {
        "-".into()
    }
}

/// canonical form of the `Debug` text of the private `State` enum
pub fn canon_state(d: &str) -> String {
    if let Some(r) = d.strip_prefix("Listing(") {
        let r = &r[..r.len() - 1];
        let mut it = r.split("..=");
        let lo = it.next().unwrap_or("");
        let hi = it.next().unwrap_or("");
        return format!("Listing({},{})", ln_of_debug(lo), ln_of_debug(hi));
    }
    if let Some(r) = d.strip_prefix("RuntimeError(Error { ") {
        let text = r.trim_end_matches(" })");
        let code = code_of(text);
        // "?NAME IN <line>[:col][; msg]"
        let body = text.split("; ").next().unwrap_or("");
        let line = match body.rfind(" IN ") {
            Some(i) => body[i + 4..].split(':').next().unwrap_or("-").to_string(),
            None => "-".into(),
        };
        return format!("RuntimeError({}@{})", code, line);
    }
    d.to_string()
}

pub fn show_var_store(v: &basic::mach::Var) -> String {
    let (vars, dims, types) = v.verif_parts();
    let mut vs: Vec<(String, String)> = vars.iter().map(|(k, x)| (hex(k), show_val(x))).collect();
    vs.sort();
    let mut ds: Vec<(String, String)> = dims
        .iter()
        .map(|(k, d)| (hex(k), d.iter().map(|i| i.to_string()).collect::<Vec<_>>().join(":")))
        .collect();
    ds.sort();
    let vt: Vec<String> = vs.iter().map(|(k, x)| format!("{}={}", k, x)).collect();
    let dt: Vec<String> = ds.iter().map(|(k, x)| format!("{}=[{}]", k, x)).collect();
    format!("vars={{{}}} dims={{{}}} types={}", vt.join(","), dt.join(","), types)
}

pub fn show_core(rt: &Runtime) -> String {
    let s = rt.verif_state();
    let stack: Vec<String> = s.stack.iter().map(show_val).collect();
    let mut fns: Vec<(String, String)> = s.functions.iter().map(|(k, n, a)| (hex(k), format!("{}@{}", n, a))).collect();
    fns.sort();
    let ft: Vec<String> = fns.iter().map(|(k, x)| format!("{}={}", k, x)).collect();
    let tr = match s.tr {
        Some(n) => n.to_string(),
        None => "-".into(),
    };
    let (link, _, _, _) = s.program.verif_parts();
    let (_, _, _, datapos, _, _) = link.verif_parts();
    format!(
        "pc={} entry={} state={} cont={} contpc={} col={} dirty={} tron={} tr={} stack=[{}] {} fns={{{}}} datapos={}",
        s.pc, s.entry_address, canon_state(&s.state), canon_state(&s.cont), s.cont_pc, s.print_col, s.dirty, s.tron, tr,
        stack.join(","), show_var_store(s.vars), ft.join(","), datapos
    )
}

pub fn show_listing(l: &Listing) -> String {
    let v: Vec<String> = l
        .lines()
        .map(|line| format!("{}:{}", line.number().map(|n| n.to_string()).unwrap_or("-".into()), hex(&line.to_string())))
        .collect();
    v.join(",")
}

pub fn show_full(rt: &Runtime) -> String {
    let s = rt.verif_state();
    format!(
        "{} ## {} ## listing={{{}}} lierr=[{}] lderr=[{}]",
        show_core(rt),
        show_program(s.program),
        show_listing(s.listing),
        show_errs(&s.listing.indirect_errors),
        show_errs(&s.listing.direct_errors)
    )
}
