//! Layer OP: `operation.rs`, `function.rs`, `val.rs` conversions and formatting, driven in-process.
use crate::proto::*;
use crate::rng::Rng;
use basic::lang::Error;
use basic::mach::{Function, Operation, Stack, Val};
use std::convert::TryFrom;
use std::io::Write;
use std::panic::{catch_unwind, AssertUnwindSafe};

type R = Result<Val, Error>;

fn stack_of(vals: &[Val]) -> Stack<Val> {
    let mut s: Stack<Val> = Stack::new("X");
    for v in vals {
        let _ = s.push(v.clone());
    }
    s
}

fn natd(n: u64) -> R {
    Ok(Val::Double(n as f64))
}

pub fn eval_op(name: &str, a: &[Val]) -> Option<R> {
    let one = |f: &dyn Fn(Val) -> R| if a.len() == 1 { Some(f(a[0].clone())) } else { None };
    let two = |f: &dyn Fn(Val, Val) -> R| {
        if a.len() == 2 { Some(f(a[0].clone(), a[1].clone())) } else { None }
    };
    match name {
        "neg" => one(&Operation::negate),
        "not" => one(&Operation::not),
        "abs" => one(&Function::abs),
        "asc" => one(&Function::asc),
        "atn" => one(&Function::atn),
        "cdbl" => one(&Function::cdbl),
        "chr" => one(&Function::chr),
        "cint" => one(&Function::cint),
        "cos" => one(&Function::cos),
        "csng" => one(&Function::csng),
        "exp" => one(&Function::exp),
        "fix" => one(&Function::fix),
        "hex" => one(&Function::hex),
        "int" => one(&Function::int),
        "len" => one(&Function::len),
        "log" => one(&Function::log),
        "oct" => one(&Function::oct),
        "sgn" => one(&Function::sgn),
        "sin" => one(&Function::sin),
        "spc" => one(&Function::spc),
        "sqr" => one(&Function::sqr),
        "str" => one(&Function::str),
        "tan" => one(&Function::tan),
        "val" => one(&Function::val),
        "toi16" => one(&|v| i16::try_from(v).map(Val::Integer)),
        "tou16" => one(&|v| u16::try_from(v).and_then(|n| natd(n as u64))),
        "tou32" => one(&|v| u32::try_from(v).and_then(|n| natd(n as u64))),
        "tousize" => one(&|v| usize::try_from(v).and_then(|n| natd(n as u64))),
        "tof32" => one(&|v| f32::try_from(v).map(Val::Single)),
        "tof64" => one(&|v| f64::try_from(v).map(Val::Double)),
        "toline" => one(&|v| {
            basic::lang::LineNumber::try_from(v).map(|n| Val::Integer((n.unwrap_or(0) % 32768) as i16))
        }),
        "pow" => two(&Operation::power),
        "mul" => two(&Operation::multiply),
        "div" => two(&Operation::divide),
        "divint" => two(&Operation::divint),
        "mod" => two(&Operation::remainder),
        "add" => two(&Operation::sum),
        "sub" => two(&Operation::subtract),
        "eq" => two(&Operation::equal),
        "ne" => two(&Operation::not_equal),
        "lt" => two(&Operation::less),
        "le" => two(&Operation::less_equal),
        "gt" => two(&Operation::greater),
        "ge" => two(&Operation::greater_equal),
        "and" => two(&Operation::and),
        "or" => two(&Operation::or),
        "xor" => two(&Operation::xor),
        "imp" => two(&Operation::imp),
        "eqv" => two(&Operation::eqv),
        "left" => two(&Function::left),
        "right" => two(&Function::right),
        "string" => two(&Function::string),
        "instr" => Some(Function::instr(stack_of(a))),
        "mid" => Some(Function::mid(stack_of(a))),
        _ => None,
    }
}

/// Answer one request line with the implementation (used by generators and by `replay`).
pub fn answer(req: &str) -> String {
    let r = catch_unwind(AssertUnwindSafe(|| answer_inner(req)));
    match r {
        Ok(s) => s,
        Err(_) => "fault".to_string(),
    }
}

fn answer_inner(req: &str) -> String {
    let parts: Vec<&str> = req.split(' ').collect();
    match parts[0] {
        "OP" => {
            let vals: Option<Vec<Val>> = parts[2..].iter().map(|s| read_val(s)).collect();
            match vals {
                None => "bad-val".into(),
                Some(v) => match eval_op(parts[1], &v) {
                    Some(r) => show_res(r),
                    None => "bad-op".into(),
                },
            }
        }
        "SPEC" if parts.len() >= 4 && (parts[1] == "int" || parts[1] == "str") => {
            let vals: Option<Vec<Val>> = parts[3..].iter().map(|s| read_val(s)).collect();
            match vals {
                None => "bad-val".into(),
                Some(v) => match eval_op(parts[2], &v) {
                    // the specification does not speak about messages
                    Some(Ok(v)) => format!("ok {}", show_val(&v)),
                    Some(Err(e)) => format!("err {}@-:0-0;", code_of(&e.to_string())),
                    None => "bad-op".into(),
                },
            }
        }
        "FMT" => match read_val(parts[1]) {
            Some(v) => format!("ok T{}", hex(&format!("{}", v))),
            None => "bad-val".into(),
        },
        "OFSTR" => format!("ok {}", show_val(&Val::from(unhex(parts[1]).as_str()))),
        "TAB" => match (parts[1].parse::<usize>(), read_val(parts[2])) {
            (Ok(c), Some(v)) => show_res(Function::tab(c, v)),
            _ => "bad-val".into(),
        },
        "POS" => match parts[1].parse::<usize>() {
            Ok(c) => show_res(Function::pos(c)),
            _ => "bad-val".into(),
        },
        _ => "bad-request".into(),
    }
}

pub fn emit<W: Write>(w: &mut W, tag: &str, req: &str) {
    let ans = answer(req);
    let _ = writeln!(w, "{}\t{}\t{}", tag, req, ans);
}

pub fn replay<W: Write>(w: &mut W) {
    let stdin = std::io::stdin();
    let mut line = String::new();
    while stdin.read_line(&mut line).unwrap_or(0) > 0 {
        let req = line.trim_end_matches(&['\n', '\r'][..]);
        if !req.is_empty() {
            let _ = writeln!(w, "{}", crate::dispatch_answer(req));
        }
        line.clear();
    }
}

pub const INT_B: &[i16] = &[
    -32768, -32767, -32766, -16385, -16384, -257, -256, -255, -182, -181, -129, -128, -127, -32,
    -3, -2, -1, 0, 1, 2, 3, 7, 10, 15, 16, 31, 32, 127, 128, 129, 181, 182, 255, 256, 257, 16383,
    16384, 32766, 32767,
];

const OPS2_NUM: &[&str] = &[
    "pow", "mul", "div", "divint", "mod", "add", "sub", "eq", "ne", "lt", "le", "gt", "ge", "and",
    "or", "xor", "imp", "eqv",
];
const SPEC_INT: &[&str] = &["add", "sub", "mul", "divint", "mod", "pow"];
const OPS1_INT: &[&str] = &["neg", "abs", "not", "sgn", "cint", "fix", "int", "hex", "oct", "str", "csng", "cdbl", "toi16", "tou16"];

fn iv(n: i16) -> String {
    format!("I{}", n)
}

/// C08 / C02: Integer arithmetic. Unary ops over the full 16-bit range, binary ops over
/// boundary × boundary plus random pairs.
pub fn gen_int<W: Write>(w: &mut W, tier: &str, seed: u64) {
    let mut rng = Rng::new(seed);
    for op in OPS1_INT {
        for n in i16::MIN..=i16::MAX {
            emit(w, "K", &format!("OP {} {}", op, iv(n)));
            if *op == "neg" || *op == "abs" {
                emit(w, "F", &format!("SPEC int {} {}", op, iv(n)));
            }
        }
    }
    for op in OPS2_NUM {
        for &a in INT_B {
            for &b in INT_B {
                emit(w, "K", &format!("OP {} {} {}", op, iv(a), iv(b)));
                if SPEC_INT.contains(op) && !(*op == "pow" && b < 0) {
                    emit(w, "F", &format!("SPEC int {} {} {}", op, iv(a), iv(b)));
                }
            }
        }
    }
    let n = if tier == "thorough" { 4_000_000 } else { 100_000 };
    for _ in 0..n {
        let op = rng.pick(OPS2_NUM);
        let a = rng.next() as i16;
        let b = if rng.chance(1, 4) { *rng.pick(INT_B) } else if rng.chance(1, 3) { (rng.next() % 33) as i16 - 16 } else { rng.next() as i16 };
        emit(w, "K", &format!("OP {} {} {}", op, iv(a), iv(b)));
        if SPEC_INT.contains(op) && !(*op == "pow" && b < 0) {
            emit(w, "F", &format!("SPEC int {} {} {}", op, iv(a), iv(b)));
        }
    }
}

fn f32_boundaries() -> Vec<u32> {
    let mut v: Vec<u32> = vec![];
    let pts: &[f32] = &[
        0.0, -0.0, 0.5, -0.5, 1.0, -1.0, 1.5, 2.5, -1.5, 0.99999994, -0.99999994, 255.0, 256.0, 255.5,
        32766.0, 32767.0, 32768.0, -32767.0, -32768.0, -32769.0, 65535.0, 65536.0, 65529.0, 65530.0,
        16777216.0, 1e7, 1e9, 1e10, 4294967040.0, 4294967296.0, 1.8446744e19, 3.4028235e38, 1e-45, 1.1754944e-38,
        1114111.0, 1114112.0, 55295.0, 55296.0, 57343.0, 57344.0,
    ];
    for p in pts {
        let b = p.to_bits();
        for d in -4i64..=4 {
            v.push((b as i64 + d) as u32);
        }
        let nb = (-p).to_bits();
        for d in -4i64..=4 {
            v.push((nb as i64 + d) as u32);
        }
    }
    v.extend_from_slice(&[0x7f800000, 0xff800000, 0x7fc00000, 0xffc00000, 0x7f800001]);
    v
}

fn f64_boundaries() -> Vec<u64> {
    let mut v: Vec<u64> = vec![];
    let pts: &[f64] = &[
        0.0, 0.5, 1.0, 1.5, 2.5, 0.9999999999999999, 255.0, 256.0, 255.5, 32766.0, 32767.0, 32767.5, 32768.0,
        32769.0, 65535.0, 65536.0, 65529.0, 65530.0, 16777216.0, 1e7, 1e9, 1e17, 4294967295.0,
        4294967296.0, 1.8446744073709552e19, 1.7976931348623157e308, 5e-324, 2.2250738585072014e-308,
        3.4028234663852886e38, 3.4028235677973366e38, 1114111.0, 1114112.0, 55295.0, 55296.0, 57343.0, 57344.0,
    ];
    for p in pts {
        for s in [1.0f64, -1.0] {
            let b = (p * s).to_bits();
            for d in -4i64..=4 {
                v.push((b as i64 + d) as u64);
            }
        }
    }
    v.extend_from_slice(&[0x7ff0000000000000, 0xfff0000000000000, 0x7ff8000000000000, 0x7ff0000000000001]);
    v
}

const CONV_OPS: &[&str] = &["toi16", "tou16", "tou32", "tousize", "tof32", "tof64", "toline", "cint", "fix", "int", "sgn", "abs", "neg", "not", "csng", "cdbl", "chr", "spc", "hex", "oct"];

/// C08 / C02: float → Integer conversions around every boundary, ± 4 ulp, plus random bits.
pub fn gen_conv<W: Write>(w: &mut W, tier: &str, seed: u64) {
    let mut rng = Rng::new(seed ^ 0xC0);
    for op in CONV_OPS {
        for b in f32_boundaries() {
            emit(w, "K", &format!("OP {} S{:08x}", op, b));
        }
        for b in f64_boundaries() {
            emit(w, "K", &format!("OP {} D{:016x}", op, b));
        }
    }
    let n = if tier == "thorough" { 1_000_000 } else { 50_000 };
    for _ in 0..n {
        let op = rng.pick(CONV_OPS);
        if rng.chance(1, 2) {
            // bias exponents towards the interesting range
            let mut b = rng.next() as u32;
            if rng.chance(2, 3) {
                let e = 110 + rng.below(50) as u32;
                b = (b & 0x807fffff) | (e << 23);
            }
            emit(w, "K", &format!("OP {} S{:08x}", op, b));
        } else {
            let mut b = rng.next();
            if rng.chance(2, 3) {
                let e = 1000 + rng.below(90) as u64;
                b = (b & 0x800fffffffffffff) | (e << 52);
            }
            emit(w, "K", &format!("OP {} D{:016x}", op, b));
        }
    }
}

pub fn sample_vals(rng: &mut Rng) -> Vec<String> {
    let mut v: Vec<String> = vec![];
    for &n in &[-32768i16, -1, 0, 1, 2, 255, 32767] {
        v.push(iv(n));
    }
    for &x in &[0.0f32, -0.0, 0.5, 1.0, -1.5, 2.0, 32767.0, 32768.0, -32768.5, 1e10, f32::INFINITY, f32::NAN, 1.0000001] {
        v.push(format!("S{:08x}", x.to_bits()));
    }
    for &x in &[0.0f64, 0.5, 1.0, -2.0, 3.0, 32767.5, -32769.0, 1e17, 1e300, f64::NEG_INFINITY, 1.0000000000000002] {
        v.push(format!("D{:016x}", x.to_bits()));
    }
    for s in ["", "a", "A", "ab", "b", "é", "日本", "10", " 12 "] {
        v.push(format!("T{}", hex(s)));
    }
    v.push(format!("I{}", rng.next() as i16));
    v.push(format!("S{:08x}", rng.next() as u32));
    v.push(format!("D{:016x}", rng.next()));
    v.push("R3".into());
    v.push("N4".into());
    v
}

/// C02: every binary operator × every pair of sample values of every type.
pub fn gen_matrix<W: Write>(w: &mut W, tier: &str, seed: u64) {
    let mut rng = Rng::new(seed ^ 0xAA);
    let rounds = if tier == "thorough" { 8 } else { 1 };
    for _ in 0..rounds {
        let vals = sample_vals(&mut rng);
        for op in OPS2_NUM {
            for a in &vals {
                for b in &vals {
                    emit(w, "K", &format!("OP {} {} {}", op, a, b));
                }
            }
        }
        let un = ["neg", "not", "abs", "asc", "atn", "cdbl", "chr", "cint", "cos", "csng", "exp", "fix", "hex", "int", "len", "log", "oct", "sgn", "sin", "spc", "sqr", "str", "tan", "val"];
        for op in un {
            for a in &vals {
                emit(w, "K", &format!("OP {} {}", op, a));
            }
        }
    }
    // pow with small integer exponents on random float bases (powi path)
    let n = if tier == "thorough" { 200_000 } else { 10_000 };
    for _ in 0..n {
        let e = (rng.next() % 41) as i16 - 20;
        let base = if rng.chance(1, 2) {
            format!("S{:08x}", ((rng.next() as u32) & 0x807fffff) | ((120 + rng.below(14) as u32) << 23))
        } else {
            format!("D{:016x}", (rng.next() & 0x800fffffffffffff) | ((1016 + rng.below(14) as u64) << 52))
        };
        emit(w, "K", &format!("OP pow {} {}", base, iv(e)));
    }
}

pub const STRS: &[&str] = &[
    "", "a", "abc", "abcabc", "hello world", "é", "éa", "aé", "日本語", "日本語日本語", "a日b本c", "😀", "x😀y", "aaa", "abab", " ", "  pad  ",
];

fn long_strs() -> Vec<String> {
    vec!["x".repeat(254), "x".repeat(255), "x".repeat(256), "é".repeat(255), "é".repeat(256), "日".repeat(300)]
}

const POSN: &[i32] = &[-32768, -2, -1, 0, 1, 2, 3, 4, 5, 6, 7, 12, 254, 255, 256, 257, 32767];

/// C07: string functions over the whole grid of strings × positions × lengths.
pub fn gen_str<W: Write>(w: &mut W, tier: &str, seed: u64) {
    let mut rng = Rng::new(seed ^ 0x57);
    let mut strs: Vec<String> = STRS.iter().map(|s| s.to_string()).collect();
    strs.extend(long_strs());
    let pv = |p: i32| -> String { iv(p as i16) };
    for s in &strs {
        let t = format!("T{}", hex(s));
        for op in ["len", "asc", "val", "str"] {
            emit(w, "K", &format!("OP {} {}", op, t));
        }
        emit(w, "F", &format!("SPEC str len {}", t));
        for &p in POSN {
            emit(w, "K", &format!("OP left {} {}", t, pv(p)));
            emit(w, "K", &format!("OP right {} {}", t, pv(p)));
            emit(w, "K", &format!("OP mid {} {}", t, pv(p)));
            emit(w, "F", &format!("SPEC str left {} {}", t, pv(p)));
            emit(w, "F", &format!("SPEC str right {} {}", t, pv(p)));
            emit(w, "F", &format!("SPEC str mid {} {}", t, pv(p)));
            emit(w, "K", &format!("OP string {} {}", pv(p), t));
            if s.chars().count() < 40 {
                for &l in POSN {
                    emit(w, "K", &format!("OP mid {} {} {}", t, pv(p), pv(l)));
                    emit(w, "F", &format!("SPEC str mid {} {} {}", t, pv(p), pv(l)));
                }
            }
        }
        emit(w, "K", &format!("OP left {} S3fc00000", t));
        emit(w, "K", &format!("OP mid {} D4004000000000000", t));
    }
    // INSTR: all pairs of short strings × starts
    for s in STRS {
        for p in STRS {
            let (ts, tp) = (format!("T{}", hex(s)), format!("T{}", hex(p)));
            emit(w, "K", &format!("OP instr {} {}", ts, tp));
            emit(w, "F", &format!("SPEC str instr {} {}", ts, tp));
            for &st in &[-1i32, 0, 1, 2, 3, 4, 6, 7, 8, 255, 256] {
                emit(w, "K", &format!("OP instr {} {} {}", pv(st), ts, tp));
                emit(w, "F", &format!("SPEC str instr {} {} {}", pv(st), ts, tp));
            }
        }
    }
    // concatenation and comparison
    for a in &strs {
        for b in STRS {
            let (ta, tb) = (format!("T{}", hex(a)), format!("T{}", hex(b)));
            for op in ["add", "eq", "ne", "lt", "le", "gt", "ge"] {
                emit(w, "K", &format!("OP {} {} {}", op, ta, tb));
            }
        }
    }
    // CHR$ / ASC / STRING$ / SPC / HEX$ / OCT$ on code points around the scalar-value gaps
    for n in [-1i64, 0, 1, 65, 127, 128, 255, 256, 0xD7FF, 0xD800, 0xDFFF, 0xE000, 0xFFFF, 0x10000, 0x10FFFF, 0x110000, 4294967295, 4294967296] {
        let d = format!("D{:016x}", (n as f64).to_bits());
        emit(w, "K", &format!("OP chr {}", d));
        emit(w, "K", &format!("OP string I3 {}", d));
        emit(w, "K", &format!("OP spc {}", d));
        emit(w, "K", &format!("OP string {} T41", d));
    }
    // ASC: the code of the FIRST character; beyond the Integer range the result is a Single
    for c in ['A', 'é', '日', '😀', '\u{7fff}', '\u{8000}', '\u{8001}', '\u{8a9e}', '\u{9999}', '\u{d55c}', '\u{d7ff}', '\u{e000}', '\u{fffd}', '\u{ffff}', '\u{10000}', '\u{10ffff}', '\u{0}', '\u{7f}', '\u{80}', '\u{ff}', '\u{100}'] {
        emit(w, "K", &format!("OP asc T{}", hex(&c.to_string())));
        emit(w, "K", &format!("OP asc T{}", hex(&format!("{}xyz", c))));
        emit(w, "K", &format!("OP asc T{}", hex(&format!("{}{}", c, c))));
    }
    // VAL / Val::from(&str) on numeric spellings
    let nums = ["", "0", "12", "-12", "+5", " 42 ", "1.5", ".5", "5.", "1e3", "1E3", "1d3", "1D-2", "1e", "1e+", "&H1F", "&h1f", "&H0D", "&hde", "&H1D0", "&HE", "&H1E2", "&17", "&8", "&H", "&HFFFF", "&H7FFF", "&H-1", "&-7",
        "12abc", "abc", "1.2.3", "1e400", "1e-400", "123456789012345678901234567890", "0.1", "3.4028235e38", "7!", "7#", "7%", "1,2", "- 1", "--1", "1 2", "inf", "nan", "INFINITY", "-inf", "1_000", "١٢", "1e5!", "&H10!", "1D2#"];
    for s in nums {
        emit(w, "K", &format!("OFSTR {}", hex(s)));
        emit(w, "K", &format!("OP val T{}", hex(s)));
    }
    let n = if tier == "thorough" { 1_000_000 } else { 30_000 };
    let alphabet: Vec<char> = "ab é日😀".chars().collect();
    for _ in 0..n {
        let len = rng.below(9);
        let s: String = (0..len).map(|_| *rng.pick(&alphabet)).collect();
        let t = format!("T{}", hex(&s));
        let p = *rng.pick(POSN).min(&12);
        let l = *rng.pick(POSN).min(&12);
        match rng.below(6) {
            0 => { emit(w, "K", &format!("OP left {} {}", t, pv(p))); emit(w, "F", &format!("SPEC str left {} {}", t, pv(p))) }
            1 => { emit(w, "K", &format!("OP right {} {}", t, pv(p))); emit(w, "F", &format!("SPEC str right {} {}", t, pv(p))) }
            2 => { emit(w, "K", &format!("OP mid {} {} {}", t, pv(p), pv(l))); emit(w, "F", &format!("SPEC str mid {} {} {}", t, pv(p), pv(l))) }
            3 => { emit(w, "K", &format!("OP mid {} {}", t, pv(p))); emit(w, "F", &format!("SPEC str mid {} {}", t, pv(p))) }
            _ => {
                let plen = rng.below(3);
                let pat: String = (0..plen).map(|_| *rng.pick(&alphabet)).collect();
                emit(w, "K", &format!("OP instr {} {} T{}", pv(p), t, hex(&pat)));
                emit(w, "F", &format!("SPEC str instr {} {} T{}", pv(p), t, hex(&pat)));
            }
        }
    }
    // numeric spellings, random
    let nalpha: Vec<char> = "0123456789.eEdD+-&Hh !#%x".chars().collect();
    for _ in 0..n / 3 {
        let len = 1 + rng.below(7);
        let s: String = (0..len).map(|_| *rng.pick(&nalpha)).collect();
        emit(w, "K", &format!("OFSTR {}", hex(&s)));
    }
}

/// C11: number formatting (`Display for Val`), TAB and POS.
pub fn gen_fmt<W: Write>(w: &mut W, tier: &str, seed: u64) {
    let mut rng = Rng::new(seed ^ 0xF7);
    for n in i16::MIN..=i16::MAX {
        if n % 7 == 0 || n.abs() < 300 || n.abs() > 32700 {
            emit(w, "K", &format!("FMT {}", iv(n)));
        }
    }
    for b in f32_boundaries() {
        emit(w, "K", &format!("FMT S{:08x}", b));
    }
    for b in f64_boundaries() {
        emit(w, "K", &format!("FMT D{:016x}", b));
    }
    // nice values
    for i in -200i32..=200 {
        for d in [1.0f32, 2.0, 4.0, 8.0, 10.0, 100.0, 3.0, 7.0] {
            emit(w, "K", &format!("FMT S{:08x}", (i as f32 / d).to_bits()));
            emit(w, "K", &format!("FMT D{:016x}", (i as f64 / d as f64).to_bits()));
        }
    }
    for e in -50i32..=50 {
        emit(w, "K", &format!("FMT S{:08x}", 10f32.powi(e).to_bits()));
        emit(w, "K", &format!("FMT D{:016x}", 10f64.powi(e * 6).to_bits()));
        emit(w, "K", &format!("FMT D{:016x}", 10f64.powi(e).to_bits()));
    }
    let n = if tier == "thorough" { 1_000_000 } else { 20_000 };
    for _ in 0..n {
        if rng.chance(1, 2) {
            emit(w, "K", &format!("FMT S{:08x}", rng.next() as u32));
        } else {
            emit(w, "K", &format!("FMT D{:016x}", rng.next()));
        }
    }
    for col in [0usize, 1, 2, 13, 14, 15, 27, 28, 29, 100, 254, 255, 256, 1000, 32767, 32768, 70000] {
        emit(w, "K", &format!("POS {}", col));
        for t in -257i32..=257 {
            emit(w, "K", &format!("TAB {} {}", col, iv(t as i16)));
        }
        emit(w, "K", &format!("TAB {} S41600000", col));
        emit(w, "K", &format!("TAB {} T41", col));
        emit(w, "K", &format!("TAB {} D40e0000000000000", col));
    }
}
