//! Layer VAR: `mach/var.rs` driven in-process through its public methods and `verif_parts`.
//!
//! Request `VAR <op>;<op>;...` (one whole script on a fresh `Var`), ops:
//!   store <name> <val> | fetch <name> | storearr <name> <val> <idx>... | fetcharr <name> <idx>...
//!   dim <name> <idx>... | erase <name> | defint|defsng|defdbl|defstr <val> <val> | clear | fill <n>
//! `<name>`: hex UTF-8, `-` for the empty name.  Answer: per-op results joined by `;`
//! (`ok`, `ok <val>`, `err <show_err>`, `fault`), ` | `, then the sorted dump
//! `vars={hexkey=val,...} dims={hexkey=[n,...],...} types=<26 letters>`; a panic ends the script
//! and the dump is the word `fault`.
//! Request `VARSPEC <script>`: same syntax, only the per-op results (error = code only).
use crate::proto::*;
use crate::rng::Rng;
use basic::lang::Error;
use basic::mach::{Stack, Val, Var};
use std::io::Write;
use std::panic::{catch_unwind, AssertUnwindSafe};
use std::rc::Rc;

fn stack_of(vals: &[Val]) -> Stack<Val> {
    let mut s: Stack<Val> = Stack::new("X");
    for v in vals {
        let _ = s.push(v.clone());
    }
    s
}

fn read_name(s: &str) -> Rc<str> {
    if s == "-" {
        "".into()
    } else {
        unhex(s).into()
    }
}

pub fn name_hex(s: &str) -> String {
    if s.is_empty() {
        "-".into()
    } else {
        hex(s)
    }
}

fn dump(v: &Var) -> String {
    let (vars, dims, types) = v.verif_parts();
    let vs: Vec<String> = vars.iter().map(|(k, x)| format!("{}={}", hex(k), show_val(x))).collect();
    let ds: Vec<String> = dims
        .iter()
        .map(|(k, d)| {
            let n: Vec<String> = d.iter().map(|n| n.to_string()).collect();
            format!("{}=[{}]", hex(k), n.join(","))
        })
        .collect();
    format!("vars={{{}}} dims={{{}}} types={}", vs.join(","), ds.join(","), types)
}

fn unit(r: Result<(), Error>, spec: bool) -> String {
    match r {
        Ok(()) => "ok".into(),
        Err(e) => err_text(&e, spec),
    }
}

fn err_text(e: &Error, spec: bool) -> String {
    if spec {
        format!("err {}", code_of(&e.to_string()))
    } else {
        format!("err {}", show_err(e))
    }
}

fn valr(r: Result<Val, Error>, spec: bool) -> String {
    match r {
        // the specification does not observe the sign of a float zero
        Ok(Val::Single(x)) if spec && x == 0.0 => "ok S00000000".into(),
        Ok(Val::Double(x)) if spec && x == 0.0 => "ok D0000000000000000".into(),
        Ok(v) => format!("ok {}", show_val(&v)),
        Err(e) => err_text(&e, spec),
    }
}

fn vals_of(words: &[&str]) -> Option<Vec<Val>> {
    words.iter().map(|s| if s.is_empty() { None } else { read_val(s) }).collect()
}

/// one op on the real store; `None`: malformed request
fn run_op(v: &mut Var, words: &[&str], spec: bool) -> Option<String> {
    Some(match words {
        ["store", n, x] => {
            let x = vals_of(&[x])?.remove(0);
            unit(v.store(&read_name(n), x), spec)
        }
        ["fetch", n] => valr(Ok(v.fetch(&read_name(n))), spec),
        ["storearr", n, x, idx @ ..] => {
            let x = vals_of(&[x])?.remove(0);
            let idx = vals_of(idx)?;
            unit(v.store_array(&read_name(n), stack_of(&idx), x), spec)
        }
        ["fetcharr", n, idx @ ..] => {
            let idx = vals_of(idx)?;
            valr(v.fetch_array(&read_name(n), stack_of(&idx)), spec)
        }
        ["dim", n, idx @ ..] => {
            let idx = vals_of(idx)?;
            unit(v.dimension_array(&read_name(n), stack_of(&idx)), spec)
        }
        ["erase", n] => unit(v.erase_array(&read_name(n)), spec),
        ["clear"] => {
            v.clear();
            "ok".into()
        }
        ["fill", n] => {
            let n: usize = n.parse().ok()?;
            let mut out = "ok".to_string();
            for i in 0..n {
                let name: Rc<str> = format!("Q{}%", i).into();
                if let Err(e) = v.store(&name, Val::Integer(1)) {
                    out = err_text(&e, spec);
                    break;
                }
            }
            out
        }
        [d, a, b] => {
            let mut ab = vals_of(&[a, b])?;
            let b = ab.remove(1);
            let a = ab.remove(0);
            match *d {
                "defint" => unit(v.defint(a, b), spec),
                "defsng" => unit(v.defsng(a, b), spec),
                "defdbl" => unit(v.defdbl(a, b), spec),
                "defstr" => unit(v.defstr(a, b), spec),
                _ => return None,
            }
        }
        _ => return None,
    })
}

fn run_script(script: &str, spec: bool) -> String {
    let mut v = Var::new();
    let mut rs: Vec<String> = vec![];
    let mut faulted = false;
    if !script.is_empty() {
        for op in script.split(';') {
            let words: Vec<&str> = op.split(' ').collect();
            let r = catch_unwind(AssertUnwindSafe(|| run_op(&mut v, &words, spec)));
            match r {
                Ok(Some(s)) => rs.push(s),
                Ok(None) => return "bad-request".into(),
                Err(_) => {
                    rs.push("fault".into());
                    faulted = true;
                    break;
                }
            }
        }
    }
    if spec {
        rs.join(";")
    } else {
        format!("{} | {}", rs.join(";"), if faulted { "fault".to_string() } else { dump(&v) })
    }
}

pub fn answer(req: &str) -> String {
    if let Some(s) = req.strip_prefix("VARSPEC ") {
        run_script(s, true)
    } else if req == "VARSPEC" {
        run_script("", true)
    } else if let Some(s) = req.strip_prefix("VAR ") {
        run_script(s, false)
    } else if req == "VAR" {
        run_script("", false)
    } else {
        "bad-request".into()
    }
}

fn emit<W: Write>(w: &mut W, tag: &str, req: &str) {
    let ans = answer(req);
    let _ = writeln!(w, "{}\t{}\t{}", tag, req, ans);
}

// ------------------------------------------------------------------------------------------------
// generators

const SCALARS: &[&str] = &["A", "A!", "A%", "A#", "A$", "AB", "A1", "B", "Z", "FNA.X", "B%", "Z$", "A1$"];
const ARRAYS: &[&str] = &["A", "A1", "A$", "B%"];
const ODD_NAMES: &[&str] = &["", "a", "1", "1%", "é", "@", "[", "Z9", "$", "A,1,A", "A,", "_X"];

fn s32(x: f32) -> String {
    format!("S{:08x}", x.to_bits())
}
fn d64(x: f64) -> String {
    format!("D{:016x}", x.to_bits())
}
fn tstr(s: &str) -> String {
    format!("T{}", hex(s))
}

fn values(rng: &mut Rng) -> String {
    match rng.below(12) {
        0 => format!("I{}", rng.pick(&[0i16, 1, -1, 2, 7, 255, 256, 32767, -32768, -32767])),
        1 => s32(*rng.pick(&[0.0f32, -0.0, 1.0, -1.5, 2.5, 0.5, 32767.0, 32767.5, 32768.0, -32768.0, -32768.5, -32769.0, 1e10, 3.4028235e38, 1e-45, f32::INFINITY, f32::NAN])),
        2 => d64(*rng.pick(&[0.0f64, -0.0, 1.0, -1.5, 2.5, 0.1, 32767.0, 32767.9, 32768.0, -32768.0, -32768.1, -32769.0, 1e17, 1e300, 3.5e38, 5e-324, 1e-46, f64::NEG_INFINITY, f64::NAN])),
        3 => tstr(*rng.pick::<&str>(&["", "a", "abc", "é", "日本", "0", " "])),
        4 => match rng.below(6) {
            0 => tstr(&"x".repeat(255)),
            1 => tstr(&"x".repeat(256)),
            2 => tstr(&"é".repeat(255)),
            3 => tstr(&"é".repeat(256)),
            4 => tstr(&"x".repeat(254)),
            _ => tstr(&"日".repeat(128)),
        },
        5 => format!("I{}", rng.next() as i16),
        6 => format!("S{:08x}", rng.next() as u32),
        7 => format!("D{:016x}", rng.next()),
        8 => (*rng.pick(&["R3", "N4", "R0"])).to_string(),
        9 => format!("I{}", rng.below(5)),
        10 => s32(rng.below(4) as f32),
        _ => tstr(*rng.pick::<&str>(&["", "q"])),
    }
}

fn subscript(rng: &mut Rng, bound: i32) -> String {
    match rng.below(20) {
        0..=3 => "I0".into(),
        4..=5 => "I1".into(),
        6 => "I10".into(),
        7 => "I11".into(),
        8..=9 => format!("I{}", bound.clamp(-32768, 32767)),
        10 => format!("I{}", (bound + 1).clamp(-32768, 32767)),
        11 => "I32767".into(),
        12 => "I-1".into(),
        13 => s32(32768.0),
        14 => s32(2.5),
        15 => d64(2.5),
        16 => (*rng.pick(&["T", "T41", "R1", "S7fc00000", "Dc000000000000000", "Sbf000000", "D40dfffc000000000", "I-32768"])).to_string(),
        17 => format!("I{}", rng.below(13)),
        18 => d64(rng.below(12) as f64 + 0.75),
        _ => format!("I{}", rng.below(3)),
    }
}

fn dim_bound(rng: &mut Rng) -> i32 {
    *rng.pick(&[0, 1, 2, 5, 10, 11, 20, 32767])
}

fn letter_val(rng: &mut Rng) -> String {
    match rng.below(16) {
        0..=5 => tstr(*rng.pick::<&str>(&["A", "B", "Z", "F", "C", "Y"])),
        6..=7 => tstr(&((b'A' + rng.below(26) as u8) as char).to_string()),
        8 => tstr(*rng.pick::<&str>(&["AZ", "BA", "Zebra", "A1"])),
        9 if rng.chance(1, 2) => tstr(*rng.pick::<&str>(&["", "a", "z", "1", "@", "[", "é", " ", "`"])),
        10 => (*rng.pick(&["I1", "S3f800000", "D0000000000000000", "R1"])).to_string(),
        _ => tstr(*rng.pick::<&str>(&["A", "Z"])),
    }
}

pub fn gen_script(rng: &mut Rng, maxlen: usize) -> String {
    let n = 1 + rng.below(maxlen);
    let mut ops: Vec<String> = vec![];
    // generator-side guess of the declared bounds (only steers the subscripts)
    let mut bounds: std::collections::HashMap<&str, Vec<i32>> = Default::default();
    for _ in 0..n {
        let k = rng.below(100);
        let odd = rng.chance(1, 100);
        let sname = if odd { *rng.pick(ODD_NAMES) } else { *rng.pick(SCALARS) };
        let aname = if odd { *rng.pick(ODD_NAMES) } else if rng.chance(1, 12) { *rng.pick(SCALARS) } else { *rng.pick(ARRAYS) };
        let mut subs = |rng: &mut Rng, bounds: &std::collections::HashMap<&str, Vec<i32>>| -> String {
            let b: Vec<i32> = match bounds.get(aname) {
                Some(b) if !rng.chance(1, 8) => b.clone(),
                _ => vec![10; 1 + rng.below(3)],
            };
            let cnt = if rng.chance(1, 10) { rng.below(5) } else { b.len() };
            (0..cnt).map(|i| format!(" {}", subscript(rng, *b.get(i).unwrap_or(&10)))).collect()
        };
        match k {
            0..=24 => ops.push(format!("store {} {}", name_hex(sname), values(rng))),
            25..=42 => ops.push(format!("fetch {}", name_hex(sname))),
            43..=59 => {
                let s = subs(rng, &bounds);
                bounds.entry(aname).or_insert_with(|| vec![10; s.matches(' ').count()]);
                ops.push(format!("storearr {} {}{}", name_hex(aname), values(rng), s));
            }
            60..=74 => {
                let s = subs(rng, &bounds);
                bounds.entry(aname).or_insert_with(|| vec![10; s.matches(' ').count()]);
                ops.push(format!("fetcharr {}{}", name_hex(aname), s));
            }
            75..=82 => {
                let cnt = if rng.chance(1, 12) { rng.below(5) } else { 1 + rng.below(3) };
                let b: Vec<i32> = (0..cnt).map(|_| dim_bound(rng)).collect();
                let s: String = b
                    .iter()
                    .map(|x| {
                        if rng.chance(1, 12) {
                            format!(" {}", subscript(rng, *x))
                        } else {
                            format!(" I{}", x)
                        }
                    })
                    .collect();
                bounds.entry(aname).or_insert(b);
                ops.push(format!("dim {}{}", name_hex(aname), s));
            }
            83..=88 => {
                bounds.remove(aname);
                ops.push(format!("erase {}", name_hex(aname)));
            }
            89..=97 => {
                let d = *rng.pick(&["defint", "defsng", "defdbl", "defstr"]);
                let (a, b) = if rng.chance(1, 5) {
                    (tstr("A"), tstr("Z"))
                } else if rng.chance(1, 3) {
                    let l = letter_val(rng);
                    (l.clone(), l)
                } else {
                    (letter_val(rng), letter_val(rng))
                };
                ops.push(format!("{} {} {}", d, a, b));
            }
            _ => {
                bounds.clear();
                ops.push("clear".into());
            }
        }
    }
    ops.join(";")
}

/// Scripts restricted to what `Spec/VarSpec.lean` specifies: names from the universe (first
/// character `A`..`Z`), no `Return`/`Next` values, any subscript that is a number (also beyond the
/// Integer range, NaN, infinite) or a string, DEFtype only with letters `A`..`Z`, from ≤ to, and only
/// while no undecorated variable or element has been assigned since the last `clear` (the property
/// does not say what DEFtype does to existing values).
pub fn gen_spec_script(rng: &mut Rng, maxlen: usize) -> String {
    let n = 1 + rng.below(maxlen);
    let mut ops: Vec<String> = vec![];
    let mut dirty = false;
    let undecorated = |s: &str| !matches!(s.chars().last(), Some('$' | '!' | '#' | '%'));
    let val = |rng: &mut Rng| loop {
        let v = values(rng);
        if !v.starts_with('R') && !v.starts_with('N') {
            return v;
        }
    };
    let sub = |rng: &mut Rng, bound: i32| loop {
        let s = if rng.chance(1, 12) {
            (*rng.pick(&[
                "S47000000", "Sc7000100", "D40e0000000000000", "Dc0e0002000000000", "S7f800000", "Sff800000",
                "S7fc00000", "D7ff8000000000000", "D7ff0000000000000", "S4f000000", "D7fefffffffffffff", "I32767", "I-32768",
            ]))
            .to_string()
        } else {
            subscript(rng, bound)
        };
        if !s.starts_with('R') && !s.starts_with('N') {
            return s;
        }
    };
    for _ in 0..n {
        let sname = *rng.pick(SCALARS);
        let aname = if rng.chance(1, 12) { *rng.pick(SCALARS) } else { *rng.pick(ARRAYS) };
        let cnt = if rng.chance(1, 10) { rng.below(5) } else { 1 + rng.below(2) };
        let bound = *rng.pick(&[10, 10, 10, 2, 5, 11, 20]);
        // The code converts subscripts left to right, so a list that mixes a string with a number
        // beyond the Integer range answers whichever comes first (TYPE MISMATCH or SUBSCRIPT OUT OF
        // RANGE); the specification does not order the two: such lists are all-numeric here.
        let mut subs = |rng: &mut Rng| -> String {
            let v: Vec<String> = (0..cnt).map(|_| sub(rng, bound)).collect();
            let has_str = v.iter().any(|x| x.starts_with('T'));
            v.iter()
                .map(|x| {
                    let wild = match read_val(x) {
                        Some(Val::Single(f)) => !(f.floor() >= -32768.0 && f.floor() <= 32767.0),
                        Some(Val::Double(f)) => !(f.floor() >= -32768.0 && f.floor() <= 32767.0),
                        _ => false,
                    };
                    if has_str && wild { " I3".to_string() } else { format!(" {}", x) }
                })
                .collect()
        };
        match rng.below(100) {
            0..=24 => {
                dirty |= undecorated(sname);
                ops.push(format!("store {} {}", name_hex(sname), val(rng)));
            }
            25..=42 => ops.push(format!("fetch {}", name_hex(sname))),
            43..=59 => {
                dirty |= undecorated(aname);
                ops.push(format!("storearr {} {}{}", name_hex(aname), val(rng), subs(rng)));
            }
            60..=74 => ops.push(format!("fetcharr {}{}", name_hex(aname), subs(rng))),
            75..=82 => {
                let s: String = if rng.chance(1, 8) {
                    subs(rng)
                } else {
                    (0..cnt).map(|_| format!(" I{}", dim_bound(rng))).collect()
                };
                ops.push(format!("dim {}{}", name_hex(aname), s));
            }
            83..=88 => ops.push(format!("erase {}", name_hex(aname))),
            89..=97 if !dirty => {
                let d = *rng.pick(&["defint", "defsng", "defdbl", "defstr"]);
                let a = rng.below(26) as u8;
                let b = if rng.chance(1, 2) { a } else { a + rng.below(26 - a as usize) as u8 };
                let (a, b) = if rng.chance(1, 4) { (0, 25) } else { (a, b) };
                ops.push(format!("{} {} {}", d, tstr(&((b'A' + a) as char).to_string()), tstr(&((b'A' + b) as char).to_string())));
            }
            89..=97 => ops.push(format!("fetch {}", name_hex(sname))),
            _ => {
                dirty = false;
                ops.push("clear".into());
            }
        }
    }
    ops.join(";")
}

/// Former witnesses (a subscript beyond the Integer range used to be OVERFLOW; repaired in /repo by
/// "fix: a subscript beyond the Integer range is SUBSCRIPT OUT OF RANGE"): now regression lines that
/// model, specification and code must agree on.  Also part of `corpus()`.
pub fn witnesses() -> Vec<String> {
    let a = hex("A");
    vec![
        format!("dim {a} I5;fetcharr {a} S47000000"),
        format!("fetcharr {a} D40e0000000000000"),
        format!("fetcharr {a} Sc7000100"),
        format!("fetcharr {a} S7fc00000;fetcharr {a} D7ff0000000000000;fetcharr {a} Sff800000"),
        format!("storearr {a} I1 S47000000;storearr {a} I1 I3 D40e0000000000000;fetcharr {a} I3 I3"),
        format!("dim {a} S47000000;dim {a} I5 D7ff8000000000000;dim {a} I32767;dim {a} I1"),
        format!("fetcharr {a} S47000000 T41;fetcharr {a} T41 S47000000"),
    ]
}

pub fn gen_witness<W: Write>(w: &mut W, _tier: &str, _seed: u64) {
    for s in witnesses() {
        emit(w, "K", &format!("VAR {}", s));
        if !s.contains(" T41") {
            emit(w, "F", &format!("VARSPEC {}", s));
        }
    }
}

/// hand-written scripts: every error path and every panic site of var.rs
pub fn corpus() -> Vec<String> {
    let a = hex("A");
    let ad = hex("A$");
    let ai = hex("A%");
    let ab = hex("A!");
    let ah = hex("A#");
    let long255 = tstr(&"x".repeat(255));
    let long256 = tstr(&"x".repeat(256));
    let mut v: Vec<String> = vec![
        "".into(),
        "clear".into(),
        // defaults of every type, by suffix and by DEFtype
        format!("fetch {};fetch {};fetch {};fetch {};fetch {}", a, ad, ai, ab, ah),
        format!("defint T41 T41;fetch {a};defdbl T41 T41;fetch {a};defstr T41 T41;fetch {a};defsng T41 T41;fetch {a}"),
        // conversions on store
        format!("store {ai} S40200000;fetch {ai};store {ai} Dc004000000000000;fetch {ai};store {ai} S47000000;store {ai} T41;store {ai} R1"),
        format!("store {ab} I7;fetch {ab};store {ab} D3fb999999999999a;fetch {ab};store {ab} D7fe0000000000000;fetch {ab};store {ab} T;store {ab} N1"),
        format!("store {ah} I7;fetch {ah};store {ah} S3dcccccd;fetch {ah};store {ah} T41;store {ah} R1"),
        format!("store {ad} I7;store {ad} S00000000;store {ad} D0000000000000000;store {ad} R1;store {ad} {long255};fetch {ad};store {ad} {long256};fetch {ad}"),
        // default values remove the key
        format!("store {a} I5;store {a} I0;store {a} I5;store {a} S80000000;store {a} I5;store {a} D8000000000000000;store {ad} T41;store {ad} T"),
        format!("store {ai} I5;store {ai} S3f000000;store {ah} I1;store {ah} D8000000000000000;store {ah} I1;store {ah} I0"),
        format!("store {ab} S7fc00000;fetch {ab};store {ah} D7ff8000000000000;fetch {ah}"),
        // the empty name and names with a bad first character
        "fetch -".into(),
        "store - I1".into(),
        format!("store {} I1", hex("a")),
        format!("fetch {}", hex("a")),
        format!("fetch {}", hex("1")),
        format!("store {} I1;fetch {}", hex("1%"), hex("1%")),
        format!("fetch {}", hex("é")),
        format!("fetch {}", hex("@")),
        format!("fetch {}", hex("[")),
        format!("store {} I1", hex("[")),
        format!("store {} T41;fetch {}", hex("$"), hex("$")),
        format!("fetcharr {} I1", hex("1")),
        format!("storearr {} I1 I1", hex("a")),
        format!("storearr {} I1 I1;fetcharr {} I1", hex("a%"), hex("a%")),
        "dim - I5;fetcharr - I5;erase -".into(),
        // arrays
        format!("fetcharr {a} I0;fetcharr {a} I10;fetcharr {a} I11;storearr {a} I5 I10;fetcharr {a} I10"),
        format!("fetcharr {a} I11;fetcharr {a} I1 I1;dim {a} I20"),
        format!("fetcharr {a} I1 I11;fetcharr {a} I1;fetcharr {a} I1 I1 I1;fetcharr {a} I10 I10"),
        format!("dim {a} I5;dim {a} I5;erase {a};dim {a} I6 I0;fetcharr {a} I6 I0;fetcharr {a} I6 I1;fetcharr {a} I7 I0;erase {a};erase {a}"),
        format!("dim {a} I-1;dim {a} S47000000;dim {a} T41;dim {a} I5 I-1;dim {a} I-1 T41;dim {a} T41 I-1;fetcharr {a} I3"),
        format!("dim {a} S40200000;fetcharr {a} I2;fetcharr {a} I3;fetcharr {a} S40200000;fetcharr {a} S40400000"),
        format!("fetcharr {a} I-1;fetcharr {a} S47000000;fetcharr {a} T41;fetcharr {a} I-1 T41;fetcharr {a} T41 I-1;fetcharr {a} R1"),
        format!("dim {a};fetcharr {a};storearr {a} I5;fetcharr {a};fetcharr {a} I0"),
        format!("fetcharr {a};fetcharr {a} I0"),
        format!("storearr {a} I5 I3;store {a} I6;fetcharr {a} I3;fetch {a};erase {a};fetcharr {a} I3;fetch {a}"),
        format!("storearr {ad} T61 I1;storearr {ad} I1 I1;storearr {ad} {long256} I1;storearr {ad} T I1;fetcharr {ad} I1"),
        format!("storearr {ai} S40200000 I1 I2;fetcharr {ai} I1 I2;storearr {ai} S47000000 I1 I2;storearr {ai} S47000000 I1 I11"),
        format!("dim {a} I32767;storearr {a} I1 I32767;fetcharr {a} I32767;fetcharr {a} S47000000"),
        // erase touches only `name,` keys
        format!("storearr {a} I1 I1;storearr {} I2 I1;store {} I3;erase {a}", hex("A1"), hex("A1")),
        format!("storearr {} I1 I1;storearr {a} I2 I1;erase {}", hex("AB"), hex("AB")),
        // DEFtype: ranges, retain, errors, panics
        "defint T41 T5a".into(),
        "defstr T42 T44;defdbl T44 T45;defint T5a T5a".into(),
        "defint T5a T41".into(),
        "defint T T41".into(),
        "defint T41 T".into(),
        "defint I1 T41".into(),
        "defint T41 I1".into(),
        "defint I1 I1".into(),
        "defint T T".into(),
        "defint T41 T5b".into(),
        "defint T41 T61".into(),
        "defint T61 T41".into(),
        "defint T31 T41".into(),
        "defint T31 T32".into(),
        "defint T32 T31".into(),
        "defint T41 T31".into(),
        "defint T5b T5b".into(),
        "defint T5b T5a".into(),
        "defint T59 Tc3a9".into(),
        format!("store {a} I1;defint T31 T41;fetch {a}"),
        format!("store {a} S3fc00000;store {} S3fc00000;store {} S3fc00000;store {ab} S3fc00000;defint T41 T41;fetch {a};fetch {};fetch {}", hex("A1"), hex("B"), hex("A1"), hex("B")),
        format!("defint T41 T41;store {a} I5;defint T42 T42;fetch {a};defsng T42 T42;fetch {a}"),
        format!("storearr {a} S3fc00000 I1;storearr {ab} S3fc00000 I1;defint T42 T42;fetcharr {a} I1;fetcharr {ab} I1"),
        format!("defstr T41 T41;store {a} T6869;fetch {a};store {a} I1;storearr {a} T78 I2;fetcharr {a} I2;defsng T41 T41;fetch {a};fetcharr {a} I2"),
        format!("store {} I1;defint T46 T46;fetch {};store {} S3fc00000;fetch {}", hex("FNA.X"), hex("FNA.X"), hex("FNA.X"), hex("FNA.X")),
        format!("store {a} R1;store {a} N2;store {ai} R1;store {ah} N1"),
    ];
    // the automatic dimension stays after a failed first use
    v.push(format!("storearr {a} I1 I11;dim {a} I20;storearr {a} I1 I10"));
    v.push(format!("storearr {ai} T41 I1;fetcharr {ai} I1 I1;dim {ai} I3"));
    v.extend(witnesses());
    v
}

pub fn gen_scripts<W: Write>(w: &mut W, tier: &str, seed: u64) {
    let mut rng = Rng::new(seed ^ 0x7A12);
    for s in corpus() {
        emit(w, "K", &format!("VAR {}", s).trim_end().to_string());
    }
    for s in witnesses() {
        if !s.contains(" T41") {
            emit(w, "F", &format!("VARSPEC {}", s));
        }
    }
    let n = if tier == "thorough" { 200_000 } else { 5_000 };
    for i in 0..n {
        if i % 4 == 3 {
            // a script inside the specification: model vs code and specification vs code
            let s = gen_spec_script(&mut rng, 40);
            emit(w, "K", &format!("VAR {}", s));
            emit(w, "F", &format!("VARSPEC {}", s));
        } else {
            let s = gen_script(&mut rng, 40);
            emit(w, "K", &format!("VAR {}", s));
        }
    }
}

/// the pool limit: 65 536 variables, then OUT OF MEMORY for every further store
pub fn gen_pool<W: Write>(w: &mut W, tier: &str, _seed: u64) {
    let a = hex("A");
    emit(w, "K", &format!("VAR fill 300;store {a} I1;fetch {}", hex("Q299%")));
    if tier == "thorough" {
        emit(
            w,
            "K",
            &format!(
                "VAR fill 65535;store {a} I1;store {a} I2;fetch {a};store {} I0;fill 65537;store {a} I0;store {} I0;fetch {a};erase {a};clear;store {a} I3",
                hex("Q1%"),
                hex("Q7%")
            ),
        );
    }
}
