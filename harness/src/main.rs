mod proto;
mod rng;
mod ops;
mod astproto;
mod progs;
mod parselayer;
mod progproto;
mod compilelayer;
mod rtproto;
mod seslayer;
mod findlayer;
mod find2;
mod lexlayer;
mod varlayer;
mod lstlayer;
mod probe;

pub fn dispatch_answer(req: &str) -> String {
    let parts: Vec<&str> = req.split(' ').collect();
    match parts[0] {
        "PARSE" => parselayer::answer_parse(&parts),
        "COMPILE" => compilelayer::answer_compile(req),
        "SES" => seslayer::answer_ses(req),
        "FIND" => findlayer::answer_find(req),
        "LEX" | "C05" | "C05D" | "C16" | "RENUMLINE" => lexlayer::answer(req),
        "VAR" | "VARSPEC" => varlayer::answer(req),
        "LST" | "LSTSPEC" => lstlayer::answer(req),
        _ => ops::answer(req),
    }
}

fn main() {
    let args: Vec<String> = std::env::args().collect();
    if args.len() < 2 {
        eprintln!("usage: vharness <layer> [tier] [seed]");
        std::process::exit(2);
    }
    let tier = args.get(2).map(|s| s.as_str()).unwrap_or("quick").to_string();
    let seed: u64 = args.get(3).and_then(|s| s.parse().ok()).unwrap_or(1);
    // panics are reported per case as `fault`; keep stderr quiet
    std::panic::set_hook(Box::new(|_| {}));
    let out = std::io::stdout();
    let mut w = std::io::BufWriter::with_capacity(1 << 20, out.lock());
    if let Some(n) = args[1].strip_prefix("find-c") {
        find2::gen_round4(&mut w, &format!("C{}", n));
    }
    match args[1].as_str() {
        "ops-int" => ops::gen_int(&mut w, &tier, seed),
        "ops-conv" => ops::gen_conv(&mut w, &tier, seed),
        "ops-str" => ops::gen_str(&mut w, &tier, seed),
        "ops-matrix" => ops::gen_matrix(&mut w, &tier, seed),
        "ops-fmt" => ops::gen_fmt(&mut w, &tier, seed),
        "parse" => parselayer::gen_parse(&mut w, &tier, seed),
        "compile" => compilelayer::gen_compile(&mut w, &tier, seed),
        "ses" => seslayer::gen_ses(&mut w, &tier, seed),
        "hist" => seslayer::gen_hist(&mut w, &tier, seed),
        "find-c04" => findlayer::gen_c04(&mut w, &tier, seed),
        "find-c09" => {
            findlayer::gen_c09(&mut w, &tier, seed);
            find2::gen_c09_c10_sessions(&mut w, "C09");
        }
        "find-c10" => {
            findlayer::gen_c10(&mut w, &tier, seed);
            find2::gen_c09_c10_sessions(&mut w, "C10");
        }
        "find-c12" => findlayer::gen_c12(&mut w, &tier, seed),
        "find-c13" => {
            findlayer::gen_c13(&mut w, &tier, seed);
            find2::gen_c13_stop(&mut w, &tier, seed);
        }
        "find-c17" => { findlayer::gen_c17(&mut w, &tier, seed); find2::gen_c17(&mut w, &tier, seed) }
        "find-c01" => find2::gen_c01(&mut w, &tier, seed),
        "find-c02" => find2::gen_c02(&mut w, &tier, seed),
        "find-c03" => find2::gen_c03(&mut w, &tier, seed),
        "find-c05" => find2::gen_c05(&mut w, &tier, seed),
        "find-c06" => find2::gen_c06(&mut w, &tier, seed),
        "find-c08" => find2::gen_c08(&mut w, &tier, seed),
        "find-c07" => find2::gen_c07(&mut w, &tier, seed),
        "find-c11" => {
            find2::gen_c11(&mut w, &tier, seed);
            find2::gen_c11_numbers(&mut w, &tier, seed);
        }
        "find-c14" => find2::gen_c14(&mut w, &tier, seed),
        "find-c15" => find2::gen_c15(&mut w, &tier, seed),
        "find-c16" => find2::gen_c16(&mut w, &tier, seed),
        "find-c18" => {
            findlayer::gen_c18(&mut w, &tier, seed);
            find2::gen_c18_slots(&mut w, &tier, seed);
        }
        "find-c19" => { findlayer::gen_c19(&mut w, &tier, seed); find2::gen_c19_broken(&mut w, &tier, seed) }
        "find-c20" => {
            findlayer::gen_c20(&mut w, &tier, seed);
            find2::gen_c20_tail(&mut w, &tier, seed);
        }
        "var-scripts" => varlayer::gen_scripts(&mut w, &tier, seed),
        "var-witness" => varlayer::gen_witness(&mut w, &tier, seed),
        "var-pool" => varlayer::gen_pool(&mut w, &tier, seed),
        "lst-exh" => lstlayer::gen_exh(&mut w, &tier, seed),
        "lst-rand" => lstlayer::gen_rand(&mut w, &tier, seed),
        "lst-renum" => lstlayer::gen_renum(&mut w, &tier, seed),
        "probe" => probe::session(),
        "lex-exh" => lexlayer::gen_exh(&mut w, &tier, seed),
        "lex-rand" => lexlayer::gen_rand(&mut w, &tier, seed),
        "lex-c05" => lexlayer::gen_c05(&mut w, &tier, seed),
        "lex-c16" => lexlayer::gen_c16(&mut w, &tier, seed),
        "lex-renum" => lexlayer::gen_renum(&mut w, &tier, seed),
        "replay" => ops::replay(&mut w),
        other => {
            eprintln!("unknown layer {}", other);
            std::process::exit(2);
        }
    }
}
