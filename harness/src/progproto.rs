//! Canonical text of opcodes and compiled programs (shared with lean/BasicModel/ProtoProg.lean).
use crate::proto::{hex, show_err, show_val};
use basic::lang::Error;
use basic::mach::{Opcode, Program};

pub fn show_op(op: &Opcode) -> String {
    use Opcode::*;
    match op {
        Literal(v) => format!("Literal:{}", show_val(v)),
        Push(n) => format!("Push:{}", hex(n)),
        Pop(n) => format!("Pop:{}", hex(n)),
        PushArr(n) => format!("PushArr:{}", hex(n)),
        PopArr(n) => format!("PopArr:{}", hex(n)),
        DimArr(n) => format!("DimArr:{}", hex(n)),
        EraseArr(n) => format!("EraseArr:{}", hex(n)),
        IfNot(a) => format!("IfNot:{}", a),
        Jump(a) => format!("Jump:{}", a),
        Next(n) => format!("Next:{}", hex(n)),
        Def(n) => format!("Def:{}", hex(n)),
        Fn(n) => format!("Fn:{}", hex(n)),
        Input(n) => format!("Input:{}", hex(n)),
        Restore(a) => format!("Restore:{}", a),
        On => "On".into(), Return => "Return".into(), Clear => "Clear".into(), Cls => "Cls".into(),
        Cont => "Cont".into(), Defdbl => "Defdbl".into(), Defint => "Defint".into(), Defsng => "Defsng".into(),
        Defstr => "Defstr".into(), Delete => "Delete".into(), End => "End".into(), LetMid => "LetMid".into(),
        List => "List".into(), Load => "Load".into(), LoadRun => "LoadRun".into(), New => "New".into(),
        Print => "Print".into(), Read => "Read".into(), Renum => "Renum".into(), Save => "Save".into(),
        Stop => "Stop".into(), Swap => "Swap".into(), Troff => "Troff".into(), Tron => "Tron".into(),
        Neg => "Neg".into(), Pow => "Pow".into(), Mul => "Mul".into(), Div => "Div".into(), DivInt => "DivInt".into(),
        Mod => "Mod".into(), Add => "Add".into(), Sub => "Sub".into(), Eq => "Eq".into(), NotEq => "NotEq".into(),
        Lt => "Lt".into(), LtEq => "LtEq".into(), Gt => "Gt".into(), GtEq => "GtEq".into(), Not => "Not".into(),
        And => "And".into(), Or => "Or".into(), Xor => "Xor".into(), Imp => "Imp".into(), Eqv => "Eqv".into(),
        Abs => "Abs".into(), Asc => "Asc".into(), Atn => "Atn".into(), Cdbl => "Cdbl".into(), Chr => "Chr".into(),
        Cint => "Cint".into(), Cos => "Cos".into(), Csng => "Csng".into(), Date => "Date".into(), Exp => "Exp".into(),
        Fix => "Fix".into(), Hex => "Hex".into(), Inkey => "Inkey".into(), Instr => "Instr".into(), Int => "Int".into(),
        Left => "Left".into(), Len => "Len".into(), Log => "Log".into(), Mid => "Mid".into(), Oct => "Oct".into(),
        Pos => "Pos".into(), Right => "Right".into(), Rnd => "Rnd".into(), Sgn => "Sgn".into(), Sin => "Sin".into(),
        Spc => "Spc".into(), Sqr => "Sqr".into(), Str => "Str".into(), String => "String".into(), Tab => "Tab".into(),
        Tan => "Tan".into(), Time => "Time".into(), Val => "Val".into(),
    }
}

pub fn show_errs(es: &[Error]) -> String {
    let mut v: Vec<String> = es.iter().map(show_err).collect();
    v.sort();
    v.join(",")
}

pub fn show_program(p: &Program) -> String {
    let (link, direct, ierr, derr) = p.verif_parts();
    let (ops, data, syms, datapos, _unl, _cur) = link.verif_parts();
    let ops: Vec<String> = ops.iter().map(show_op).collect();
    let data: Vec<String> = data.iter().map(show_val).collect();
    let syms: Vec<String> = syms.iter().map(|(k, (o, d))| format!("{}:{}/{}", k, o, d)).collect();
    format!(
        "ops=[{}] data=[{}] syms={{{}}} datapos={} direct={} ierr=[{}] derr=[{}]",
        ops.join(";"), data.join(","), syms.join(","), datapos, direct, show_errs(&ierr), show_errs(&derr)
    )
}
