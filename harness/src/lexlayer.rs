//! Layer LEX: `lex.rs`, the lexing helpers of `token.rs`, `Line::new` / `Display for Line`.
//!
//!   LEX <hex line>  ->  `<number|-> <tokens separated by blanks (astproto::show_tokens)> | <hex of Line::to_string()>`
//!   C05 <hex line>  ->  `ok` | `fail:<num|parse|fix>[+…]`      (property oracle, tag F)
//!   C16 <hex line>  ->  `ok` | `fail:case`                        (property oracle, tag F)
//!
//! Every call into the implementation happens on a worker thread; the thread that owns the output
//! waits with a timeout, so a non-terminating lexer shows up as an answer `hang` (the offending
//! input is printed on stderr and the process exits with status 3).
use crate::proto::*;
use crate::rng::Rng;
use crate::astproto::show_tokens;
use basic::lang::{lex, Line};
use std::collections::VecDeque;
use std::io::Write;
use std::panic::{catch_unwind, AssertUnwindSafe};
use std::sync::atomic::{AtomicUsize, Ordering};
use std::sync::mpsc::{channel, Receiver, RecvTimeoutError, Sender};
use std::sync::Arc;
use std::time::Duration;

// ------------------------------------------------------------------------------------------------
// canonical text

fn lex_answer(line: &str) -> String {
    let (num, tokens) = lex(line);
    let n = match num {
        Some(n) => n.to_string(),
        None => "-".into(),
    };
    let listed = Line::new(line).to_string();
    format!("{} {} | {}", n, show_tokens(&tokens), hex(&listed))
}

/// `Debug` of the AST with every column range `N..M` (outside string literals) replaced by `_`.
fn strip_columns(s: &str) -> String {
    let b: Vec<char> = s.chars().collect();
    let mut o = String::with_capacity(b.len());
    let mut i = 0;
    let mut in_str = false;
    while i < b.len() {
        let c = b[i];
        if in_str {
            o.push(c);
            if c == '\\' && i + 1 < b.len() {
                o.push(b[i + 1]);
                i += 2;
                continue;
            }
            if c == '"' {
                in_str = false;
            }
            i += 1;
            continue;
        }
        if c == '"' {
            in_str = true;
            o.push(c);
            i += 1;
            continue;
        }
        if c.is_ascii_digit() && (i == 0 || !(b[i - 1].is_ascii_digit() || b[i - 1] == '.')) {
            let mut j = i;
            while j < b.len() && b[j].is_ascii_digit() {
                j += 1;
            }
            if j + 2 < b.len() && b[j] == '.' && b[j + 1] == '.' && b[j + 2].is_ascii_digit() {
                let mut k = j + 2;
                while k < b.len() && b[k].is_ascii_digit() {
                    k += 1;
                }
                o.push('_');
                i = k;
                continue;
            }
        }
        o.push(c);
        i += 1;
    }
    o
}

fn ast_text(l: &Line) -> Option<String> {
    match l.ast() {
        Ok(a) => Some(strip_columns(&format!("{:?}", a))),
        Err(_) => None,
    }
}

/// The oracle of C05 on the real code.
fn c05_answer(line: &str) -> String {
    let l1 = Line::new(line);
    let s1 = l1.to_string();
    let l2 = Line::new(&s1);
    let mut bad: Vec<&str> = vec![];
    if l1.number() != l2.number() {
        bad.push("num");
    }
    let a1 = ast_text(&l1);
    let a2 = ast_text(&l2);
    if a1 != a2 {
        bad.push("parse");
    }
    if a1.is_some() && l2.to_string() != s1 {
        bad.push("fix");
    }
    if bad.is_empty() {
        "ok".into()
    } else {
        format!("fail:{}", bad.join("+"))
    }
}

/// The oracle of C16 (case): upper-casing every ASCII letter of the line changes nothing but the
/// case of string-literal and remark payloads.
fn c16_answer(line: &str) -> String {
    use basic::lang::token::{Literal, Token};
    let fold = |ts: Vec<Token>| -> Vec<Token> {
        ts.into_iter()
            .map(|t| match t {
                Token::Unknown(s) => Token::Unknown(s.to_ascii_uppercase()),
                Token::Literal(Literal::String(s)) => Token::Literal(Literal::String(s.to_ascii_uppercase())),
                t => t,
            })
            .collect()
    };
    let (n1, t1) = lex(line);
    let (n2, t2) = lex(&line.to_ascii_uppercase());
    if n1 == n2 && fold(t1) == fold(t2) {
        "ok".into()
    } else {
        "fail:case".into()
    }
}

/// `RENUMLINE <old>:<new>,… <hex line>`: the real `Line::new(src).renum(&changes)`.
fn renum_answer(arg: &str) -> String {
    let (ch, h) = match arg.find(' ') {
        Some(i) => (&arg[..i], &arg[i + 1..]),
        None => (arg, ""),
    };
    let mut changes: std::collections::HashMap<u16, u16> = std::collections::HashMap::new();
    if ch != "-" && !ch.is_empty() {
        for p in ch.split(',') {
            let mut it = p.split(':');
            match (it.next().and_then(|a| a.parse().ok()), it.next().and_then(|b| b.parse().ok())) {
                (Some(a), Some(b)) => {
                    changes.insert(a, b);
                }
                _ => return "bad-request".into(),
            }
        }
    }
    let line = Line::new(&unhex(h)).renum(&changes);
    let n = match line.number() {
        Some(n) => n.to_string(),
        None => "-".into(),
    };
    format!("{} {}", n, hex(&line.to_string()))
}

fn answer_inner(req: &str) -> String {
    let (cmd, arg) = match req.find(' ') {
        Some(i) => (&req[..i], &req[i + 1..]),
        None => (req, ""),
    };
    // self-test of the watchdog: `VHARNESS_FAKE_HANG=<hex>` makes that one input spin forever
    static FAKE: std::sync::OnceLock<Option<String>> = std::sync::OnceLock::new();
    if let Some(h) = FAKE.get_or_init(|| std::env::var("VHARNESS_FAKE_HANG").ok()) {
        if h == arg {
            loop {
                std::thread::sleep(Duration::from_millis(50));
            }
        }
    }
    if cmd == "RENUMLINE" {
        return renum_answer(arg);
    }
    let line = unhex(arg);
    match cmd {
        "LEX" => lex_answer(&line),
        "C05" => c05_answer(&line),
        "C16" => c16_answer(&line),
        // diagnosis only (not answered by the model): listing, its listing, both parses
        "C05D" => {
            let l1 = Line::new(&line);
            let s1 = l1.to_string();
            let l2 = Line::new(&s1);
            format!(
                "{} s1={:?} s2={:?} ast1={:?} ast2={:?}",
                c05_answer(&line),
                s1,
                l2.to_string(),
                l1.ast().map_err(|e| e.to_string()),
                l2.ast().map_err(|e| e.to_string())
            )
        }
        _ => "bad-request".into(),
    }
}

fn answer_unguarded(req: &str) -> String {
    match catch_unwind(AssertUnwindSafe(|| answer_inner(req))) {
        Ok(s) => s,
        Err(_) => "fault".to_string(),
    }
}

/// One request, guarded against panics and hangs (used by `replay`).
pub fn answer(req: &str) -> String {
    let (tx, rx) = channel();
    let r = req.to_string();
    std::thread::spawn(move || {
        let _ = tx.send(answer_unguarded(&r));
    });
    match rx.recv_timeout(Duration::from_secs(10)) {
        Ok(s) => s,
        Err(_) => {
            eprintln!("HANG {}", req);
            "hang".to_string()
        }
    }
}

// ------------------------------------------------------------------------------------------------
// worker pool with watchdog

type Chunk = Arc<Vec<(char, String)>>;

struct Worker {
    tx: Sender<Chunk>,
    rx: Receiver<Vec<String>>,
    pos: Arc<AtomicUsize>,
}

pub struct Pool<'a, W: Write> {
    w: &'a mut W,
    workers: Vec<Worker>,
    inflight: VecDeque<(usize, Chunk)>,
    cur: Vec<(char, String)>,
    next_worker: usize,
    /// emit only answers different from this one (plus every `stride`-th other line)
    quiet_answer: Option<&'static str>,
    stride: usize,
    count: usize,
    pub total: usize,
    pub notable: usize,
}

const CHUNK: usize = 2048;

impl<'a, W: Write> Pool<'a, W> {
    pub fn new(w: &'a mut W) -> Self {
        let n = std::thread::available_parallelism().map(|n| n.get()).unwrap_or(2).clamp(1, 8);
        let mut workers = vec![];
        for _ in 0..n {
            let (tx, wrx) = channel::<Chunk>();
            let (wtx, rx) = channel::<Vec<String>>();
            let pos = Arc::new(AtomicUsize::new(0));
            let p = pos.clone();
            std::thread::spawn(move || {
                while let Ok(chunk) = wrx.recv() {
                    let mut out = Vec::with_capacity(chunk.len());
                    for (i, (_, req)) in chunk.iter().enumerate() {
                        p.store(i, Ordering::SeqCst);
                        out.push(answer_unguarded(req));
                    }
                    if wtx.send(out).is_err() {
                        break;
                    }
                }
            });
            workers.push(Worker { tx, rx, pos });
        }
        Pool {
            w,
            workers,
            inflight: VecDeque::new(),
            cur: Vec::with_capacity(CHUNK),
            next_worker: 0,
            quiet_answer: None,
            stride: 1,
            count: 0,
            total: 0,
            notable: 0,
        }
    }

    pub fn quiet(&mut self, answer: &'static str, stride: usize) {
        self.quiet_answer = Some(answer);
        self.stride = stride.max(1);
    }

    pub fn push(&mut self, tag: char, req: String) {
        self.cur.push((tag, req));
        if self.cur.len() >= CHUNK {
            self.dispatch();
        }
    }

    fn dispatch(&mut self) {
        if self.cur.is_empty() {
            return;
        }
        if self.inflight.len() >= self.workers.len() {
            self.collect_one();
        }
        let chunk: Chunk = Arc::new(std::mem::replace(&mut self.cur, Vec::with_capacity(CHUNK)));
        let wi = self.next_worker;
        self.next_worker = (self.next_worker + 1) % self.workers.len();
        let _ = self.workers[wi].tx.send(chunk.clone());
        self.inflight.push_back((wi, chunk));
    }

    fn collect_one(&mut self) {
        let (wi, chunk) = match self.inflight.pop_front() {
            Some(x) => x,
            None => return,
        };
        // a chunk takes milliseconds; half a minute without an answer is a hang
        match self.workers[wi].rx.recv_timeout(Duration::from_secs(30)) {
            Ok(answers) => {
                for ((tag, req), ans) in chunk.iter().zip(answers.iter()) {
                    self.total += 1;
                    let emit = match self.quiet_answer {
                        Some(q) if q == ans => {
                            self.count += 1;
                            self.count % self.stride == 0
                        }
                        Some(_) => {
                            self.notable += 1;
                            true
                        }
                        None => true,
                    };
                    if emit {
                        let _ = writeln!(self.w, "{}\t{}\t{}", tag, req, ans);
                    }
                }
            }
            Err(RecvTimeoutError::Timeout) | Err(RecvTimeoutError::Disconnected) => {
                let i = self.workers[wi].pos.load(Ordering::SeqCst);
                let (tag, req) = &chunk[i.min(chunk.len() - 1)];
                let _ = writeln!(self.w, "{}\t{}\thang", tag, req);
                let _ = self.w.flush();
                let arg = req.split(' ').nth(1).unwrap_or("");
                eprintln!("HANG request={} line={:?}", req, unhex(arg));
                std::process::exit(3);
            }
        }
    }

    pub fn finish(&mut self) {
        self.dispatch();
        while !self.inflight.is_empty() {
            self.collect_one();
        }
        let _ = self.w.flush();
    }
}

// ------------------------------------------------------------------------------------------------
// generators

/// the significant alphabet of the exhaustive enumeration (34 symbols)
pub const ALPHABET: &[char] = &[
    '0', '1', '9', '.', 'E', 'D', 'e', 'd', '+', '-', '!', '#', '%', '$', '&', 'H', '"', '\'', '?',
    ':', ';', ',', '(', ')', '<', '=', '>', 'A', 'G', 'O', 'T', 'R', 'M', ' ',
];

pub const PREFIXES: &[&str] = &["?", "X=", "10 "];

/// all strings over ALPHABET of length exactly `len`, in odometer order
fn for_each_string(len: usize, f: &mut dyn FnMut(&str)) {
    let n = ALPHABET.len();
    let mut idx = vec![0usize; len];
    let mut s = String::with_capacity(len);
    loop {
        s.clear();
        for &i in &idx {
            s.push(ALPHABET[i]);
        }
        f(&s);
        let mut k = len;
        loop {
            if k == 0 {
                return;
            }
            k -= 1;
            idx[k] += 1;
            if idx[k] < n {
                break;
            }
            idx[k] = 0;
        }
    }
}

pub fn gen_exh<W: Write>(w: &mut W, tier: &str, _seed: u64) {
    let max = if tier == "thorough" { 4 } else { 3 };
    let mut pool = Pool::new(w);
    for len in 0..=max {
        for_each_string(len, &mut |t| {
            pool.push('K', format!("LEX {}", hex(t)));
            for p in PREFIXES {
                pool.push('K', format!("LEX {}{}", hex(p), hex(t)));
            }
        });
    }
    pool.finish();
}

const WIDE: &[char] = &[
    '0', '1', '2', '3', '5', '6', '7', '8', '9', '.', 'E', 'D', 'e', 'd', '+', '-', '*', '/', '\\', '^',
    '!', '#', '%', '$', '&', 'H', 'h', 'O', 'o', '"', '\'', '?', ':', ';', ',', '(', ')', '<', '=', '>',
    'A', 'B', 'C', 'F', 'G', 'I', 'N', 'T', 'R', 'M', 'S', 'U', 'X', 'a', 'b', 'f', 'g', 'i', 'n', 't',
    'r', 'm', 's', 'u', 'x', ' ', ' ', ' ', '\t', '@', '_', '[', ']', '{', '~', '|', '`', '\u{e9}',
    '\u{263a}', '\u{1f600}', '\u{a0}', '\u{3000}', '\u{85}', '\r', '\u{b}', '\u{2028}', '\u{7f}', '\u{1}',
];

const KEYWORDS: &[&str] = &[
    "RESTORE", "DEFDBL", "DEFINT", "DEFSNG", "DEFSTR", "DELETE", "RETURN", "CLEAR", "ERASE", "GOSUB",
    "INPUT", "PRINT", "RENUM", "TROFF", "WHILE", "CONT", "DATA", "ELSE", "GOTO", "NEXT", "LIST", "LOAD",
    "READ", "SAVE", "STEP", "STOP", "SWAP", "THEN", "TRON", "WEND", "AND", "CLS", "DEF", "DIM", "END",
    "EQV", "FOR", "IMP", "LET", "MOD", "NEW", "NOT", "REM", "RUN", "XOR", "IF", "ON", "OR", "TO", "GO",
    "SUB", "GO TO", "GO SUB", "GO  TO", "GO\tSUB", "FN", "FNA", "MID$", "TAB", "SPC", "INKEY$", "ABS",
    "LEFT$", "RND", "STRING$", "VAL", "POS", "TIME$",
];

const NUMBERS: &[&str] = &[
    "0", "1", "7", "10", "100", "255", "32767", "32768", "65529", "65530", "65535", "65536", "99999",
    "1234567", "12345678", "123456789012", "007", ".5", "5.", "1.5", "0.001", "3.14159265358979",
    "1E5", "1E+5", "1E-5", "1.5E10", "1.5E+10", ".5E3", "1D5", "1D+5", "2.5D-3", "1E", "1D", "1E+",
    "1D-", "1EE", "1DD", "1E5E", "1E5E3", "1D5D", "1E5D", "1D5E", "1.2.3", "1..", "..", ".", ".E",
    "1!", "1#", "1%", "1.5!", "1.5#", "1.5%", "1E5!", "1D5#", "32768%", "1E5%", "1!!", "1#%",
    "1e5", "1d5", "1e+5", "2.5d-3", "1e", "1d", "1ee", "1dd", "1eE", "1Ed", "1e5e", "1e5d3",
];

const RADIX: &[&str] = &[
    "&H1F", "&hff", "&Hff", "&hFF", "&17", "&O17", "&o17", "&", "&H", "&h", "&8", "&HG", "&7A", "&H7fff",
    "&HFFFF", "&177777", "&H1G", "&&", "&H&H",
];

const STRINGS: &[&str] = &[
    "\"hi\"", "\"HELLO WORLD\"", "\"\"", "\"a b  \"", "\"unterminated", "\"", "\"rem '?:\"",
    "\"\u{e9}\u{263a}\"", "\"tail  ", "\" \"",
];

const OPS: &[&str] = &[
    "^", "*", "/", "\\", "+", "-", "=", "<", ">", "<=", ">=", "=<", "=>", "<>", "><", "==", "<<", ">>",
    "< =", "= <", "> =", "= >", "< >", "> <", "<  >", "<\t=", "<=>", "=<>", "<>=", "<><", "=>=",
];

const PUNCT: &[&str] = &["(", ")", ",", ":", ";", "?", "'", "()", "(,)", "::"];

const JUNK: &[&str] = &[
    "@", "_", "[", "]", "{", "}", "|", "~", "`", "!", "#", "$", "%", ".", "\u{e9}", "\u{263a}", "\u{a0}",
    "\u{3000}", "@@", "@ ", "\r", "\u{85}", "@\u{a0}", "_(",
];

const SPACING: &[&str] = &["", "", "", " ", " ", "  ", "\t", " \t ", "   "];

/// realistic program lines, one or more per statement kind
pub const LINES: &[&str] = &[
    "10 CLEAR",
    "20 CLS",
    "CONT",
    "30 DATA 10, 20.5, \"THIRTY\", -40, FORTY",
    "40 DEF FNA(X,Y)=X*2+Y",
    "50 DEF FN(X)=X*2",
    "60 DEFDBL A-C",
    "70 DEFINT I-N",
    "80 DEFSNG S",
    "90 DEFSTR T-Z",
    "DELETE 10-50",
    "100 DIM A$(100), X(10,10), N%(5)",
    "110 END",
    "120 ERASE A$, X",
    "130 FOR I = 1 TO 10 STEP 2",
    "140 FOR J%=10 TO 1 STEP -1:PRINT J%;:NEXT J%",
    "150 GOSUB 1000",
    "160 GOTO 100",
    "170 GO TO 100",
    "180 GO SUB 2000",
    "190 IF A<10 THEN PRINT \"SMALL\" ELSE PRINT \"BIG\"",
    "200 IF X=1 THEN 300 ELSE 400",
    "210 IF A$<>\"\" AND B>=2 OR NOT C THEN GOTO 10",
    "220 INPUT \"WHAT IS YOUR NAME AND AGE\"; NAME$, AGE%",
    "230 INPUT ,A$",
    "240 LET A = 5",
    "250 A(1,2) = B(3) + C#",
    "260 LET MID$(A$(5),11)=\"OR\"",
    "270 MID$(A$,1,2)=\"XY\"",
    "LIST 10-100",
    "LIST",
    "LOAD \"PROGRAM.BAS\"",
    "NEW",
    "280 NEXT I",
    "290 NEXT J,I",
    "300 ON X GOTO 100,200,300",
    "310 ON X-1 GOSUB 1000,2000",
    "320 PRINT",
    "330 PRINT \"HELLO, WORLD\"",
    "340 PRINT A;B;C$,D#;TAB(20);\"X\";SPC(3);POS(0)",
    "350 ? 1+2*3^2/4\\5 MOD 6",
    "360 PRINT -1E10; 2.5D-3; &HFF; &777; 1.5!; 2#; 3%",
    "370 PRINT LEFT$(A$,2)+MID$(A$,2,3)+RIGHT$(A$,1);LEN(A$);CHR$(65)",
    "380 READ A, A$, B%",
    "390 REM THIS IS A REMARK: PRINT \"NOT RUN\"",
    "400 ' apostrophe remark  ",
    "410 PRINT 1 : REM trailing remark",
    "420 PRINT 2 ' trailing remark",
    "RENUM 100,10,5",
    "RENUM",
    "430 RESTORE 30",
    "440 RESTORE",
    "450 RETURN",
    "RUN",
    "RUN 100",
    "SAVE \"PROGRAM.BAS\"",
    "460 STOP",
    "470 SWAP A%,B%",
    "480 TRON",
    "490 TROFF",
    "500 WHILE A<2:A=A+1:PRINT A;:WEND",
    "510 WEND",
    "520 A=1:B=2:SWAPA,B:PRINTA;B",
    "10fory=1to2",
    "530 X = A XOR B IMP C EQV D",
    "540 IF INKEY$=\"\" THEN 540",
    "550 A$ = STRING$(5,45) + HEX$(13) + OCT$(13) + STR$(1.5)",
    "560 PRINT RND(1); INT(9.9); SGN(-1); ABS(-2); SQR(4); TIME$; DATE$",
    "570 IF A <= B AND C >= D AND E <> F THEN A = B",
    "580 IF A =< B AND C => D AND E >< F THEN A = B",
    "65529 PRINT \"LAST LINE\"",
    "  10   PRINT  1",
    "10",
    "",
];

fn random_case(rng: &mut Rng, s: &str) -> String {
    match rng.below(4) {
        0 => s.to_string(),
        1 => s.to_ascii_lowercase(),
        2 => s.to_ascii_uppercase(),
        _ => s
            .chars()
            .map(|c| if rng.chance(1, 2) { c.to_ascii_lowercase() } else { c.to_ascii_uppercase() })
            .collect(),
    }
}

fn random_ident(rng: &mut Rng) -> String {
    let mut s = String::new();
    for _ in 0..1 + rng.below(3) {
        s.push((b'A' + rng.below(26) as u8) as char);
    }
    if rng.chance(1, 3) {
        for _ in 0..1 + rng.below(2) {
            s.push((b'0' + rng.below(10) as u8) as char);
        }
    }
    if rng.chance(1, 8) {
        s.push((b'A' + rng.below(26) as u8) as char);
    }
    if rng.chance(1, 3) {
        s.push(*rng.pick(&['$', '!', '#', '%']));
    }
    s
}

fn random_number(rng: &mut Rng) -> String {
    let mut s = String::new();
    let digits = |rng: &mut Rng, s: &mut String, max: usize| {
        for _ in 0..rng.below(max + 1) {
            s.push((b'0' + rng.below(10) as u8) as char);
        }
    };
    digits(rng, &mut s, 9);
    if rng.chance(1, 2) {
        s.push('.');
        digits(rng, &mut s, 8);
    }
    if rng.chance(1, 3) {
        s.push(*rng.pick(&['E', 'D', 'e', 'd']));
        if rng.chance(1, 2) {
            s.push(*rng.pick(&['+', '-']));
        }
        digits(rng, &mut s, 3);
    }
    if rng.chance(1, 5) {
        s.push(*rng.pick(&['!', '#', '%']));
    }
    if s.is_empty() {
        s.push('0');
    }
    s
}

fn random_prefix(rng: &mut Rng) -> String {
    match rng.below(12) {
        0 => format!("{} ", rng.below(70000)),
        1 => format!("{}", rng.below(70000)),
        2 => format!("  {}  ", rng.below(100)),
        3 => format!("\t{}\t", rng.below(100)),
        4 => format!("{} ", *rng.pick(&["65529", "65530", "65535", "65536", "0", "00010", "000000065529", "99999999"])),
        5 => "?".into(),
        6 => "X=".into(),
        _ => String::new(),
    }
}

fn gen_wide(rng: &mut Rng) -> String {
    let mut s = random_prefix(rng);
    for _ in 0..rng.below(25) {
        s.push(*rng.pick(WIDE));
    }
    s
}

fn gen_soup(rng: &mut Rng) -> String {
    let mut s = random_prefix(rng);
    for _ in 0..rng.below(10) {
        let piece: String = match rng.below(16) {
            0 | 1 | 2 => {
                let k = rng_pick_str(rng, KEYWORDS);
                random_case(rng, k)
            }
            3 | 4 => {
                let i = random_ident(rng);
                random_case(rng, &i)
            }
            5 => {
                let k = rng_pick_str(rng, NUMBERS);
                random_case(rng, k)
            }
            6 => random_number(rng),
            7 => {
                let k = rng_pick_str(rng, RADIX);
                random_case(rng, k)
            }
            8 => rng_pick_str(rng, STRINGS).to_string(),
            9 | 10 => rng_pick_str(rng, OPS).to_string(),
            11 | 12 => rng_pick_str(rng, PUNCT).to_string(),
            13 => rng_pick_str(rng, JUNK).to_string(),
            14 => random_case(rng, "REM"),
            _ => format!("{}", rng.below(70000)),
        };
        s.push_str(&piece);
        s.push_str(rng_pick_str(rng, SPACING));
    }
    s
}

fn rng_pick_str(rng: &mut Rng, v: &'static [&'static str]) -> &'static str {
    v[rng.below(v.len())]
}

fn gen_mutant(rng: &mut Rng) -> String {
    let mut c: Vec<char> = rng_pick_str(rng, LINES).chars().collect();
    for _ in 0..rng.below(4) {
        let n = c.len();
        match rng.below(10) {
            0 if n > 0 => {
                c.remove(rng.below(n));
            }
            1 => {
                c.insert(rng.below(n + 1), *rng.pick(WIDE));
            }
            2 if n > 0 => {
                c[rng.below(n)] = *rng.pick(WIDE);
            }
            3 => {
                c = c.iter().map(|x| x.to_ascii_lowercase()).collect();
            }
            4 => {
                c = c
                    .iter()
                    .map(|x| if rng.chance(1, 2) { x.to_ascii_lowercase() } else { x.to_ascii_uppercase() })
                    .collect();
            }
            5 => {
                c.retain(|x| *x != ' ');
            }
            6 => {
                c = c.iter().flat_map(|x| if *x == ' ' { vec![' ', ' '] } else { vec![*x] }).collect();
            }
            7 if n > 0 => {
                let a = rng.below(n);
                let b = a + rng.below(n - a + 1).min(6);
                let seg: Vec<char> = c[a..b].to_vec();
                let at = rng.below(n + 1);
                for (k, ch) in seg.into_iter().enumerate() {
                    c.insert(at + k, ch);
                }
            }
            8 if n > 0 => {
                c.truncate(rng.below(n));
            }
            9 => {
                // blanks around every operator / punctuation character
                c = c
                    .iter()
                    .flat_map(|x| if "<>=+-*/(),;:".contains(*x) { vec![' ', *x, ' '] } else { vec![*x] })
                    .collect();
            }
            _ => {}
        }
    }
    c.into_iter().collect()
}

fn random_line(rng: &mut Rng) -> String {
    match rng.below(3) {
        0 => gen_wide(rng),
        1 => gen_soup(rng),
        _ => gen_mutant(rng),
    }
}

pub fn gen_rand<W: Write>(w: &mut W, tier: &str, seed: u64) {
    let n = if tier == "thorough" { 1_000_000 } else { 20_000 };
    let mut rng = Rng::new(seed ^ 0x1e5);
    let mut pool = Pool::new(w);
    // the unmodified realistic lines first
    for l in LINES {
        pool.push('K', format!("LEX {}", hex(l)));
    }
    for _ in 0..n {
        let line = random_line(&mut rng);
        pool.push('K', format!("LEX {}", hex(&line)));
    }
    pool.finish();
}

/// lines with every form of line-number reference (and some that have none or do not parse)
pub const RENUM_LINES: &[&str] = &[
    "10 GOTO 100",
    "20 GOSUB 200",
    "30 IF A THEN 100 ELSE 200",
    "40 IF A=1 THEN GOTO 100",
    "50 IF A GOTO 100",
    "60 IF A THEN PRINT 1:GOTO 100 ELSE GOSUB 200:GOTO 300",
    "70 ON X GOTO 100,200,300",
    "80 ON X GOSUB 100, 200 ,300",
    "90 RESTORE 100",
    "100 RESTORE",
    "110 RUN 100",
    "120 RUN",
    "LIST 100-200",
    "LIST 100-",
    "LIST -200",
    "LIST",
    "LIST 100",
    "DELETE 100-200",
    "DELETE 100",
    "DELETE -200",
    "DELETE 100-",
    "130 PRINT \"\u{e9}\u{65e5}\u{672c}\u{8a9e}\":GOTO 100",
    "140 PRINT \"\u{65e5}\u{672c}\u{8a9e}\u{65e5}\u{672c}\u{8a9e}\u{65e5}\u{672c}\u{8a9e}\":GOSUB 200:ON X GOTO 100,200",
    "145 A$=\"\u{1f600}\"+\"\u{e9}\":IF A$=\"\u{e9}\" THEN 100 ELSE 200",
    "150 GOTO 100:GOTO 100",
    "160 GOTO 65529",
    "170 GOTO 65530",
    "180 GOTO 99999",
    "190 GOTO 1E2",
    "200 GOTO 100.5",
    "210 GOTO 100#",
    "215 GOTO 100!",
    "220 GOTO 100%",
    "225 GOTO 1D2",
    "230 GOTO A",
    "240 IF A THEN 100",
    "250 IF A THEN 100 ELSE 100",
    "260 FOR I=100 TO 200:NEXT",
    "270 X=100:PRINT 100",
    "280 REM GOTO 100",
    "290 GOTO 100 ' 100",
    "300 GOTO100",
    "310 goto 100:gosub200",
    "320 GO TO 100",
    "325 GO SUB 100",
    "330 ON X GOTO 100,,200",
    "340 GOTO",
    "350 PRINT (",
    "GOTO 100",
    "360 IF A THEN IF B THEN 100 ELSE 200 ELSE 300",
    "370 GOTO 0",
    "380 GOTO 00100",
    "390 LIST 100-200:GOTO 300",
    "400 GOTO &H64",
    "410 ON X GOTO 100.7,200",
    "420 ON X+100 GOSUB 100",
    "430 RESTORE:RUN:RESTORE 100:RUN 200",
    "440 IF A THEN RESTORE ELSE RUN 100",
    "450 WHILE A:GOTO 100:WEND",
    "460 PRINT 1:ELSE GOTO 100",
    "470 CLEAR 100:GOTO 100",
    "480 GOTO 100:PRINT \"unterminated",
    "490   GOTO   100  :  GOSUB  200  ",
    "500 GOTO 1e2",
    "510 RENUM 100,10,5",
    "520 DELETE 100-200:LIST 300-400",
    "530 GOTO -100",
    "540 ON X GOTO 100:ON Y GOSUB 200:GOTO 300",
    "65529 GOTO 65529",
    "  550   IF A<=B THEN 100",
    "560 IF A THEN 100:REM 200",
    "600 LIST 100:PRINT 1",
    "610 IF A THEN DELETE 100 ELSE 200",
    "620 DELETE 100:GOTO 200",
    "630 LIST 100 :REM x",
    "640 IF A THEN LIST 100 ELSE LIST 200",
    "650 LIST:PRINT 1:GOTO 100",
    "660 DELETE 100-:PRINT 2",
    "670 LIST -200:GOTO 100",
    "680 IF 0 THEN LIST 65529:GOTO 65529",
    "690 LIST 100:LIST 200:DELETE 300:RUN 100",
    "570",
    "",
];

pub fn gen_renum<W: Write>(w: &mut W, tier: &str, seed: u64) {
    let n = if tier == "thorough" { 400_000 } else { 20_000 };
    let mut rng = Rng::new(seed ^ 0x4e);
    let mut pool = Pool::new(w);
    let keys: &[u16] = &[0, 1, 10, 20, 30, 60, 100, 150, 200, 300, 400, 550, 65529, 65530, 64, 101, 145, 570];
    for l in RENUM_LINES {
        pool.push('K', format!("RENUMLINE - {}", hex(l)));
        pool.push('K', format!("RENUMLINE 100:1000,200:5,300:65529 {}", hex(l)));
    }
    for _ in 0..n {
        let mut line: String = if rng.chance(1, 8) {
            rng_pick_str(&mut rng, LINES).to_string()
        } else {
            rng_pick_str(&mut rng, RENUM_LINES).to_string()
        };
        if rng.chance(1, 4) {
            // mutate: the same character-level mutations as the lexer layer
            let mut c: Vec<char> = line.chars().collect();
            for _ in 0..1 + rng.below(2) {
                let len = c.len();
                match rng.below(4) {
                    0 if len > 0 => {
                        c.remove(rng.below(len));
                    }
                    1 => {
                        c.insert(rng.below(len + 1), *rng.pick(WIDE));
                    }
                    2 if len > 0 => {
                        c[rng.below(len)] = *rng.pick(WIDE);
                    }
                    _ => {
                        c.retain(|x| *x != ' ');
                    }
                }
            }
            line = c.into_iter().collect();
        }
        let mut map: Vec<(u16, u16)> = vec![];
        // the numbers that occur in the line, each with probability 1/2, then some others
        let mut cands: Vec<u16> = vec![];
        let mut cur = String::new();
        for c in line.chars().chain(std::iter::once(' ')) {
            if c.is_ascii_digit() {
                cur.push(c);
            } else if !cur.is_empty() {
                if let Ok(k) = cur.parse::<u16>() {
                    if rng.chance(1, 2) {
                        cands.push(k);
                    }
                }
                cur.clear();
            }
        }
        for _ in 0..rng.below(4) {
            cands.push(if rng.chance(3, 4) { *rng.pick(keys) } else { rng.below(65536) as u16 });
        }
        for k in cands {
            if map.iter().any(|(a, _)| *a == k) {
                continue;
            }
            let v = match rng.below(6) {
                0 => rng.below(10) as u16,
                1 => 65529,
                2 => rng.below(65536) as u16,
                _ => (rng.below(6000) * 10) as u16,
            };
            map.push((k, v));
        }
        let ch = if map.is_empty() {
            "-".to_string()
        } else {
            map.iter().map(|(a, b)| format!("{}:{}", a, b)).collect::<Vec<_>>().join(",")
        };
        pool.push('K', format!("RENUMLINE {} {}", ch, hex(&line)));
    }
    pool.finish();
}

/// C16 (case) oracle lines over the same inputs as `lex-c05`.
pub fn gen_c16<W: Write>(w: &mut W, tier: &str, seed: u64) {
    let thorough = tier == "thorough";
    let max = if thorough { 5 } else { 4 };
    let n = if thorough { 1_000_000 } else { 20_000 };
    let mut pool = Pool::new(w);
    pool.quiet("ok", if thorough { 256 } else { 16 });
    for len in 0..=max {
        for_each_string(len, &mut |t| {
            for p in PREFIXES {
                pool.push('F', format!("C16 {}{}", hex(p), hex(t)));
            }
        });
    }
    let mut rng = Rng::new(seed ^ 0xc16);
    for l in LINES {
        pool.push('F', format!("C16 {}", hex(l)));
    }
    for _ in 0..n {
        let line = random_line(&mut rng);
        pool.push('F', format!("C16 {}", hex(&line)));
    }
    pool.finish();
    eprintln!("lex-c16: cases={} not-ok={}", pool.total, pool.notable);
}

/// C05 oracle lines.  The model side answers the constant `ok`, so `ok` lines carry no
/// information; to keep the volume down only every `stride`-th of them is written (all
/// non-`ok` answers are written).  Totals go to stderr.
pub fn gen_c05<W: Write>(w: &mut W, tier: &str, seed: u64) {
    let thorough = tier == "thorough";
    let max = if thorough { 5 } else { 4 };
    let n = if thorough { 1_000_000 } else { 20_000 };
    let mut pool = Pool::new(w);
    pool.quiet("ok", if thorough { 256 } else { 16 });
    for len in 0..=max {
        for_each_string(len, &mut |t| {
            for p in PREFIXES {
                pool.push('F', format!("C05 {}{}", hex(p), hex(t)));
            }
        });
    }
    let mut rng = Rng::new(seed ^ 0xc05);
    for l in LINES {
        pool.push('F', format!("C05 {}", hex(l)));
    }
    for _ in 0..n {
        let line = random_line(&mut rng);
        pool.push('F', format!("C05 {}", hex(&line)));
    }
    pool.finish();
    eprintln!("lex-c05: cases={} not-ok={}", pool.total, pool.notable);
}
