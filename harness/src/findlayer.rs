//! Finder (DESIGN §2 F): the properties' own oracles evaluated on the real interpreter.
//! Every request is self-contained (`FIND <prop> <kind> <hex payload>`), so `vharness replay`
//! re-evaluates it; the expected answer is always `ok` (the Lean driver answers `ok`).
use crate::progs::*;
use crate::proto::{hex, unhex};
use crate::rng::Rng;
use crate::rtproto::{show_core, show_var_store};
use basic::mach::{Event, Runtime};
use std::io::Write;
use std::panic::{catch_unwind, AssertUnwindSafe};

// ---------------------------------------------------------------------------------------------
// a small session runner

pub struct Run {
    pub rt: Runtime,
    pub out: String,
    pub replies: Vec<String>,
    pub ri: usize,
    pub calls: usize,
    pub input_events: Vec<(String, bool)>,
}

impl Run {
    pub fn new() -> Run {
        let mut r = Run { rt: Runtime::default(), out: String::new(), replies: vec![], ri: 0, calls: 0, input_events: vec![] };
        r.idle(5000, 10);
        r.out.clear();
        r
    }
    /// execute until idle; INPUT is answered from `replies` (default "1"); returns false if the call budget ran out
    pub fn idle(&mut self, quantum: usize, max_calls: usize) -> bool {
        for _ in 0..max_calls {
            self.calls += 1;
            match self.rt.execute(quantum) {
                Event::Stopped | Event::Load(_) | Event::Run(_) | Event::Save(_) => return true,
                Event::Inkey => {
                    self.rt.enter("");
                }
                Event::Input(p, caps) => {
                    self.out.push_str(&p);
                    self.input_events.push((p, caps));
                    let r = self.replies.get(self.ri).cloned().unwrap_or_else(|| "1".into());
                    self.ri += 1;
                    self.out.push_str(&r);
                    self.out.push('\n');
                    self.rt.enter(&r);
                }
                Event::Print(s) => self.out.push_str(&s),
                Event::Errors(es) => {
                    let mut v: Vec<String> = es.iter().map(|e| e.to_string()).collect();
                    v.sort();
                    for e in v {
                        self.out.push_str(&e);
                        self.out.push('\n');
                    }
                }
                Event::List((s, _)) => {
                    self.out.push_str(&s);
                    self.out.push('\n');
                }
                Event::Cls => self.out.push_str("<CLS>"),
                Event::Running => {}
            }
        }
        false
    }
    pub fn line(&mut self, l: &str) -> bool {
        // pseudo-lines `@LOAD a|b|c` / `@LOADRUN a|b|c`: what the terminal does for LOAD "f" / RUN "f"
        // (every line of the file through `load_str`, refused lines skipped, then `set_listing`)
        if let Some((run, file)) = l.strip_prefix("@LOADRUN ").map(|f| (true, f)).or_else(|| l.strip_prefix("@LOAD ").map(|f| (false, f))) {
            let mut listing = basic::mach::Listing::default();
            for fl in file.split('|') {
                let _ = listing.load_str(fl);
            }
            self.rt.set_listing(listing, run);
        } else {
            self.rt.enter(l);
        }
        if self.idle(5000, 3000) {
            return true;
        }
        // still running when the budget ran out: `enter` may only be called at the prompt (it
        // debug_asserts that), so the next line is typed after a break, as a user would have to
        self.rt.interrupt();
        self.idle(5000, 10);
        false
    }
    pub fn lines(&mut self, ls: &[String]) {
        for l in ls {
            self.line(l);
        }
    }
    pub fn listing_text(&self) -> Vec<String> {
        self.rt.get_listing().lines().map(|l| l.to_string()).collect()
    }
    pub fn take(&mut self) -> String {
        std::mem::take(&mut self.out)
    }
}

/// remove ` IN <n>` and a following `:<column>` from error messages
fn strip_line_ref(t: &str, n: u32) -> String {
    let pat = format!(" IN {}", n);
    let mut out = String::new();
    let mut rest = t;
    while let Some(i) = rest.find(&pat) {
        out.push_str(&rest[..i]);
        let mut r = &rest[i + pat.len()..];
        if r.starts_with(':') {
            let d = r[1..].chars().take_while(|c| c.is_ascii_digit()).count();
            r = &r[1 + d..];
        }
        rest = r;
    }
    out.push_str(rest);
    out
}

fn words(s: &str) -> Vec<&str> {
    s.split_whitespace().collect()
}

fn payload(lines: &[String]) -> String {
    hex(&lines.join("\n"))
}

fn fail(detail: String) -> String {
    format!("fail {}", hex(&detail))
}

// ---------------------------------------------------------------------------------------------
// oracles

/// C04/C12 `fresh`: history, then final action; must equal a fresh interpreter fed the listing + action.
fn oracle_fresh(lines: &[String]) -> String {
    let (hist, fin) = lines.split_at(lines.len() - 1);
    let mut a = Run::new();
    a.lines(hist);
    let listing = a.listing_text();
    a.take();
    a.ri = 0;
    a.line(&fin[0]);
    let ta = a.take();
    let mut b = Run::new();
    b.lines(&listing);
    b.take();
    b.line(&fin[0]);
    let tb = b.take();
    if ta == tb {
        "ok".into()
    } else {
        fail(format!("after history: {:?}\nfresh: {:?}\nlisting: {:?}", ta, tb, listing))
    }
}

/// C12 `clear`: after any prefix, CLEAR leaves variables/arrays/types/stack/functions as at start-up.
fn oracle_clear(lines: &[String]) -> String {
    let mut a = Run::new();
    a.lines(lines);
    a.line("CLEAR");
    let fresh = Runtime::default();
    let (sa, sb) = (a.rt.verif_state(), fresh.verif_state());
    let va = show_var_store(sa.vars);
    let vb = show_var_store(sb.vars);
    if va != vb {
        return fail(format!("vars after CLEAR {} vs fresh {}", va, vb));
    }
    if !sa.stack.is_empty() || !sa.functions.is_empty() {
        return fail(format!("stack {} functions {}", sa.stack.len(), sa.functions.len()));
    }
    "ok".into()
}

/// C12 `new`: NEW leaves an empty listing and start-up variables.
fn oracle_new(lines: &[String]) -> String {
    let mut a = Run::new();
    a.lines(lines);
    a.line("NEW");
    if !a.listing_text().is_empty() {
        return fail("listing not empty after NEW".into());
    }
    a.take();
    a.line("LIST");
    let t = a.take();
    if t != "READY.\n" {
        return fail(format!("LIST after NEW printed {:?}", t));
    }
    let fresh = Runtime::default();
    let va = show_var_store(a.rt.verif_state().vars);
    let vb = show_var_store(fresh.verif_state().vars);
    if va != vb {
        return fail(format!("vars after NEW {} vs fresh {}", va, vb));
    }
    "ok".into()
}

fn run_program(lines: &[String], replies: &[String], quantum: usize, max_calls: usize) -> (String, String, bool) {
    let mut r = Run::new();
    r.lines(lines);
    r.take();
    r.replies = replies.to_vec();
    r.rt.enter("RUN");
    let done = r.idle(quantum, max_calls);
    let vars = show_var_store(r.rt.verif_state().vars);
    (r.take(), vars, done)
}

/// C13 `quanta`: payload = program lines; transcripts and final variables identical for all quanta.
fn oracle_quanta(lines: &[String], replies: &[String]) -> String {
    let (t0, v0, done0) = run_program(lines, replies, 5000, 4000);
    if !done0 {
        return "ok".into(); // not a terminating program: outside the oracle
    }
    for q in [1usize, 2, 3, 7, 13] {
        let (t, v, done) = run_program(lines, replies, q, 400_000);
        if !done || t != t0 || v != v0 {
            return fail(format!("quantum {}: {:?} vars {}\nquantum 5000: {:?} vars {}", q, t, v, t0, v0));
        }
    }
    "ok".into()
}

/// C13 `intr`: payload = k, then program lines. Interrupt after k instructions, CONT: same output words
/// (apart from the BREAK report) and same final variables as the uninterrupted run.
fn oracle_intr(k: usize, lines: &[String], replies: &[String]) -> String {
    let (t0, v0, done0) = run_program(lines, replies, 5000, 4000);
    if !done0 {
        return "ok".into();
    }
    let mut r = Run::new();
    r.lines(lines);
    r.take();
    r.replies = replies.to_vec();
    r.rt.enter("RUN");
    // k single steps, answering INPUT as we go
    let mut stopped = false;
    for _ in 0..k {
        r.calls += 1;
        match r.rt.execute(1) {
            Event::Stopped => {
                stopped = true;
                break;
            }
            Event::Input(p, _) => {
                r.out.push_str(&p);
                let rep = r.replies.get(r.ri).cloned().unwrap_or_else(|| "1".into());
                r.ri += 1;
                r.out.push_str(&rep);
                r.out.push('\n');
                r.rt.enter(&rep);
            }
            Event::Print(s) => r.out.push_str(&s),
            Event::Errors(es) => {
                for e in es.iter() {
                    r.out.push_str(&e.to_string());
                    r.out.push('\n');
                }
            }
            Event::List((s, _)) => {
                r.out.push_str(&s);
                r.out.push('\n');
            }
            _ => {}
        }
    }
    if stopped {
        return "ok".into(); // the program ended before the interruption point
    }
    {
        // "a running program": in program code (past RUN's own CLEAR/JUMP) and not yet ended
        let st = r.rt.verif_state();
        let running = matches!(st.state.as_str(), "Running" | "Input" | "InputRunning") || st.state.starts_with("Listing");
        if !running || st.pc >= st.entry_address {
            return "ok".into();
        }
    }
    let in_input = format!("{:?}", r.rt.verif_state().state) == "Input";
    let before = r.take();
    r.rt.interrupt();
    // must be at the prompt within 4 calls (C03)
    let mut n = 0;
    let mut brk = String::new();
    loop {
        n += 1;
        match r.rt.execute(5000) {
            Event::Stopped => break,
            Event::Print(s) => brk.push_str(&s),
            Event::Errors(es) => {
                for e in es.iter() {
                    brk.push_str(&e.to_string());
                    brk.push('\n');
                }
            }
            _ => {}
        }
        if n > 6 {
            return fail(format!("interrupt after {} steps: not stopped after {} calls", k, n));
        }
    }
    if !brk.contains("?BREAK") {
        return fail(format!("interrupt after {} steps: no BREAK report: {:?}", k, brk));
    }
    let _ = in_input;
    r.rt.enter("CONT");
    let done = r.idle(5000, 4000);
    let after = r.take();
    let v = show_var_store(r.rt.verif_state().vars);
    let total = format!("{} {}", before, after);
    // the forced line break may fall anywhere, also inside a run of non-blank output: compare without blanks
    if !done || words(&total).concat() != words(&t0).concat() || v != v0 {
        return fail(format!("interrupt after {} steps + CONT: {:?}\nuninterrupted: {:?}\nvars {} vs {}", k, total, t0, v, v0));
    }
    "ok".into()
}

/// C20 `layout`: program vs the same program with REM lines inserted between lines, an empty
/// statement appended to some lines and unreachable lines after the end: identical transcript.
fn oracle_layout(seed: u64, lines: &[String], replies: &[String]) -> String {
    let (t0, v0, done0) = run_program(lines, replies, 5000, 4000);
    if !done0 {
        return "ok".into();
    }
    let mut rng = Rng::new(seed);
    let mut nums: Vec<u32> = lines.iter().filter_map(|l| l.split(' ').next().and_then(|n| n.parse().ok())).collect();
    nums.sort();
    let mut out: Vec<String> = vec![];
    for (i, l) in lines.iter().enumerate() {
        let body = l.splitn(2, ' ').nth(1).unwrap_or("");
        let up = body.to_uppercase();
        // an empty statement at the end of a line is harmless except after REM/DATA text or IF lists
        if rng.chance(1, 3) && !up.contains("REM") && !up.contains("'") && !up.contains("DATA") && !up.contains("IF") {
            out.push(format!("{}:", l));
        } else {
            out.push(l.clone());
        }
        let this = nums[i.min(nums.len() - 1)];
        let next = nums.get(i + 1).copied().unwrap_or(this + 10);
        if next > this + 1 && rng.chance(1, 2) {
            out.push(format!("{} REM inserted", this + (next - this) / 2));
        }
    }
    let last = *nums.last().unwrap_or(&10);
    if last + 20 < 65000 {
        out.push(format!("{} REM unreachable", last + 7));
    }
    let (t1, v1, _) = run_program(&out, replies, 5000, 4000);
    if t1 != t0 || v1 != v0 {
        return fail(format!("layout changed behaviour: {:?} vs {:?}\nprogram: {:?}", t1, t0, out));
    }
    "ok".into()
}

/// C20 `direct`: a statement list runs the same directly and as a one-line program.
fn oracle_direct(lines: &[String]) -> String {
    let stmt = &lines[0];
    let mut a = Run::new();
    a.line(stmt);
    let ta = a.take();
    let mut b = Run::new();
    b.line(&format!("10 {}", stmt));
    b.take();
    b.line("RUN");
    let tb = b.take();
    // errors mention the line in program mode
    let tb = strip_line_ref(&tb, 10);
    if ta != tb {
        return fail(format!("direct {:?} vs one-line program {:?}", ta, tb));
    }
    // and independently of the size of the program in memory
    let mut c = Run::new();
    for i in 0..40 {
        c.line(&format!("{} PRINT {}:GOTO {}", 100 + i, i, 100 + i));
    }
    c.take();
    c.line(stmt);
    let tc = c.take();
    if ta != tc {
        return fail(format!("direct with empty program {:?} vs with a program in memory {:?}", ta, tc));
    }
    "ok".into()
}

/// C09 `data`: payload line 0 = expected transcript (hex), rest = program.
fn oracle_expect(lines: &[String]) -> String {
    let expected = unhex(&lines[0]);
    let (t, _, _) = run_program(&lines[1..].to_vec(), &[], 5000, 4000);
    if t != expected {
        return fail(format!("got {:?} expected {:?}", t, expected));
    }
    "ok".into()
}

/// two programs (separated by a line "----") must print the same
fn oracle_same(lines: &[String], replies: &[String]) -> String {
    let i = lines.iter().position(|l| l == "----").unwrap_or(lines.len());
    let (a, b) = (lines[..i].to_vec(), lines[(i + 1).min(lines.len())..].to_vec());
    let (ta, _, _) = run_program(&a, replies, 5000, 4000);
    let (tb, _, _) = run_program(&b, replies, 5000, 4000);
    // prompts and echoed replies of INPUT are not part of the comparison
    let strip = |t: &str| -> String { t.lines().filter(|l| !l.starts_with("? ") && !l.contains("? ")).collect::<Vec<_>>().join("\n") };
    if strip(&ta) != strip(&tb) {
        return fail(format!("{:?} vs {:?}", ta, tb));
    }
    "ok".into()
}

/// C19 `diag`: every compile-time diagnostic names a listed line and a range inside its text;
/// UNDEFINED LINE covers exactly a number that is not a line of the program, WHILE/WEND the keyword;
/// nothing of the program runs; direct statements still work.
fn oracle_diag(lines: &[String]) -> String {
    let mut r = Run::new();
    r.lines(lines);
    r.take();
    r.rt.enter("RUN");
    let mut errs = vec![];
    let mut printed = String::new();
    for _ in 0..50 {
        match r.rt.execute(5000) {
            Event::Stopped => break,
            Event::Errors(es) => errs.extend(es.iter().cloned()),
            Event::Print(s) => printed.push_str(&s),
            Event::Input(..) => {
                printed.push_str("<INPUT>");
                r.rt.enter("1");
            }
            _ => {}
        }
    }
    let listing = r.rt.get_listing();
    let has_compile_errors = !listing.indirect_errors.is_empty();
    if has_compile_errors {
        if printed.replace("READY.\n", "").trim() != "" {
            return fail(format!("a program with compile errors produced output {:?}", printed));
        }
        let numbers: Vec<String> = listing.lines().filter_map(|l| l.number()).map(|n| n.to_string()).collect();
        for e in listing.indirect_errors.iter() {
            let n = match e.line_number() {
                Some(n) => n,
                None => return fail(format!("diagnostic without a line: {}", e)),
            };
            let (text, _) = match listing.line(n as usize) {
                Some(t) => t,
                None => return fail(format!("diagnostic names line {} which is not in the listing: {}", n, e)),
            };
            let col = e.column();
            let chars: Vec<char> = text.chars().collect();
            if col.start > col.end || col.end > chars.len() {
                return fail(format!("range {:?} outside the listed text {:?}: {}", col, text, e));
            }
            let slice: String = chars[col.start..col.end].iter().collect();
            let msg = e.to_string();
            if msg.starts_with("?UNDEFINED LINE") && !msg.contains(';') {
                if slice.is_empty() || !slice.chars().all(|c| c.is_ascii_digit()) || numbers.contains(&slice) {
                    return fail(format!("UNDEFINED LINE range {:?} of {:?} is {:?}: {}", col, text, slice, e));
                }
            } else if msg.starts_with("?WHILE WITHOUT WEND") && slice != "WHILE" {
                return fail(format!("range of {} is {:?} in {:?}", e, slice, text));
            } else if msg.starts_with("?WEND WITHOUT WHILE") && slice != "WEND" {
                return fail(format!("range of {} is {:?} in {:?}", e, slice, text));
            }
        }
        r.take();
        r.line("PRINT 6*7");
        let t = r.take();
        if t != " 42 \nREADY.\n" {
            return fail(format!("direct statement with a broken program in memory printed {:?}", t));
        }
        // every kind of direct statement that stays out of the program still works: loops and branches
        // inside the direct line (also as its first statement, whose address is the entry address itself)
        let directs: [(&str, &str); 9] = [
            ("WHILE J9<3:J9=J9+1:WEND:PRINT J9", " 3 \nREADY.\n"),
            ("I9=0:WHILE I9<2:I9=I9+1:WEND:PRINT I9", " 2 \nREADY.\n"),
            ("FOR K9=1 TO 3:NEXT:PRINT K9", " 4 \nREADY.\n"),
            ("FOR K9=1 TO 2:FOR L9=1 TO 2:NEXT L9,K9:PRINT K9;L9", " 3  3 \nREADY.\n"),
            ("IF 1 THEN PRINT \"Y\" ELSE PRINT \"N\"", "Y\nREADY.\n"),
            ("IF 0 THEN PRINT \"Y\" ELSE PRINT \"N\"", "N\nREADY.\n"),
            ("ON 2 GOSUB 10,20", ""),
            ("DEF FNQ(X)=X", "?ILLEGAL DIRECT\nREADY.\n"),
            ("A9$=\"a\":PRINT A9$+\"b\";LEN(A9$)", "ab 1 \nREADY.\n"),
        ];
        for (d, want) in directs {
            r.take();
            r.line(d);
            let t = r.take();
            if !want.is_empty() && t != want {
                return fail(format!("direct statement {:?} with a broken program in memory printed {:?} instead of {:?}", d, t, want));
            }
        }
    }
    "ok".into()
}

/// C18 `loop`: the program completes without OUT OF MEMORY and leaves an empty stack.
fn oracle_loop(lines: &[String]) -> String {
    let mut r = Run::new();
    r.lines(lines);
    r.take();
    r.rt.enter("RUN");
    let done = r.idle(5000, 40_000);
    let t = r.take();
    let depth = r.rt.verif_state().stack.len();
    if !done || t.contains("OUT OF MEMORY") || depth != 0 {
        return fail(format!("done={} stack depth {} transcript tail {:?}", done, depth, &t[t.len().saturating_sub(200)..]));
    }
    "ok".into()
}

/// C18 `pool`: the program must end in OUT OF MEMORY and the session must stay usable.
fn oracle_pool(lines: &[String]) -> String {
    let mut r = Run::new();
    r.lines(lines);
    r.take();
    r.rt.enter("RUN");
    let done = r.idle(5000, 100_000);
    let t = r.take();
    if !done || !t.contains("?OUT OF MEMORY") {
        return fail(format!("done={} transcript tail {:?}", done, &t[t.len().saturating_sub(200)..]));
    }
    r.line("PRINT 6*7");
    let t2 = r.take();
    if t2 != " 42 \nREADY.\n" {
        return fail(format!("after OUT OF MEMORY, PRINT 6*7 gave {:?}", t2));
    }
    r.line("RUN");
    r.take();
    "ok".into()
}

/// C17 `caps`: payload = INPUT statement; the caps flag is off exactly for the leading-comma form, prompt + "? ".
fn oracle_inputflag(lines: &[String]) -> String {
    let stmt = &lines[0];
    let expect_caps = lines[1] == "1";
    let expect_prompt = format!("{}? ", lines[2]);
    let mut r = Run::new();
    r.replies = vec![lines[3].clone()];
    r.line(&format!("10 {}", stmt));
    r.line("RUN");
    match r.input_events.first() {
        Some((p, caps)) => {
            if *caps != expect_caps || *p != expect_prompt {
                return fail(format!("{}: prompt {:?} caps {} expected {:?} {}", stmt, p, caps, expect_prompt, expect_caps));
            }
        }
        None => return fail(format!("{}: no Input event", stmt)),
    }
    "ok".into()
}

/// One oracle evaluation, guarded against hangs: an `execute(n)` that does not come back (the
/// interpreter spinning inside one slice) would otherwise stall the whole layer.  The evaluation runs
/// on its own thread; after 60 s it is abandoned (the thread keeps spinning until the process ends)
/// and the case is reported as a failure.
pub fn answer_find(req: &str) -> String {
    use std::sync::atomic::{AtomicUsize, Ordering};
    static HANGS: AtomicUsize = AtomicUsize::new(0);
    if HANGS.load(Ordering::Relaxed) >= 3 {
        // every abandoned evaluation keeps a core busy: three witnesses are enough
        return fail("not evaluated: three earlier cases of this run did not come back".into());
    }
    let (tx, rx) = std::sync::mpsc::channel();
    let r = req.to_string();
    std::thread::spawn(move || {
        let _ = tx.send(answer_find_unguarded(&r));
    });
    match rx.recv_timeout(std::time::Duration::from_secs(60)) {
        Ok(a) => a,
        Err(_) => {
            HANGS.fetch_add(1, Ordering::Relaxed);
            fail("the interpreter did not come back within 60 s: a bounded execute(n) slice does not return (or the oracle's own budget is unbounded)".into())
        }
    }
}

fn answer_find_unguarded(req: &str) -> String {
    let parts: Vec<&str> = req.split(' ').collect();
    if parts.len() < 4 {
        return "bad-request".into();
    }
    let kind = parts[2];
    let text = unhex(parts[3]);
    let mut lines: Vec<String> = text.split('\n').map(|s| s.to_string()).collect();
    // optional trailer: replies after a line "===="
    let mut replies: Vec<String> = vec![];
    if let Some(i) = lines.iter().position(|l| l == "====") {
        replies = lines[i + 1..].to_vec();
        lines.truncate(i);
    }
    let r = catch_unwind(AssertUnwindSafe(|| match kind {
        "fresh" => oracle_fresh(&lines),
        "clear" => oracle_clear(&lines),
        "new" => oracle_new(&lines),
        "quanta" => oracle_quanta(&lines, &replies),
        "intr" => {
            let k: usize = lines[0].parse().unwrap_or(1);
            oracle_intr(k, &lines[1..].to_vec(), &replies)
        }
        "layout" => {
            let seed: u64 = lines[0].parse().unwrap_or(1);
            oracle_layout(seed, &lines[1..].to_vec(), &replies)
        }
        "direct" => oracle_direct(&lines),
        "expect" => oracle_expect(&lines),
        "session" => {
            // payload line 0 = hex of the expected transcript of the whole session; the other lines are entered in turn
            let mut r = Run::new();
            r.replies = replies.clone();
            for l in &lines[1..] {
                r.line(l);
            }
            let t = r.take();
            if t == unhex(&lines[0]) { "ok".into() } else { fail(format!("got {:?}\nexpected {:?}", t, unhex(&lines[0]))) }
        }
        "expectdirect" => {
            let mut r = Run::new();
            r.line(&lines[1]);
            let t = r.take();
            if t == unhex(&lines[0]) { "ok".into() } else { fail(format!("got {:?} expected {:?}", t, unhex(&lines[0]))) }
        }
        "same" => oracle_same(&lines, &replies),
        "diag" => oracle_diag(&lines),
        "loop" => oracle_loop(&lines),
        "pool" => oracle_pool(&lines),
        "inputflag" => oracle_inputflag(&lines),
        other => crate::find2::answer_kind(other, &lines, &replies),
    }));
    match r {
        Ok(s) => s,
        Err(_) => fail("panic in the interpreter".into()),
    }
}

/// `VH_SHARD=i/n`: this process evaluates (and prints) only every n-th generated case, starting at
/// the i-th; generation itself is identical in every shard, so the union of the shards is the layer.
pub fn shard_take() -> bool {
    use std::sync::atomic::{AtomicUsize, Ordering};
    static COUNT: AtomicUsize = AtomicUsize::new(0);
    static SHARD: std::sync::OnceLock<(usize, usize)> = std::sync::OnceLock::new();
    let (i, n) = *SHARD.get_or_init(|| {
        std::env::var("VH_SHARD")
            .ok()
            .and_then(|s| {
                let (a, b) = s.split_once('/')?;
                Some((a.parse().ok()?, b.parse().ok()?))
            })
            .filter(|(i, n): &(usize, usize)| *n > 0 && i < n)
            .unwrap_or((0, 1))
    });
    COUNT.fetch_add(1, Ordering::Relaxed) % n == i
}

fn emit<W: Write>(w: &mut W, prop: &str, kind: &str, lines: &[String], replies: &[String]) {
    if !shard_take() {
        return;
    }
    let mut all = lines.to_vec();
    if !replies.is_empty() {
        all.push("====".into());
        all.extend(replies.iter().cloned());
    }
    let req = format!("FIND {} {} {}", prop, kind, payload(&all));
    let ans = answer_find(&req);
    let _ = writeln!(w, "F\t{}\t{}", req, ans);
}

// ---------------------------------------------------------------------------------------------
// generators

const EDITS: &[&str] = &["15 PRINT \"E\"", "25 A=A+1", "35 REM", "15", "25", "DELETE 15", "DELETE 15-25", "DELETE 1-2", "9", "65000"];
const DIRECTS: &[&str] = &["PRINT A;B;X", "A=7:B$=\"q\"", "DIM ZZ(3)", "DEFINT A-C", "DEFSTR S", "X=1/0", "PRINT FNA(1)", "READ A", "RESTORE", "PRINT Q(11)", "FOR I=1 TO 2", "GOSUB 99", "CLEAR", "STOP", "END", "DATA 2,3", "IF 1 THEN DATA 7,8", "READ X:PRINT X", "READ X,Y,Z", "DEF FNQ(X)=X", "RESTORE 30", "PRINT )", "PRINT 1+", "IF 1 THEN", "NEXT", "GOTO 64999", "A$=1"];

/// C04: what runs is the program LIST shows.
pub fn gen_c04<W: Write>(w: &mut W, tier: &str, seed: u64) {
    let mut rng = Rng::new(seed ^ 0xC04);
    // corpus: the repaired defects
    let corpus: Vec<Vec<&str>> = vec![
        vec!["10 PRINT \"A\"", "RUN", "20 PRINT \"B\"", "30", "RUN"],
        vec!["10 PRINT \"A\"", "20 GOTO 10", "RENUM 100", "RUN 100"],
        vec!["10 GOSUB 100:PRINT \"BACK\":END", "100 STOP:RETURN", "RUN", "5 PRINT \"INS\"", "6 PRINT \"MORE\"", "RETURN"],
        vec!["10 DEF FNA(X)=X*2", "20 PRINT FNA(4)", "RUN", "5 PRINT \"INSERTED\"", "6 PRINT \"MORE\"", "PRINT FNA(4)"],
        vec!["10 FOR I=1 TO 3", "20 STOP", "30 NEXT", "RUN", "15 PRINT \"X\"", "NEXT"],
        vec!["10 PRINT 1", "20 STOP", "30 PRINT 3", "RUN", "DELETE 30", "CONT"],
        vec!["10 PRINT 1", "20 STOP", "30 PRINT 3", "RUN", "25 PRINT 2", "CONT"],
        vec!["10 PRINT 1", "20 PRINT 2", "RUN", "DELETE 20", "RUN"],
        vec!["10 PRINT 1", "NEW", "20 PRINT 2", "RUN"],
        // a refused direct statement leaves nothing behind (no constants, no function, no frames)
        vec!["10 READ A:PRINT A", "20 READ B:PRINT B", "30 DATA 1", "RUN", "DATA 2", "RUN"],
        vec!["10 READ A:PRINT A", "20 READ B:PRINT B", "30 DATA 1", "PRINT \"HI\"", "IF 1 THEN DATA 7,8", "READ X,Y:PRINT X;Y"],
        vec!["10 READ A:PRINT A", "20 READ B:PRINT B", "30 DATA 1", "DATA 2", "RUN 20"],
        vec!["10 PRINT FNA(2)", "DEF FNA(X)=X", "RUN"],
    ];
    for c in corpus {
        let v: Vec<String> = c.iter().map(|s| s.to_string()).collect();
        emit(w, "C04", "fresh", &v, &[]);
    }
    // LOAD "f" / RUN "f" replace the program whatever went on before: afterwards the interpreter behaves as a
    // fresh one that was given the loaded listing (nothing of the old program, its frames or functions survives)
    for _ in 0..(if tier == "thorough" { 6_000 } else { 150 }) {
        let sz = 1 + rng.below(3);
        let p = gen_program(&mut rng, sz);
        let mut h: Vec<String> = p.text().into_iter().filter(|l| !l.contains("TRON") && !l.contains("INPUT")).collect();
        if rng.chance(2, 3) {
            if rng.chance(1, 2) {
                h.push(format!("{} STOP", p.lines[rng.below(p.lines.len())].0 + 1));
            }
            h.push("RUN".into());
        }
        if rng.chance(1, 3) {
            h.push(rng.pick(DIRECTS).to_string());
        }
        let qsz = 1 + rng.below(3);
        let q = gen_program(&mut rng, qsz);
        let mut file: Vec<String> = q.text().into_iter().filter(|l| !l.contains("TRON") && !l.contains("INPUT") && !l.contains('|')).collect();
        if rng.chance(1, 5) {
            file.push("PRINT \"NOT A PROGRAM LINE\"".into());
        }
        let run = rng.chance(1, 3);
        h.push(format!("{} {}", if run { "@LOADRUN" } else { "@LOAD" }, file.join("|")));
        if !run && rng.chance(1, 3) {
            h.push(format!("{} REM edit", 1 + rng.below(9)));
        }
        let fin = if run {
            "RUN".to_string()
        } else {
            match rng.below(7) {
                0 | 1 | 2 => "RUN".to_string(),
                3 => "CONT".to_string(),
                4 => "RETURN".to_string(),
                5 => "NEXT".to_string(),
                _ => "PRINT FNA(1)".to_string(),
            }
        };
        h.push(fin);
        emit(w, "C04", "fresh", &h, &[]);
    }
    let n = if tier == "thorough" { 20_000 } else { 500 };
    for _ in 0..n {
        let sz = 1 + rng.below(4);
        let p = gen_program(&mut rng, sz);
        let mut h: Vec<String> = p.text().into_iter().filter(|l| !l.contains("TRON") && !l.contains("INPUT")).collect();
        let first = p.lines[0].0;
        // an earlier run that may stop in the middle
        if rng.chance(2, 3) {
            let mid = p.lines[rng.below(p.lines.len())].0;
            if rng.chance(1, 2) {
                h.push(format!("{} STOP", mid + 1));
            }
            h.push("RUN".into());
        }
        // edits, each followed directly by the final action or by other edits
        let ne = 1 + rng.below(3);
        for _ in 0..ne {
            match rng.below(8) {
                0 | 1 => h.push(rng.pick(EDITS).to_string()),
                2 => h.push(format!("{} PRINT \"R\"", p.lines[rng.below(p.lines.len())].0)),
                3 => h.push(format!("{}", p.lines[rng.below(p.lines.len())].0)),
                4 => h.push(format!("{}", 1 + rng.below(3000))),
                5 => h.push(format!("DELETE {}-{}", first, first + rng.below(40) as u32)),
                6 => h.push(rng.pick(DIRECTS).to_string()),
                _ => h.push(format!("{} A=A+1:PRINT A", 1 + rng.below(400))),
            }
        }
        let fin = match rng.below(8) {
            0 | 1 | 2 => "RUN".to_string(),
            3 => format!("RUN {}", first),
            4 => "CONT".to_string(),
            5 => "RETURN".to_string(),
            6 => "NEXT".to_string(),
            _ => "PRINT FNA(1)".to_string(),
        };
        // CONT/RETURN/NEXT/FN only make sense for the oracle when the last history line is an edit
        if fin != "RUN" && !fin.starts_with("RUN ") {
            h.push(format!("{} REM edit", 1 + rng.below(9)));
        }
        h.push(fin);
        emit(w, "C04", "fresh", &h, &[]);
    }
}

/// C12: RUN, CLEAR and NEW reset state completely.
pub fn gen_c12<W: Write>(w: &mut W, tier: &str, seed: u64) {
    let mut rng = Rng::new(seed ^ 0xC12);
    let probe: Vec<String> = [
        "1000 PRINT A;B;C;X;Y;I;J;N%;M%;A$;B$;S$;Z1;Q(3);D(2)",
        "1010 DIM D(20):D(15)=1:PRINT D(15)",
        "1020 S=5:PRINT S",
        "1030 READ V:PRINT V",
        "1040 DATA 77",
        "1050 PRINT FNA(1)",
    ]
    .iter()
    .map(|s| s.to_string())
    .collect();
    let n = if tier == "thorough" { 20_000 } else { 400 };
    for i in 0..n {
        let sz = 1 + rng.below(5);
        let p = gen_program(&mut rng, sz);
        let mut h: Vec<String> = p.text().into_iter().filter(|l| !l.contains("TRON") && !l.contains("INPUT")).collect();
        if rng.chance(1, 3) {
            let mid = p.lines[rng.below(p.lines.len())].0;
            h.push(format!("{} STOP", mid + 1));
        }
        if rng.chance(1, 4) {
            h.push(format!("{} X=1/0", p.lines[rng.below(p.lines.len())].0 + 1));
        }
        h.push("RUN".into());
        for _ in 0..rng.below(4) {
            h.push(rng.pick(DIRECTS).to_string());
        }
        match i % 4 {
            0 => {
                let mut v = h.clone();
                if rng.chance(1, 2) {
                    // an edit after the direct statements, refused ones included, then RUN
                    v.push("2000 PRINT 5".into());
                }
                v.push("RUN".into());
                emit(w, "C12", "fresh", &v, &[]);
            }
            1 => {
                let mut v = h.clone();
                v.push("NEW".into());
                v.extend(probe.iter().cloned());
                v.push("RUN".into());
                emit(w, "C12", "fresh", &v, &[]);
            }
            2 => emit(w, "C12", "clear", &h, &[]),
            _ => emit(w, "C12", "new", &h, &[]),
        }
    }
}

/// C13: interrupt / STOP / END + CONT transparent; quantum independence.
pub fn gen_c13<W: Write>(w: &mut W, tier: &str, seed: u64) {
    let mut rng = Rng::new(seed ^ 0xC13);
    let n = if tier == "thorough" { 3_000 } else { 60 };
    for _ in 0..n {
        let sz = 1 + rng.below(4);
        let p = gen_program(&mut rng, sz);
        let lines: Vec<String> = p.text().into_iter().filter(|l| !l.contains("TRON") && !l.ends_with(" STOP")).collect();
        emit(w, "C13", "quanta", &lines, &p.replies);
        // every interruption point of short programs (exhaustive in k), sampled for long ones
        let (_, _, _) = (0, 0, 0);
        let mut probe = Run::new();
        probe.lines(&lines);
        probe.replies = p.replies.clone();
        probe.rt.enter("RUN");
        let before = probe.calls;
        probe.idle(1, 5000);
        let steps = probe.calls - before;
        if lines.iter().any(|l| l.contains("POS(")) {
            // POS reads the column, which the forced line break of the BREAK report resets:
            // the property exempts exactly that line break
            continue;
        }
        // (each case re-runs the program, so the exhaustive part is quadratic in the run length: bounded)
        let (exh, smp) = if tier == "thorough" { (300, 120) } else { (150, 40) };
        let ks: Vec<usize> = if steps <= exh { (1..steps).collect() } else { (0..smp).map(|_| 1 + rng.below(steps.max(2) - 1)).collect() };
        // earlier session history must not matter: a failed direct statement, a refused CONT, a direct STOP or a
        // finished run before the interrupted one (they all leave a saved continuation address behind)
        let pre: Vec<String> = match rng.below(6) {
            0 => vec!["CONT".into()],
            1 => vec!["PRINT Q(11)".into()],
            2 => vec!["STOP".into()],
            3 => vec!["X=1/0".into(), "CONT".into()],
            4 => vec!["RUN".into(), "CONT".into()],
            _ => vec![],
        };
        for k in ks {
            let mut v = vec![k.to_string()];
            v.extend(lines.iter().cloned());
            if !pre.is_empty() && k % 3 == 0 {
                v.extend(pre.iter().cloned());
            }
            emit(w, "C13", "intr", &v, &p.replies);
        }
        // STOP placed at every line: CONT continues as if it were not there
        if rng.chance(1, 2) {
            let i = rng.below(p.lines.len());
            let mut with_stop = lines.clone();
            let ln = p.lines[i].0;
            if !p.lines.iter().any(|(n, _)| *n == ln + 1) {
                // only a fresh line number (inserting must not replace a line)
                with_stop.push(format!("{} STOP", ln + 1));
                let mut both = lines.clone();
                both.push("----".into());
                both.extend(with_stop);
                let _ = both; // STOP+CONT needs a session-level oracle: covered by `intr` (BREAK) and the SES layer
            }
        }
    }
}

/// C20: layout independence.
pub fn gen_c20<W: Write>(w: &mut W, tier: &str, seed: u64) {
    gen_c20_boundary(w, tier, seed);
    let mut rng = Rng::new(seed ^ 0xC20);
    let n = if tier == "thorough" { 20_000 } else { 400 };
    for _ in 0..n {
        let sz = 1 + rng.below(6);
        let p = gen_program(&mut rng, sz);
        let lines: Vec<String> = p.text().into_iter().filter(|l| !l.contains("TRON")).collect();
        let mut v = vec![format!("{}", rng.next() % 100000)];
        v.extend(lines);
        emit(w, "C20", "layout", &v, &p.replies);
    }
    let m = if tier == "thorough" { 5_000 } else { 200 };
    for _ in 0..m {
        let k = 1 + rng.below(3);
        let mut st: Vec<String> = vec![];
        for _ in 0..k {
            st.push(match rng.below(6) {
                0 => format!("A={}", gen_expr(&mut rng, 2)),
                1 => format!("PRINT {};{}", gen_expr(&mut rng, 1), gen_expr(&mut rng, 1)),
                2 => "FOR I=1 TO 3:PRINT I;:NEXT".to_string(),
                3 => format!("IF {} THEN PRINT \"T\" ELSE PRINT \"F\"", gen_expr(&mut rng, 1)),
                4 => "B$=\"ab\"+\"c\":PRINT LEN(B$)".to_string(),
                _ => "Z=0:WHILE Z<2:Z=Z+1:PRINT Z:WEND".to_string(),
            });
        }
        let line = st.join(":");
        if line.contains("FNA") || line.contains("Q(") || line.contains("A(") || line.contains("B$(") {
            continue;
        }
        emit(w, "C20", "direct", &[line], &[]);
    }
}

/// C20: branches to the boundary line numbers (0 and 65529) resolve by number whatever constructs
/// (FOR, IF, GOSUB, WHILE, DEF, ON — everything that allocates local labels) precede them in the layout.
fn gen_c20_boundary<W: Write>(w: &mut W, tier: &str, seed: u64) {
    let mut rng = Rng::new(seed ^ 0xC2B);
    let fillers = ["REM", "FOR J=1 TO 2:NEXT J", "IF 0 THEN A=1 ELSE A=2", "GOSUB 900", "WHILE 0:WEND", "DEF FNQ(V)=V+1", "ON 0 GOTO 900", "Q=1:IF Q THEN Q=2", "ON 1 GOSUB 900,900"];
    let n = if tier == "thorough" { 3000 } else { 150 };
    for _ in 0..n {
        for target in [0u32, 65529] {
            // counter loop through the boundary line: K counts visits
            let nf = rng.below(3);
            let mut lines: Vec<String> = vec![];
            let branch = match rng.below(6) {
                0 => format!("GOTO {}", target),
                1 => format!("IF 1 THEN {}", target),
                2 => format!("ON 1 GOTO {}", target),
                3 => format!("IF 0 THEN 950 ELSE {}", target),
                4 => format!("IF K THEN GOTO {}", target),
                _ => format!("ON 2 GOTO 950,{}", target),
            };
            if target == 0 {
                lines.push("0 K=K+1:PRINT K;:IF K>=3 THEN 800".to_string());
                for i in 0..nf {
                    lines.push(format!("{} {}", 10 + i, rng.pick(&fillers)));
                }
                lines.push(format!("20 {}", branch));
                lines.push("800 PRINT \"DONE\":END".to_string());
                lines.push("900 RETURN".to_string());
                lines.push("950 PRINT \"WRONG\":END".to_string());
                let mut v = vec![hex(" 1  2  3 DONE\nREADY.\n")];
                v.extend(lines);
                emit(w, "C20", "expect", &v, &[]);
            } else {
                lines.push(format!("10 GOTO {}", if nf > 0 { 100 } else { 110 }));
                lines.push("800 PRINT \"DONE\":END".to_string());
                lines.push("900 RETURN".to_string());
                lines.push("950 PRINT \"WRONG\":END".to_string());
                for i in 0..nf {
                    lines.push(format!("{} {}", 100 + i, rng.pick(&fillers)));
                }
                lines.push(format!("110 K=K+1:PRINT K;:IF K<3 THEN {}", branch));
                lines.push("120 GOTO 800".to_string());
                lines.push("65529 GOTO 110".to_string());
                let mut v = vec![hex(" 1  2  3 DONE\nREADY.\n")];
                v.extend(lines);
                emit(w, "C20", "expect", &v, &[]);
            }
        }
    }
}

/// C09: READ consumes DATA in source order wherever the DATA lines sit.
pub fn gen_c09<W: Write>(w: &mut W, tier: &str, seed: u64) {
    let mut rng = Rng::new(seed ^ 0xC09);
    let n = if tier == "thorough" { 20_000 } else { 400 };
    for _ in 0..n {
        let nitems = 1 + rng.below(8);
        let items: Vec<i32> = (0..nitems).map(|_| rng.below(200) as i32 - 50).collect();
        // split items into 1..3 DATA lines placed before, between and after the code
        let mut chunks: Vec<Vec<i32>> = vec![];
        let mut i = 0;
        while i < nitems {
            let len = 1 + rng.below(nitems - i);
            chunks.push(items[i..i + len].to_vec());
            i += len;
        }
        let mut lines: Vec<(u32, String)> = vec![];
        let code_at = [100u32, 200, 300, 400];
        let nreads = rng.below(nitems + 2);
        let mut expected = String::new();
        let mut code: Vec<String> = vec![];
        let mut cursor = 0usize;
        let mut ok = true;
        for r in 0..nreads {
            if rng.chance(1, 6) && r > 0 {
                code.push("RESTORE".into());
                cursor = 0;
            }
            code.push("READ V:PRINT V".into());
            if ok {
                if cursor < nitems {
                    let v = items[cursor];
                    expected.push_str(&if v < 0 { format!("{} \n", v) } else { format!(" {} \n", v) });
                    cursor += 1;
                } else {
                    ok = false;
                }
            }
        }
        // place chunks at random slots 0..=code.len() in order
        let mut slots: Vec<usize> = (0..chunks.len()).map(|_| rng.below(code.len() + 1)).collect();
        slots.sort();
        let mut ln = 10u32;
        let mut ci = 0;
        let mut fail_line = 0u32;
        let mut reads_seen = 0usize;
        for (pos, c) in code.iter().enumerate() {
            while ci < chunks.len() && slots[ci] == pos {
                lines.push((ln, format!("DATA {}", chunks[ci].iter().map(|x| x.to_string()).collect::<Vec<_>>().join(","))));
                ln += 10;
                ci += 1;
            }
            if c.starts_with("READ") {
                reads_seen += 1;
            }
            lines.push((ln, c.clone()));
            if !ok && fail_line == 0 && c.starts_with("READ") {
                // the first READ past the end is the one that fails
                let consumed_ok = expected.matches('\n').count();
                if reads_seen == consumed_ok + 1 {
                    fail_line = ln;
                }
            }
            ln += 10;
        }
        while ci < chunks.len() {
            lines.push((ln, format!("DATA {}", chunks[ci].iter().map(|x| x.to_string()).collect::<Vec<_>>().join(","))));
            ln += 10;
            ci += 1;
        }
        let _ = code_at;
        if !ok {
            expected.push_str(&format!("?OUT OF DATA IN {}\n", fail_line));
        }
        expected.push_str("READY.\n");
        let mut v = vec![hex(&expected)];
        v.extend(lines.iter().map(|(n, s)| format!("{} {}", n, s)));
        emit(w, "C09", "expect", &v, &[]);
    }
    // a READ list assigns its targets one at a time, left to right, each exactly as an assignment would
    for _ in 0..(if tier == "thorough" { 2000 } else { 100 }) {
        let a = rng.below(6) as i32;
        let b = 1 + rng.below(50) as i32;
        let c = 60 + rng.below(30) as i32;
        let f = |v: i32| if v < 0 { format!("{} ", v) } else { format!(" {} ", v) };
        // a later target's subscript sees the value an earlier target of the same READ received
        let v = vec![
            hex(&format!("{}{}{}\nREADY.\n", f(a), f(b), f(0))),
            "10 DIM A(6):I=6".to_string(),
            "20 READ I,A(I)".to_string(),
            format!("30 PRINT I;A({});A(6)", a),
            format!("40 DATA {},{}", a, b),
        ];
        emit(w, "C09", "expect", &v, &[]);
        // the same variable named twice ends up with the later constant
        let v = vec![hex(&format!("{}{}\nREADY.\n", f(b), f(c))), format!("10 DATA {},{},{}", a, b, c), "20 READ X,X,Y".to_string(), "30 PRINT X;Y".to_string()];
        emit(w, "C09", "expect", &v, &[]);
        // running out of constants in the middle of a list: the earlier targets already hold their values
        let v = vec![
            hex(&format!("?OUT OF DATA IN 20\nREADY.\n{}{}\nREADY.\n", f(b), f(0))),
            format!("10 DATA {}", b),
            "20 READ X,Y".to_string(),
            "RUN".to_string(),
            "PRINT X;Y".to_string(),
        ];
        emit(w, "C09", "session", &v, &[]);
        // RESTORE n with no constant at or after line n leaves nothing to read; one with constants after it
        // starts at the first of those; a plain RESTORE rewinds to the very first
        let v = vec![
            hex(&format!("?OUT OF DATA IN 50\nREADY.\n{}{}{}\nREADY.\n", f(a), f(b), f(0))),
            format!("10 DATA {},{}", a, b),
            "20 READ A,B".to_string(),
            format!("30 DATA {}", c),
            "40 RESTORE 50".to_string(),
            "50 READ C".to_string(),
            "60 PRINT \"NOT REACHED\"".to_string(),
            "RUN".to_string(),
            "PRINT A;B;C".to_string(),
        ];
        emit(w, "C09", "session", &v, &[]);
        let v = vec![
            hex(&format!("{}\nREADY.\n?OUT OF DATA\nREADY.\n{}\nREADY.\n", f(c), f(a))),
            format!("10 DATA {}", a),
            format!("20 DATA {}", c),
            "30 REM NO MORE".to_string(),
            "RESTORE 20:READ X:PRINT X".to_string(),
            "RESTORE 30:READ X:PRINT X".to_string(),
            "RESTORE:READ X:PRINT X".to_string(),
        ];
        emit(w, "C09", "session", &v, &[]);
        // conversion to the receiving variable's type, as assignment would: Integer target floors, string into number is an error
        let v = vec![
            hex(&format!("{}{}x\n?TYPE MISMATCH IN 30\nREADY.\n", f(b), f(2))),
            format!("10 DATA {},2.5,\"x\",\"y\"", b),
            "20 READ X,N%,S$:PRINT X;N%;S$".to_string(),
            "30 READ Z".to_string(),
        ];
        emit(w, "C09", "expect", &v, &[]);
    }
    // RESTORE n: first constant at or after line n; RUN rewinds
    for t in 0..(if tier == "thorough" { 2000 } else { 100 }) {
        let a = 1 + rng.below(50) as i32;
        let b = 60 + rng.below(50) as i32;
        let c = 120 + rng.below(50) as i32;
        let target = *rng.pick(&[20u32, 30, 40, 50, 60]);
        let exp_v = if target <= 20 { a } else if target <= 40 { b } else { c };
        let expected = format!(" {} \n {} \nREADY.\n", a, exp_v);
        let v = vec![
            hex(&expected),
            format!("10 READ V:PRINT V:RESTORE {}:READ V:PRINT V", target),
            format!("20 DATA {}", a),
            "30 REM".to_string(),
            format!("40 DATA {}", b),
            "50 REM".to_string(),
            format!("60 DATA {}", c),
        ];
        emit(w, "C09", "expect", &v, &[]);
        let _ = t;
    }
}

/// C10: user functions — call = body with parameters bound, parameters local, read at call time.
pub fn gen_c10<W: Write>(w: &mut W, tier: &str, seed: u64) {
    let mut rng = Rng::new(seed ^ 0xC10);
    let n = if tier == "thorough" { 20_000 } else { 400 };
    for _ in 0..n {
        let arity = 1 + rng.below(3);
        // parameters of every type suffix; the program variables of the same names hold sentinels
        let pool: &[&[&str]] = &[&["X", "Y", "Z"], &["X#", "Y!", "Z%"], &["X!", "Y%", "Z#"], &["X%", "Y#", "Z"], &["X", "Y#", "Z!"]];
        let params: Vec<&str> = rng.pick(pool)[..arity].to_vec();
        // body over params and globals G, H
        let atoms: Vec<String> = params.iter().map(|s| s.to_string()).chain(["G".to_string(), "H".to_string(), "2".to_string(), "7".to_string()]).collect();
        let mut body = rng.pick(&atoms).clone();
        for _ in 0..rng.below(4) {
            body = format!("({}{}{})", body, rng.pick(&["+", "-", "*"]), rng.pick(&atoms));
        }
        let args: Vec<String> = (0..arity).map(|_| format!("{}", rng.below(9) as i32 - 3)).collect();
        let g = rng.below(9) as i32;
        let h = rng.below(9) as i32 - 4;
        // program A: function call; globals X,Y,Z hold sentinel values that must survive
        // the program variables named like the parameters (same suffix) hold sentinels; so do the plain X, Y, Z
        let sentinels: Vec<String> = params.iter().enumerate().map(|(i, p)| format!("{}={}", p, 100 * (i + 1))).collect();
        let set = format!("G={}:H={}:X=11:Y=12:Z=13:{}", g, h, sentinels.join(":"));
        let show = format!("40 PRINT X;Y;Z;{}", params.join(";"));
        let mut a = vec![
            format!("10 DEF FNF({})={}", params.join(","), body),
            format!("20 {}", set),
            format!("30 PRINT FNF({})", args.join(",")),
            show.clone(),
        ];
        // program B: the body inlined with temporaries of the parameters' types
        let mut inl = body.clone();
        let temp = |i: usize, p: &str| -> String { format!("T{}{}", i + 1, p.trim_start_matches(|c: char| c.is_ascii_alphabetic())) };
        for (i, p) in params.iter().enumerate() {
            // longest names first is not needed: parameter names are single letters plus an optional suffix,
            // and a plain `X` never occurs in a body that uses `X#`
            inl = inl.replace(p, &temp(i, p));
        }
        let mut assigns: Vec<String> = args.iter().enumerate().map(|(i, v)| format!("{}={}", temp(i, params[i]), v)).collect();
        assigns.push(set.clone());
        let b = vec![format!("20 {}", assigns.join(":")), format!("30 PRINT {}", inl), show];
        a.push("----".into());
        a.extend(b);
        emit(w, "C10", "same", &a, &[]);
    }
    let fixed: Vec<(Vec<&str>, &str)> = vec![
        (vec!["10 DEF FNA(X)=X+1", "20 PRINT FNA(1,2)"], "?ILLEGAL FUNCTION CALL IN 20; WRONG NUMBER OF ARGUMENTS\nREADY.\n"),
        (vec!["10 DEF FNA(X,Y)=X*10+Y", "20 PRINT FNA(1,2)", "30 PRINT FNA(1,2,3)", "40 PRINT \"NOT REACHED\""], " 12 \n?ILLEGAL FUNCTION CALL IN 30; WRONG NUMBER OF ARGUMENTS\nREADY.\n"),
        (vec!["10 DEF FNA(X,Y)=X*10+Y", "20 PRINT FNA(1)"], "?ILLEGAL FUNCTION CALL IN 20; WRONG NUMBER OF ARGUMENTS\nREADY.\n"),
        (vec!["10 DEF FNA(X,Y,Z)=X+Y+Z", "20 PRINT FNA(1,2,3,4,5)"], "?ILLEGAL FUNCTION CALL IN 20; WRONG NUMBER OF ARGUMENTS\nREADY.\n"),
        (vec!["10 DEF FNA(X)=X+1", "20 DEF FNB(X)=FNA(X,X)*2", "30 PRINT 100+FNB(4)"], "?ILLEGAL FUNCTION CALL IN 20; WRONG NUMBER OF ARGUMENTS\nREADY.\n"),
        (vec!["10 DEF FNA$(X$)=X$+\"!\"", "20 PRINT FNA$(\"a\",\"b\")"], "?ILLEGAL FUNCTION CALL IN 20; WRONG NUMBER OF ARGUMENTS\nREADY.\n"),
        // a function that calls another keeps its own parameter: same parameter name, function names that differ
        // only in their type suffix, the parameter read again after the nested call
        (vec!["10 DEF FNB(X)=X*2", "20 DEF FNC$(X)=STR$(FNB(X+1))+STR$(X)", "30 PRINT FNC$(3)"], " 8 3\nREADY.\n"),
        (vec!["10 DEF FNA(X)=X*2", "20 DEF FNA$(X)=STR$(FNA(X+1))+STR$(X)", "30 X=100:PRINT FNA$(3);X"], " 8 3 100 \nREADY.\n"),
        (vec!["10 DEF FNS(N)=N*N", "20 DEF FNS%(N)=FNS(N+1)-N", "30 PRINT FNS%(4);FNS(FNS%(1))"], " 21  9 \nREADY.\n"),
        (vec!["10 DEF FNA!(X)=X+1", "20 DEF FNA#(X)=FNA!(X*10)+X", "30 DEF FNA%(X)=FNA#(X+1)*100+X", "40 PRINT FNA%(1)"], " 2301 \nREADY.\n"),
        (vec!["10 DEF FNA(X)=X+1", "20 DEF FNAA(X)=FNA(X*2)+X", "30 PRINT FNAA(5)"], " 16 \nREADY.\n"),
        (vec!["10 DEF FNP(A,B)=A-B", "20 DEF FNP$(A,B)=STR$(FNP(B,A))+STR$(A)+STR$(B)", "30 PRINT FNP$(1,5)"], " 4 1 5\nREADY.\n"),
        (vec!["10 PRINT FNQ(1)"], "?UNDEFINED USER FUNCTION IN 10\nREADY.\n"),
        (vec!["10 DEF FNA(X)=FNB(X)*2", "20 DEF FNB(X)=X+1", "30 PRINT FNA(3)"], " 8 \nREADY.\n"),
        (vec!["10 A=5", "20 DEF FNA(X)=X+A", "30 A=10", "40 PRINT FNA(1)"], " 11 \nREADY.\n"),
        (vec!["10 DEF FNA(X)=FNA(X)+1", "20 PRINT FNA(1)"], "?OUT OF MEMORY IN 10; STACK OVERFLOW\nREADY.\n"),
        (vec!["10 DIM A(5):A(3)=9", "20 DEF FNI(X)=X+1", "30 PRINT A(FNI(2))"], " 9 \nREADY.\n"),
    ];
    for (p, exp) in fixed {
        let mut v = vec![hex(exp)];
        v.extend(p.iter().map(|s| s.to_string()));
        emit(w, "C10", "expect", &v, &[]);
    }
    emit(w, "C10", "expectdirect", &[hex("?ILLEGAL DIRECT\nREADY.\n"), "DEF FNA(X)=X".to_string()], &[]);
}

/// C18: completed statements leave nothing behind; pools end in OUT OF MEMORY.
pub fn gen_c18<W: Write>(w: &mut W, tier: &str, seed: u64) {
    let _ = seed;
    let iters = if tier == "thorough" { 70_000 } else { 20_000 };
    let bodies: &[&str] = &[
        "A=A+1", "PRINT;", "A$=\"x\"+\"y\"", "IF A>0 THEN B=1 ELSE B=2", "GOSUB 900", "ON 1 GOSUB 900", "ON 5 GOSUB 900", "ON 0 GOSUB 900",
        "ON 2 GOTO 40,40", "FOR J=1 TO 2:NEXT J", "FOR J=1 TO 2:NEXT", "WHILE 0:WEND", "Z=0:WHILE Z<1:Z=Z+1:WEND", "READ V:RESTORE", "Q(1)=Q(1)+1",
        "SWAP A,B", "MID$(S$,1)=\"q\"", "B=FNA(A)", "B=LEN(STR$(A))", "DIM W(2):ERASE W", "X=POS(0)+INSTR(\"ab\",\"b\")", "A$=LEFT$(\"abc\",2)+MID$(\"abc\",2,1)",
        "IF 1 THEN IF 0 THEN B=1 ELSE B=2", "FOR J=1 TO 3:IF J=2 THEN 40", "GOSUB 950",
    ];
    for b in bodies {
        let v: Vec<String> = vec![
            "10 DEF FNA(X)=X+1:S$=\"abc\"".to_string(),
            "15 DATA 1".to_string(),
            format!("20 FOR I=1 TO {}", iters),
            format!("30 {}", b),
            "40 NEXT I".to_string(),
            "50 END".to_string(),
            "900 RETURN".to_string(),
            "950 FOR K=1 TO 5:RETURN".to_string(),
        ];
        emit(w, "C18", "loop", &v, &[]);
    }
    let pools: Vec<Vec<&str>> = vec![
        vec!["10 GOSUB 10"],
        vec!["10 DEF FNA(X)=FNA(X)+1", "20 PRINT FNA(1)"],
        vec!["10 FOR I=1 TO 10", "20 GOTO 10"],
        vec!["10 ON 1 GOSUB 10"],
    ];
    for p in pools {
        let v: Vec<String> = p.iter().map(|s| s.to_string()).collect();
        emit(w, "C18", "pool", &v, &[]);
    }
    // setting variables back to 0 / "" frees their slots: 70 000 distinct assignments fit when each is reset
    let v: Vec<String> = vec![
        "10 DIM A(300,300)".to_string(),
        "20 FOR I=0 TO 270:FOR J=0 TO 270".to_string(),
        "30 A(I,J)=1:A(I,J)=0".to_string(),
        "40 NEXT J,I".to_string(),
    ];
    if tier == "thorough" {
        emit(w, "C18", "loop", &v, &[]);
    }
    let v2: Vec<String> = vec!["10 DIM A(300,300)".to_string(), "20 FOR I=0 TO 300:FOR J=0 TO 300".to_string(), "30 A(I,J)=1".to_string(), "40 NEXT J,I".to_string()];
    emit(w, "C18", "pool", &v2, &[]);
}

/// C19: diagnostics point into the listed line and block execution.
pub fn gen_c19<W: Write>(w: &mut W, tier: &str, seed: u64) {
    let mut rng = Rng::new(seed ^ 0xC19);
    let prefixes = ["", "PRINT \"é日本語\":", "A$=\"ü\":B=1:", "REM\u{0}:", "IF 1 THEN PRINT \"ö\":"];
    let forms = ["GOTO {}", "GOSUB {}", "IF A THEN {}", "IF A THEN PRINT 1 ELSE {}", "ON X GOTO 10,{}", "ON X GOSUB {},10", "RESTORE {}", "RUN {}", "IF A GOTO {}", "IF A THEN 10 ELSE {}"];
    for p in prefixes {
        if p.starts_with("REM") {
            continue;
        }
        // the faulty line sits in the middle, on the first (0) or on the last (65529) line number
        for (la, lb, lc) in [(10u32, 20u32, 30u32), (0, 1, 2), (65527, 65528, 65529), (65500, 65529, 0)] {
            for f in forms {
                for missing in [7u32, 64000, 999] {
                    let mut v: Vec<String> = vec![format!("{} REM", la), format!("{} {}{}", lb, p, f.replace("{}", &missing.to_string()))];
                    if lc != 0 {
                        v.push(format!("{} PRINT \"RAN\"", lc));
                    }
                    emit(w, "C19", "diag", &v, &[]);
                }
            }
            for l in ["WEND", "WHILE 1", "WHILE 1:WHILE 2:WEND", "WEND:WHILE 1:WEND:WEND"] {
                let mut v: Vec<String> = vec![format!("{} {}{}", lb, p, l)];
                if lc != 0 {
                    v.push(format!("{} PRINT \"RAN\"", lc));
                }
                emit(w, "C19", "diag", &v, &[]);
            }
        }
    }
    // syntax errors whose faulting token is (or follows) text of several bytes per character, on line
    // numbers of 1..5 digits, at the end and in the middle of the line: the range stays inside the listed text
    let stray = ["PRINT 1;\u{20ac}\u{e9}", "X=\u{e9}", "PRINT \"ok\":\u{fc}", "GOTO 10 \u{65e5}\u{672c}", "PRINT \"\u{65e5}\u{672c}\";\u{1F600}", "A$=\"\u{e9}\"+\u{20ac}\u{20ac}\u{20ac}", "IF A THEN \u{e9} ELSE 10",
        "PRINT (\u{1F600}", "\u{e9}", "FOR \u{e9}=1 TO 2", "PRINT 1 \u{e9} 2", "DATA \u{e9},1", "PRINT \"\u{e9}\" \u{a7}\u{a7} : PRINT 2", "NEXT \u{20ac}", "DIM A(\u{e9})", "REM fine \u{e9}:\u{e9}"];
    for ln in [0u32, 7, 10, 123, 4000, 12345, 65529] {
        for s in stray {
            emit(w, "C19", "diag", &[format!("{} {}", ln, s)], &[]);
            emit(w, "C19", "diag", &[format!("{} PRINT \"\u{e9}\u{e9}\";1", ln), format!("{} {}", ln + 0, s)], &[]);
        }
    }
    let n = if tier == "thorough" { 20_000 } else { 500 };
    for _ in 0..n {
        let sz = 1 + rng.below(4);
        let mut p = gen_program(&mut rng, sz);
        damage(&mut rng, &mut p);
        if rng.chance(1, 2) {
            damage(&mut rng, &mut p);
        }
        if rng.chance(1, 3) {
            // a stray run of wide characters somewhere in a line
            let i = rng.below(p.lines.len());
            let w3 = *rng.pick(&["\u{e9}", "\u{20ac}\u{e9}", "\u{65e5}\u{672c}\u{8a9e}", "\u{1F600}"]);
            if rng.chance(1, 2) {
                p.lines[i].1.push_str(w3);
            } else {
                p.lines[i].1 = format!("{}{}", w3, p.lines[i].1);
            }
        }
        let lines: Vec<String> = p.text().into_iter().filter(|l| !l.contains("INPUT")).collect();
        emit(w, "C19", "diag", &lines, &[]);
    }
}

/// C17: prompt text and the capitalisation flag.
pub fn gen_c17<W: Write>(w: &mut W, _tier: &str, _seed: u64) {
    let cases: Vec<(&str, &str, &str, &str)> = vec![
        ("INPUT A", "1", "", "5"),
        ("INPUT ,A", "0", "", "5"),
        ("INPUT \"NAME\";A$", "1", "NAME", "x"),
        ("INPUT ,\"NAME\";A$", "0", "NAME", "x"),
        ("INPUT \"A,B\";A,B", "1", "A,B", "1,2"),
        ("INPUT ,\"\";A", "0", "", "3"),
    ];
    for (s, caps, prompt, reply) in cases {
        emit(w, "C17", "inputflag", &[s.to_string(), caps.to_string(), prompt.to_string(), reply.to_string()], &[]);
    }
}
