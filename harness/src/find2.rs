//! More property oracles on the real interpreter (see findlayer.rs): C01 C02 C03 C11 C14 C16 C17.
use crate::astproto;
use crate::findlayer::Run;
use crate::progs::*;
use crate::proto::{hex, unhex};
use crate::rng::Rng;
use basic::lang::ast::{Expression, Statement};
use basic::lang::{lex, parse, Line};
use basic::mach::Event;
use std::collections::HashMap;
use std::io::Write;

fn fail(detail: String) -> String {
    format!("fail {}", hex(&detail))
}

fn emit<W: Write>(w: &mut W, prop: &str, kind: &str, lines: &[String], replies: &[String]) {
    let mut all = lines.to_vec();
    if !replies.is_empty() {
        all.push("====".into());
        all.extend(replies.iter().cloned());
    }
    if !crate::findlayer::shard_take() {
        return;
    }
    let req = format!("FIND {} {} {}", prop, kind, hex(&all.join("\n")));
    let ans = crate::findlayer::answer_find(&req);
    let _ = writeln!(w, "F\t{}\t{}", req, ans);
}

pub fn answer_kind(kind: &str, lines: &[String], replies: &[String]) -> String {
    match kind {
        "renum" => oracle_renum(lines),
        "expectrun" => oracle_expectrun(lines, replies),
        "spelling" => oracle_spelling(lines),
        "render" => oracle_render(lines),
        "fuzz" => oracle_fuzz(lines),
        "listdel" => oracle_listdel(lines),
        "saveload" => oracle_saveload(lines),
        "noslots" => oracle_noslots(lines, replies),
        "stopcont" => oracle_stopcont(lines, replies),
        "signsym" => oracle_signsym(lines),
        "brokencont" => oracle_brokencont(lines),
        "samesession" => {
            // two sessions (separated by a line "----"), every line typed in turn: the transcripts are equal
            let i = lines.iter().position(|l| l == "----").unwrap_or(lines.len());
            let run = |ls: &[String]| -> String {
                let mut r = Run::new();
                r.replies = replies.to_vec();
                for l in ls {
                    r.line(l);
                }
                r.take()
            };
            let (ta, tb) = (run(&lines[..i]), run(&lines[(i + 1).min(lines.len())..]));
            if ta == tb { "ok".into() } else { fail(format!("{:?}\nvs\n{:?}", ta, tb)) }
        }
        _ => "bad-kind".into(),
    }
}

// ---------------------------------------------------------------------------------------------
// C14 RENUM

fn strip_cols(s: &str) -> String {
    // drop every " <digits>-<digits>" field (column ranges of the canonical AST text)
    let b: Vec<char> = s.chars().collect();
    let mut out = String::new();
    let mut i = 0;
    while i < b.len() {
        if b[i] == ' ' {
            let mut j = i + 1;
            let d1 = j;
            while j < b.len() && b[j].is_ascii_digit() {
                j += 1;
            }
            if j > d1 && j < b.len() && b[j] == '-' {
                let d2 = j + 1;
                let mut k = d2;
                while k < b.len() && b[k].is_ascii_digit() {
                    k += 1;
                }
                if k > d2 && (k == b.len() || b[k] == ' ' || b[k] == ')') {
                    i = k;
                    continue;
                }
            }
        }
        out.push(b[i]);
        i += 1;
    }
    out
}

fn ln_ref(e: &Expression, map: &HashMap<u16, u16>) -> String {
    if let Expression::Single(col, n) = e {
        if *n >= 0.0 && col.start != col.end {
            let k = *n as u16;
            return format!("LN{}", map.get(&k).copied().unwrap_or(k));
        }
        return "LNDEFAULT".to_string();
    }
    strip_cols(&astproto::expr(e))
}

/// AST without columns, every written line-number operand mapped through `map`
fn shape(s: &Statement, map: &HashMap<u16, u16>) -> String {
    use Statement::*;
    match s {
        Goto(_, e) => format!("(Goto {})", ln_ref(e, map)),
        Gosub(_, e) => format!("(Gosub {})", ln_ref(e, map)),
        Restore(_, e) => format!("(Restore {})", ln_ref(e, map)),
        Run(_, e) => match e {
            Expression::Single(..) => format!("(Run {})", ln_ref(e, map)),
            _ => strip_cols(&astproto::stmt(s)),
        },
        Delete(_, a, b) => format!("(Delete {} {})", ln_ref(a, map), ln_ref(b, map)),
        List(_, a, b) => format!("(List {} {})", ln_ref(a, map), ln_ref(b, map)),
        OnGoto(_, e, ls) => format!("(OnGoto {} [{}])", strip_cols(&astproto::expr(e)), ls.iter().map(|l| ln_ref(l, map)).collect::<Vec<_>>().join(" ")),
        OnGosub(_, e, ls) => format!("(OnGosub {} [{}])", strip_cols(&astproto::expr(e)), ls.iter().map(|l| ln_ref(l, map)).collect::<Vec<_>>().join(" ")),
        If(_, p, th, el) => format!(
            "(If {} [{}] [{}])",
            strip_cols(&astproto::expr(p)),
            th.iter().map(|x| shape(x, map)).collect::<Vec<_>>().join(" "),
            el.iter().map(|x| shape(x, map)).collect::<Vec<_>>().join(" ")
        ),
        _ => strip_cols(&astproto::stmt(s)),
    }
}

fn map_line_refs(t: &str, map: &HashMap<u16, u16>) -> String {
    // " IN <n>" of error messages and "[n]" of the trace
    let mut out = String::new();
    let b: Vec<char> = t.chars().collect();
    let mut i = 0;
    while i < b.len() {
        let rest: String = b[i..].iter().take(4).collect();
        if rest == " IN " || b[i] == '[' {
            let skip = if b[i] == '[' { 1 } else { 4 };
            let mut j = i + skip;
            let d = j;
            while j < b.len() && b[j].is_ascii_digit() {
                j += 1;
            }
            if j > d {
                let n: u32 = b[d..j].iter().collect::<String>().parse().unwrap_or(0);
                let m = if n <= 65535 { map.get(&(n as u16)).copied().unwrap_or(n as u16) as u32 } else { n };
                out.extend(b[i..d].iter());
                out.push_str(&m.to_string());
                i = j;
                continue;
            }
        }
        out.push(b[i]);
        i += 1;
    }
    out
}

fn oracle_renum(lines: &[String]) -> String {
    let args = lines[0].clone();
    let prog = lines[1..].to_vec();
    let mut r = Run::new();
    r.lines(&prog);
    r.take();
    let before: Vec<Line> = r.rt.get_listing().lines().cloned().collect();
    if !r.rt.get_listing().indirect_errors.is_empty() {
        // link-clean programs only (diagnostics are refreshed by a direct line)
    }
    r.line("PRINT;");
    r.take();
    if !r.rt.get_listing().indirect_errors.is_empty() {
        return "ok".into();
    }
    r.line(&format!("RENUM {}", args));
    let t = r.take();
    let after: Vec<Line> = r.rt.get_listing().lines().cloned().collect();
    let btxt: Vec<String> = before.iter().map(|l| l.to_string()).collect();
    let atxt: Vec<String> = after.iter().map(|l| l.to_string()).collect();
    if t != "READY.\n" {
        // RENUM failed: nothing may have changed
        if btxt != atxt {
            return fail(format!("RENUM {} failed with {:?} but changed the listing: {:?} -> {:?}", args, t, btxt, atxt));
        }
        return "ok".into();
    }
    // argument defaults: new 10, old 0, step 10
    let parts: Vec<&str> = args.split(',').collect();
    let num = |i: usize, d: u32| -> u32 { parts.get(i).map(|s| s.trim()).filter(|s| !s.is_empty()).and_then(|s| s.parse().ok()).unwrap_or(d) };
    let (new, old, step) = (num(0, 10), num(1, 0), num(2, 10));
    let mut map: HashMap<u16, u16> = HashMap::new();
    let mut next = new;
    let mut expected_numbers: Vec<u32> = vec![];
    for l in &before {
        let n = l.number().unwrap_or(0) as u32;
        if n >= old {
            map.insert(n as u16, next as u16);
            expected_numbers.push(next);
            next += step;
        } else {
            expected_numbers.push(n);
        }
    }
    let got_numbers: Vec<u32> = after.iter().map(|l| l.number().unwrap_or(0) as u32).collect();
    if got_numbers != expected_numbers {
        return fail(format!("RENUM {}: numbers {:?} expected {:?}", args, got_numbers, expected_numbers));
    }
    for (b, a) in before.iter().zip(after.iter()) {
        match (b.ast(), a.ast()) {
            (Ok(ba), Ok(aa)) => {
                let sb: Vec<String> = ba.iter().map(|s| shape(s, &map)).collect();
                let ident: HashMap<u16, u16> = HashMap::new();
                let sa: Vec<String> = aa.iter().map(|s| shape(s, &ident)).collect();
                if sb != sa {
                    return fail(format!("RENUM {}: line {:?} became {:?}: expected statements {:?} got {:?}", args, b.to_string(), a.to_string(), sb, sa));
                }
                // nothing else changes: a line without references keeps its text
                let has_ref = sb.iter().any(|s| s.contains("LN") && !s.contains("LNDEFAULT") || s.matches("LN").count() > s.matches("LNDEFAULT").count());
                if !has_ref {
                    let strip_num = |s: &str| s.splitn(2, ' ').nth(1).unwrap_or("").to_string();
                    if strip_num(&b.to_string()) != strip_num(&a.to_string()) {
                        return fail(format!("RENUM {}: text without references changed: {:?} -> {:?}", args, b.to_string(), a.to_string()));
                    }
                }
            }
            (Err(_), Err(_)) => {}
            _ => return fail(format!("RENUM {}: {:?} -> {:?} parse status changed", args, b.to_string(), a.to_string())),
        }
    }
    // behaviour up to the line numbers mentioned
    let run = |ls: &Vec<String>| -> String {
        let mut x = Run::new();
        x.lines(ls);
        x.take();
        x.rt.enter("RUN");
        x.idle(5000, 2000);
        x.take()
    };
    let tb = map_line_refs(&run(&btxt), &map);
    let ta = run(&atxt);
    if tb != ta {
        return fail(format!("RENUM {}: behaviour changed: {:?} vs {:?}", args, tb, ta));
    }
    "ok".into()
}

pub fn gen_c14<W: Write>(w: &mut W, tier: &str, seed: u64) {
    let mut rng = Rng::new(seed ^ 0xC14);
    let corpus: Vec<(&str, Vec<&str>)> = vec![
        ("10,0,0", vec!["10 PRINT 1", "20 PRINT 2", "30 PRINT 3"]),
        ("1000", vec!["10 ON 1 GOSUB 100", "20 END", "100 PRINT \"S\":RETURN"]),
        ("100", vec!["0 RESTORE:PRINT \"Z\"", "10 IF 0 THEN LIST", "20 DATA 1"]),
        ("100", vec!["10 PRINT 1", "40 DELETE 10"]),
        ("1000", vec!["10 PRINT \"é\":GOTO 20", "20 END"]),
        ("100", vec!["10 PRINT \"日本語日本語日本語\":GOTO 20", "20 END"]),
        ("100", vec!["10 PRINT \"A\"", "20 GOTO 10"]),
        ("100,20", vec!["10 IF A THEN 30 ELSE 20", "20 ON X GOTO 10,20,30", "30 RESTORE 20:RUN 10"]),
        ("5,20,1", vec!["10 GOTO 30", "20 GOSUB 30", "30 RETURN"]),
        ("65520,0,10", vec!["10 PRINT 1", "20 PRINT 2"]),
        ("10,0,65535", vec!["10 PRINT 1", "20 PRINT 2"]),
        ("5,20", vec!["10 PRINT 1", "20 PRINT 2", "30 GOTO 10"]),
    ];
    for (a, p) in corpus {
        let mut v = vec![a.to_string()];
        v.extend(p.iter().map(|s| s.to_string()));
        emit(w, "C14", "renum", &v, &[]);
    }
    let n = if tier == "thorough" { 20_000 } else { 400 };
    let vals = ["", "0", "1", "10", "100", "1000", "65529", "7", "50"];
    for _ in 0..n {
        let sz = 1 + rng.below(5);
        let mut p = gen_program(&mut rng, sz);
        // every referencing form and some non-ASCII text
        let first = p.lines[0].0;
        let some = p.lines[rng.below(p.lines.len())].0;
        let extra = match rng.below(11) {
            0 => format!("PRINT \"é日本\":GOTO {}", some),
            1 => format!("IF A THEN {} ELSE {}", first, some),
            2 => format!("ON X GOSUB {},{}", first, some),
            3 => format!("RESTORE {}:RESTORE", some),
            4 => format!("IF 0 THEN LIST {}-{}:DELETE {}", first, some, some),
            7 => format!("IF 0 THEN LIST {}:PRINT \"after\"", some),
            8 => format!("IF 0 THEN DELETE {} ELSE {}", some, first),
            9 => format!("IF 0 THEN LIST:GOTO {}", some),
            5 => format!("IF 0 THEN RUN {}", first),
            6 => format!("IF 0 GOTO {}", some),
            _ => "REM goto 10".to_string(),
        };
        let at = p.lines.last().unwrap().0 + 3;
        p.lines.push((at, extra));
        if rng.chance(1, 6) {
            p.lines.insert(0, (0, "REM zero".into()));
        }
        // keep every line number in place (references point at them): neutralise instead of dropping
        let lines: Vec<String> = p.lines.iter().map(|(n, l)| if l.contains("INPUT") || l.contains("TRON") { format!("{} REM", n) } else { format!("{} {}", n, l) }).collect();
        // half of the arguments sit at or next to a stored line number (new start = last kept line, ...)
        let nums: Vec<u32> = p.lines.iter().map(|(n, _)| *n as u32).collect();
        let mut val = |rng: &mut Rng| -> String {
            if rng.chance(1, 2) {
                let k = *rng.pick(&nums) as i64 + rng.below(3) as i64 - 1;
                k.clamp(0, 65529).to_string()
            } else {
                rng.pick(&vals).to_string()
            }
        };
        let args = match rng.below(5) {
            0 => String::new(),
            1 => val(&mut rng),
            2 => format!("{},{}", val(&mut rng), val(&mut rng)),
            _ => format!("{},{},{}", val(&mut rng), val(&mut rng), rng.pick(&vals)),
        };
        let mut v = vec![args];
        v.extend(lines);
        emit(w, "C14", "renum", &v, &[]);
    }
}

// ---------------------------------------------------------------------------------------------
// C01 / C11 / C17: programs whose transcript the generator predicts (payload line 0 = hex expected)

fn oracle_expectrun(lines: &[String], replies: &[String]) -> String {
    let expected = unhex(&lines[0]);
    let mut r = Run::new();
    r.lines(&lines[1..].to_vec());
    r.take();
    r.replies = replies.to_vec();
    r.rt.enter("RUN");
    r.idle(5000, 4000);
    let t = r.take();
    if t != expected {
        return fail(format!("got {:?}\nexpected {:?}", t, expected));
    }
    "ok".into()
}

fn fmt_int(v: i64) -> String {
    if v < 0 { format!("{} ", v) } else { format!(" {} ", v) }
}

/// statement-by-statement reference interpreter over the generator's own structured programs
#[derive(Clone)]
enum E {
    N(i64),
    V(usize),
    Add(Box<E>, Box<E>),
    Sub(Box<E>, Box<E>),
    Mul(Box<E>, Box<E>),
}
#[derive(Clone)]
enum C {
    Lt(E, E),
    Eq(E, E),
    Ge(E, E),
    Ne(E, E),
}
#[derive(Clone)]
enum S {
    Tag(usize),
    PrintVar(usize),
    Let(usize, E),
    IfElse(C, Box<S>, Option<Box<S>>),
    IfSkip(C, Vec<S>),
    For(usize, i64, i64, i64, Vec<S>, bool),
    While(usize, i64, Vec<S>),
    Gosub(usize),
    OnGosub(E, Vec<usize>),
    OnGoto(E, Vec<Vec<S>>),
    ExitFor(C),
    /// `IF c THEN RETURN` inside a subroutine (possibly inside its FOR loops): abandons the frames above the return address
    ReturnIf(C),
}

const VN: &[&str] = &["A", "B", "C", "D", "E"];
const LOOPV: &[&str] = &["I", "J", "K", "L"];
const WN: &[&str] = &["W1", "W2", "W3", "W4", "W5"];

struct Interp {
    returning: bool,
    vars: Vec<i64>,
    loopv: Vec<i64>,
    out: String,
    subs: Vec<Vec<S>>,
    steps: usize,
}

fn ev(e: &E, it: &Interp) -> i64 {
    match e {
        E::N(n) => *n,
        E::V(i) => if *i < 10 { it.vars[*i] } else { it.loopv[*i - 10] },
        E::Add(a, b) => ev(a, it) + ev(b, it),
        E::Sub(a, b) => ev(a, it) - ev(b, it),
        E::Mul(a, b) => ev(a, it) * ev(b, it),
    }
}
fn cv(c: &C, it: &Interp) -> bool {
    match c {
        C::Lt(a, b) => ev(a, it) < ev(b, it),
        C::Eq(a, b) => ev(a, it) == ev(b, it),
        C::Ge(a, b) => ev(a, it) >= ev(b, it),
        C::Ne(a, b) => ev(a, it) != ev(b, it),
    }
}
fn vname(i: usize) -> String {
    if i < 5 { VN[i].to_string() } else if i < 10 { WN[i - 5].to_string() } else { LOOPV[i - 10].to_string() }
}
fn etext(e: &E) -> String {
    match e {
        E::N(n) => if *n < 0 { format!("({})", n) } else { n.to_string() },
        E::V(i) => vname(*i),
        E::Add(a, b) => format!("({}+{})", etext(a), etext(b)),
        E::Sub(a, b) => format!("({}-{})", etext(a), etext(b)),
        E::Mul(a, b) => format!("{}*{}", etext(a), etext(b)),
    }
}
fn ctext(c: &C) -> String {
    match c {
        C::Lt(a, b) => format!("{}<{}", etext(a), etext(b)),
        C::Eq(a, b) => format!("{}={}", etext(a), etext(b)),
        C::Ge(a, b) => format!("{}>={}", etext(a), etext(b)),
        C::Ne(a, b) => format!("{}<>{}", etext(a), etext(b)),
    }
}

/// `true` to continue; `false` when an enclosing construct is to be left: `it.returning` tells RETURN from ExitFor
fn exec(ss: &[S], it: &mut Interp) -> bool {
    for s in ss {
        it.steps += 1;
        if it.steps > 20000 {
            return true;
        }
        match s {
            S::Tag(n) => it.out.push_str(&format!("T{}\n", n)),
            S::PrintVar(v) => {
                let x = ev(&E::V(*v), it);
                it.out.push_str(&fmt_int(x));
                it.out.push('\n');
            }
            S::Let(v, e) => {
                let x = ev(e, it);
                if *v < 10 { it.vars[*v] = x } else { it.loopv[*v - 10] = x }
            }
            S::IfElse(c, a, b) => {
                if cv(c, it) {
                    if !exec(std::slice::from_ref(a), it) { return false; }
                } else if let Some(b) = b {
                    if !exec(std::slice::from_ref(b), it) { return false; }
                }
            }
            S::IfSkip(c, body) => {
                if !cv(c, it) {
                    if !exec(body, it) { return false; }
                }
            }
            S::For(v, a, b, st, body, _) => {
                it.loopv[*v - 10] = *a;
                loop {
                    if !exec(body, it) {
                        if it.returning {
                            return false; // RETURN out of the loop: the frame is abandoned with the subroutine
                        }
                        break; // early exit: control continues after the loop
                    }
                    let nv = it.loopv[*v - 10] + st;
                    it.loopv[*v - 10] = nv;
                    let done = if *st < 0 { nv < *b } else { nv > *b };
                    if done {
                        break;
                    }
                }
            }
            S::While(v, lim, body) => {
                while it.vars[*v] < *lim {
                    if !exec(body, it) { return false; }
                    it.vars[*v] += 1;
                    it.steps += 1;
                    if it.steps > 20000 { return true; }
                }
            }
            S::Gosub(k) => {
                let b = it.subs[*k].clone();
                exec(&b, it);
                it.returning = false;
            }
            S::OnGosub(e, ks) => {
                let x = ev(e, it);
                if x >= 1 && (x as usize) <= ks.len() {
                    let b = it.subs[ks[x as usize - 1]].clone();
                    exec(&b, it);
                    it.returning = false;
                }
            }
            S::OnGoto(e, blocks) => {
                // ON e GOTO b1,b2: jumps to block i and runs on through the later blocks; falls into b1 if out of range
                let x = ev(e, it);
                let start = if x >= 1 && (x as usize) <= blocks.len() { x as usize - 1 } else { 0 };
                for b in &blocks[start..] {
                    if !exec(b, it) { return false; }
                }
            }
            S::ExitFor(c) => {
                if cv(c, it) {
                    return false;
                }
            }
            S::ReturnIf(c) => {
                if cv(c, it) {
                    it.returning = true;
                    return false;
                }
            }
        }
    }
    true
}

struct Emit {
    lines: Vec<(u32, String)>,
    n: u32,
    step: u32,
}
impl Emit {
    fn line(&mut self, s: String) -> u32 {
        let n = self.n;
        self.lines.push((n, s));
        self.n += self.step;
        n
    }
}

fn simple_text(s: &S) -> String {
    match s {
        S::Tag(n) => format!("PRINT \"T{}\"", n),
        S::PrintVar(v) => format!("PRINT {}", vname(*v)),
        S::Let(v, e) => format!("{}={}", vname(*v), etext(e)),
        _ => "REM".into(),
    }
}

/// emit BASIC for the structured statements; `after_for` collects the line to jump to for ExitFor
fn emit_stmts(ss: &[S], em: &mut Emit, sub_ref: &mut Vec<(usize, usize)>, exit_fix: &mut Vec<usize>) {
    for s in ss {
        match s {
            S::Tag(_) | S::PrintVar(_) | S::Let(..) => {
                em.line(simple_text(s));
            }
            S::IfElse(c, a, b) => {
                let t = match b {
                    Some(b) => format!("IF {} THEN {} ELSE {}", ctext(c), simple_text(a), simple_text(b)),
                    None => format!("IF {} THEN {}", ctext(c), simple_text(a)),
                };
                em.line(t);
            }
            S::IfSkip(c, body) => {
                let at = em.lines.len();
                em.line(String::new());
                let mut ef = vec![];
                emit_stmts(body, em, sub_ref, &mut ef);
                exit_fix.extend(ef);
                let target = em.line("REM".into());
                em.lines[at].1 = format!("IF {} THEN {}", ctext(c), target);
            }
            S::For(v, a, b, st, body, named) => {
                let head = if *st == 1 { format!("FOR {}={} TO {}", vname(*v), a, b) } else { format!("FOR {}={} TO {} STEP {}", vname(*v), a, b, st) };
                em.line(head);
                let mut ef = vec![];
                emit_stmts(body, em, sub_ref, &mut ef);
                em.line(if *named { format!("NEXT {}", vname(*v)) } else { "NEXT".into() });
                let after = em.line("REM".into());
                for i in ef {
                    let t = em.lines[i].1.replace("@EXIT", &after.to_string());
                    em.lines[i].1 = t;
                }
            }
            S::While(v, lim, body) => {
                em.line(format!("WHILE {}<{}", vname(*v), lim));
                emit_stmts(body, em, sub_ref, exit_fix);
                em.line(format!("{}={}+1", vname(*v), vname(*v)));
                em.line("WEND".into());
            }
            S::Gosub(k) => {
                let i = em.lines.len();
                em.line(format!("GOSUB @S{}@", k));
                sub_ref.push((i, *k));
            }
            S::OnGosub(e, ks) => {
                let i = em.lines.len();
                let list: Vec<String> = ks.iter().map(|k| format!("@S{}@", k)).collect();
                em.line(format!("ON {} GOSUB {}", etext(e), list.join(",")));
                for k in ks {
                    sub_ref.push((i, *k));
                }
            }
            S::OnGoto(e, blocks) => {
                let at = em.lines.len();
                em.line(String::new());
                let mut starts = vec![];
                for b in blocks {
                    let st = em.line("REM".into());
                    starts.push(st);
                    emit_stmts(b, em, sub_ref, exit_fix);
                }
                em.lines[at].1 = format!("ON {} GOTO {}", etext(e), starts.iter().map(|n| n.to_string()).collect::<Vec<_>>().join(","));
            }
            S::ExitFor(c) => {
                let i = em.lines.len();
                em.line(format!("IF {} THEN @EXIT", ctext(c)));
                exit_fix.push(i);
            }
            S::ReturnIf(c) => {
                em.line(format!("IF {} THEN RETURN", ctext(c)));
            }
        }
    }
}

fn contains_exit(ss: &[S]) -> bool {
    ss.iter().any(|s| match s {
        S::ExitFor(_) | S::ReturnIf(_) => true,
        S::For(_, _, _, _, b, _) | S::IfSkip(_, b) | S::While(_, _, b) => contains_exit(b),
        S::OnGoto(_, bs) => bs.iter().any(|b| contains_exit(b)),
        _ => false,
    })
}

/// a non-negative selector for ON (a negative one is ILLEGAL FUNCTION CALL)
fn gen_sel(rng: &mut Rng, loopvars: &[usize]) -> E {
    if !loopvars.is_empty() && rng.chance(1, 2) { E::V(*rng.pick(loopvars)) } else { E::N(rng.below(5) as i64) }
}

fn gen_e(rng: &mut Rng, depth: usize, loopvars: &[usize]) -> E {
    if depth == 0 || rng.chance(1, 2) {
        return match rng.below(3) {
            0 => E::N(rng.below(9) as i64 - 3),
            1 => E::V(rng.below(5)),
            _ => {
                if loopvars.is_empty() { E::N(rng.below(5) as i64) } else { E::V(*rng.pick(loopvars)) }
            }
        };
    }
    let a = Box::new(gen_e(rng, depth - 1, loopvars));
    let b = Box::new(gen_e(rng, depth - 1, loopvars));
    match rng.below(3) {
        0 => E::Add(a, b),
        1 => E::Sub(a, b),
        _ => E::Mul(a, Box::new(E::N(rng.below(4) as i64))),
    }
}
fn gen_c(rng: &mut Rng, loopvars: &[usize]) -> C {
    let a = gen_e(rng, 1, loopvars);
    let b = gen_e(rng, 1, loopvars);
    match rng.below(4) {
        0 => C::Lt(a, b),
        1 => C::Eq(a, b),
        2 => C::Ge(a, b),
        _ => C::Ne(a, b),
    }
}
fn gen_simple(rng: &mut Rng, tag: &mut usize, loopvars: &[usize]) -> S {
    match rng.below(4) {
        0 => {
            *tag += 1;
            S::Tag(*tag)
        }
        1 => S::PrintVar(rng.below(5)),
        _ => S::Let(rng.below(5), gen_e(rng, 2, loopvars)),
    }
}
fn gen_block(rng: &mut Rng, depth: usize, tag: &mut usize, loopvars: &mut Vec<usize>, nsubs: usize, wcount: &mut usize, in_for: bool) -> Vec<S> {
    let n = 1 + rng.below(3);
    let mut v = vec![];
    for _ in 0..n {
        let k = rng.below(if depth == 0 { 4 } else { 12 });
        match k {
            0..=3 => v.push(gen_simple(rng, tag, loopvars)),
            4 => {
                let c = gen_c(rng, loopvars);
                let a = Box::new(gen_simple(rng, tag, loopvars));
                let b = if rng.chance(1, 2) { Some(Box::new(gen_simple(rng, tag, loopvars))) } else { None };
                v.push(S::IfElse(c, a, b));
            }
            5 => {
                let c = gen_c(rng, loopvars);
                let body = gen_block(rng, depth - 1, tag, loopvars, nsubs, wcount, in_for);
                v.push(S::IfSkip(c, body));
            }
            6 | 7 => {
                if loopvars.len() < 3 {
                    let lv = 10 + loopvars.len();
                    let (a, b, st) = *rng.pick(&[(1i64, 3i64, 1i64), (3, 1, -1), (0, 4, 2), (5, 1, 1), (2, 2, 1), (1, 2, 1), (10, 0, -5)]);
                    loopvars.push(lv);
                    let mut body = gen_block(rng, depth - 1, tag, loopvars, nsubs, wcount, true);
                    if rng.chance(1, 5) {
                        body.push(S::ExitFor(C::Eq(E::V(lv), E::N(a + st))));
                    }
                    loopvars.pop();
                    // an abandoned inner frame is only discarded by a NEXT that names the outer variable
                    let inner_exit = body.iter().any(|s| matches!(s, S::For(_, _, _, _, b, _) if contains_exit(b)) || matches!(s, S::IfSkip(_, b) | S::While(_, _, b) if contains_exit(b)));
                    let named = inner_exit || rng.chance(1, 2);
                    v.push(S::For(lv, a, b, st, body, named));
                }
            }
            8 => {
                if *wcount < 5 {
                    // WHILE over a dedicated counter variable (never assigned elsewhere): A..E are 0..4, counters use slots 5..9
                    let wv = 5 + *wcount;
                    *wcount += 1;
                    let body = gen_block(rng, depth - 1, tag, loopvars, nsubs, wcount, in_for);
                    v.push(S::While(wv, 1 + rng.below(3) as i64, body));
                }
            }
            9 => {
                if nsubs > 0 {
                    v.push(S::Gosub(rng.below(nsubs)));
                }
            }
            10 => {
                if nsubs > 0 {
                    let ks: Vec<usize> = (0..1 + rng.below(3)).map(|_| rng.below(nsubs)).collect();
                    v.push(S::OnGosub(gen_sel(rng, loopvars), ks));
                }
            }
            _ => {
                if !in_for {
                    let nb = 1 + rng.below(3);
                    let blocks: Vec<Vec<S>> = (0..nb).map(|_| vec![gen_simple(rng, tag, loopvars)]).collect();
                    v.push(S::OnGoto(gen_sel(rng, loopvars), blocks));
                }
            }
        }
    }
    v
}

pub fn gen_c01<W: Write>(w: &mut W, tier: &str, seed: u64) {
    let mut rng = Rng::new(seed ^ 0xC01);
    // line 0 as a branch target of every branching statement, after statements that allocate local labels
    let zero: Vec<(Vec<&str>, &str)> = vec![
        (vec!["0 N=N+1:PRINT N;", "10 IF N<3 THEN GOTO 0", "20 PRINT \"DONE\""], " 1  2  3 DONE\nREADY.\n"),
        (vec!["0 N=N+1:PRINT N;", "10 IF N<3 THEN 0", "20 PRINT \"DONE\""], " 1  2  3 DONE\nREADY.\n"),
        (vec!["0 N=N+1:PRINT N;", "10 IF N>=3 THEN 20 ELSE 0", "20 PRINT \"DONE\""], " 1  2  3 DONE\nREADY.\n"),
        (vec!["0 N=N+1:PRINT \"TOP\";N;", "10 FOR I=1 TO 2:PRINT I;:NEXT I", "20 IF N=2 THEN END", "30 GOTO 0"], "TOP 1  1  2 TOP 2  1  2 \nREADY.\n"),
        (vec!["0 IF S THEN PRINT \"SUB\";:RETURN", "10 WHILE W<2:W=W+1:WEND", "20 S=1:GOSUB 0", "30 PRINT \"BACK\""], "SUBBACK\nREADY.\n"),
        (vec!["0 N=N+1:IF N>3 THEN END", "10 PRINT N;", "20 ON 1 GOTO 0"], " 1  2  3 \nREADY.\n"),
        (vec!["0 N=N+1:IF N>2 THEN PRINT \"R\":RETURN", "10 PRINT N;", "20 ON 2 GOSUB 30,0", "25 END", "30 PRINT \"WRONG\""], " 1  2 R\nREADY.\n"),
        (vec!["0 DATA 7", "10 READ A:PRINT A;", "20 K=K+1:IF K<2 THEN RESTORE 0:GOTO 10"], " 7  7 \nREADY.\n"),
        // FOR evaluates the start, then the limit, then the step: of two failing expressions the earlier one reports
        (vec!["10 DIM A(2)", "20 FOR I=1 TO A(5) STEP CHR$(1)+1", "30 PRINT I", "40 NEXT I"], "?SUBSCRIPT OUT OF RANGE IN 20\nREADY.\n"),
        (vec!["10 DIM A(2)", "20 FOR I=1 TO CHR$(1)+1 STEP A(5)", "30 PRINT I", "40 NEXT I"], "?TYPE MISMATCH IN 20\nREADY.\n"),
        (vec!["10 DIM A(2)", "20 FOR I=A(7) TO CHR$(1)+1 STEP 1/0%", "40 NEXT I"], "?SUBSCRIPT OUT OF RANGE IN 20\nREADY.\n"),
        (vec!["20 FOR I=1 TO 2 STEP \"x\"+1", "40 NEXT I"], "?TYPE MISMATCH IN 20\nREADY.\n"),
        // the limit and the step are evaluated once, after the variable was assigned
        (vec!["10 L=3:S=-1", "20 FOR I=9 TO L STEP S*2:L=0:S=5:PRINT I;:NEXT I", "30 FOR J=1 TO 2:FOR K=1 TO 2:PRINT J*10+K;:NEXT K,J:PRINT J;K"], " 9  7  5  3  11  12  21  22  3  3 \nREADY.\n"),
        (vec!["10 I=5:FOR I=1 TO I+1:PRINT I;:NEXT"], " 1  2 \nREADY.\n"),
        // any non-zero value is true, however small; only zero (of either sign) is false
        (vec!["10 IF 1E-9 THEN PRINT \"T\" ELSE PRINT \"F\"", "20 IF 1D-300 THEN PRINT \"T\" ELSE PRINT \"F\"", "30 IF -1E-38 THEN PRINT \"T\" ELSE PRINT \"F\"", "40 IF 0! THEN PRINT \"T\" ELSE PRINT \"F\"", "50 IF -0# THEN PRINT \"T\" ELSE PRINT \"F\""], "T\nT\nT\nF\nF\nREADY.\n"),
        (vec!["10 X=1:N%=0", "20 WHILE X:X=X/1024:N%=N%+1:IF N%>40 THEN X=0", "30 WEND:PRINT N%"], " 15 \nREADY.\n"),
        (vec!["10 X#=1#-.9999999999999999#:IF X# GOTO 30", "20 PRINT \"F\":END", "30 PRINT \"T\""], "T\nREADY.\n"),
        (vec!["10 A=1E-20:B#=1D-200", "20 IF A THEN IF B# THEN PRINT \"TT\" ELSE PRINT \"TF\" ELSE PRINT \"F\""], "TT\nREADY.\n"),
    ];
    for (prog, expected) in zero {
        let mut v = vec![hex(expected)];
        v.extend(prog.iter().map(|l| l.to_string()));
        emit(w, "C01", "expectrun", &v, &[]);
    }
    let n = if tier == "thorough" { 50_000 } else { 1_500 };
    for _ in 0..n {
        let mut tag = 0usize;
        let nsubs = rng.below(3);
        let mut wcount = 0usize;
        let subs: Vec<Vec<S>> = (0..nsubs)
            .map(|_| {
                let mut b: Vec<S> = (0..1 + rng.below(2)).map(|_| gen_simple(&mut rng, &mut tag, &[])).collect();
                if rng.chance(1, 2) {
                    // a subroutine that leaves its own FOR loop with RETURN (loop variable L is reserved for subroutines)
                    let upto = 2 + rng.below(3) as i64;
                    let at = 1 + rng.below(upto as usize + 1) as i64;
                    let inner = vec![gen_simple(&mut rng, &mut tag, &[13]), S::ReturnIf(C::Eq(E::V(13), E::N(at)))];
                    b.push(S::For(13, 1, upto, 1, inner, rng.chance(1, 2)));
                }
                b
            })
            .collect();
        let mut lv = vec![];
        let main = gen_block(&mut rng, 2, &mut tag, &mut lv, nsubs, &mut wcount, false);
        // expected transcript by the reference interpreter
        let mut it = Interp { returning: false, vars: vec![0; 10], loopv: vec![0; 4], out: String::new(), subs: subs.clone(), steps: 0 };
        exec(&main, &mut it);
        if it.steps > 15000 || it.vars.iter().chain(it.loopv.iter()).any(|v| v.abs() > 30000) {
            continue;
        }
        let stop = rng.chance(1, 6);
        // BASIC text
        let start = *rng.pick(&[10u32, 100, 1000, 0, 0, 1]); // line 0 is a line like any other (also as a branch target)
        let step = *rng.pick(&[10u32, 5, 1]);
        let mut em = Emit { lines: vec![], n: start, step };
        let mut sub_ref = vec![];
        let mut ef = vec![];
        emit_stmts(&main, &mut em, &mut sub_ref, &mut ef);
        let end_line = em.line(if stop { "STOP".into() } else { "END".into() });
        let mut sub_lines = vec![];
        for sb in &subs {
            sub_lines.push(em.n);
            let mut sr = vec![];
            let mut e2 = vec![];
            emit_stmts(sb, &mut em, &mut sr, &mut e2);
            em.line("RETURN".into());
        }
        let mut text: Vec<String> = vec![];
        for (n, s) in em.lines.iter() {
            let mut t = s.clone();
            for (k, ln) in sub_lines.iter().enumerate() {
                t = t.replace(&format!("@S{}@", k), &ln.to_string());
            }
            // WHILE counters are named W1..W5
            text.push(format!("{} {}", n, t));
        }
        let text: Vec<String> = text.into_iter().map(|t| t).collect();
        let mut expected = it.out.clone();
        if stop {
            expected.push_str(&format!("?BREAK IN {}\n", end_line));
        }
        expected.push_str("READY.\n");
        let mut v = vec![hex(&expected)];
        v.extend(text);
        let _ = WN;
        emit(w, "C01", "expectrun", &v, &[]);
    }
}

/// C11: print lists with predicted layout
pub fn gen_c11<W: Write>(w: &mut W, tier: &str, seed: u64) {
    let mut rng = Rng::new(seed ^ 0xC11);
    let n = if tier == "thorough" { 50_000 } else { 1_500 };
    for _ in 0..n {
        let nl = 1 + rng.below(4);
        let mut col = 0usize;
        let mut expected = String::new();
        let mut lines: Vec<String> = vec![];
        for li in 0..nl {
            let ni = rng.below(6);
            let mut stmt = String::from("PRINT ");
            let mut last_sep = false;
            for _ in 0..ni {
                let put = |s: &str, col: &mut usize, expected: &mut String| {
                    expected.push_str(s);
                    *col += s.chars().count();
                };
                match rng.below(8) {
                    7 => {
                        // a string carrying a newline: the column is the number of characters after it
                        let (a, b) = (*rng.pick(&["", "AB", "hello wide world"]), *rng.pick(&["", "C", "xyz"]));
                        stmt.push_str(&format!("\"{}\"+CHR$(10)+\"{}\"", a, b));
                        expected.push_str(a);
                        expected.push('\n');
                        col = 0;
                        put(b, &mut col, &mut expected);
                    }
                    0 | 1 => {
                        let s = *rng.pick(&["A", "hello", "", "xy z", "0123456789ABCDE", "é日"]);
                        stmt.push_str(&format!("\"{}\"", s));
                        put(s, &mut col, &mut expected);
                    }
                    2 | 3 => {
                        let v = rng.below(2000) as i64 - 500;
                        stmt.push_str(&if v < 0 { format!("({})", v) } else { v.to_string() });
                        put(&fmt_int(v), &mut col, &mut expected);
                    }
                    4 => {
                        let t = rng.below(40);
                        stmt.push_str(&format!("TAB({})", t));
                        if t > col {
                            let pad = " ".repeat(t - col);
                            put(&pad, &mut col, &mut expected);
                        }
                    }
                    5 => {
                        let t = rng.below(6);
                        stmt.push_str(&format!("SPC({})", t));
                        put(&" ".repeat(t), &mut col, &mut expected);
                    }
                    _ => {
                        stmt.push_str("POS(0)");
                        let c = col as i64;
                        put(&fmt_int(c), &mut col, &mut expected);
                    }
                }
                last_sep = false;
                match rng.below(4) {
                    0 => {
                        stmt.push(';');
                        last_sep = true;
                    }
                    1 => {
                        stmt.push(',');
                        last_sep = true;
                        let pad = 14 - col % 14;
                        put(&" ".repeat(pad), &mut col, &mut expected);
                    }
                    _ => stmt.push(' '),
                }
            }
            if !last_sep {
                expected.push('\n');
                col = 0;
            }
            lines.push(format!("{} {}", 10 * (li + 1), stmt));
        }
        if col > 0 {
            expected.push('\n');
        }
        expected.push_str("READY.\n");
        let mut v = vec![hex(&expected)];
        v.extend(lines);
        emit(w, "C11", "expectrun", &v, &[]);
    }
}

/// C17: INPUT statements × replies with the documented split / conversion rules
pub fn gen_c17<W: Write>(w: &mut W, tier: &str, seed: u64) {
    let mut rng = Rng::new(seed ^ 0xC17);
    let n = if tier == "thorough" { 50_000 } else { 1_500 };
    // numeric field spellings and their integer values
    let nums: &[(&str, i64)] = &[("12", 12), (" 12 ", 12), ("+7", 7), ("-12", -12), ("1E2", 100), ("1.5E1", 15), ("2D1", 20), ("&H1F", 31), ("&H0D", 13), ("&hde", 222), ("&H1D0", 464), ("&HE", 14), ("&H7ED", 2029), ("&17", 15), ("12.0", 12), ("", 0), ("  ", 0), ("0", 0), ("32767", 32767), ("-0", 0), ("3!", 3), ("4#", 4), ("5%", 5), (".5E1", 5), ("5.", 5)];
    let bad: &[&str] = &["12abc", "abc", "1 2", "--1", "15x", "&HG", "\"5\"", "1E", "$"];
    let strs: &[(&str, &str)] = &[("éa", "éa"), ("日本 語", "日本 語"), (" ü ", "ü"), ("\"é,ü\"", "é,ü"), ("abc", "abc"), ("  abc  ", "abc"), ("\"a,b\"", "a,b"), ("\" x \"", " x "), ("", ""), ("\"\"", ""), ("hello world", "hello world"), ("\"q\" ", "q")];
    // a field that is exactly one double quote is ordinary text (nothing to strip)
    for (stmt, reply, shown) in [("INPUT A$", "\"", "[\"]"), ("INPUT A$", " \" ", "[\"]"), ("INPUT N,A$", "7, \"", " 7 [\"]"), ("INPUT A$", "\"\"", "[]"), ("INPUT A$", "\"\"\"", "[\"]"), ("INPUT A$", "a\"", "[a\"]")] {
        let print = if stmt.contains("N,") { "PRINT N;\"[\";A$;\"]\"" } else { "PRINT \"[\";A$;\"]\"" };
        let expected = format!("? {}\n{}\nREADY.\n", reply, shown);
        let v = vec![hex(&expected), format!("10 {}", stmt), format!("20 {}", print)];
        emit(w, "C17", "expectrun", &v, &[reply.to_string()]);
    }
    for _ in 0..n {
        let k = 1 + rng.below(3);
        let mut vars: Vec<String> = vec![];
        let mut fields: Vec<String> = vec![];
        let mut shown: Vec<String> = vec![];
        let mut ok = true;
        for i in 0..k {
            match rng.below(4) {
                0 => {
                    vars.push(format!("S{}$", i));
                    let (f, v) = *rng.pick(strs);
                    // a field containing a comma only survives inside quotes; with one variable the whole reply is the field
                    fields.push(f.to_string());
                    shown.push(v.to_string());
                }
                t => {
                    let name = match t {
                        1 => format!("N{}", i),
                        2 => format!("N{}%", i),
                        _ => format!("N{}#", i),
                    };
                    vars.push(name);
                    if rng.chance(1, 7) {
                        fields.push(rng.pick(bad).to_string());
                        shown.push(String::new());
                        ok = false;
                    } else {
                        let (f, v) = *rng.pick(nums);
                        fields.push(f.to_string());
                        shown.push(fmt_int(v));
                    }
                }
            }
        }
        let mut reply = fields.join(",");
        // wrong field count
        let mut count_ok = true;
        if rng.chance(1, 8) && k >= 2 {
            reply.push_str(",9");
            count_ok = false;
        } else if rng.chance(1, 10) && k >= 2 {
            reply = fields[..k - 1].join(",");
            count_ok = false;
        }
        // with a single variable a comma in the reply belongs to the field: avoid fields with commas for numerics
        if k == 1 && !vars[0].ends_with('$') && reply.contains(',') {
            continue;
        }
        if k == 1 && vars[0].ends_with('$') {
            // the whole reply, trimmed, one pair of quotes stripped
            let t = reply.trim();
            shown[0] = if t.len() >= 2 && t.starts_with('"') && t.ends_with('"') { t[1..t.len() - 1].to_string() } else { t.to_string() };
        }
        let prompt = if rng.chance(1, 2) { "Q" } else { "" };
        let stmt = if prompt.is_empty() { format!("INPUT {}", vars.join(",")) } else { format!("INPUT \"{}\";{}", prompt, vars.join(",")) };
        let print = format!("PRINT {}", vars.iter().map(|v| if v.ends_with('$') { format!("\"[\";{};\"]\"", v) } else { v.clone() }).collect::<Vec<_>>().join(";"));
        let good_fields: Vec<String> = vars.iter().map(|v| if v.ends_with('$') { "z".to_string() } else { "1".to_string() }).collect();
        let good_reply = good_fields.join(",");
        let mut expected = format!("{}? {}\n", prompt, reply);
        let accepted = ok && count_ok;
        let final_shown: Vec<String> = if accepted {
            shown.clone()
        } else {
            expected.push_str("?REDO FROM START\n");
            expected.push_str(&format!("{}? {}\n", prompt, good_reply));
            vars.iter().map(|v| if v.ends_with('$') { "z".to_string() } else { fmt_int(1) }).collect()
        };
        let mut line = String::new();
        for (v, s) in vars.iter().zip(final_shown.iter()) {
            if v.ends_with('$') {
                line.push_str(&format!("[{}]", s));
            } else {
                line.push_str(s);
            }
        }
        expected.push_str(&line);
        expected.push('\n');
        expected.push_str("READY.\n");
        let v = vec![hex(&expected), format!("10 {}", stmt), format!("20 {}", print)];
        emit(w, "C17", "expectrun", &v, &[reply, good_reply]);
    }
}

// ---------------------------------------------------------------------------------------------
// C16 spelling variants

fn respell(rng: &mut Rng, line: &str, free_spacing: bool) -> String {
    // split into segments outside / inside string literals; REM text is left alone
    let mut out = String::new();
    let mut in_str = false;
    let up = line.to_uppercase();
    let rem_at = {
        // position of REM / ' outside strings
        let mut q = false;
        let mut pos = None;
        let cs: Vec<char> = up.chars().collect();
        let mut i = 0;
        while i < cs.len() {
            if cs[i] == '"' {
                q = !q;
            }
            if !q && (cs[i] == '\'' || (i + 3 <= cs.len() && cs[i..i + 3].iter().collect::<String>() == "REM")) {
                pos = Some(i);
                break;
            }
            i += 1;
        }
        pos
    };
    let cs: Vec<char> = line.chars().collect();
    let limit = rem_at.unwrap_or(cs.len());
    let mut i = 0;
    while i < limit {
        let c = cs[i];
        if c == '"' {
            in_str = !in_str;
            out.push(c);
            i += 1;
            continue;
        }
        if in_str {
            out.push(c);
            i += 1;
            continue;
        }
        let rest: String = cs[i..limit].iter().collect::<String>().to_uppercase();
        if rest.starts_with("PRINT") && rng.chance(1, 2) {
            out.push('?');
            i += 5;
            continue;
        }
        if rest.starts_with("GOTO") && rng.chance(1, 2) {
            out.push_str(if rng.chance(1, 2) { "GO TO" } else { "go  to" });
            i += 4;
            continue;
        }
        if rest.starts_with("GOSUB") && rng.chance(1, 2) {
            out.push_str("GO SUB");
            i += 5;
            continue;
        }
        if rest.starts_with("<=") && rng.chance(1, 2) {
            out.push_str(*rng.pick(&["=<", "< =", "= <"]));
            i += 2;
            continue;
        }
        if rest.starts_with(">=") && rng.chance(1, 2) {
            out.push_str(*rng.pick(&["=>", "> =", "= >"]));
            i += 2;
            continue;
        }
        if rest.starts_with("<>") && rng.chance(1, 2) {
            out.push_str("< >");
            i += 2;
            continue;
        }
        if c == ' ' && free_spacing {
            // blanks next to punctuation or an operator character are optional (the listing keeps them as typed)
            let prev = out.chars().last().unwrap_or('x');
            let next = cs.get(i + 1).copied().unwrap_or('x');
            let punct = |ch: char| "=+-*/(),;:<>^\\".contains(ch);
            if (punct(prev) || punct(next)) && rng.chance(1, 2) {
                i += 1;
                continue;
            }
            if rng.chance(1, 5) {
                out.push(' ');
            }
            out.push(' ');
            i += 1;
            continue;
        }
        if c.is_ascii_alphabetic() && rng.chance(1, 2) {
            out.push(c.to_ascii_lowercase());
        } else {
            out.push(c);
        }
        i += 1;
    }
    if let Some(r) = rem_at {
        let tail: String = cs[r..].iter().collect();
        if tail.to_uppercase().starts_with("REM") && rng.chance(1, 2) {
            out.push('\'');
            out.push_str(&tail[3..]);
        } else if tail.to_uppercase().starts_with("REM") {
            out.push_str(if rng.chance(1, 2) { "rem" } else { "REM" });
            out.push_str(&tail[3..]);
        } else {
            out.push_str(&tail);
        }
    }
    out
}

fn canon_listing(s: &str) -> String {
    // apart from an optional LET and the choice of remark marker
    let s = s.replace("LET ", "");
    let mut q = false;
    let mut out = String::new();
    let cs: Vec<char> = s.chars().collect();
    let mut i = 0;
    while i < cs.len() {
        if cs[i] == '"' {
            q = !q;
        }
        if !q && cs[i] == '\'' {
            out.push_str("REM");
            out.extend(cs[i + 1..].iter());
            return out;
        }
        if !q && i + 3 <= cs.len() && cs[i..i + 3].iter().collect::<String>() == "REM" {
            out.extend(cs[i..].iter());
            return out;
        }
        out.push(cs[i]);
        i += 1;
    }
    out
}

fn oracle_spelling(lines: &[String]) -> String {
    let a = &lines[0];
    let b = &lines[1];
    let list_too = lines.get(2).map_or(true, |s| s == "list");
    let la = Line::new(a).to_string();
    let lb = Line::new(b).to_string();
    if list_too && canon_listing(&la) != canon_listing(&lb) {
        return fail(format!("{:?} lists as {:?} but {:?} lists as {:?}", a, la, b, lb));
    }
    let run = |l: &str| -> String {
        let mut r = Run::new();
        r.line("10 DATA 5,6,7");
        r.line("20 PRINT \"L20\":END");
        r.take();
        r.line(l);
        r.take()
    };
    let (ta, tb) = (run(a), run(b));
    if ta != tb {
        return fail(format!("{:?} ran as {:?} but {:?} ran as {:?}", a, ta, b, tb));
    }
    "ok".into()
}

pub fn gen_c16<W: Write>(w: &mut W, tier: &str, seed: u64) {
    let mut rng = Rng::new(seed ^ 0xC16);
    let n = if tier == "thorough" { 200 } else { 20 };
    let skip = |l: &str| l.starts_with("RUN") || l.starts_with("LOAD") || l.starts_with("SAVE") || l.contains("RND") || l.starts_with("NEW") || l.starts_with("CONT") || l.contains("INPUT") || l.starts_with("RENUM") || l.starts_with("DELETE") || l.starts_with("GO ");
    for l in LINES {
        if skip(l) {
            continue;
        }
        for _ in 0..n {
            let v = respell(&mut rng, l, false);
            emit(w, "C16", "spelling", &[l.to_string(), v, "list".into()], &[]);
            let v = respell(&mut rng, l, true);
            emit(w, "C16", "spelling", &[l.to_string(), v, "run".into()], &[]);
        }
    }
    // a number directly followed by a word: the blank between them is optional and changes nothing, whatever the
    // word's first letter is (E and D included) and whatever the size of the results
    let words = ["ELSE", "EQV", "AND", "OR", "XOR", "IMP", "MOD", "TO", "STEP", "THEN", "GOTO", "DIV"];
    let k = if tier == "thorough" { 4_000 } else { 300 };
    for _ in 0..k {
        let nums = [rng.below(400) as i64, rng.below(400) as i64, rng.below(40000) as i64, rng.below(9) as i64 + 1];
        let wd = *rng.pick(&words);
        let spaced = match wd {
            "ELSE" => format!("A={}:IF A THEN PRINT {}*{} ELSE PRINT {}", nums[3] % 2, nums[0], nums[1], nums[2]),
            "TO" | "STEP" => format!("FOR I={} TO {} STEP {}:PRINT I*{};:NEXT", nums[3], nums[3] + 3, nums[3], nums[0]),
            "THEN" | "GOTO" => format!("IF {} THEN PRINT {}*{}", nums[0], nums[1], nums[0]),
            "DIV" => format!("D={}:PRINT {}*{} /D", nums[3], nums[0], nums[1]),
            _ => format!("PRINT {}*{} {} {}", nums[0], nums[1], wd, nums[2] % 32768),
        };
        // the same line with the blanks between digits and letters removed
        let b: Vec<char> = spaced.chars().collect();
        let mut glued = String::new();
        for i in 0..b.len() {
            if b[i] == ' ' && i > 0 && i + 1 < b.len() && b[i - 1].is_ascii_digit() && b[i + 1].is_ascii_alphabetic() {
                continue;
            }
            glued.push(b[i]);
        }
        emit(w, "C16", "spelling", &[spaced.clone(), glued.clone(), "run".into()], &[]);
        emit(w, "C16", "spelling", &[spaced, glued, "list".into()], &[]);
    }
    let m = if tier == "thorough" { 20_000 } else { 1_000 };
    for _ in 0..m {
        let sz = 1 + rng.below(3);
        let p = gen_program(&mut rng, sz);
        let (_, l) = &p.lines[rng.below(p.lines.len())];
        if skip(l) {
            continue;
        }
        let v = respell(&mut rng, l, false);
        emit(w, "C16", "spelling", &[l.clone(), v, "list".into()], &[]);
        let v = respell(&mut rng, l, true);
        emit(w, "C16", "spelling", &[l.clone(), v, "run".into()], &[]);
        if !l.to_uppercase().starts_with("LET ") && l.chars().next().map_or(false, |c| c.is_ascii_alphabetic()) && l.contains('=') && !l.to_uppercase().starts_with("IF") && !l.to_uppercase().starts_with("FOR") && !l.to_uppercase().starts_with("MID$") && !l.to_uppercase().starts_with("DEF") && !l.to_uppercase().starts_with("ON") && !l.to_uppercase().starts_with("PRINT") && !l.to_uppercase().starts_with("DIM") && !l.to_uppercase().starts_with("DATA") && !l.to_uppercase().starts_with("READ") && !l.to_uppercase().starts_with("SWAP") && !l.to_uppercase().starts_with("WHILE") && !l.to_uppercase().starts_with("REM") && !l.to_uppercase().starts_with("GOSUB") && !l.to_uppercase().starts_with("NEXT") && !l.to_uppercase().starts_with("RESTORE") && !l.to_uppercase().starts_with("END") && !l.to_uppercase().starts_with("RETURN") {
            emit(w, "C16", "spelling", &[l.clone(), format!("LET {}", l)], &[]);
        }
    }
}

// ---------------------------------------------------------------------------------------------
// C02 precedence: parse ∘ render = id on the real parser

#[derive(Clone)]
enum T {
    Leaf(String),
    Neg(Box<T>),
    Not(Box<T>),
    Bin(usize, Box<T>, Box<T>),
}
// the manual's table (chapter 1): operator text, AST name, precedence
const OPS: &[(&str, &str, u32)] = &[
    ("^", "Power", 13), ("*", "Multiply", 11), ("/", "Divide", 11), ("\\", "DivideInt", 10), (" MOD ", "Modulo", 9), ("+", "Add", 8), ("-", "Subtract", 8),
    ("=", "Equal", 7), ("<>", "NotEqual", 7), ("<", "Less", 7), ("<=", "LessEqual", 7), (">", "Greater", 7), (">=", "GreaterEqual", 7),
    (" AND ", "And", 5), (" OR ", "Or", 4), (" XOR ", "Xor", 3), (" IMP ", "Imp", 2), (" EQV ", "Eqv", 1),
];
fn level(t: &T) -> u32 {
    match t {
        T::Leaf(_) => 100,
        T::Neg(_) => 12,
        T::Not(_) => 6,
        T::Bin(o, _, _) => OPS[*o].2,
    }
}
fn render(t: &T, rng: &mut Rng, extra: bool) -> String {
    let child = |c: &T, need: bool, rng: &mut Rng| -> String {
        let s = render(c, rng, extra);
        if need || (extra && rng.chance(1, 4)) { format!("({})", s) } else { s }
    };
    match t {
        T::Leaf(s) => s.clone(),
        // the operand of a unary operator: parenthesise anything that binds less tightly
        T::Neg(c) => format!("-{}", child(c, level(c) < 12, rng)),
        T::Not(c) => format!("NOT {}", child(c, level(c) < 6, rng)),
        T::Bin(o, l, r) => {
            let p = OPS[*o].2;
            // left-associative: the right operand needs parentheses at equal precedence;
            // a unary operator as right operand is parsed whole, as left operand it must bind tighter
            let ls = child(l, level(l) < p, rng);
            let need_r = match **r {
                // a following operator binds at most as tightly as p; unary minus (12) captures only `^`
                T::Neg(_) => p == 13,
                _ => level(r) <= p,
            };
            let rs = child(r, need_r, rng);
            format!("{}{}{}", ls, OPS[*o].0, rs)
        }
    }
}
fn tshape(t: &T) -> String {
    match t {
        T::Leaf(s) => format!("(V (U P:{}))", hex(s)),
        T::Neg(c) => format!("(Negation {})", tshape(c)),
        T::Not(c) => format!("(Not {})", tshape(c)),
        T::Bin(o, l, r) => format!("({} {} {})", OPS[*o].1, tshape(l), tshape(r)),
    }
}
fn gen_t(rng: &mut Rng, depth: usize) -> T {
    if depth == 0 || rng.chance(1, 4) {
        return T::Leaf(rng.pick(&["A", "B", "C", "X", "Y"]).to_string());
    }
    match rng.below(8) {
        0 => T::Neg(Box::new(gen_t(rng, depth - 1))),
        1 => T::Not(Box::new(gen_t(rng, depth - 1))),
        _ => T::Bin(rng.below(OPS.len()), Box::new(gen_t(rng, depth - 1)), Box::new(gen_t(rng, depth - 1))),
    }
}
/// a unary operator whose operand is followed by a tighter-binding binary operator captures it
/// (`-A^B` is `-(A^B)`): the renderer must not produce a unary node as LEFT operand of a tighter operator
fn well_formed(t: &T) -> bool {
    match t {
        T::Leaf(_) => true,
        T::Neg(c) | T::Not(c) => well_formed(c),
        T::Bin(_, l, r) => well_formed(l) && well_formed(r),
    }
}

fn oracle_render(lines: &[String]) -> String {
    let text = &lines[0];
    let expected = &lines[1];
    let (ln, toks) = lex(&format!("R={}", text));
    match parse(ln, &toks) {
        Ok(ast) => {
            if let Some(Statement::Let(_, _, e)) = ast.first() {
                let got = strip_cols(&astproto::expr(e));
                if &got != expected {
                    return fail(format!("{} parsed as {} expected {}", text, got, expected));
                }
                "ok".into()
            } else {
                fail(format!("{} did not parse as an assignment", text))
            }
        }
        Err(e) => fail(format!("{} rejected: {}", text, e)),
    }
}

pub fn gen_c02<W: Write>(w: &mut W, tier: &str, seed: u64) {
    let mut rng = Rng::new(seed ^ 0xC02);
    // every ordered pair of binary operators, both groupings
    for a in 0..OPS.len() {
        for b in 0..OPS.len() {
            let leaf = |s: &str| Box::new(T::Leaf(s.to_string()));
            for t in [T::Bin(b, Box::new(T::Bin(a, leaf("A"), leaf("B"))), leaf("C")), T::Bin(a, leaf("A"), Box::new(T::Bin(b, leaf("B"), leaf("C"))))] {
                let txt = render(&t, &mut rng, false);
                emit(w, "C02", "render", &[txt, tshape(&t)], &[]);
            }
        }
        let leaf = |s: &str| Box::new(T::Leaf(s.to_string()));
        for t in [T::Bin(a, Box::new(T::Neg(leaf("A"))), leaf("B")), T::Bin(a, leaf("A"), Box::new(T::Neg(leaf("B")))), T::Neg(Box::new(T::Bin(a, leaf("A"), leaf("B")))), T::Not(Box::new(T::Bin(a, leaf("A"), leaf("B")))), T::Bin(a, Box::new(T::Not(leaf("A"))), leaf("B")), T::Bin(a, leaf("A"), Box::new(T::Not(leaf("B"))))] {
            let txt = render(&t, &mut rng, false);
            emit(w, "C02", "render", &[txt, tshape(&t)], &[]);
        }
    }
    // Integer arithmetic at the boundaries of the type, against exact integer arithmetic:
    // a result that fits stays an Integer, one that does not is promoted (never wrapped, never an error)
    let mut bset: Vec<i64> = vec![-32768, -32767, -32766, -256, -2, -1, 0, 1, 2, 3, 255, 256, 16384, 32766, 32767];
    for _ in 0..(if tier == "thorough" { 40 } else { 6 }) {
        bset.push(rng.below(65536) as i64 - 32768);
    }
    let show = |v: i64| if v < 0 { format!("{} ", v) } else { format!(" {} ", v) };
    let lit = |v: i64| if v < 0 { format!("({})", v) } else { format!("{}", v) };
    for &a in &bset {
        for &b in &bset {
            // None = ?OVERFLOW ("All Integer arithmetic is always checked for overflows")
            let fit = |v: i64| if (-32768..=32767).contains(&v) { Some(v) } else { None };
            let neg = |v: Option<i64>| v.and_then(|x| fit(-x));
            let mut cases: Vec<(String, Option<i64>)> = vec![
                ("A%+B%".into(), fit(a + b)),
                ("A%-B%".into(), fit(a - b)),
                ("-A%-B%".into(), neg(Some(a)).and_then(|x| fit(x - b))),
                ("A%-(-B%)".into(), neg(Some(b)).and_then(|x| fit(a - x))),
                ("A%+(-B%)".into(), neg(Some(b)).and_then(|x| fit(a + x))),
                ("(A%=B%)".into(), Some(-((a == b) as i64))),
                ("(A%<>B%)".into(), Some(-((a != b) as i64))),
                ("(A%<B%)".into(), Some(-((a < b) as i64))),
                ("(A%<=B%)".into(), Some(-((a <= b) as i64))),
                ("(A%>B%)".into(), Some(-((a > b) as i64))),
                ("(A%>=B%)".into(), Some(-((a >= b) as i64))),
                ("A% AND B%".into(), Some(a & b)),
                ("A% OR B%".into(), Some(a | b)),
                ("A% XOR B%".into(), Some(a ^ b)),
                ("A% IMP B%".into(), Some(!a | b)),
                ("A% EQV B%".into(), Some(!(a ^ b))),
                ("NOT A%".into(), Some(!a)),
                ("-A%".into(), fit(-a)),
                ("A%*B%".into(), fit(a * b)),
            ];
            // literals: 32768 does not fit an Integer, so (-32768) is a Single and the arithmetic is done in Single
            let single = a == -32768 || b == -32768;
            cases.push((format!("{}+{}", lit(a), lit(b)), if single { Some(a + b) } else { fit(a + b) }));
            cases.push((format!("{}-{}", lit(a), lit(b)), if single { Some(a - b) } else { fit(a - b) }));
            if b != 0 {
                cases.push(("A%\\B%".into(), fit(a / b))); // truncating
                if a % b == 0 && a != 0 {
                    cases.push(("A%/B%".into(), Some(a / b))); // computed in Single
                }
            }
            for (e, want) in cases {
                let line = format!("A%={}:B%={}:PRINT {}", a, b, e);
                let expected = match want {
                    Some(v) => format!("{}\nREADY.\n", show(v)),
                    None => "?OVERFLOW\nREADY.\n".to_string(),
                };
                emit(w, "C02", "expectdirect", &[hex(&expected), line], &[]);
            }
        }
    }
    // assignment to an Integer variable (and CINT) floors a Single or Double and raises OVERFLOW exactly
    // when the floor lies outside -32768..32767
    for v in ["32767.25", "32767.5", "32767.75", "32766.5", "32768", "32768.5", "-32768", "-32768.25", "-32768.5", "-32767.5", "-32769", "0.5", "-0.5", "-0.25", "1.999", "-1.001", "99999", "-99999"] {
        let x: f64 = v.parse().unwrap();
        let f = x.floor();
        for suffix in ["!", "#"] {
            // the value as that type holds it (7 significant digits suffice for these Singles)
            let held = if suffix == "!" { (x as f32) as f64 } else { x };
            let f = if suffix == "!" { held.floor() } else { f };
            let ok = (-32768.0..=32767.0).contains(&f);
            let lit = if v.starts_with('-') { format!("({}{})", v, suffix) } else { format!("{}{}", v, suffix) };
            let expected = if ok { format!("{}{}\nREADY.\n", show(f as i64), show(f as i64)) } else { "?OVERFLOW\nREADY.\n".to_string() };
            emit(w, "C02", "expectdirect", &[hex(&expected), format!("A%={}:PRINT A%;CINT({})", lit, lit)], &[]);
            let expected2 = if ok { format!("{}\nREADY.\n", show(f as i64)) } else { "?OVERFLOW\nREADY.\n".to_string() };
            emit(w, "C02", "expectdirect", &[hex(&expected2), format!("DEFINT K:K={}:PRINT K", lit)], &[]);
            emit(w, "C02", "expectdirect", &[hex(&expected2), format!("PRINT {}\\1", lit)], &[]);
        }
    }
    // literal typing as the output shows it: a Single prints at most 7-8 significant digits, a Double up to 17
    let lits: [(&str, &str); 22] = [
        ("1.234567E10", " 1.234567E10 "), ("1234567E5", " 1.234567E11 "), ("1.5E10", " 1.5E10 "), ("24E9", " 2.4E10 "), ("1E5", " 100000 "), ("1D5", " 100000 "),
        ("1.234567E2=123.4567", "-1 "), ("3.333333E-10*3", " 9.999999E-10 "), ("1.2345678", " 1.2345678 "), ("12345678", " 12345678 "), ("1234567", " 1234567 "), ("32767", " 32767 "), ("32768", " 32768 "),
        ("1/3", " 0.33333334 "), ("1#/3", " 0.3333333333333333 "), ("1D0/3", " 0.3333333333333333 "), ("1E0/3", " 0.33333334 "), ("0.1+0.2", " 0.3 "), ("0.1#+0.2#", " 3.0000000000000004E-1 "),
        ("7!/2", " 3.5 "), ("7%/2", " 3.5 "), ("1.0000001E1", " 10.000001 "),
    ];
    for (e, want) in lits {
        emit(w, "C02", "expectdirect", &[hex(&format!("{}\nREADY.\n", want)), format!("PRINT {}", e)], &[]);
    }
    // promotion in mixed comparisons: a Single against a Double is compared as Doubles (the Single
    // widened exactly), never the Double narrowed; the same decimal as Single and as Double differ
    let decs = ["0.7", "0.1", "0.3", "1.1", "16777217", "3.3333333333", "123456.789", "1E-7", "0.5", "2", "-0.7", "-16777217", "1E10", "33554433", "0.2", "9.99999999"];
    for d in decs {
        let a: f32 = d.parse().unwrap();
        let b: f64 = d.parse().unwrap();
        let (x, y) = (a as f64, b);
        let t = |c: bool| if c { "-1 " } else { " 0 " };
        let expected = format!("{}{}{}{}{}{}{}{}{}{}{}{}\nREADY.\n", t(x < y), t(y > x), t(x <= y), t(y >= x), t(x > y), t(y < x), t(x >= y), t(y <= x), t(x == y), t(y == x), t(x != y), t(y != x));
        let dd = if d.contains('E') { d.replace('E', "D") } else { format!("{}#", d) };
        let line = format!("A!={}:B#={}:PRINT A!<B#;B#>A!;A!<=B#;B#>=A!;A!>B#;B#<A!;A!>=B#;B#<=A!;A!=B#;B#=A!;A!<>B#;B#<>A!", d, dd);
        emit(w, "C02", "expectdirect", &[hex(&expected), line], &[]);
        // and Integer against Single / Double beyond the Single's precision
        if let Ok(i) = d.parse::<i16>() {
            let line = format!("A%={}:B#={}.5#:C!={}.5:PRINT A%<B#;B#>A%;A%<C!;C!>A%;A%=B#;A%=C!", i, i, i);
            emit(w, "C02", "expectdirect", &[hex("-1 -1 -1 -1  0  0 \nREADY.\n"), line], &[]);
        }
    }
    let n = if tier == "thorough" { 200_000 } else { 5_000 };
    for i in 0..n {
        let d = 1 + rng.below(if i % 20 == 0 { 7 } else { 4 });
        let t = gen_t(&mut rng, d);
        if !well_formed(&t) {
            continue;
        }
        let txt = render(&t, &mut rng, i % 2 == 1);
        if txt.len() > 900 {
            continue;
        }
        emit(w, "C02", "render", &[txt, tshape(&t)], &[]);
    }
}

// ---------------------------------------------------------------------------------------------
// C03 fuzzed sessions: no panic, interrupt reaches the prompt, slices return

fn oracle_fuzz(lines: &[String]) -> String {
    let mut r = Run::new();
    let mut snaps = vec![];
    for l in lines {
        if l == "@SNAP" {
            snaps.push(r.rt.get_listing());
            continue;
        }
        if l == "@DROP" {
            snaps.pop();
            continue;
        }
        if let Some(rep) = l.strip_prefix("@REPLY ") {
            // queued answer for the next INPUT (the default answer is "1")
            r.replies.push(rep.to_string());
            continue;
        }
        if let Some(line) = l.strip_prefix("@ENTER ") {
            // typed but not yet run: the following @INT falls into the middle of it
            r.rt.enter(line);
            continue;
        }
        if let Some(k) = l.strip_prefix("@INT ") {
            let k: usize = k.parse().unwrap_or(1);
            for _ in 0..k {
                if let Event::Stopped = r.rt.execute(1) {
                    break;
                }
            }
            r.rt.interrupt();
            let mut n = 0;
            loop {
                n += 1;
                if let Event::Stopped = r.rt.execute(3) {
                    break;
                }
                if n > 4 {
                    return fail(format!("after an interrupt the interpreter was not at the prompt within 4 calls (history {:?})", lines));
                }
            }
            continue;
        }
        r.rt.enter(l);
        // bounded: at most 300 slices of 2000 instructions, then an interrupt must stop it
        if !r.idle(2000, 300) {
            r.rt.interrupt();
            let mut n = 0;
            loop {
                n += 1;
                if let Event::Stopped = r.rt.execute(3) {
                    break;
                }
                if n > 4 {
                    return fail(format!("runaway program not stopped by an interrupt within 4 calls: {:?}", l));
                }
            }
        }
        // the prompt accepts the next line: state is Stopped
        let st = r.rt.verif_state().state.clone();
        if st != "Stopped" {
            return fail(format!("after {:?} the interpreter is in state {} instead of at the prompt", l, st));
        }
    }
    "ok".into()
}

pub fn gen_c03<W: Write>(w: &mut W, tier: &str, seed: u64) {
    let mut rng = Rng::new(seed ^ 0xC03);
    let corpus: Vec<Vec<&str>> = vec![
        vec!["PRINT 1EE"], vec!["PRINT 1DD"], vec!["X=.EE"], vec!["PRINT 1E."], vec!["PRINT 1E!"], vec!["10 PRINT 1eE"],
        vec!["10 PRINT 1", "@SNAP", "20 PRINT 2", "10", "DELETE 20", "@DROP"],
        vec!["10 PRINT \"日本語日本語日本語\":GOTO 10", "RENUM 100"],
        vec!["A%=-32767-1:PRINT -A%;ABS(A%)"], vec!["10 GOTO 10", "RUN", "@INT 50", "CONT", "@INT 7"],
        vec!["10 INPUT A", "RUN", "@INT 3"], vec!["LIST", "@INT 1"], vec!["10 DEF FNA(X)=FNA(X)", "20 PRINT FNA(1)", "RUN"],
    ];
    for c in corpus {
        let v: Vec<String> = c.iter().map(|s| s.to_string()).collect();
        emit(w, "C03", "fuzz", &v, &[]);
    }
    // LIST / DELETE with a range written backwards, above the limit, or with junk operands: an error, never a crash
    for l in ["LIST 30-10", "DELETE 30-10", "LIST 65529-0", "DELETE 65529-1", "LIST 2-1", "LIST 10-9", "DELETE 20-19", "LIST 65530", "DELETE 70000-1", "LIST 1-70000", "LIST -", "DELETE -", "LIST 1.5", "DELETE 1E3", "LIST -5-", "LIST 10-20-30", "DELETE A", "LIST \"x\""] {
        emit(w, "C03", "fuzz", &["10 REM a".to_string(), "20 REM b".to_string(), "30 REM c".to_string(), l.to_string(), format!("40 {}:PRINT 1", l), "RUN".to_string(), format!("IF 1 THEN {}", l), "PRINT 7".to_string()], &[]);
        emit(w, "C03", "fuzz", &[l.to_string(), "PRINT 7".to_string()], &[]);
    }
    // one interrupt stops the interpreter whatever it is in the middle of: listing (direct, or a program
    // that lists itself for ever), waiting for INPUT / INKEY$, tracing, printing diagnostics, a loop
    let busy: Vec<Vec<&str>> = vec![
        vec!["10 LIST", "20 GOTO 10"], vec!["10 LIST:GOTO 10"], vec!["10 LIST 10:LIST:GOTO 10", "20 REM"], vec!["10 PRINT 1:LIST -10", "20 GOTO 10"],
        vec!["10 INPUT A:GOTO 10"], vec!["10 A$=INKEY$:GOTO 10"], vec!["10 TRON:GOTO 10"], vec!["10 FOR I=1 TO 2 STEP 0:NEXT"], vec!["10 WHILE 1:WEND"],
        vec!["10 GOSUB 10"], vec!["10 GOTO 20", "20 GOTO 10"], vec!["10 GOTO 20", "20 REM nothing", "30 GOTO 10"], vec!["10 GOSUB 20", "20 GOTO 30", "30 GOTO 20"],
        vec!["10 ON 1 GOTO 20", "20 ON 1 GOTO 10"], vec!["10 IF 1 THEN 20", "20 IF 1 THEN 10"], vec!["10 GOTO 30", "20 GOTO 10", "30 GOTO 20"],
        vec!["10 DEF FNA(X)=FNA(X)+1:PRINT FNA(1)"], vec!["10 PRINT \"x\";:GOTO 10"], vec!["10 READ A:RESTORE:GOTO 10", "20 DATA 1"],
    ];
    for prog in &busy {
        for k in [0usize, 1, 2, 3, 4, 5, 7, 10, 50, 333] {
            let mut v: Vec<String> = prog.iter().map(|s| s.to_string()).collect();
            v.push("@ENTER RUN".into());
            v.push(format!("@INT {}", k));
            v.push("PRINT 7".into());
            v.push("RUN".into()); // runs away again: the oracle's own interrupt must stop it too
            emit(w, "C03", "fuzz", &v, &[]);
        }
    }
    for k in [0usize, 1, 2, 3, 5] {
        for direct in ["LIST", "LIST 10-", "LIST:LIST", "PRINT 1:LIST:PRINT 2", "FOR I=1 TO 9:LIST:NEXT"] {
            let v: Vec<String> = vec!["10 REM a".into(), "20 REM b".into(), "30 REM c".into(), format!("@ENTER {}", direct), format!("@INT {}", k), "PRINT 7".into()];
            emit(w, "C03", "fuzz", &v, &[]);
        }
    }
    // CONT after a runtime error resumes behind the failed instruction with the operand stack one value short:
    // whatever the following instructions then find on the stack, nothing may panic (D21)
    emit(w, "C03", "fuzz", &["10 DEF FNA(X,Y,Z)=1".to_string(), "20 FOR I=1 TO 2".to_string(), "30 A=FNA(1\\0,1\\0,\"hello\")".to_string(), "RUN".to_string(), "CONT".to_string(), "CONT".to_string(), "NEXT".to_string(), "PRINT 1".to_string()], &[]);
    emit(w, "C03", "fuzz", &["10 X$=\"}\"+(\"}\"+STR$(3+(1\\0)))".to_string(), "20 ON 1\\0 GOTO :CLS:DEFINT A-B".to_string(), "RUN".to_string(), "GOTO 20".to_string(), "CONT".to_string(), "PRINT 1".to_string()], &[]);
    let failing = ["1\\0", "\"s\"+1", "Q(99)", "32767+1", "LOG(0)", "CHR$(-1)", "FNU(1)", "A$*2", "VAL(5)", "MID$(\"x\",0)"];
    let shapes = ["A=FNA({0},{1},\"hello\")", "FOR J={0} TO {1} STEP \"x\"", "GOSUB 100:A={0}+{1}", "ON {0} GOSUB 100,100", "PRINT {0};{1};TAB({0})", "DIM Z({0},{1})", "SWAP A,{0}", "Q({0})={1}", "MID$(A$,{0})=\"z\"", "IF {0} THEN PRINT {1}", "WHILE {0}:WEND", "A$=LEFT$(\"abc\",{0})+STRING$({1},\"x\")", "READ A,B:RESTORE {0}", "INPUT A:B={0}", "DEF FNB(P)={0}:B=FNB({1})", "NEXT I:A={0}", "RETURN:A={0}", "ON {0} GOTO :CLS:DEFINT A-B", "ON {0} GOSUB :DEFSTR S:ERASE Q", "X$=\"}\"+(\"}\"+STR$(3+({0})))", "ON {0} GOTO 100,100:DEFDBL D-E:SWAP A,B", "DEFINT A-{1}"];
    let afters = ["GOTO 30", "GOTO 40", "GOSUB 30", "NEXT", "NEXT I", "RETURN", "WEND", "PRINT FNA(1,2,3)", "PRINT I;A;J", "NEXT J,I", "CONT", "GOSUB 100", "FOR K=1 TO 2:NEXT", "CLEAR", "PRINT \"ok\""];
    let nc = if tier == "thorough" { 6_000 } else { 400 };
    for _ in 0..nc {
        let mut v: Vec<String> = vec!["10 DEF FNA(X,Y,Z)=X+Y".to_string(), "20 FOR I=1 TO 2".to_string(), "25 DATA 1,2".to_string()];
        let ns = 1 + rng.below(3);
        for k in 0..ns {
            let sh = *rng.pick(&shapes);
            let (f0, f1) = (*rng.pick(&failing), *rng.pick(&failing));
            let st = sh.replace("{0}", f0).replace("{1}", f1);
            v.push(format!("{} {}", 30 + 10 * k, st));
        }
        v.push("90 NEXT I:END".to_string());
        v.push("100 A=A+1:RETURN".to_string());
        v.push("RUN".to_string());
        for _ in 0..(1 + rng.below(6)) {
            v.push("CONT".to_string());
        }
        for _ in 0..(1 + rng.below(4)) {
            v.push(rng.pick(&afters).to_string());
            if rng.chance(1, 2) {
                v.push("CONT".to_string());
            }
        }
        emit(w, "C03", "fuzz", &v, &[]);
    }
    // INPUT with hostile replies: quotes, commas, blanks, nothing, non-ASCII, over-long
    let nasty = ["\"", "\"\"", " \" ", ",", "\",", "7, \"", "", " ", "\"\"\"", "\"a", "a\"", "é,\"", "\u{e9}a,b", "\",\"", ",,,,", "1,2,3,4,5,6", "1e999", "&H", "&HFFFFF", "-", "+", ".", "1e", "\u{a0}", "\t"];
    for stmt in ["INPUT A$", "INPUT N", "INPUT N,A$", "INPUT A$,N", "INPUT A$,B$,C$", "INPUT \"P\";A$", "INPUT ,A$,N%", "INPUT Q(N),N,A$(1)"] {
        for rep in nasty {
            let v: Vec<String> = vec![format!("@REPLY {}", rep), "@REPLY 1,x,2".to_string(), "@REPLY 1".to_string(), format!("10 {}:PRINT \"OK\"", stmt), "RUN".to_string(), "PRINT 1".to_string()];
            emit(w, "C03", "fuzz", &v, &[]);
            let v2: Vec<String> = vec![format!("@REPLY {}", rep), "@REPLY x".to_string(), stmt.to_string(), "PRINT 2".to_string()];
            emit(w, "C03", "fuzz", &v2, &[]);
        }
    }
    let long_reply = "x,".repeat(600);
    emit(w, "C03", "fuzz", &[format!("@REPLY {}", long_reply), "10 INPUT A$,B$".to_string(), "RUN".to_string()], &[]);
    let deep = [format!("X={}1{}", "(".repeat(300), ")".repeat(300)), format!("X={}1", "-".repeat(400)), format!("{}PRINT 1", "IF 1 THEN ".repeat(100)), "X=".to_string() + &"1+".repeat(500) + "1", "é".repeat(600), "\"".repeat(1000), "A".repeat(1025)];
    for d in deep {
        emit(w, "C03", "fuzz", &[d], &[]);
    }
    let n = if tier == "thorough" { 100_000 } else { 2_500 };
    let bytes: Vec<char> = "0123456789.EDed+-!#%$&H\"'?:;,()<=>AGOTRM \t\\^*/@éß日😀\u{0}\u{7f}".chars().collect();
    for _ in 0..n {
        let k = 1 + rng.below(8);
        let mut v: Vec<String> = vec![];
        for _ in 0..k {
            match rng.below(12) {
                0 | 1 => v.push(gen_soup(&mut rng)),
                2 | 3 => {
                    let l = *rng.pick(LINES);
                    v.push(mutate(&mut rng, l));
                }
                4 => {
                    let len = rng.below(12);
                    v.push((0..len).map(|_| *rng.pick(&bytes)).collect());
                }
                5 => {
                    let sz = 1 + rng.below(3);
                    let mut p = gen_program(&mut rng, sz);
                    damage(&mut rng, &mut p);
                    v.extend(p.text());
                    v.push("RUN".into());
                }
                6 => v.push(format!("{} {}", rng.below(70000), gen_soup(&mut rng))),
                7 => v.push("@SNAP".into()),
                8 => v.push("@DROP".into()),
                9 => v.push(format!("@INT {}", rng.below(60))),
                10 if rng.chance(1, 3) => {
                    v.push(format!("@REPLY {}", rng.pick(&nasty)));
                    v.push(rng.pick(&["INPUT A$", "INPUT N,A$", "10 INPUT A$,B$", "INPUT ,\"x\";N%"]).to_string());
                }
                10 => v.push(rng.pick(&["RUN", "CONT", "LIST", "NEW", "CLEAR", "RENUM", "RENUM 5,1,1", "DELETE 1-", "LIST -5", "RETURN", "NEXT"]).to_string()),
                _ => v.push(format!("{}", rng.below(70000))),
            }
        }
        emit(w, "C03", "fuzz", &v, &[]);
    }
}

// ---------------------------------------------------------------------------------------------
// C15: the program store is an ordered map; LIST / DELETE ranges through the whole interpreter

/// `[a][-[b]]` after the keyword: (a, dash, b), numbers wider than u64 never generated
fn parse_range(rest: &str) -> Option<(Option<u64>, bool, Option<u64>)> {
    let rest = rest.trim();
    let (l, dash, r) = match rest.find('-') {
        Some(i) => (&rest[..i], true, &rest[i + 1..]),
        None => (rest, false, ""),
    };
    let num = |t: &str| -> Option<Option<u64>> {
        let t = t.trim();
        if t.is_empty() {
            Some(None)
        } else {
            t.parse::<u64>().ok().map(Some)
        }
    };
    Some((num(l)?, dash, num(r)?))
}

/// The session is entered line by line next to a reference `BTreeMap`; after every line the
/// interpreter's listing must equal the reference, LIST must print exactly the lines in the
/// inclusive range in ascending order, and a rejected command must print an error and change nothing.
fn oracle_listdel(lines: &[String]) -> String {
    use std::collections::BTreeMap;
    let mut r = Run::new();
    let mut m: BTreeMap<u64, String> = BTreeMap::new();
    for (i, l) in lines.iter().enumerate() {
        r.line(l);
        let out = r.take();
        let t = l.trim_start();
        if t.starts_with(|c: char| c.is_ascii_digit()) {
            let digits: String = t.chars().take_while(|c| c.is_ascii_digit()).collect();
            let n: u64 = digits.parse().unwrap_or(u64::MAX);
            let rest = t[digits.len()..].trim();
            if n <= 65529 {
                if rest.is_empty() {
                    m.remove(&n);
                } else {
                    m.insert(n, format!("{} {}", n, rest));
                }
                if !out.is_empty() {
                    return fail(format!("step {} {:?}: entering a program line printed {:?}", i, l, out));
                }
            }
            // a number above 65529 is not a line number: whatever is reported, the store is unchanged
        } else if let Some((kw, rest)) = ["LIST", "DELETE"].iter().find_map(|k| t.strip_prefix(k).map(|x| (*k, x))) {
            let Some((a, dash, b)) = parse_range(rest) else { return "ok".into() };
            let too_big = a.map_or(false, |x| x > 65529) || b.map_or(false, |x| x > 65529);
            let lo = a.unwrap_or(0);
            let hi = if dash { b.unwrap_or(65529) } else { a.unwrap_or(65529) };
            let bare = a.is_none() && !dash;
            let rejected = too_big || lo > hi || (kw == "DELETE" && bare);
            if rejected {
                if !out.starts_with('?') || !out.ends_with("READY.\n") || out.lines().count() != 2 {
                    return fail(format!("step {} {:?}: must be rejected with an error and nothing else, printed {:?}", i, l, out));
                }
            } else if kw == "LIST" {
                let mut want = String::new();
                for (_, text) in m.range(lo..=hi) {
                    want.push_str(text);
                    want.push('\n');
                }
                want.push_str("READY.\n");
                if out != want {
                    return fail(format!("step {} {:?}: listed {:?}, the lines in {}..={} are {:?}", i, l, out, lo, hi, want));
                }
            } else {
                let keys: Vec<u64> = m.range(lo..=hi).map(|(k, _)| *k).collect();
                for k in keys {
                    m.remove(&k);
                }
                if out != "READY.\n" {
                    return fail(format!("step {} {:?}: DELETE of a legal range printed {:?}", i, l, out));
                }
            }
        } else {
            return "bad-step".into();
        }
        let have = r.listing_text();
        let want: Vec<String> = m.values().cloned().collect();
        if have != want {
            return fail(format!("step {} {:?}: the store holds {:?}, the history says {:?}", i, l, have, want));
        }
    }
    "ok".into()
}

pub fn gen_c15<W: Write>(w: &mut W, tier: &str, seed: u64) {
    let mut rng = Rng::new(seed ^ 0xC15);
    let forms = |kw: &str, a: u64, b: u64, k: usize| -> String {
        match k {
            0 => format!("{} {}", kw, a),
            1 => format!("{} {}-", kw, a),
            2 => format!("{} -{}", kw, a),
            3 => format!("{} {}-{}", kw, a, b),
            4 => format!("{} {} - {}", kw, a, b),
            _ => kw.to_string(),
        }
    };
    // exhaustive part: a universe of 5 stored numbers, every form with every endpoint of a probe set
    let universe: [u64; 5] = [0, 1, 10, 65528, 65529];
    let probes: [u64; 9] = [0, 1, 5, 10, 11, 65528, 65529, 65530, 99999];
    for mask in [0b11111usize, 0b01110, 0b10001, 0b00001, 0b10000, 0] {
        let setup: Vec<String> = universe.iter().enumerate().filter(|(i, _)| mask >> i & 1 == 1).map(|(_, n)| format!("{} PRINT {}", n, n)).collect();
        for kw in ["LIST", "DELETE"] {
            for &a in &probes {
                for k in 0..3 {
                    let mut v = setup.clone();
                    v.push(forms(kw, a, 0, k));
                    v.push("LIST".to_string());
                    emit(w, "C15", "listdel", &v, &[]);
                }
                for &b in &probes {
                    let mut v = setup.clone();
                    v.push(forms(kw, a, b, 3));
                    v.push("LIST".to_string());
                    emit(w, "C15", "listdel", &v, &[]);
                }
            }
            let mut v = setup.clone();
            v.push(kw.to_string());
            v.push("LIST".to_string());
            emit(w, "C15", "listdel", &v, &[]);
        }
    }
    // random histories over the whole number range
    let n = if tier == "thorough" { 30_000 } else { 1_000 };
    for _ in 0..n {
        let small = rng.chance(1, 2);
        let mut pick = |rng: &mut Rng| -> u64 {
            if small {
                *rng.pick(&[0u64, 1, 2, 3, 10, 20, 30, 65528, 65529])
            } else if rng.chance(1, 12) {
                65530 + rng.below(10) as u64
            } else {
                rng.below(65530) as u64
            }
        };
        let len = 2 + rng.below(14);
        let mut v: Vec<String> = vec![];
        let mut used: Vec<u64> = vec![];
        for _ in 0..len {
            match rng.below(10) {
                0..=3 => {
                    let k = pick(&mut rng);
                    used.push(k);
                    v.push(format!("{} {}", k, rng.pick(&["PRINT 1", "REM x", "A=A+1", "GOTO 10", "PRINT \"a b\";X"])));
                }
                4 => {
                    let k = if rng.chance(2, 3) && !used.is_empty() { *rng.pick(&used) } else { pick(&mut rng) };
                    v.push(format!("{}", k));
                }
                5 | 6 => {
                    let (a, b) = (pick(&mut rng), pick(&mut rng));
                    let a = if rng.chance(1, 2) && !used.is_empty() { *rng.pick(&used) } else { a };
                    v.push(forms("LIST", a, b, rng.below(6)));
                }
                _ => {
                    let (a, b) = (pick(&mut rng), pick(&mut rng));
                    let a = if rng.chance(1, 2) && !used.is_empty() { *rng.pick(&used) } else { a };
                    v.push(forms("DELETE", a, b, rng.below(6)));
                }
            }
        }
        v.push("LIST".to_string());
        emit(w, "C15", "listdel", &v, &[]);
    }
}

// ---------------------------------------------------------------------------------------------
// C05 through the runtime: whatever the interpreter stores and lists comes back from SAVE + LOAD

/// The lines are typed at the prompt.  SAVE writes the text of every stored line, LOAD feeds every
/// text to `Listing::load_str`: each must be accepted and the loaded program must list identically.
fn oracle_saveload(lines: &[String]) -> String {
    let mut r = Run::new();
    for l in lines {
        r.line(l);
    }
    let saved = r.listing_text();
    let mut loaded = basic::mach::Listing::default();
    for (i, text) in saved.iter().enumerate() {
        if let Err(e) = loaded.load_str(text) {
            return fail(format!("LOAD refuses saved line {} ({} bytes, {} characters): {}", i + 1, text.len(), text.chars().count(), e));
        }
    }
    let again: Vec<String> = loaded.lines().map(|l| l.to_string()).collect();
    if again.len() != saved.len() {
        return fail(format!("after SAVE and LOAD the program has {} lines instead of {}", again.len(), saved.len()));
    }
    for (i, (a, b)) in saved.iter().zip(again.iter()).enumerate() {
        let (la, lb) = (basic::lang::Line::new(a), basic::lang::Line::new(b));
        if la.number() != lb.number() {
            return fail(format!("after SAVE and LOAD line {} has another number: {:?} vs {:?}", i + 1, a, b));
        }
        match (la.ast(), lb.ast()) {
            // a line that parses: the listed text is a fixed point and means the same
            (Ok(x), Ok(y)) => {
                if a != b {
                    return fail(format!("after SAVE and LOAD line {} of {} differs: {:?} vs {:?}", i + 1, saved.len(), a.chars().take(70).collect::<String>(), b.chars().take(70).collect::<String>()));
                }
                if format!("{:?}", x) != format!("{:?}", y) {
                    return fail(format!("after SAVE and LOAD line {} parses differently: {:?}", i + 1, a));
                }
            }
            // a line that is rejected stays rejected (its text may be normalised further)
            (Err(_), Err(_)) => {}
            _ => return fail(format!("after SAVE and LOAD line {} is accepted in one case and rejected in the other: {:?} vs {:?}", i + 1, a, b)),
        }
    }
    // and the loaded program is what a fresh interpreter lists
    let mut r2 = Run::new();
    r2.rt.set_listing(loaded, false);
    r2.idle(5000, 10);
    if r2.listing_text() != again {
        return fail("the loaded program lists differently".into());
    }
    "ok".into()
}

pub fn gen_c05<W: Write>(w: &mut W, tier: &str, seed: u64) {
    let mut rng = Rng::new(seed ^ 0xC05);
    // the line length limit with characters of 1..4 bytes, in a string literal and in a remark
    for ch in ["x", "\u{e9}", "\u{20ac}", "\u{1F600}"] {
        let b = ch.len();
        for total in [500usize, 1000, 1016, 1020, 1022, 1023, 1024, 1025, 1026, 1030, 1100, 2048, 4100] {
            for head in ["20 PRINT \"", "20 REM ", "20 A$=\"", "20 '"] {
                let k = total.saturating_sub(head.len()) / b;
                let mut l = format!("{}{}", head, ch.repeat(k));
                if head.ends_with('"') && rng.chance(1, 2) {
                    l.push('"');
                }
                emit(w, "C05", "saveload", &["10 PRINT 1".to_string(), l.clone(), "30 END".to_string()], &[]);
                // the same number of CHARACTERS as the byte limit allows
                let l2 = format!("{}{}", head, ch.repeat(total.saturating_sub(head.len())));
                emit(w, "C05", "saveload", &["10 PRINT 1".to_string(), l2, "30 END".to_string()], &[]);
            }
        }
    }
    // a line that grows when it is listed (? -> PRINT, blanks inserted between words) near the limit
    for n in [150usize, 200, 250, 255, 256, 300, 340, 341, 342, 400] {
        emit(w, "C05", "saveload", &[format!("10 {}", "?:".repeat(n))], &[]);
        emit(w, "C05", "saveload", &[format!("10 {}", "?1;".repeat(n))], &[]);
        emit(w, "C05", "saveload", &[format!("10 X={}1", "1OR".repeat(n))], &[]);
        emit(w, "C05", "saveload", &[format!("10 IFATHENPRINT{}", "\"\";".repeat(n))], &[]);
    }
    let n = if tier == "thorough" { 20_000 } else { 400 };
    for _ in 0..n {
        let sz = 1 + rng.below(4);
        let p = gen_program(&mut rng, sz);
        let mut v = p.text();
        if rng.chance(1, 3) {
            v.push(format!("{} {}", 1 + rng.below(60000), gen_soup(&mut rng)));
        }
        if rng.chance(1, 3) {
            let l = *rng.pick(LINES);
            v.push(format!("{} {}", 1 + rng.below(60000), mutate(&mut rng, l)));
        }
        emit(w, "C05", "saveload", &v, &[]);
    }
}

// ---------------------------------------------------------------------------------------------
// C07: MID$ assignment counts characters and never changes the size of the target

pub fn gen_c07<W: Write>(w: &mut W, tier: &str, seed: u64) {
    let mut rng = Rng::new(seed ^ 0xC07);
    let targets = ["PORTLAND, ME", "", "a", "αβγδεζ", "é", "ab日本語cd", "😀x😀y", "xx€€xx€€", "0123456789ABCDEF"];
    let repls = ["", "z", "po", "é", "λμ", "€€", "😀", "q日", "LONGER THAN THE TARGET STRING", "éa€b😀c"];
    let fmt_int = |v: usize| format!(" {} ", v);
    let mut case = |w: &mut W, t: &str, x: &str, n: usize, m: Option<usize>| {
        let o: Vec<char> = t.chars().collect();
        let xs: Vec<char> = x.chars().collect();
        let lim = m.unwrap_or(32767).min(xs.len());
        let stmt = match m {
            Some(m) => format!("A$=\"{}\":MID$(A$,{},{})=\"{}\":PRINT \"[\";A$;\"]\";LEN(A$)", t, n, m, x),
            None => format!("A$=\"{}\":MID$(A$,{})=\"{}\":PRINT \"[\";A$;\"]\";LEN(A$)", t, n, x),
        };
        let expected = if n == 0 {
            "?ILLEGAL FUNCTION CALL; POSITION IS ZERO\nREADY.\n".to_string()
        } else {
            let r: String = o.iter().enumerate().map(|(i, c)| if i + 1 >= n && i + 1 - n < lim { xs[i + 1 - n] } else { *c }).collect();
            format!("[{}]{}\nREADY.\n", r, fmt_int(o.len()))
        };
        emit(w, "C07", "expectdirect", &[hex(&expected), stmt], &[]);
    };
    for t in targets {
        let l = t.chars().count();
        for x in repls {
            for n in [0usize, 1, 2, 3, l.max(1), l + 1, l + 5] {
                for m in [None, Some(0usize), Some(1), Some(2), Some(5), Some(255)] {
                    case(w, t, x, n, m);
                }
            }
        }
    }
    let n = if tier == "thorough" { 50_000 } else { 500 };
    let alphabet: Vec<char> = "abXY09 ,.éßλ€日😀".chars().collect();
    for _ in 0..n {
        let t: String = (0..rng.below(20)).map(|_| *rng.pick(&alphabet)).collect();
        let x: String = (0..rng.below(12)).map(|_| *rng.pick(&alphabet)).collect();
        let nn = rng.below(24);
        let m = if rng.chance(1, 2) { None } else { Some(rng.below(15)) };
        case(w, &t, &x, nn, m);
    }
}

// ---------------------------------------------------------------------------------------------
// C18: a variable or element holding 0 / "" occupies no slot of the variable pool

/// After the session no stored entry holds its type's default value (so "setting variables back to
/// 0 frees their slots" whatever way the zero came about: by conversion, underflow, READ, INPUT, SWAP ...).
fn oracle_noslots(lines: &[String], replies: &[String]) -> String {
    use basic::mach::Val;
    let mut r = Run::new();
    r.replies = replies.to_vec();
    for l in lines {
        r.line(l);
    }
    let st = r.rt.verif_state();
    let (vars, _, _) = st.vars.verif_parts();
    for (k, v) in vars {
        let is_default = match &v {
            Val::Integer(n) => *n == 0,
            Val::Single(x) => *x == 0.0,
            Val::Double(x) => *x == 0.0,
            Val::String(t) => t.is_empty(),
            _ => false,
        };
        if is_default {
            return fail(format!("the variable pool holds a slot for {:?} whose value is the default {:?}", k, v));
        }
    }
    "ok".into()
}

pub fn gen_c18_slots<W: Write>(w: &mut W, tier: &str, seed: u64) {
    let mut rng = Rng::new(seed ^ 0xC18);
    let zeros = ["0", "0.4", "0.99", "-0", "1-1", "N%/10", "1D-60", "1E-30*1E-30", "0!", "0#", "3\\4", "2 MOD 2", "NOT -1", "1=2", "LEN(\"\")", "INT(0.7)", "VAL(\"x\")", "ASC(\"a\")-97", "F!*0"];
    let strs = ["\"\"", "LEFT$(\"abc\",0)", "MID$(\"abc\",9)", "STRING$(0,65)", "\"\"+\"\"", "RIGHT$(S$,0)"];
    let targets = ["A%", "B!", "C#", "D", "E%(3)", "F!(2,2)", "G#(1)", "H(7)", "I1%"];
    for t in targets {
        for z in zeros {
            // set to something first, then back to zero by every road
            emit(w, "C18", "noslots", &[format!("N%=5:F!=2:{}=7:{}={}", t, t, z), format!("PRINT {}", t)], &[]);
            emit(w, "C18", "noslots", &[format!("10 N%=5:F!=2:{}=7", t), format!("20 {}={}", t, z), "RUN".to_string()], &[]);
        }
    }
    for t in ["A$", "B$(4)", "S$"] {
        for z in strs {
            emit(w, "C18", "noslots", &[format!("S$=\"q\":{}=\"x\":{}={}", t, t, z)], &[]);
        }
    }
    // zero arriving through READ, INPUT, SWAP, FOR/NEXT, DEFtype conversion, MID$ assignment
    let others: Vec<(Vec<&str>, Vec<&str>)> = vec![
        (vec!["10 DATA 0.3,0,\"\"", "20 A%=9:B=9:C$=\"x\"", "30 READ A%,B,C$", "RUN"], vec![]),
        (vec!["10 A%=9:B$=\"x\":C=3", "20 INPUT A%,B$,C", "RUN"], vec!["0.4,,0"]),
        (vec!["A%=5:B%=0:SWAP A%,B%"], vec![]),
        (vec!["A=5:SWAP A,Z"], vec![]),
        (vec!["A$=\"x\":SWAP A$,Z$"], vec![]),
        (vec!["DIM Q(3):Q(1)=4:SWAP Q(1),Q(2):SWAP Q(2),Q(3):Q(3)=Q(0)"], vec![]),
        (vec!["FOR I%=3 TO 1 STEP -1:NEXT"], vec![]),
        (vec!["FOR I=-2 TO -1:NEXT"], vec![]),
        (vec!["FOR J!=0.5 TO 0 STEP -0.5:NEXT"], vec![]),
        (vec!["10 DEFINT A:A=0.7:AB=.2:A(2)=0.9"], vec![]),
        (vec!["A$=\"\":MID$(A$,1)=\"zz\""], vec![]),
        (vec!["X=1:X=X-1:Y#=2:Y#=Y#-2:Z%=3:Z%=Z%-3"], vec![]),
        (vec!["10 DEF FNZ(P%)=P%*2", "20 PRINT FNZ(0.3);FNZ(0)"], vec![]),
    ];
    for (prog, reps) in others {
        let v: Vec<String> = prog.iter().map(|s| s.to_string()).collect();
        let r: Vec<String> = reps.iter().map(|s| s.to_string()).collect();
        emit(w, "C18", "noslots", &v, &r);
    }
    // and after whole generated programs
    let n = if tier == "thorough" { 10_000 } else { 300 };
    for _ in 0..n {
        let sz = 1 + rng.below(4);
        let p = gen_program(&mut rng, sz);
        let mut v = p.text();
        v.push("RUN".into());
        emit(w, "C18", "noslots", &v, &p.replies);
    }
}

// ---------------------------------------------------------------------------------------------
// C20: the end of the program is the end of the program, whatever the last statement is and whatever
// direct statement is compiled behind it

pub fn gen_c20_tail<W: Write>(w: &mut W, tier: &str, seed: u64) {
    let mut rng = Rng::new(seed ^ 0xC20);
    let fixed: Vec<(Vec<&str>, &str)> = vec![
        (vec!["10 GOTO 30", "20 PRINT \"SUB\";:RETURN", "30 ON 1 GOSUB 20", "N=N+1:PRINT N;:IF N<3 THEN GOTO 10"], " 1 SUB\nREADY.\n"),
        (vec!["10 DEF FNA(X)=X*2", "RUN", "PRINT FNA(21)"], "READY.\n 42 \nREADY.\n"),
        (vec!["10 GOSUB 30", "20 PRINT \"DONE\":END", "30 C=C+1:PRINT C;:IF C<2 THEN RETURN", "RUN", "C=C+5:IF C<20 THEN GOTO 30"], " 1 DONE\nREADY.\n 7 \nREADY.\n"),
        (vec!["10 IF 0 THEN END", "RUN", "PRINT 5"], "READY.\n 5 \nREADY.\n"),
        (vec!["10 PRINT 1:IF 0 THEN STOP", "N=N+1:IF N<3 THEN GOTO 10"], " 1 \nREADY.\n"),
        (vec!["10 PRINT 1:WHILE 0:WEND", "N=N+1:IF N<3 THEN GOTO 10"], " 1 \nREADY.\n"),
        (vec!["10 PRINT 1:FOR I=1 TO 0:NEXT", "N=N+1:IF N<3 THEN GOTO 10"], " 1 \nREADY.\n"),
        (vec!["10 PRINT 1:ON 0 GOTO 10", "N=N+1:IF N<3 THEN GOTO 10"], " 1 \nREADY.\n"),
        (vec!["10 PRINT 1:ON 3 GOSUB 10", "N=N+1:IF N<3 THEN GOTO 10"], " 1 \nREADY.\n"),
        (vec!["10 PRINT 1:IF 0 THEN RETURN", "N=N+1:IF N<3 THEN GOSUB 10:PRINT \"B\""], " 1 \nREADY.\n"),
    ];
    for (lines, expected) in fixed {
        let mut v = vec![hex(expected)];
        v.extend(lines.iter().map(|l| l.to_string()));
        emit(w, "C20", "session", &v, &[]);
    }
    // a remark appended after the last line changes nothing, whatever the program ends in and
    // whichever direct statement enters it
    let n = if tier == "thorough" { 6_000 } else { 200 };
    for _ in 0..n {
        let sz = 1 + rng.below(3);
        let p = gen_program(&mut rng, sz);
        let lines: Vec<String> = p.text().into_iter().filter(|l| !l.contains("TRON") && !l.contains("INPUT")).collect();
        let last = p.lines.last().map(|(n, _)| *n).unwrap_or(10);
        let first = p.lines[0].0;
        let enter = match rng.below(4) {
            0 => "RUN".to_string(),
            1 => format!("N9=N9+1:IF N9<3 THEN GOTO {}", first),
            2 => format!("GOTO {}", p.lines[rng.below(p.lines.len())].0),
            _ => format!("N9=N9+1:PRINT N9;:IF N9<2 THEN RUN {}", first),
        };
        let mut a = lines.clone();
        a.push(enter.clone());
        let mut b = lines.clone();
        if last < 65529 {
            b.push(format!("{} REM tail", last + 1 + rng.below(5) as u32));
        }
        b.push(enter);
        a.push("----".into());
        a.extend(b);
        emit(w, "C20", "samesession", &a, &[]);
    }
}

// ---------------------------------------------------------------------------------------------
// C13: STOP / END placed anywhere are transparent under CONT

/// payload line 0 = `STOP <n>` or `END <n>`: the statement is inserted as a new line n.  The program with the
/// extra line, continued with CONT after every stop, prints what the program without it prints (the break
/// reports and prompts aside) and ends with the same variables.
fn oracle_stopcont(lines: &[String], replies: &[String]) -> String {
    let (kind, at) = match lines[0].split_once(' ') {
        Some((k, n)) => (k.to_string(), n.to_string()),
        None => return "bad-payload".into(),
    };
    let prog = &lines[1..];
    let (t0, v0, done) = {
        let mut r = Run::new();
        r.lines(prog);
        r.take();
        r.replies = replies.to_vec();
        r.rt.enter("RUN");
        let done = r.idle(5000, 3000);
        (r.take(), crate::rtproto::show_var_store(r.rt.verif_state().vars), done)
    };
    if !done {
        return "ok".into(); // not a terminating program: outside the oracle
    }
    let mut r = Run::new();
    r.lines(prog);
    r.line(&format!("{} {}", at, kind));
    r.take();
    r.replies = replies.to_vec();
    r.rt.enter("RUN");
    let mut total = String::new();
    if !r.idle(5000, 3000) {
        return fail("the program with the extra STOP/END does not end although the original does".into());
    }
    total.push_str(&r.take());
    let mut stops = 0;
    let at_num: u16 = at.parse().unwrap_or(0);
    loop {
        // only a stop caused by the inserted statement is continued (the program's own END / STOP / errors end the run)
        let mine = {
            let st = r.rt.verif_state();
            st.cont_pc > 0 && st.program.line_number_for(st.cont_pc - 1) == Some(at_num) && st.cont != "Stopped"
        };
        if !mine {
            break;
        }
        r.rt.enter("CONT");
        if !r.idle(5000, 3000) {
            return fail("CONT does not return although the original program ends".into());
        }
        let t = r.take();
        if t.starts_with("?CAN'T CONTINUE") {
            break;
        }
        total.push_str(&t);
        stops += 1;
        if stops > 400 {
            return "ok".into(); // a STOP inside a long loop: enough continuations seen
        }
    }
    let brk = format!("?BREAK IN {}", at);
    let clean = |t: &str| -> String {
        t.lines().filter(|l| *l != brk && *l != "READY." && !l.starts_with("?CAN'T CONTINUE")).collect::<Vec<_>>().join("").replace(' ', "")
    };
    let v1 = crate::rtproto::show_var_store(r.rt.verif_state().vars);
    if clean(&total) != clean(&t0) {
        return fail(format!("with {} at line {} and CONT the program printed {:?}, without it {:?}", kind, at, total, t0));
    }
    if v0 != v1 {
        return fail(format!("with {} at line {} and CONT the final variables are {} instead of {}", kind, at, v1, v0));
    }
    "ok".into()
}

pub fn gen_c13_stop<W: Write>(w: &mut W, tier: &str, seed: u64) {
    let mut rng = Rng::new(seed ^ 0x13C);
    // fixed: a STOP in a subroutine called from inside loops, in nested loops, after READ, in a function-calling line
    let fixed: Vec<(Vec<&str>, u32)> = vec![
        (vec!["10 FOR I=1 TO 2", "20 GOSUB 100", "30 NEXT I", "40 PRINT \"DONE\";I", "50 END", "100 PRINT \"SUB\";I", "120 RETURN"], 110),
        (vec!["10 FOR I=1 TO 2:FOR J=1 TO 2", "20 GOSUB 100", "30 NEXT J,I", "40 PRINT I;J", "50 END", "100 K=K+1:WHILE K<0:WEND", "120 RETURN"], 110),
        (vec!["10 WHILE N<3:N=N+1", "20 ON N GOSUB 100,100,200", "30 WEND:PRINT N;S", "50 END", "100 S=S+N", "120 RETURN", "200 S=S*2", "220 RETURN"], 110),
        (vec!["10 READ A", "30 READ B:PRINT A;B", "40 DATA 1,2"], 20),
        (vec!["10 DEF FNA(X)=X*2", "30 PRINT FNA(4)"], 20),
        (vec!["10 FOR I=1 TO 3", "30 PRINT I;", "40 NEXT"], 20),
        (vec!["10 GOSUB 100:PRINT \"B\"", "20 END", "100 FOR I=1 TO 2", "120 NEXT:RETURN"], 110),
    ];
    for (prog, at) in &fixed {
        for kind in ["STOP", "END"] {
            let mut v = vec![format!("{} {}", kind, at)];
            v.extend(prog.iter().map(|l| l.to_string()));
            emit(w, "C13", "stopcont", &v, &[]);
        }
    }
    let n = if tier == "thorough" { 4_000 } else { 150 };
    for _ in 0..n {
        let sz = 1 + rng.below(4);
        let p = gen_program(&mut rng, sz);
        let lines: Vec<String> = p.text().into_iter().filter(|l| !l.contains("TRON") && !l.ends_with(" STOP")).collect();
        if lines.iter().any(|l| l.contains("POS(") || l.contains("CONT")) {
            continue; // POS reads the column, which the forced line break of the report resets
        }
        // every free line number next to a program line, both kinds
        let mut spots: Vec<u32> = p.lines.iter().map(|(n, _)| n + 1).filter(|n| !p.lines.iter().any(|(m, _)| m == n)).collect();
        while spots.len() > (if tier == "thorough" { 12 } else { 5 }) {
            let i = rng.below(spots.len());
            spots.remove(i);
        }
        for at in spots {
            let kind = if rng.chance(2, 3) { "STOP" } else { "END" };
            let mut v = vec![format!("{} {}", kind, at)];
            v.extend(lines.iter().cloned());
            emit(w, "C13", "stopcont", &v, &p.replies);
        }
    }
}

// ---------------------------------------------------------------------------------------------
// C11: a number's text is its sign followed by the text of its magnitude, and reads back

/// payload: one numeric expression per line (positive values).  For each: STR$(-v) is "-" followed by
/// STR$(v) without its leading blank (the notation switches at the same magnitude for both signs),
/// STR$(v) starts with a blank, and VAL(STR$(v)) = v for the value's own type.
fn oracle_signsym(lines: &[String]) -> String {
    for e in lines {
        let mut r = Run::new();
        // the variable has the value's type, and the text is read back INTO that type
        let t = if e.contains('#') || e.contains('D') { "#" } else { "!" };
        r.line(&format!("V{t}={e}:P$=STR$(V{t}):N$=STR$(-V{t}):PRINT P$:PRINT N$:W{t}=VAL(P$):X{t}=VAL(N$):PRINT W{t}=V{t};X{t}=-V{t}", t = t, e = e));
        let t = r.take();
        let mut it = t.lines();
        let (p, n, rt) = (it.next().unwrap_or(""), it.next().unwrap_or(""), it.next().unwrap_or(""));
        if !p.starts_with(' ') {
            return fail(format!("{}: the positive number prints as {:?} (no leading blank)", e, p));
        }
        if n != format!("-{}", &p[1..]) {
            return fail(format!("{}: prints as {:?} but its negative as {:?}", e, p, n));
        }
        if rt != "-1 -1 " {
            return fail(format!("{}: {:?} / {:?} do not read back to the value (VAL(STR$(v))=v gave {:?})", e, p, n, rt));
        }
    }
    "ok".into()
}

pub fn gen_c11_numbers<W: Write>(w: &mut W, tier: &str, seed: u64) {
    let mut rng = Rng::new(seed ^ 0x11C);
    let fixed = ["100000000", "1E9", "99999999", "0.12345678", "0.012345678", "1.2345678", "123456.78", "1E-5", "1E7", "1.5E10", "0.5", "1/3", "2/3", "16777216", "3.4E38", "1.2E-38",
        "12345678901234567#", "0.1234567890123456#", "1D16", "1D17", "123456789012345678#", "1#/3", "2#/3", "1D-5", "1.7D308", "2.3D-308", "0.1#", "1234567.1#", "4294967296#", "1D15+0.5"];
    let v: Vec<String> = fixed.iter().map(|s| s.to_string()).collect();
    for chunk in v.chunks(4) {
        emit(w, "C11", "signsym", chunk, &[]);
    }
    // random magnitudes with 1..17 significant digits and exponents across the notation switch
    let n = if tier == "thorough" { 30_000 } else { 600 };
    for _ in 0..n {
        let digits = 1 + rng.below(17);
        let mut m = String::new();
        for i in 0..digits {
            let d = if i == 0 { 1 + rng.below(9) } else { rng.below(10) };
            m.push(char::from(b'0' + d as u8));
        }
        let point = rng.below(digits + 1);
        let mut lit = format!("{}.{}", &m[..point], &m[point..]);
        if lit.starts_with('.') {
            lit = format!("0{}", lit);
        }
        if lit.ends_with('.') {
            lit.pop();
        }
        let exp = rng.below(41) as i32 - 20;
        let dbl = digits > 7 || rng.chance(1, 3);
        let e = if exp == 0 { if dbl { format!("{}#", lit) } else { lit } } else { format!("{}{}{}", lit, if dbl { "D" } else { "E" }, exp) };
        emit(w, "C11", "signsym", &[e], &[]);
    }
}

// ---------------------------------------------------------------------------------------------
// fixed sessions for clauses that only show through the whole interpreter (C06 SWAP, C08 NEXT, C09/C10 editing)

fn emit_sessions<W: Write>(w: &mut W, prop: &str, cases: &[(Vec<&str>, &str)]) {
    for (lines, expected) in cases {
        let mut v = vec![hex(expected)];
        v.extend(lines.iter().map(|l| l.to_string()));
        emit(w, prop, "session", &v, &[]);
    }
}

/// C06: SWAP rejects mixed types leaving both unchanged (also seen after CONT), automatic dimension 10,
/// distinctness of A, A%, A!, A#, A$ and A(...)
pub fn gen_c06<W: Write>(w: &mut W, _tier: &str, _seed: u64) {
    let cases: Vec<(Vec<&str>, &str)> = vec![
        (vec!["10 A%=7:B!=2.5", "20 SWAP A%,B!", "30 PRINT \"after\"", "RUN", "PRINT A%;B!", "CONT", "PRINT A%;B!"], "?TYPE MISMATCH IN 20\nREADY.\n 7  2.5 \nREADY.\nafter\nREADY.\n 7  2.5 \nREADY.\n"),
        (vec!["10 DIM A%(5),B#(2):A%(3)=4:B#(0)=1.5", "20 SWAP A%(3),B#(0)", "30 PRINT A%(3);B#(0)", "RUN", "CONT"], "?TYPE MISMATCH IN 20\nREADY.\n 4  1.5 \nREADY.\n"),
        (vec!["10 A$=\"x\":B=3", "20 SWAP A$,B", "30 PRINT A$;B", "RUN", "CONT"], "?TYPE MISMATCH IN 20\nREADY.\nx 3 \nREADY.\n"),
        (vec!["A=1:A%=2:A!=3:A#=4:A$=\"s\":A(1)=5:A%(1)=6:A$(1)=\"t\":PRINT A;A%;A!;A#;A$;A(1);A%(1);A$(1)"], " 1  2  3  4 s 5  6 t\nREADY.\n"),
        (vec!["A=1:B=2:SWAP A,B:PRINT A;B:SWAP A(1),B:PRINT A(1);B:SWAP A$,B$:PRINT A$;B$;\".\""], " 2  1 \n 1  0 \n.\nREADY.\n"),
        (vec!["PRINT Q(10);Q(0)", "PRINT Q(11)", "DIM Q(20)", "PRINT R(2,10)", "PRINT R(2)", "DIM S(3):PRINT S(4)"], " 0  0 \nREADY.\n?SUBSCRIPT OUT OF RANGE\nREADY.\n?REDIMENSIONED ARRAY\nREADY.\n 0 \nREADY.\n?SUBSCRIPT OUT OF RANGE\nREADY.\n?SUBSCRIPT OUT OF RANGE\nREADY.\n"),
    ];
    emit_sessions(w, "C06", &cases);
}

/// C08: the Integer addition NEXT performs is checked like any other
pub fn gen_c08<W: Write>(w: &mut W, _tier: &str, _seed: u64) {
    let cases: Vec<(Vec<&str>, &str)> = vec![
        (vec!["10 FOR I%=32766 TO 32767:PRINT I%;:NEXT", "20 PRINT \"done\"", "RUN"], " 32766  32767 \n?OVERFLOW IN 10\nREADY.\n"),
        (vec!["10 DEFINT J:FOR J=-32767 TO -32768 STEP -1:PRINT J;:NEXT", "RUN"], "-32767 -32768 \n?OVERFLOW IN 10\nREADY.\n"),
        (vec!["10 FOR I%=1 TO 30000 STEP 20000:PRINT I%;:NEXT", "RUN"], " 1  20001 \n?OVERFLOW IN 10\nREADY.\n"),
        (vec!["10 FOR I%=32760 TO 32766 STEP 3:PRINT I%;:NEXT:PRINT I%", "RUN"], " 32760  32763  32766 \n?OVERFLOW IN 10\nREADY.\n"),
        (vec!["10 FOR I%=-32760 TO -32768 STEP -4:PRINT I%;:NEXT:PRINT I%", "RUN"], "-32760 -32764 -32768 \n?OVERFLOW IN 10\nREADY.\n"),
        (vec!["10 FOR I%=1 TO 3:NEXT:PRINT I%", "RUN"], " 4 \nREADY.\n"),
        (vec!["A%=32767:A%=A%+1", "PRINT A%", "A%=-32768:A%=A%-1", "PRINT A%;-A%"], "?OVERFLOW\nREADY.\n 32767 \nREADY.\n?OVERFLOW\nREADY.\n-32768 \n?OVERFLOW\nREADY.\n"),
    ];
    emit_sessions(w, "C08", &cases);
}

/// C09 / C10: a refused direct DATA adds no constant; a deleted DEF line takes its function with it
pub fn gen_c09_c10_sessions<W: Write>(w: &mut W, prop: &str) {
    if prop == "C09" {
        let cases: Vec<(Vec<&str>, &str)> = vec![
            (vec!["10 READ A:PRINT A", "20 READ B:PRINT B", "30 DATA 1", "RUN", "DATA 9", "RUN", "RUN 20"], " 1 \n?OUT OF DATA IN 20\nREADY.\n?ILLEGAL DIRECT\nREADY.\n 1 \n?OUT OF DATA IN 20\nREADY.\n 1 \nREADY.\n"),
            (vec!["10 DATA 1,2", "20 READ A,B,C", "PRINT 0", "IF 1 THEN DATA 7,8", "RUN", "READ X:PRINT X"], " 0 \nREADY.\n?ILLEGAL DIRECT\nREADY.\n?OUT OF DATA IN 20\nREADY.\n?OUT OF DATA\nREADY.\n"),
        ];
        emit_sessions(w, "C09", &cases);
    } else {
        let cases: Vec<(Vec<&str>, &str)> = vec![
            (vec!["10 DEF FNA(X)=X*2", "20 PRINT FNA(2)", "RUN", "10", "PRINT FNA(5)"], " 4 \nREADY.\n?UNDEFINED USER FUNCTION\nREADY.\n"),
            (vec!["10 DEF FNA(X)=X*2", "20 PRINT FNA(2)", "RUN", "DELETE 10", "PRINT FNA(5)"], " 4 \nREADY.\nREADY.\n?UNDEFINED USER FUNCTION\nREADY.\n"),
            (vec!["10 DEF FNA(X)=X*2", "20 PRINT FNA(2)", "RUN", "15 REM", "PRINT FNA(5)"], " 4 \nREADY.\n?UNDEFINED USER FUNCTION\nREADY.\n"),
            (vec!["10 DEF FNA(X)=X*2", "20 PRINT FNA(2)", "RUN", "20", "PRINT FNA(5)"], " 4 \nREADY.\n?UNDEFINED USER FUNCTION\nREADY.\n"),
            (vec!["10 DEF FNA(X)=X*2", "20 PRINT FNA(2)", "RUN", "PRINT FNA(5)", "CLEAR", "PRINT FNA(5)"], " 4 \nREADY.\n 10 \nREADY.\nREADY.\n?UNDEFINED USER FUNCTION\nREADY.\n"),
        ];
        emit_sessions(w, "C10", &cases);
    }
}

/// Fixed sessions added after the fourth round of seeded changes (second half): each states, for one property,
/// what the manual's wording demands of a short session that a property-breaking change was seen to get wrong.
pub fn gen_round4<W: Write>(w: &mut W, prop: &str) {
    const R: &str = "READY.\n";
    let ifc = format!("?ILLEGAL FUNCTION CALL\n{}", R);
    let cases: Vec<(Vec<&str>, String)> = match prop {
        // the last statement is an END inside an IF that is not taken: the program ends normally (round 5)
        "C01" => vec![
            (vec!["10 PRINT \"A\"", "20 IF X THEN END", "RUN"], format!("A\n{}", R)),
            (vec!["10 FOR I=1 TO 3", "20 PRINT I;", "30 NEXT", "40 IF I=4 THEN PRINT \"DONE\" ELSE END", "RUN"], format!(" 1  2  3 DONE\n{}", R)),
            (vec!["10 A=0", "20 PRINT \"GO\"", "30 IF A THEN PRINT \"STOPPING\":END", "RUN", "X=X+1:IF X<3 THEN GOTO 10"], format!("GO\n{0}GO\n{0}", R)),
        ],
        // SGN of any zero is 0, however the zero was computed (negated, a product with a negative factor, an underflow)
        "C02" => vec![
            (vec!["PRINT SGN(-A);SGN(-D#);SGN(-0!);SGN(0*-1.5);SGN(-1E-30*1E-30)", "PRINT SGN(-2.5);SGN(2.5#);SGN(-3);SGN(0)"], format!(" 0  0  0  0  0 \n{0}-1  1 -1  0 \n{0}", R)),
        ],
        // distinct elements never share storage, the ones on the declared bound included
        "C06" => vec![
            (vec!["10 DIM M(3,4)", "20 M(0,4)=7", "30 PRINT M(0,4);M(1,0);M(0,3)", "40 M(1,0)=9", "50 PRINT M(0,4);M(1,0)", "RUN", "T$(2,10)=\"EDGE\":PRINT \"[\";T$(3,0);\"]\";T$(2,10)"], format!(" 7  0  0 \n 7  9 \n{0}[]EDGE\n{0}", R)),
            (vec!["10 DIM G%(2,2,2)", "20 FOR I=0 TO 2:FOR J=0 TO 2:FOR K=0 TO 2", "30 G%(I,J,K)=100*I+10*J+K+1", "40 NEXT K,J,I", "50 FOR I=0 TO 2:FOR J=0 TO 2:FOR K=0 TO 2", "60 IF G%(I,J,K)<>100*I+10*J+K+1 THEN E=E+1", "70 NEXT K,J,I", "80 PRINT E", "RUN"], format!(" 0 \n{}", R)),
            (vec!["10 FOR I=0 TO 10:FOR J=0 TO 10:Q(I,J)=I*11+J+1:NEXT J,I", "20 FOR I=0 TO 10:FOR J=0 TO 10:IF Q(I,J)<>I*11+J+1 THEN E=E+1", "30 NEXT J,I:PRINT E", "RUN"], format!(" 0 \n{}", R)),
        ],
        // the constants a RUN delivers are those of the listing as it stands now, whatever was compiled before
        "C09" => vec![
            (vec!["10 DATA 1,2", "20 READ A,B:PRINT A;B", "RUN", "10 DATA 3,4", "RUN", "RESTORE:READ C:PRINT C"], format!(" 1  2 \n{0} 3  4 \n{0} 3 \n{0}", R)),
            (vec!["10 DATA 7", "20 READ A:PRINT A", "RUN", "10", "RUN"], format!(" 7 \n{0}?OUT OF DATA IN 20\n{0}", R)),
            (vec!["10 DATA 5", "20 READ A:PRINT A", "RUN", "NEW", "READ Z"], format!(" 5 \n{0}{0}?OUT OF DATA\n{0}", R)),
        ],
        // the TRON trace is output like any other: zones, TAB and POS count from the true column
        "C11" => vec![
            (vec!["10 PRINT \"ABCDEFGH\";", "20 PRINT ,\"X\"", "TRON", "RUN"], format!("{}[10]ABCDEFGH[20]{}X\n{}", R, " ".repeat(12), R)),
            (vec!["10 PRINT \"ABCDEFGH\";", "20 PRINT TAB(20);\"X\";", "30 PRINT POS(0)", "TRON", "RUN"], format!("{}[10]ABCDEFGH[20]    X[30] 25 \n{}", R, R)),
            (vec!["10 PRINT 1;", "20 PRINT 2,3", "TRON", "RUN"], format!("{}[10] 1 [20] 2 {}3 \n{}", R, " ".repeat(15), R)),
        ],
        // a bare DELETE is refused wherever it stands, and refusing it erases nothing
        "C15" => vec![
            (vec!["10 PRINT 1", "DELETE:PRINT 2", "LIST", "IF 1 THEN DELETE ELSE PRINT 2", "LIST", "PRINT 1:DELETE :PRINT 2", "LIST"], format!("{0}10 PRINT 1\n{1}{0}10 PRINT 1\n{1}{0}10 PRINT 1\n{1}", ifc, R)),
            (vec!["10 PRINT 1", "IF 0 THEN PRINT 1 ELSE DELETE:PRINT 3", "LIST", "DELETE ELSE", "LIST", "DELETE", "LIST"], format!("{0}10 PRINT 1\n{1}{0}10 PRINT 1\n{1}{0}10 PRINT 1\n{1}", ifc, R)),
            (vec!["5 DELETE:END", "10 PRINT 1", "RUN", "LIST"], format!("?ILLEGAL FUNCTION CALL IN 5:3\n{0}5 DELETE:END\n10 PRINT 1\n{0}", R)),
        ],
        // blanks between a number and a following word are optional: both spellings are the same program
        "C16" => vec![
            (vec!["10 A=200:IF A THEN PRINT 200*200ELSE PRINT 0", "RUN", "LIST", "10 A=200:IF A THEN PRINT 200*200 ELSE PRINT 0", "RUN", "LIST"], format!("?OVERFLOW IN 10\n{0}10 A=200:IF A THEN PRINT 200*200 ELSE PRINT 0\n{0}?OVERFLOW IN 10\n{0}10 A=200:IF A THEN PRINT 200*200 ELSE PRINT 0\n{0}", R)),
            (vec!["10 A=100:IF A THEN PRINT 400*100EQV 0", "RUN", "10 A=100:IF A THEN PRINT 400*100 EQV 0", "RUN"], format!("?OVERFLOW IN 10\n{0}?OVERFLOW IN 10\n{0}", R)),
        ],
        // a hexadecimal reply may contain the digits D and E
        "C17" => vec![
            (vec!["10 INPUT A:PRINT A", "RUN", "RUN", "PRINT VAL(\"&H0D\");VAL(\"&HD\");VAL(\"&H1D0\");&H0D;VAL(\"&H0E\");VAL(\"&HDE\")"], format!("? &H0D\n 13 \n{0}? &hdd\n 221 \n{0} 13  13  464  13  14  222 \n{0}", R)),
        ],
        // a reply with too many fields is asked for again; whatever was typed, nothing stays behind
        "C18" => vec![
            // a full pool refuses new names only: variables it holds can be overwritten, and setting one back to 0 makes room (D23)
            (vec!["10 DIM A%(255,255)", "20 FOR I=0 TO 255:FOR J=0 TO 255:A%(I,J)=1:NEXT:NEXT", "RUN", "PRINT A%(3,3)", "A%(3,3)=5:PRINT A%(3,3)", "B=1", "A%(3,3)=0:PRINT A%(3,3)", "B=1:PRINT B", "C=1", "I=0:C=2:PRINT C", "CLEAR", "C=1:PRINT C"],
             format!("?OUT OF MEMORY IN 20\n{0} 1 \n{0} 5 \n{0}?OUT OF MEMORY\n{0} 0 \n{0} 1 \n{0}?OUT OF MEMORY\n{0} 2 \n{0}{0} 1 \n{0}", R)),
            (vec!["10 INPUT A,B:PRINT A;B", "RUN", "RETURN", "NEXT"], format!("? 1,2,3\n?REDO FROM START\n? 1,2\n 1  2 \n{0}?RETURN WITHOUT GOSUB\n{0}?NEXT WITHOUT FOR\n{0}", R)),
        ],
        // after DELETE took lines away nothing may resume into what is gone
        "C19" => vec![
            (vec!["10 PRINT \"A\"", "20 STOP", "30 PRINT \"B\":GOTO 50", "50 PRINT \"C\"", "RUN", "DELETE 50", "CONT"], format!("A\n?BREAK IN 20\n{0}{0}?CAN'T CONTINUE\n{0}", R)),
            (vec!["10 GOSUB 100:PRINT \"BACK\":END", "100 STOP:RETURN", "RUN", "DELETE 10", "RETURN", "CONT"], format!("?BREAK IN 100\n{0}{0}?RETURN WITHOUT GOSUB\n{0}?CAN'T CONTINUE\n{0}", R)),
            (vec!["10 FOR I=1 TO 3", "20 STOP", "30 NEXT", "RUN", "DELETE 10", "NEXT", "CONT"], format!("?BREAK IN 20\n{0}{0}?NEXT WITHOUT FOR\n{0}?CAN'T CONTINUE\n{0}", R)),
        ],
        // the highest line number is a line like any other, also as the target of a direct statement
        "C20" => vec![
            (vec!["10 PRINT \"X\"", "65529 PRINT \"LAST\"", "GOTO 65529", "GOSUB 65529:PRINT \"BACK\"", "RUN 65529", "RUN"], format!("LAST\n{0}LAST\n{0}LAST\n{0}X\nLAST\n{0}", R)),
            (vec!["65529 PRINT \"LAST\":RETURN", "GOSUB 65529:PRINT \"BACK\"", "FOR I=1 TO 2:GOSUB 65529:NEXT"], format!("LAST\nBACK\n{0}LAST\nLAST\n{0}", R)),
            (vec!["65528 PRINT \"P\";", "65529 PRINT \"LAST\"", "GOTO 65528", "ON 1 GOTO 65529", "IF 1 THEN 65529", "RESTORE 65529"], format!("PLAST\n{0}LAST\n{0}LAST\n{0}{0}", R)),
        ],
        _ => vec![],
    };
    for (lines, expected) in &cases {
        let mut v = vec![hex(expected)];
        v.extend(lines.iter().map(|l| l.to_string()));
        let replies: Vec<String> = match prop {
            "C17" => vec!["&H0D".into(), "&hdd".into()],
            "C18" => vec!["1,2,3".into(), "1,2".into()],
            _ => vec![],
        };
        emit(w, prop, "session", &v, &replies);
    }
    if prop == "C17" {
        // a reply longer than the line buffer is asked for again like any other unacceptable reply
        for n in [1025usize, 1026, 2000] {
            let long = format!("{},12", "X".repeat(n - 3));
            let expected = format!("NAME? JOE\n?REDO FROM START\nNAME? {}\n?REDO FROM START\nNAME? JOE, 3\nJOE 3 \nDONE\n{}", long, R);
            let v = vec![hex(&expected), "10 INPUT \"NAME\";A$,B".to_string(), "20 PRINT A$;B".to_string(), "30 PRINT \"DONE\"".to_string(), "RUN".to_string()];
            emit(w, prop, "session", &v, &["JOE".to_string(), long, "JOE, 3".to_string()]);
        }
    }
    if prop == "C09" {
        // DATA lines edited after the program was compiled once: RUN equals the run of a fresh interpreter given the listing
        let mut rng = Rng::new(0xC09E);
        for _ in 0..60 {
            let k = 1 + rng.below(4);
            let mut lines: Vec<String> = vec![];
            for i in 0..k {
                let vals: Vec<String> = (0..1 + rng.below(3)).map(|_| format!("{}", rng.below(100))).collect();
                lines.push(format!("{} DATA {}", 10 * (i + 1), vals.join(",")));
            }
            lines.push("100 FOR I=1 TO 3:READ V:PRINT V;:NEXT".to_string());
            lines.push("RUN".to_string());
            for _ in 0..1 + rng.below(2) {
                let target = 10 * (1 + rng.below(k + 1));
                lines.push(match rng.below(3) {
                    0 => format!("{}", target),
                    1 => format!("{} DATA {},{}", target, rng.below(100), rng.below(100)),
                    _ => format!("{} DATA {}", target + 5, rng.below(100)),
                });
            }
            if rng.chance(1, 3) {
                lines.push("PRINT 1".to_string());
            }
            lines.push(if rng.chance(1, 3) { "RESTORE:READ C:PRINT C".to_string() } else { "RUN".to_string() });
            emit(w, "C09", "fresh", &lines, &[]);
        }
    }
    if prop == "C18" || prop == "C17" {
        // INPUT of k variables inside a loop: a reply with more fields is asked for again (so nothing of it stays
        // on the stack), and after the loop no frame is left
        for k in 1..=4usize {
            for j in 1..=3usize {
                let vars: Vec<String> = (0..k).map(|i| format!("V{}", i)).collect();
                let good: Vec<String> = (0..k).map(|i| format!("{}", i + 1)).collect();
                let mut surplus = good.clone();
                for x in 0..j {
                    surplus.push(format!("{}", 90 + x));
                }
                let mut expected = String::new();
                let mut replies = vec![];
                for _ in 0..3 {
                    expected.push_str(&format!("? {}\n?REDO FROM START\n? {}\n", surplus.join(","), good.join(",")));
                    replies.push(surplus.join(","));
                    replies.push(good.join(","));
                }
                expected.push_str(&format!("DONE {} \n{}?RETURN WITHOUT GOSUB\n{}?NEXT WITHOUT FOR\n{}", k, R, R, R));
                let v = vec![hex(&expected), format!("10 FOR I=1 TO 3:INPUT {}:NEXT:PRINT \"DONE\";V{}", vars.join(","), k - 1), "RUN".to_string(), "RETURN".to_string(), "NEXT".to_string()];
                emit(w, prop, "session", &v, &replies);
            }
        }
    }
}


/// C19 `brokencont`: a program stopped at STOP is edited so that it no longer compiles (a branch target is taken
/// away); whatever is typed next to get back into it (CONT, RETURN, NEXT, GOTO n, RUN n, RUN), none of its lines run.
/// Every program line prints a text starting with `L`; direct statements that do not enter the program still work.
fn oracle_brokencont(lines: &[String]) -> String {
    let i = lines.iter().position(|l| l == "----").unwrap_or(lines.len());
    let j = lines.iter().rposition(|l| l == "----").unwrap_or(lines.len());
    let mut r = Run::new();
    r.lines(&lines[..i]);
    r.line("RUN");
    let first = r.take();
    if !first.contains("?BREAK") {
        return fail(format!("the program did not stop: {:?}", first));
    }
    r.lines(&lines[i + 1..j]);
    // any direct statement makes the interpreter look at the edited program
    r.line("Z=Z");
    r.take();
    if r.rt.get_listing().indirect_errors.is_empty() {
        // the edit left a program that compiles: nothing to decide
        return "ok".into();
    }
    for l in &lines[(j + 1).min(lines.len())..] {
        r.line(l);
        let t = r.take();
        if t.contains('L') && t.lines().any(|x| x.starts_with('L')) {
            return fail(format!("after the edit {:?} ran program lines: {:?}", l, t));
        }
    }
    r.line("PRINT 7*6");
    let t = r.take();
    if t != " 42 \nREADY.\n" { fail(format!("direct statement afterwards: {:?}", t)) } else { "ok".into() }
}

pub fn gen_c19_broken<W: Write>(w: &mut W, tier: &str, seed: u64) {
    let mut rng = Rng::new(seed ^ 0xC19B);
    let n = if tier == "thorough" { 6_000 } else { 200 };
    for _ in 0..n {
        let k = 4 + rng.below(5);
        let stop_at = 1 + rng.below(k - 2);
        let mut prog: Vec<String> = vec![];
        let nums: Vec<usize> = (0..k).map(|x| 10 * (x + 1)).collect();
        // the branch sits after the STOP or before it (already passed), its target anywhere else
        let br = loop { let b = rng.below(k); if b != stop_at { break b; } };
        let tgt = loop { let t = rng.below(k); if t != stop_at && t != br { break t; } };
        let form = rng.below(5);
        for x in 0..k {
            let body = if x == stop_at {
                "STOP".to_string()
            } else if x == br {
                match form {
                    0 => format!("PRINT \"L{}\":IF Z THEN GOTO {}", nums[x], nums[tgt]),
                    1 => format!("PRINT \"L{}\":IF Z THEN GOSUB {}", nums[x], nums[tgt]),
                    2 => format!("PRINT \"L{}\":ON Z GOTO {}", nums[x], nums[tgt]),
                    3 => format!("PRINT \"L{}\":IF Z THEN {}", nums[x], nums[tgt]),
                    _ => format!("PRINT \"L{}\":IF Z THEN RESTORE {}", nums[x], nums[tgt]),
                }
            } else {
                format!("PRINT \"L{}\"", nums[x])
            };
            prog.push(format!("{} {}", nums[x], body));
        }
        // some with an open FOR or GOSUB frame at the STOP
        if rng.chance(1, 3) {
            prog.push(format!("5 FOR I=1 TO 2"));
            prog.push(format!("{} NEXT", nums[k - 1] + 5));
        } else if rng.chance(1, 2) {
            prog.push(format!("5 GOSUB {}:END", nums[0]));
            prog.push(format!("{} RETURN", nums[k - 1] + 5));
        }
        let mut v = prog.clone();
        v.push("----".into());
        v.push(match rng.below(3) { 0 => format!("DELETE {}", nums[tgt]), 1 => format!("{}", nums[tgt]), _ => format!("DELETE {}-{}", nums[tgt], nums[tgt]) });
        v.push("----".into());
        let resumes = ["CONT", "RETURN", "NEXT", "RUN", "GOTO 10", "GOSUB 10", "RUN 10"];
        for _ in 0..1 + rng.below(3) {
            let c = *rng.pick(&resumes);
            v.push(if c.ends_with("10") { format!("{}{}", &c[..c.len() - 2], nums[rng.below(k)]) } else { c.to_string() });
        }
        emit(w, "C19", "brokencont", &v, &[]);
    }
}
