//! Layer LST: `mach/listing.rs` driven directly (`insert`, `remove`, `remove_range`, `list_line`,
//! `line`, `renum`, `lines()`, the public `indirect_errors` field).
//!
//! Request `LST <op>;<op>;...` (one whole history on a fresh `Listing`), ops:
//!   ins <n> <hextext> | del <n|-> | delrange <lo|-> <hi|-> | list <lo|-> <hi|-> | line <n>
//!   errs [<n>:<s>-<e>,...] | renum <new> <old> <step> | renumplan <new> <old> <step> | clear | empty
//! Answer: results joined by `;`, ` | `, `{n:hextext,...}`; a panic ends the history (`fault`).
//! Request `LSTSPEC <history>`: only results; `list` reports the emitted texts only.
use crate::proto::*;
use crate::rng::Rng;
use basic::lang::{Error, ErrorCode, Line, LineNumber};
use basic::mach::Listing;
use std::io::Write;
use std::ops::Range;
use std::panic::{catch_unwind, AssertUnwindSafe};
use std::sync::Arc;

fn opt_num(s: &str) -> Option<LineNumber> {
    if s == "-" {
        Some(None)
    } else {
        s.parse::<u16>().ok().map(Some)
    }
}

fn show_opt(n: &LineNumber) -> String {
    match n {
        Some(n) => n.to_string(),
        None => "-".into(),
    }
}

fn show_cols(c: &[Range<usize>]) -> String {
    let v: Vec<String> = c.iter().map(|r| format!("{}-{}", r.start, r.end)).collect();
    v.join("+")
}

fn show_listed(x: &(String, Vec<Range<usize>>)) -> String {
    format!("{}@{}", hex(&x.0), show_cols(&x.1))
}

/// text of a line after its number (what `ins` was given)
fn body(line: &Line) -> String {
    let s = line.to_string();
    match line.number() {
        Some(n) => s[n.to_string().len() + 1..].to_string(),
        None => s,
    }
}

fn err_or(e: &Error) -> String {
    format!("err {}", show_err(e))
}

fn run_op(l: &mut Listing, words: &[&str], spec: bool) -> Option<String> {
    Some(match words {
        ["ins", n, t] => {
            let n: u16 = n.parse().ok()?;
            l.insert(Line::new(&format!("{} {}", n, unhex(t))));
            "ok".into()
        }
        ["del", n] => {
            let n = opt_num(n)?;
            if l.remove(n).is_some() { "ok 1".into() } else { "ok 0".into() }
        }
        ["delrange", lo, hi] => {
            let (lo, hi) = (opt_num(lo)?, opt_num(hi)?);
            if l.remove_range(lo..=hi) { "ok 1".into() } else { "ok 0".into() }
        }
        ["list", lo, hi] => {
            let (lo, hi) = (opt_num(lo)?, opt_num(hi)?);
            let mut range = lo..=hi;
            let mut out: Vec<String> = vec![];
            let mut guard = 0usize;
            while let Some(x) = l.list_line(&mut range) {
                if spec {
                    out.push(hex(&x.0));
                } else {
                    out.push(format!("{}>{}..{}", show_listed(&x), show_opt(range.start()), show_opt(range.end())));
                }
                guard += 1;
                if guard > 70000 {
                    return Some("diverges".into());
                }
            }
            format!("ok [{}]", out.join(","))
        }
        ["line", n] => {
            let n: usize = n.parse().ok()?;
            match l.line(n) {
                Some(x) => {
                    if spec {
                        format!("ok {}", hex(&x.0))
                    } else {
                        format!("ok {}", show_listed(&x))
                    }
                }
                None => "none".into(),
            }
        }
        ["errs"] => {
            l.indirect_errors = Arc::new(vec![]);
            "ok".into()
        }
        ["errs", s] => {
            let mut es: Vec<Error> = vec![];
            for item in s.split(',') {
                let (n, c) = item.split_once(':')?;
                let (a, b) = c.split_once('-')?;
                let (n, a, b): (u16, usize, usize) = (n.parse().ok()?, a.parse().ok()?, b.parse().ok()?);
                es.push(Error::new(ErrorCode::SyntaxError).in_line_number(Some(n)).in_column(&(a..b)));
            }
            l.indirect_errors = Arc::new(es);
            "ok".into()
        }
        ["load", t] => match l.load_str(&unhex(t)) {
            // one line of a file being LOADed
            Ok(()) => "ok".into(),
            Err(e) => err_or(&e),
        },
        ["load"] => match l.load_str("") {
            Ok(()) => "ok".into(),
            Err(e) => err_or(&e),
        },
        ["renum", a, b, c] => {
            let (a, b, c): (u16, u16, u16) = (a.parse().ok()?, b.parse().ok()?, c.parse().ok()?);
            match l.renum(a, b, c) {
                Ok(()) => "ok".into(),
                Err(e) => err_or(&e),
            }
        }
        ["renumplan", a, b, c] => {
            let (a, b, c): (u16, u16, u16) = (a.parse().ok()?, b.parse().ok()?, c.parse().ok()?);
            let old: Vec<(LineNumber, String)> = l.lines().map(|x| (x.number(), body(x))).collect();
            let mut copy = l.clone();
            match copy.renum(a, b, c) {
                Err(e) => err_or(&e),
                Ok(()) => {
                    let new: Vec<(LineNumber, String)> = copy.lines().map(|x| (x.number(), body(x))).collect();
                    let v: Vec<String> = old
                        .iter()
                        .map(|(n, t)| match new.iter().find(|(_, t2)| t2 == t) {
                            Some((n2, _)) => format!("{}>{}", show_opt(n), show_opt(n2)),
                            None => format!("{}>x", show_opt(n)),
                        })
                        .collect();
                    format!("ok {}", v.join(","))
                }
            }
        }
        ["clear"] => {
            l.clear();
            "ok".into()
        }
        ["empty"] => (if l.is_empty() { "ok 1" } else { "ok 0" }).into(),
        _ => return None,
    })
}

fn dump(l: &Listing) -> String {
    let v: Vec<String> = l.lines().map(|x| format!("{}:{}", show_opt(&x.number()), hex(&body(x)))).collect();
    format!("{{{}}}", v.join(","))
}

fn run_script(script: &str, spec: bool) -> String {
    let mut l = Listing::default();
    let mut rs: Vec<String> = vec![];
    let mut faulted = false;
    if !script.is_empty() {
        for op in script.split(';') {
            let words: Vec<&str> = op.split(' ').collect();
            let r = catch_unwind(AssertUnwindSafe(|| run_op(&mut l, &words, spec)));
            match r {
                Ok(Some(s)) => rs.push(s),
                Ok(None) => return "bad-request".into(),
                Err(_) => {
                    rs.push("fault".into());
                    faulted = true;
                    break;
                }
            }
        }
    }
    if spec {
        rs.join(";")
    } else {
        format!("{} | {}", rs.join(";"), if faulted { "fault".to_string() } else { dump(&l) })
    }
}

pub fn answer(req: &str) -> String {
    if let Some(s) = req.strip_prefix("LSTSPEC ") {
        run_script(s, true)
    } else if req == "LSTSPEC" {
        run_script("", true)
    } else if let Some(s) = req.strip_prefix("LST ") {
        run_script(s, false)
    } else if req == "LST" {
        run_script("", false)
    } else {
        "bad-request".into()
    }
}

fn emit<W: Write>(w: &mut W, tag: &str, req: &str) {
    let ans = answer(req);
    let _ = writeln!(w, "{}\t{}\t{}", tag, req, ans);
}

// ------------------------------------------------------------------------------------------------
// generators

const UNIV: &[u16] = &[0, 5, 10, 65529];

fn bound_str(b: Option<u16>) -> String {
    match b {
        Some(n) => n.to_string(),
        None => "-".into(),
    }
}

/// every op of the exhaustive alphabet; `spec_ok` marks those the map specification covers
fn alphabet() -> Vec<(String, bool)> {
    let mut ops: Vec<(String, bool)> = vec![];
    for (i, &n) in UNIV.iter().enumerate() {
        ops.push((format!("ins {} {}", n, hex(&format!("REM x{}", i))), true));
        ops.push((format!("del {}", n), true));
        ops.push((format!("line {}", n), true));
    }
    // a second text for one number (replacement is visible)
    ops.push((format!("ins 5 {}", hex("REM y")), true));
    let bounds: Vec<Option<u16>> = vec![None, Some(0), Some(5), Some(10), Some(65529)];
    for &lo in &bounds {
        for &hi in &bounds {
            let inverted = match (lo, hi) {
                (Some(_), None) => true,
                (Some(a), Some(b)) => a > b,
                _ => false,
            };
            // the specification speaks about ranges of line numbers: an upper end is required
            let spec_ok = !inverted && hi.is_some();
            ops.push((format!("delrange {} {}", bound_str(lo), bound_str(hi)), spec_ok));
            ops.push((format!("list {} {}", bound_str(lo), bound_str(hi)), spec_ok));
        }
    }
    ops
}

/// Exhaustive histories over the universe {0, 5, 10, 65529}.  Alphabet A: 63 ops (5 ins, 4 del,
/// 4 line, 25 delrange, 25 list); E ⊂ A: the 34 edits (ins, del, delrange — `list`/`line` do not
/// change the state, so interleaving them adds nothing); P ⊂ E: the 9 point edits (ins, del).
/// quick:    E^0..2 · A  and  P^3 · A, P^4 · A  (all histories of length ≤ 3, point histories ≤ 5)
/// thorough: E^0..3 · A  and  P^4 · A, P^5 · A  (all histories of length ≤ 4, point histories ≤ 6)
pub fn gen_exh<W: Write>(w: &mut W, tier: &str, _seed: u64) {
    let ops = alphabet();
    let edits: Vec<(String, bool)> = ops
        .iter()
        .filter(|(s, _)| s.starts_with("ins ") || s.starts_with("del"))
        .cloned()
        .collect();
    let points: Vec<(String, bool)> = edits.iter().filter(|(s, _)| !s.starts_with("delrange")).cloned().collect();
    let thorough = tier == "thorough";
    prefix_rec(w, &ops, &edits, 0, if thorough { 3 } else { 2 }, &mut vec![]);
    if thorough {
        prefix_rec(w, &ops, &points, 4, 5, &mut vec![]);
    } else {
        prefix_rec(w, &ops, &points, 3, 4, &mut vec![]);
    }
    emit(w, "K", "LST");
}

fn prefix_rec<W: Write>(w: &mut W, ops: &[(String, bool)], edits: &[(String, bool)], minlen: usize, maxlen: usize, cur: &mut Vec<usize>) {
    if cur.len() >= minlen {
        let pre: Vec<&str> = cur.iter().map(|&i| edits[i].0.as_str()).collect();
        let pre_ok = cur.iter().all(|&i| edits[i].1);
        let pre = pre.join(";");
        for (op, spec_ok) in ops {
            let s = if pre.is_empty() { op.clone() } else { format!("{};{}", pre, op) };
            emit(w, "K", &format!("LST {}", s));
            if *spec_ok && pre_ok {
                emit(w, "F", &format!("LSTSPEC {}", s));
            }
        }
    }
    if cur.len() == maxlen {
        return;
    }
    for i in 0..edits.len() {
        cur.push(i);
        prefix_rec(w, ops, edits, minlen, maxlen, cur);
        cur.pop();
    }
}

fn rand_num(rng: &mut Rng, pool: &[u16]) -> u16 {
    // numbers above 65529 lex as direct lines (a `None` key, outside the model): never inserted
    rand_num0(rng, pool).min(65529)
}

fn rand_num0(rng: &mut Rng, pool: &[u16]) -> u16 {
    match rng.below(10) {
        0..=4 if !pool.is_empty() => *rng.pick(pool),
        5 if !pool.is_empty() => rng.pick(pool).saturating_add(1).min(65529),
        6 if !pool.is_empty() => rng.pick(pool).saturating_sub(1),
        7 => *rng.pick(&[0u16, 1, 9, 10, 99, 100, 999, 1000, 9999, 10000, 65528, 65529]),
        _ => rng.below(65530) as u16,
    }
}

fn rand_bound(rng: &mut Rng, pool: &[u16], allow_wild: bool) -> Option<u16> {
    if rng.chance(1, 8) {
        None
    } else if allow_wild && rng.chance(1, 30) {
        Some(*rng.pick(&[65530u16, 65531, 65535]))
    } else {
        Some(rand_num(rng, pool))
    }
}

pub fn gen_history(rng: &mut Rng, maxlen: usize, spec: bool) -> String {
    let n = 1 + rng.below(maxlen);
    let mut ops: Vec<String> = vec![];
    let mut pool: Vec<u16> = vec![];
    let mut ctr = 0usize;
    for _ in 0..n {
        match rng.below(100) {
            0..=39 => {
                let k = rand_num(rng, &pool);
                pool.push(k);
                ctr += 1;
                ops.push(format!("ins {} {}", k, hex(&format!("REM x{}", ctr))));
            }
            40..=49 => ops.push(format!("del {}", rand_num(rng, &pool))),
            50..=51 => ops.push(if spec { "del 7".into() } else { "del -".into() }),
            52..=63 => {
                let (mut lo, mut hi) = (rand_bound(rng, &pool, !spec), rand_bound(rng, &pool, !spec));
                if spec && hi.is_none() {
                    hi = Some(65529);
                }
                if spec || rng.chance(39, 40) {
                    // ordered (the only form the parser produces)
                    match (lo, hi) {
                        (Some(a), Some(b)) if a > b => {
                            lo = Some(b);
                            hi = Some(a);
                        }
                        (Some(a), None) => {
                            lo = None;
                            hi = Some(a);
                        }
                        _ => {}
                    }
                }
                ops.push(format!("delrange {} {}", bound_str(lo), bound_str(hi)));
            }
            64..=79 => {
                let (mut lo, mut hi) = (rand_bound(rng, &pool, !spec), rand_bound(rng, &pool, !spec));
                if spec && hi.is_none() {
                    hi = Some(65529);
                }
                if spec || rng.chance(39, 40) {
                    match (lo, hi) {
                        (Some(a), Some(b)) if a > b => {
                            lo = Some(b);
                            hi = Some(a);
                        }
                        (Some(a), None) => {
                            lo = None;
                            hi = Some(a);
                        }
                        _ => {}
                    }
                }
                ops.push(format!("list {} {}", bound_str(lo), bound_str(hi)));
            }
            80..=87 => {
                let k = if rng.chance(1, 10) { 65530 + rng.below(10) } else { rand_num(rng, &pool) as usize };
                ops.push(format!("line {}", k));
            }
            88..=91 if !spec => {
                let cnt = rng.below(4);
                if cnt == 0 {
                    ops.push("errs".into());
                } else {
                    let v: Vec<String> = (0..cnt)
                        .map(|_| {
                            let a = rng.below(12);
                            format!("{}:{}-{}", rand_num(rng, &pool), a, a + rng.below(5))
                        })
                        .collect();
                    ops.push(format!("errs {}", v.join(",")));
                }
            }
            92..=95 if !spec => {
                let t = [0u16, 1, 10, 100, 65529, 65535];
                let pick = |rng: &mut Rng, pool: &[u16]| if rng.chance(1, 3) { rand_num(rng, pool) } else { *rng.pick(&t) };
                let (a, b, c) = (pick(rng, &pool), pick(rng, &pool), pick(rng, &pool));
                ops.push(format!("{} {} {} {}", if rng.chance(1, 2) { "renum" } else { "renumplan" }, a, b, c));
                if ops.last().unwrap().starts_with("renum ") {
                    pool.push(a);
                }
            }
            96 if !spec => ops.push("clear".into()),
            97 => ops.push(if spec { "line 3".into() } else { "empty".into() }),
            _ => {
                let k = rand_num(rng, &pool);
                pool.push(k);
                ctr += 1;
                ops.push(format!("ins {} {}", k, hex(&format!("REM x{}", ctr))));
            }
        }
    }
    ops.join(";")
}

/// LOAD: a file is fed line by line through `load_str` (numbered lines insert/replace, a bare
/// number deletes, a line without a number or an over-long line is an error and changes nothing)
fn gen_load<W: Write>(w: &mut W, tier: &str, rng: &mut Rng) {
    let bodies = ["PRINT 1", "REM x", "A=A+1", "print \"a  b\";x", "?1:'r", "X=1E5", "  PRINT   2  ", "", " ", "\t", "'", "é=1", "\"", "1", "PRINT 1\r", "\u{a0}"];
    let nums = ["0", "1", "10", "  10", "10 ", "65529", "65530", "99999", "007", "1e", "", " "];
    for n in nums {
        for b in bodies {
            let file = format!("{}{}{}", n, if n.is_empty() || b.is_empty() { "" } else { " " }, b);
            emit(w, "K", &format!("LST ins 10 {};ins 20 {};load {};list - 65529", hex("REM a"), hex("REM b"), hex(&file)));
            emit(w, "K", &format!("LST load {};load {};list - 65529", hex(&file), hex(&format!("{}{}", n, b))));
        }
    }
    // the line length limit (1024 bytes, multi-byte characters count by their bytes)
    for len in [1018usize, 1019, 1020, 1021, 1022, 1023, 1024, 1025, 2000] {
        let l = format!("10 REM {}", "x".repeat(len.saturating_sub(7)));
        emit(w, "K", &format!("LST load {};empty", hex(&l)));
        let l = format!("10 REM {}", "é".repeat(len.saturating_sub(7) / 2));
        emit(w, "K", &format!("LST load {};empty", hex(&l)));
    }
    // ... and the limit applies to the LISTED text (? -> PRINT, a closed string): D19
    for n in 165usize..176 {
        emit(w, "K", &format!("LST load {};list - 65529", hex(&format!("10 {}", "?:".repeat(n)))));
    }
    for n in 1008usize..1016 {
        emit(w, "K", &format!("LST load {};list - 65529", hex(&format!("10 PRINT \"{}", "x".repeat(n)))));
        emit(w, "K", &format!("LST load {};list - 65529", hex(&format!("10 PRINT \"{}", "é".repeat(n / 2)))));
    }
    let n = if tier == "thorough" { 20_000 } else { 500 };
    for _ in 0..n {
        let k = 1 + rng.below(8);
        let mut ops: Vec<String> = vec![];
        for _ in 0..k {
            let num = *rng.pick(&["5", "10", "10", "20", "65529", "0", ""]);
            let body = *rng.pick(&bodies);
            match rng.below(6) {
                0 => ops.push(format!("load {}", hex(num))),
                1 => ops.push(format!("ins {} {}", if num.is_empty() { "7" } else { num }, hex("REM i"))),
                _ => ops.push(format!("load {}", hex(&format!("{} {}", num, body)))),
            }
        }
        ops.push("list - 65529".into());
        emit(w, "K", &format!("LST {}", ops.join(";")));
    }
}

pub fn gen_rand<W: Write>(w: &mut W, tier: &str, seed: u64) {
    let mut rng = Rng::new(seed ^ 0x1157);
    gen_load(w, tier, &mut rng);
    let n = if tier == "thorough" { 1_000_000 } else { 10_000 };
    for i in 0..n {
        if i % 4 == 3 {
            let s = gen_history(&mut rng, 30, true);
            emit(w, "K", &format!("LST {}", s));
            emit(w, "F", &format!("LSTSPEC {}", s));
        } else {
            let s = gen_history(&mut rng, 40, false);
            emit(w, "K", &format!("LST {}", s));
        }
    }
}

/// renum plans: every triple from {0,1,10,100,65529,65535}^3 on random listings
pub fn gen_renum<W: Write>(w: &mut W, tier: &str, seed: u64) {
    let mut rng = Rng::new(seed ^ 0x4E);
    let t = [0u16, 1, 10, 100, 65529, 65535];
    let rounds = if tier == "thorough" { 40 } else { 4 };
    for r in 0..rounds {
        // one random listing per round (round 0: the empty listing, round 1: a single line)
        let cnt = match r {
            0 => 0,
            1 => 1,
            _ => 2 + rng.below(12),
        };
        let mut pre: Vec<String> = vec![];
        let mut keys: Vec<u16> = vec![];
        for i in 0..cnt {
            let k = match rng.below(6) {
                0 => *rng.pick(&t).min(&65529),
                1 => rng.below(20) as u16,
                2 => (rng.below(50) * 10) as u16,
                3 => 65529 - rng.below(30) as u16,
                _ => rng.below(65530) as u16,
            };
            keys.push(k);
            pre.push(format!("ins {} {}", k, hex(&format!("REM x{}", i))));
        }
        let pre = pre.join(";");
        // the interesting arguments sit at and next to the stored numbers (new start = last kept line, ...)
        keys.sort();
        keys.dedup();
        keys.truncate(8);
        for &ka in &keys {
            for da in [-1i32, 0, 1] {
                for &kb in &keys {
                    for db in [-1i32, 0, 1] {
                        let (a, b) = ((ka as i32 + da).clamp(0, 65535), (kb as i32 + db).clamp(0, 65535));
                        let c = *rng.pick(&[1u16, 2, 10, 1000]);
                        emit(w, "K", &format!("LST {};renumplan {} {} {};renum {} {} {};list - 65529", pre, a, b, c, a, b, c));
                    }
                }
            }
        }
        for &a in &t {
            for &b in &t {
                for &c in &t {
                    let sep = if pre.is_empty() { "" } else { ";" };
                    emit(w, "K", &format!("LST {}{}renumplan {} {} {};renum {} {} {};list - 65529", pre, sep, a, b, c, a, b, c));
                }
            }
        }
    }
}
