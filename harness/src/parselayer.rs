//! Layer PARSE: `parse.rs` on token lists produced by the real lexer (and on raw token soup).
use crate::astproto::*;
use crate::progs::*;
use crate::proto::hex;
use crate::rng::Rng;
use basic::lang::token::Token;
use basic::lang::{lex, parse};
use std::io::Write;
use std::panic::{catch_unwind, AssertUnwindSafe};

pub fn answer_parse(parts: &[&str]) -> String {
    let ln: Option<u16> = if parts[1] == "-" { None } else { parts[1].parse().ok() };
    let toks: Option<Vec<Token>> = parts[2..].iter().filter(|s| !s.is_empty()).map(|s| read_token(s)).collect();
    match toks {
        None => "bad-request".into(),
        Some(ts) => match catch_unwind(AssertUnwindSafe(|| show_parse(&parse(ln, &ts)))) {
            Ok(s) => s,
            Err(_) => "fault".into(),
        },
    }
}

fn req_for_source(src: &str) -> String {
    let (ln, toks) = lex(src);
    let l = match ln {
        Some(n) => n.to_string(),
        None => "-".into(),
    };
    format!("PARSE {} {}", l, show_tokens(&toks))
}

fn emit<W: Write>(w: &mut W, tag: &str, req: &str) {
    let parts: Vec<&str> = req.split(' ').collect();
    let ans = answer_parse(&parts);
    let _ = writeln!(w, "{}\t{}\t{}", tag, req, ans);
}

pub fn emit_source<W: Write>(w: &mut W, tag: &str, src: &str) {
    emit(w, tag, &req_for_source(src));
}

/// C02 / C19 / C03: parser correspondence.
pub fn gen_parse<W: Write>(w: &mut W, tier: &str, seed: u64) {
    let mut rng = Rng::new(seed ^ 0x9A);
    for l in LINES {
        emit_source(w, "K", l);
        emit_source(w, "K", &format!("10 {}", l));
        emit_source(w, "K", &l.to_lowercase());
    }
    let n = if tier == "thorough" { 200_000 } else { 6_000 };
    for i in 0..n {
        let depth = 1 + rng.below(if i % 50 == 0 { 8 } else { 4 });
        let e = gen_expr(&mut rng, depth);
        match rng.below(5) {
            0 => emit_source(w, "K", &format!("PRINT {}", e)),
            1 => emit_source(w, "K", &format!("X={}", e)),
            2 => emit_source(w, "K", &format!("{} IF {} THEN A({})={}", 10 * (1 + rng.below(6000)), e, gen_expr(&mut rng, 1), gen_expr(&mut rng, 2))),
            3 => emit_source(w, "K", &format!("DEF FNA(X,Y)={}", e)),
            _ => emit_source(w, "K", &format!("FOR I={} TO {} STEP {}", e, gen_expr(&mut rng, 2), gen_expr(&mut rng, 1))),
        }
    }
    let m = if tier == "thorough" { 300_000 } else { 8_000 };
    for _ in 0..m {
        match rng.below(3) {
            0 => emit_source(w, "K", &gen_soup(&mut rng)),
            1 => {
                let l = *rng.pick(LINES);
                emit_source(w, "K", &mutate(&mut rng, l));
            }
            _ => {
                let a = *rng.pick(LINES);
                let b = *rng.pick(LINES);
                let sep = *rng.pick(&[":", " : ", " ELSE ", " THEN ", ","]);
                emit_source(w, "K", &format!("{}{}{}", a, sep, b));
            }
        }
    }
    // deep nesting (bounded: the Rust parser recurses on the native stack)
    for d in [10usize, 50, 200] {
        emit_source(w, "K", &format!("X={}1{}", "(".repeat(d), ")".repeat(d)));
        emit_source(w, "K", &format!("X={}1", "-".repeat(d)));
        emit_source(w, "K", &format!("X={}1", "NOT ".repeat(d)));
        emit_source(w, "K", &format!("{}PRINT 1", "IF 1 THEN ".repeat(d)));
        emit_source(w, "K", &format!("X=1{}", "+1".repeat(d)));
        emit_source(w, "K", &format!("X=A{}1{}", "(A(".repeat(d / 2), "))".repeat(d / 2)));
    }
    let _ = hex("");
}
