//! Canonical text of tokens and ASTs (shared with lean/BasicModel/ProtoAst.lean).
use crate::proto::{hex, show_err};
use basic::lang::ast::{Expression, Ident, Statement, Variable};
use basic::lang::token::{self, Literal, Token};
use basic::lang::Error;

pub fn show_token(t: &Token) -> String {
    match t {
        Token::Unknown(s) => format!("U{}", hex(s)),
        Token::Whitespace(n) => format!("W{}", n),
        Token::Literal(Literal::Single(s)) => format!("Ls{}", hex(s)),
        Token::Literal(Literal::Double(s)) => format!("Ld{}", hex(s)),
        Token::Literal(Literal::Integer(s)) => format!("Li{}", hex(s)),
        Token::Literal(Literal::Hex(s)) => format!("Lh{}", hex(s)),
        Token::Literal(Literal::Octal(s)) => format!("Lo{}", hex(s)),
        Token::Literal(Literal::String(s)) => format!("Lq{}", hex(s)),
        Token::Word(w) => format!("K{:?}", w),
        Token::Operator(o) => format!("O{:?}", o),
        Token::Ident(token::Ident::Plain(s)) => format!("Ip{}", hex(s)),
        Token::Ident(token::Ident::String(s)) => format!("Is{}", hex(s)),
        Token::Ident(token::Ident::Single(s)) => format!("If{}", hex(s)),
        Token::Ident(token::Ident::Double(s)) => format!("Id{}", hex(s)),
        Token::Ident(token::Ident::Integer(s)) => format!("Ii{}", hex(s)),
        Token::LParen => "PL".into(),
        Token::RParen => "PR".into(),
        Token::Comma => "PC".into(),
        Token::Colon => "PN".into(),
        Token::Semicolon => "PS".into(),
    }
}

pub fn show_tokens(ts: &[Token]) -> String {
    ts.iter().map(show_token).collect::<Vec<_>>().join(" ")
}

fn col(c: &std::ops::Range<usize>) -> String {
    format!("{}-{}", c.start, c.end)
}

fn ident(i: &Ident) -> String {
    match i {
        Ident::Plain(s) => format!("P:{}", hex(s)),
        Ident::String(s) => format!("S:{}", hex(s)),
        Ident::Single(s) => format!("F:{}", hex(s)),
        Ident::Double(s) => format!("D:{}", hex(s)),
        Ident::Integer(s) => format!("I:{}", hex(s)),
    }
}

pub fn var(v: &Variable) -> String {
    match v {
        Variable::Unary(c, i) => format!("(U {} {})", col(c), ident(i)),
        Variable::Array(c, i, es) => format!("(A {} {} [{}])", col(c), ident(i), exprs(es)),
    }
}

fn exprs(es: &[Expression]) -> String {
    es.iter().map(expr).collect::<Vec<_>>().join(" ")
}

fn vars(vs: &[Variable]) -> String {
    vs.iter().map(var).collect::<Vec<_>>().join(" ")
}

pub fn expr(e: &Expression) -> String {
    use Expression::*;
    let bin = |n: &str, c: &std::ops::Range<usize>, l: &Expression, r: &Expression| {
        format!("({} {} {} {})", n, col(c), expr(l), expr(r))
    };
    match e {
        Variable(v) => format!("(V {})", var(v)),
        Single(c, x) => format!("(Sng {} {:08x})", col(c), if x.is_nan() { 0x7fc00000 } else { x.to_bits() }),
        Double(c, x) => format!("(Dbl {} {:016x})", col(c), if x.is_nan() { 0x7ff8000000000000 } else { x.to_bits() }),
        Integer(c, n) => format!("(Int {} {})", col(c), n),
        String(c, s) => format!("(Str {} {})", col(c), hex(s)),
        Negation(c, e) => format!("(Negation {} {})", col(c), expr(e)),
        Not(c, e) => format!("(Not {} {})", col(c), expr(e)),
        Power(c, l, r) => bin("Power", c, l, r),
        Multiply(c, l, r) => bin("Multiply", c, l, r),
        Divide(c, l, r) => bin("Divide", c, l, r),
        DivideInt(c, l, r) => bin("DivideInt", c, l, r),
        Modulo(c, l, r) => bin("Modulo", c, l, r),
        Add(c, l, r) => bin("Add", c, l, r),
        Subtract(c, l, r) => bin("Subtract", c, l, r),
        Equal(c, l, r) => bin("Equal", c, l, r),
        NotEqual(c, l, r) => bin("NotEqual", c, l, r),
        Less(c, l, r) => bin("Less", c, l, r),
        LessEqual(c, l, r) => bin("LessEqual", c, l, r),
        Greater(c, l, r) => bin("Greater", c, l, r),
        GreaterEqual(c, l, r) => bin("GreaterEqual", c, l, r),
        And(c, l, r) => bin("And", c, l, r),
        Or(c, l, r) => bin("Or", c, l, r),
        Xor(c, l, r) => bin("Xor", c, l, r),
        Imp(c, l, r) => bin("Imp", c, l, r),
        Eqv(c, l, r) => bin("Eqv", c, l, r),
    }
}

pub fn stmts(ss: &[Statement]) -> String {
    ss.iter().map(stmt).collect::<Vec<_>>().join(" ")
}

pub fn stmt(s: &Statement) -> String {
    use Statement::*;
    match s {
        Clear(c) => format!("(Clear {})", col(c)),
        Cls(c) => format!("(Cls {})", col(c)),
        Cont(c) => format!("(Cont {})", col(c)),
        Data(c, es) => format!("(Data {} [{}])", col(c), exprs(es)),
        Def(c, v, ps, e) => format!("(Def {} {} [{}] {})", col(c), var(v), vars(ps), expr(e)),
        Defdbl(c, a, b) => format!("(Defdbl {} {} {})", col(c), var(a), var(b)),
        Defint(c, a, b) => format!("(Defint {} {} {})", col(c), var(a), var(b)),
        Defsng(c, a, b) => format!("(Defsng {} {} {})", col(c), var(a), var(b)),
        Defstr(c, a, b) => format!("(Defstr {} {} {})", col(c), var(a), var(b)),
        Delete(c, a, b) => format!("(Delete {} {} {})", col(c), expr(a), expr(b)),
        Dim(c, vs) => format!("(Dim {} [{}])", col(c), vars(vs)),
        End(c) => format!("(End {})", col(c)),
        Erase(c, vs) => format!("(Erase {} [{}])", col(c), vars(vs)),
        For(c, v, a, b, s) => format!("(For {} {} {} {} {})", col(c), var(v), expr(a), expr(b), expr(s)),
        Gosub(c, e) => format!("(Gosub {} {})", col(c), expr(e)),
        Goto(c, e) => format!("(Goto {} {})", col(c), expr(e)),
        If(c, p, th, el) => format!("(If {} {} [{}] [{}])", col(c), expr(p), stmts(th), stmts(el)),
        Input(c, caps, pr, vs) => format!("(Input {} {} {} [{}])", col(c), expr(caps), expr(pr), vars(vs)),
        Let(c, v, e) => format!("(Let {} {} {})", col(c), var(v), expr(e)),
        List(c, a, b) => format!("(List {} {} {})", col(c), expr(a), expr(b)),
        Load(c, e) => format!("(Load {} {})", col(c), expr(e)),
        Mid(c, v, p, l, e) => format!("(Mid {} {} {} {} {})", col(c), var(v), expr(p), expr(l), expr(e)),
        New(c) => format!("(New {})", col(c)),
        Next(c, vs) => format!("(Next {} [{}])", col(c), vars(vs)),
        OnGoto(c, e, ls) => format!("(OnGoto {} {} [{}])", col(c), expr(e), exprs(ls)),
        OnGosub(c, e, ls) => format!("(OnGosub {} {} [{}])", col(c), expr(e), exprs(ls)),
        Print(c, es) => format!("(Print {} [{}])", col(c), exprs(es)),
        Read(c, vs) => format!("(Read {} [{}])", col(c), vars(vs)),
        Renum(c, a, b, s) => format!("(Renum {} {} {} {})", col(c), expr(a), expr(b), expr(s)),
        Restore(c, e) => format!("(Restore {} {})", col(c), expr(e)),
        Return(c) => format!("(Return {})", col(c)),
        Run(c, e) => format!("(Run {} {})", col(c), expr(e)),
        Save(c, e) => format!("(Save {} {})", col(c), expr(e)),
        Stop(c) => format!("(Stop {})", col(c)),
        Swap(c, a, b) => format!("(Swap {} {} {})", col(c), var(a), var(b)),
        Troff(c) => format!("(Troff {})", col(c)),
        Tron(c) => format!("(Tron {})", col(c)),
        Wend(c) => format!("(Wend {})", col(c)),
        While(c, e) => format!("(While {} {})", col(c), expr(e)),
    }
}

pub fn show_parse(r: &Result<Vec<Statement>, Error>) -> String {
    match r {
        Ok(ss) => format!("ok [{}]", stmts(ss)),
        Err(e) => format!("err {}", show_err(e)),
    }
}

pub fn read_token(s: &str) -> Option<Token> {
    use token::{Ident as TI, Operator, Word};
    let un = |r: &str| crate::proto::unhex(r);
    if s == "U" {
        return Some(Token::Unknown(String::new()));
    }
    if s.len() < 2 {
        return None;
    }
    let (k, r) = s.split_at(1);
    Some(match k {
        "U" => Token::Unknown(un(r)),
        "W" => Token::Whitespace(r.parse().ok()?),
        "L" => {
            let (k2, r2) = r.split_at(1);
            let t = un(r2);
            match k2 {
                "s" => Token::Literal(Literal::Single(t)),
                "d" => Token::Literal(Literal::Double(t)),
                "i" => Token::Literal(Literal::Integer(t)),
                "h" => Token::Literal(Literal::Hex(t)),
                "o" => Token::Literal(Literal::Octal(t)),
                "q" => Token::Literal(Literal::String(t)),
                _ => return None,
            }
        }
        "K" => {
            let all = [Word::Clear, Word::Cls, Word::Cont, Word::Data, Word::Def, Word::Defdbl, Word::Defint, Word::Defsng, Word::Defstr, Word::Delete, Word::Dim, Word::Else, Word::End, Word::Erase, Word::For, Word::Gosub, Word::Goto, Word::If, Word::Input, Word::Let, Word::List, Word::Load, Word::New, Word::Next, Word::On, Word::Print, Word::Read, Word::Rem1, Word::Rem2, Word::Renum, Word::Restore, Word::Return, Word::Save, Word::Step, Word::Stop, Word::Swap, Word::Run, Word::Then, Word::To, Word::Troff, Word::Tron, Word::Wend, Word::While];
            Token::Word(all.iter().find(|w| format!("{:?}", w) == r)?.clone())
        }
        "O" => {
            let all = [Operator::Caret, Operator::Multiply, Operator::Divide, Operator::DivideInt, Operator::Modulo, Operator::Plus, Operator::Minus, Operator::Equal, Operator::NotEqual, Operator::Less, Operator::LessEqual, Operator::Greater, Operator::GreaterEqual, Operator::Not, Operator::And, Operator::Or, Operator::Xor, Operator::Imp, Operator::Eqv];
            Token::Operator(all.iter().find(|w| format!("{:?}", w) == r)?.clone())
        }
        "I" => {
            let (k2, r2) = r.split_at(1);
            let t = un(r2);
            match k2 {
                "p" => Token::Ident(TI::Plain(t)),
                "s" => Token::Ident(TI::String(t)),
                "f" => Token::Ident(TI::Single(t)),
                "d" => Token::Ident(TI::Double(t)),
                "i" => Token::Ident(TI::Integer(t)),
                _ => return None,
            }
        }
        "P" => match r {
            "L" => Token::LParen,
            "R" => Token::RParen,
            "C" => Token::Comma,
            "N" => Token::Colon,
            "S" => Token::Semicolon,
            _ => return None,
        },
        _ => return None,
    })
}
