//! Canonical text of values / errors shared with the Lean driver (DESIGN App. D).
use basic::lang::Error;
use basic::mach::Val;

pub fn hex(s: &str) -> String {
    let mut o = String::with_capacity(s.len() * 2);
    for b in s.bytes() {
        o.push_str(&format!("{:02x}", b));
    }
    o
}

pub fn unhex(s: &str) -> String {
    let b: Vec<u8> = (0..s.len() / 2)
        .map(|i| u8::from_str_radix(&s[2 * i..2 * i + 2], 16).unwrap_or(0))
        .collect();
    String::from_utf8(b).unwrap_or_default()
}

pub fn show_val(v: &Val) -> String {
    match v {
        Val::Integer(n) => format!("I{}", n),
        Val::Single(x) => {
            let b = if x.is_nan() { 0x7fc00000 } else { x.to_bits() };
            format!("S{:08x}", b)
        }
        Val::Double(x) => {
            let b = if x.is_nan() { 0x7ff8000000000000 } else { x.to_bits() };
            format!("D{:016x}", b)
        }
        Val::String(s) => format!("T{}", hex(s)),
        Val::Return(a) => format!("R{}", a),
        Val::Next(a) => format!("N{}", a),
    }
}

pub fn read_val(s: &str) -> Option<Val> {
    let (k, r) = s.split_at(1);
    Some(match k {
        "I" => Val::Integer(r.parse().ok()?),
        "S" => Val::Single(f32::from_bits(u32::from_str_radix(r, 16).ok()?)),
        "D" => Val::Double(f64::from_bits(u64::from_str_radix(r, 16).ok()?)),
        "T" => Val::String(unhex(r).into()),
        "R" => Val::Return(r.parse().ok()?),
        "N" => Val::Next(r.parse().ok()?),
        _ => return None,
    })
}

/// `<code>@<line|->:<start>-<end>;<hex message>`; code/columns/message are recovered from the
/// public API (`Display`, `line_number()`, `column()`).
pub fn show_err(e: &Error) -> String {
    let text = e.to_string();
    let code = code_of(&text);
    let line = match e.line_number() {
        Some(n) => n.to_string(),
        None => "-".into(),
    };
    let col = e.column();
    let off = match e.line_number() {
        Some(n) => n.to_string().len() + 1,
        None => 0,
    };
    let msg = match text.find("; ") {
        Some(i) => &text[i + 2..],
        None => "",
    };
    format!("{}@{}:{}-{};{}", code, line, col.start - off, col.end - off, hex(msg))
}

const CODES: &[(u16, &str)] = &[
    (0, "BREAK"), (1, "NEXT WITHOUT FOR"), (2, "SYNTAX ERROR"), (3, "RETURN WITHOUT GOSUB"),
    (4, "OUT OF DATA"), (5, "ILLEGAL FUNCTION CALL"), (6, "OVERFLOW"), (7, "OUT OF MEMORY"),
    (8, "UNDEFINED LINE"), (9, "SUBSCRIPT OUT OF RANGE"), (10, "REDIMENSIONED ARRAY"),
    (11, "DIVISION BY ZERO"), (12, "ILLEGAL DIRECT"), (13, "TYPE MISMATCH"),
    (14, "OUT OF STRING SPACE"), (15, "STRING TOO LONG"), (17, "CAN'T CONTINUE"),
    (18, "UNDEFINED USER FUNCTION"), (21, "REDO FROM START"), (23, "LINE BUFFER OVERFLOW"),
    (26, "FOR WITHOUT NEXT"), (29, "WHILE WITHOUT WEND"), (30, "WEND WITHOUT WHILE"),
    (51, "INTERNAL ERROR"), (53, "FILE NOT FOUND"), (58, "FILE ALREADY EXISTS"),
    (64, "BAD FILE NAME"), (66, "DIRECT STATEMENT IN FILE"),
];

pub fn code_of(text: &str) -> u16 {
    let t = text.strip_prefix('?').unwrap_or(text);
    let mut best: Option<(usize, u16)> = None;
    for (c, name) in CODES {
        if t.starts_with(name) {
            let rest = &t[name.len()..];
            if rest.is_empty() || rest.starts_with(" IN") || rest.starts_with("; ") {
                if best.map_or(true, |(l, _)| name.len() > l) {
                    best = Some((name.len(), *c));
                }
            }
        }
    }
    best.map(|(_, c)| c).unwrap_or(9999)
}

pub fn show_res(r: Result<Val, Error>) -> String {
    match r {
        Ok(v) => format!("ok {}", show_val(&v)),
        Err(e) => format!("err {}", show_err(&e)),
    }
}
