//! Shared generators: realistic lines, expression trees, programs.
use crate::rng::Rng;

/// Realistic lines covering every statement kind and operand form (unnumbered).
pub const LINES: &[&str] = &[
    "PRINT \"HELLO\"", "PRINT 1;2,3", "PRINT A$;\" \";B", "PRINT TAB(5);X;SPC(2);Y", "PRINT", "PRINT 1+2*3;", "? \"X\",",
    "PRINT \"AB\"+CHR$(10)+\"CD\";POS(0);", "PRINT CHR$(10);TAB(3);\"x\",CHR$(13);POS(0)", "LIST 0", "LIST 0-", "LIST -0", "DELETE 0", "DELETE 0-0", "LIST 65529", "DELETE 65529-", "LIST 65530", "DELETE -65530", "LIST 0-65529",
    "A$=\"PORTLAND, ME\":MID$(A$,1)=\"é\":PRINT A$;LEN(A$)", "B$=\"αβγδεζ\":MID$(B$,2,5)=\"€€\":PRINT B$", "MID$(A$,3,1)=\"日本\"",
    "LET A=5", "A=5", "A$=\"abc\"+B$", "A%=7:B!=1.5:C#=2.5D3", "A(1,2)=3", "A$(I)=MID$(B$,2,3)", "X=-Y^2", "X=NOT A AND B OR C XOR D IMP E EQV F",
    "X=1<2", "X=A<=B", "X=A>=B", "X=A<>B", "X=(1+2)*(3-4)/5\\6 MOD 7", "X=&HFF+&17", "X=1E5+2.5E-3+3D2", "X=SIN(1)+COS(2)*ATN(3)", "X=LEN(A$)+ASC(B$)+VAL(C$)",
    "A$=LEFT$(B$,2)+RIGHT$(B$,1)+CHR$(65)+STR$(5)+HEX$(255)+OCT$(8)+STRING$(3,\"x\")", "X=INSTR(A$,B$)+INSTR(2,A$,B$)", "X=RND(1)+RND+POS(0)", "X=FNA(1)+FNB(2,3)",
    "MID$(A$,2)=\"x\"", "MID$(A$,2,1)=B$", "LET MID$(A$,1)=\"q\"",
    "FOR I=1 TO 10", "FOR I=1 TO 10 STEP 2", "FOR I%=10 TO 1 STEP -1", "NEXT", "NEXT I", "NEXT J,I",
    "IF A THEN 100", "IF A=1 THEN PRINT 1", "IF A THEN PRINT 1 ELSE PRINT 2", "IF A THEN 10 ELSE 20", "IF A GOTO 50", "IF A THEN PRINT 1:PRINT 2 ELSE PRINT 3:PRINT 4", "IF A THEN IF B THEN PRINT 1 ELSE PRINT 2",
    "GOTO 100", "GOSUB 200", "RETURN", "ON X GOTO 10,20,30", "ON X GOSUB 100,200", "ON X+1 GOTO 10",
    "WHILE A<10", "WEND", "END", "STOP", "CONT", "CLEAR", "CLEAR 100,200", "CLS", "NEW", "TRON", "TROFF",
    "DATA 1,2,\"three\",-4,5.5", "DATA -1", "READ A,B$,C(1)", "RESTORE", "RESTORE 100",
    "DIM A(10)", "DIM A(10),B$(5,5),C%(2,3,4)", "ERASE A", "ERASE A,B$", "SWAP A,B", "SWAP A$(1),B$",
    "DEF FNA(X)=X*2", "DEF FNB(X,Y)=X+Y", "DEF FNC$(A$)=A$+A$", "DEF FND()=1", "DEFINT A", "DEFINT A-C", "DEFSNG X", "DEFDBL D-F", "DEFSTR S",
    "INPUT A", "INPUT \"NAME\";A$", "INPUT \"A,B\";A,B", "INPUT ,A", "INPUT ,\"P\";A$,B(1)", "INPUT \"X\" A",
    "LIST", "LIST 10", "LIST 10-", "LIST -20", "LIST 10-20", "DELETE 10", "DELETE 10-20", "DELETE -20", "DELETE 10-", "DELETE", "DELETE:PRINT 1", "PRINT 1:DELETE :PRINT 2", "IF 1 THEN DELETE ELSE PRINT 2", "IF 0 THEN PRINT 1 ELSE DELETE:PRINT 3", "DELETE ELSE", "LIST:PRINT 1", "IF 1 THEN LIST ELSE PRINT 2",
    "RENUM", "RENUM 100", "RENUM 100,10", "RENUM 100,10,5", "RENUM ,,5", "RENUM 100,,5",
    "RUN", "RUN 100", "RUN \"FILE\"", "LOAD \"FILE\"", "SAVE \"FILE\"",
    "REM a comment: PRINT 1", "' another", "PRINT 1 ' trailing", "PRINT 1:REM x", "A=1:B=2:C=3", ":::", "A=1::B=2",
    "GO TO 10", "GO SUB 20", "PRINT 1 ELSE 2", "FOR I=1TO10STEP2", "IFA=1THENPRINT1", "PRINT\"é日本\";A$",
];

pub const IDENTS: &[&str] = &["A", "B", "I", "J", "X", "Y", "Z", "A$", "B$", "A%", "B!", "C#", "AB", "A1", "X9$", "TOTAL", "N"];
pub const NUMS: &[&str] = &["0", "1", "2", "7", "10", "255", "32767", "32768", "65529", "65530", "1.5", ".5", "2.", "1E3", "1.5E-2", "2D2", "3#", "4!", "5%", "&HFF", "&17", "&H7FFF", "123456789", "0.1"];
pub const BINOPS: &[&str] = &["^", "*", "/", "\\", " MOD ", "+", "-", "=", "<>", "<", "<=", ">", ">=", " AND ", " OR ", " XOR ", " IMP ", " EQV "];
pub const FUNCS1: &[&str] = &["ABS", "INT", "SGN", "FIX", "CINT", "CSNG", "CDBL", "SQR", "LEN", "ASC", "VAL"];

/// A random expression as source text; `depth` bounds nesting. Parentheses are minimal or redundant at random.
pub fn gen_expr(rng: &mut Rng, depth: usize) -> String {
    if depth == 0 || rng.chance(1, 4) {
        return match rng.below(6) {
            0 | 1 => rng.pick(NUMS).to_string(),
            2 | 3 => rng.pick(IDENTS).to_string(),
            4 => format!("\"{}\"", rng.pick(&["", "a", "hi there", "é"])),
            _ => format!("{}({})", rng.pick(&["A", "B$", "Q"]), gen_expr(rng, 0)),
        };
    }
    match rng.below(10) {
        0 => format!("-{}", gen_expr(rng, depth - 1)),
        1 => format!("NOT {}", gen_expr(rng, depth - 1)),
        2 => format!("({})", gen_expr(rng, depth - 1)),
        3 => format!("{}({})", rng.pick(FUNCS1), gen_expr(rng, depth - 1)),
        4 => format!("+{}", gen_expr(rng, depth - 1)),
        5 => format!("FNA({},{})", gen_expr(rng, depth - 1), gen_expr(rng, depth - 1)),
        _ => {
            let l = gen_expr(rng, depth - 1);
            let r = gen_expr(rng, depth - 1);
            let op = rng.pick(BINOPS);
            if rng.chance(1, 5) {
                format!("({}){}({})", l, op, r)
            } else {
                format!("{}{}{}", l, op, r)
            }
        }
    }
}

pub const SOUP: &[&str] = &[
    "PRINT", "LET", "IF", "THEN", "ELSE", "FOR", "TO", "STEP", "NEXT", "GOTO", "GOSUB", "RETURN", "ON", "WHILE", "WEND", "DATA", "READ", "RESTORE", "DIM", "ERASE",
    "SWAP", "DEF", "DEFINT", "INPUT", "LIST", "DELETE", "RENUM", "RUN", "END", "STOP", "REM", "'", "CLEAR", "MID$", "TAB", "FNA", "FN",
    "A", "B$", "I%", "X1", "10", "20", "1.5", "1E5", "&HFF", "\"s\"", "\"", "(", ")", ",", ";", ":", "+", "-", "*", "/", "\\", "^", "=", "<", ">", "<=", ">=", "<>", "AND", "OR", "NOT", "MOD", " ", "  ", "?", "#", "!", "%", "$", "@", "é",
];

pub fn gen_soup(rng: &mut Rng) -> String {
    let n = 1 + rng.below(10);
    let mut s = String::new();
    for _ in 0..n {
        s.push_str(*rng.pick(SOUP));
        if rng.chance(2, 3) {
            s.push(' ');
        }
    }
    s
}

/// Mutate a line at the character level (delete / duplicate / replace / insert).
pub fn mutate(rng: &mut Rng, line: &str) -> String {
    let mut cs: Vec<char> = line.chars().collect();
    let n = 1 + rng.below(3);
    let pool: Vec<char> = "()=,;:\"+-<> 019.EDA$%#!&'?".chars().collect();
    for _ in 0..n {
        if cs.is_empty() {
            cs.push(*rng.pick(&pool));
            continue;
        }
        let i = rng.below(cs.len());
        match rng.below(4) {
            0 => {
                cs.remove(i);
            }
            1 => {
                let c = cs[i];
                cs.insert(i, c);
            }
            2 => cs[i] = *rng.pick(&pool),
            _ => cs.insert(i, *rng.pick(&pool)),
        }
    }
    cs.into_iter().collect()
}

// ---------------------------------------------------------------------------------------------
// Program generator: terminating programs of the well-defined fragment (DESIGN §6.2).

pub struct Prog {
    pub lines: Vec<(u32, String)>,
    pub replies: Vec<String>,
}

impl Prog {
    pub fn text(&self) -> Vec<String> {
        self.lines.iter().map(|(n, s)| format!("{} {}", n, s)).collect()
    }
}

struct PG<'a> {
    rng: &'a mut Rng,
    lines: Vec<(u32, String)>,
    next_line: u32,
    step: u32,
    subs: Vec<u32>,        // line numbers of subroutines (filled in at the end)
    sub_bodies: Vec<Vec<String>>,
    replies: Vec<String>,
    loop_depth: usize,
    counter: usize,
    data_items: usize,
    reads: usize,
    fns: Vec<(String, usize)>,
    dims: Vec<String>,
}

const IVARS: &[&str] = &["A", "B", "C", "I", "J", "K", "N%", "M%", "X", "Y", "X#", "Y!", "A1", "AB"];
const SVARS: &[&str] = &["A$", "B$", "S$"];

impl<'a> PG<'a> {
    fn emit(&mut self, s: String) {
        self.lines.push((self.next_line, s));
        self.next_line += self.step;
    }
    fn ivar(&mut self) -> String {
        self.rng.pick(IVARS).to_string()
    }
    fn svar(&mut self) -> String {
        self.rng.pick(SVARS).to_string()
    }
    fn small(&mut self) -> i32 {
        (self.rng.below(21) as i32) - 5
    }
    fn iexpr(&mut self, depth: usize) -> String {
        if depth == 0 || self.rng.chance(1, 3) {
            return match self.rng.below(5) {
                0 | 1 => format!("{}", self.small()),
                2 | 3 => self.ivar(),
                _ => {
                    if !self.dims.is_empty() && self.rng.chance(1, 2) {
                        let d = self.rng.pick(&self.dims).clone();
                        format!("{}({})", d, self.rng.below(6))
                    } else {
                        format!("Q({})", self.rng.below(11))
                    }
                }
            };
        }
        let l = self.iexpr(depth - 1);
        let r = self.iexpr(depth - 1);
        match self.rng.below(14) {
            0 | 1 => format!("{}+{}", l, r),
            2 | 3 => format!("{}-{}", l, r),
            4 => format!("{}*{}", l, r),
            5 => format!("({})*({})", l, r),
            6 => format!("{} MOD 7", l),
            7 => format!("({})\\3", l),
            8 => format!("ABS({})", l),
            9 => format!("-({})", l),
            10 => format!("LEN({})", self.sexpr(1)),
            11 => {
                if !self.fns.is_empty() {
                    let (f, ar) = self.rng.pick(&self.fns).clone();
                    let args: Vec<String> = (0..ar).map(|_| self.iexpr(0)).collect();
                    if ar == 0 { format!("{}()", f) } else { format!("{}({})", f, args.join(",")) }
                } else {
                    format!("SGN({})", l)
                }
            }
            12 => format!("{}/2", l),
            _ => format!("INT({})", l),
        }
    }
    fn cond(&mut self) -> String {
        let l = self.iexpr(1);
        let r = self.iexpr(1);
        let op = *self.rng.pick(&["=", "<>", "<", "<=", ">", ">="]);
        match self.rng.below(6) {
            0 => format!("{}{}{} AND {}>0", l, op, r, self.ivar()),
            1 => format!("NOT {}{}{}", l, op, r),
            2 => format!("{}{}{} OR {}=0", l, op, r, self.ivar()),
            3 => format!("{}={}", self.sexpr(1), self.sexpr(1)),
            _ => format!("{}{}{}", l, op, r),
        }
    }
    fn sexpr(&mut self, depth: usize) -> String {
        if depth == 0 || self.rng.chance(1, 3) {
            return match self.rng.below(4) {
                0 => format!("\"{}\"", self.rng.pick(&["", "a", "xy", "HELLO", "b c", "é", "日本", "a,b"])),
                _ => self.svar(),
            };
        }
        match self.rng.below(8) {
            0 => format!("{}+{}", self.sexpr(depth - 1), self.sexpr(depth - 1)),
            1 => format!("LEFT$({},{})", self.sexpr(depth - 1), self.rng.below(4)),
            2 => format!("RIGHT$({},{})", self.sexpr(depth - 1), self.rng.below(4)),
            3 => format!("MID$({},{},{})", self.sexpr(depth - 1), 1 + self.rng.below(3), self.rng.below(3)),
            4 => format!("CHR$({})", 65 + self.rng.below(26)),
            5 => format!("STR$({})", self.iexpr(0)),
            6 => format!("STRING$({},\"*\")", self.rng.below(4)),
            _ => format!("HEX$({})", self.rng.below(300)),
        }
    }
    fn print_stmt(&mut self) -> String {
        let n = 1 + self.rng.below(4);
        let mut s = String::from("PRINT ");
        for i in 0..n {
            match self.rng.below(8) {
                0 | 1 | 2 => s.push_str(&self.iexpr(1)),
                3 | 4 => s.push_str(&self.sexpr(1)),
                5 => s.push_str(&format!("TAB({})", self.rng.below(30))),
                6 => s.push_str(&format!("SPC({})", self.rng.below(5))),
                _ => s.push_str("POS(0)"),
            }
            if i + 1 < n || self.rng.chance(1, 4) {
                s.push_str(*self.rng.pick(&[";", ",", ";", " "]));
            }
        }
        s
    }
    /// a simple (non-control) statement
    fn simple(&mut self) -> String {
        match self.rng.below(16) {
            0 | 1 | 2 => format!("{}={}", self.ivar(), self.iexpr(2)),
            3 | 4 | 5 => self.print_stmt(),
            6 => format!("{}={}", self.svar(), self.sexpr(2)),
            7 => format!("Q({})={}", self.rng.below(11), self.iexpr(1)),
            8 => {
                if self.reads < self.data_items {
                    self.reads += 1;
                    format!("READ {}", self.ivar())
                } else {
                    "RESTORE".to_string()
                }
            }
            9 => format!("SWAP {},{}", self.rng.pick(&["A", "B", "C"]), self.rng.pick(&["X", "Y", "A"])),
            10 => format!("MID$({},{})=\"{}\"", self.svar(), 1 + self.rng.below(3), self.rng.pick(&["z", "QQ", ""])),
            11 => format!("LET {}={}", self.ivar(), self.small()),
            12 => "REM nothing here".to_string(),
            13 => {
                if !self.dims.is_empty() {
                    let d = self.rng.pick(&self.dims).clone();
                    format!("{}({})={}", d, self.rng.below(6), self.iexpr(1))
                } else {
                    format!("{}={}+1", self.ivar(), self.ivar())
                }
            }
            14 => match self.rng.below(4) {
                0 => {
                    // two targets, a string field (possibly non-ASCII or quoted with a comma) and a number
                    let f = *self.rng.pick(&["abc", "é", "日本 語", "\"a,b\"", " x ", ""]);
                    let r = self.small();
                    self.replies.push(format!("{},{}", f, r));
                    format!("INPUT {},{}", self.svar(), self.ivar())
                }
                1 => {
                    // a reply that is refused first (wrong count), then accepted
                    let r = self.small();
                    self.replies.push(format!("{},{},9", r, r));
                    self.replies.push(format!("{}, {}", r, r + 1));
                    format!("INPUT ,\"P\";{},{}", self.ivar(), self.ivar())
                }
                _ => {
                    let r = self.small();
                    self.replies.push(format!("{}", r));
                    format!("INPUT \"N\";{}", self.ivar())
                }
            },
            _ => format!("{}={}", self.ivar(), self.iexpr(1)),
        }
    }
    fn fresh_counter(&mut self) -> String {
        self.counter += 1;
        format!("Z{}", self.counter)
    }
    fn block(&mut self, depth: usize) {
        let kind = self.rng.below(if depth == 0 { 6 } else { 16 });
        match kind {
            0..=5 => {
                // one line with 1..3 simple statements
                let n = 1 + self.rng.below(3);
                let st: Vec<String> = (0..n).map(|_| self.simple()).collect();
                self.emit(st.join(":"));
            }
            6 | 7 => {
                // IF on one line
                let c = self.cond();
                let t = self.simple();
                if self.rng.chance(1, 12) {
                    // branch to the last line of the program, which holds no code (REM / DATA)
                    self.emit(format!("IF {} THEN @TAIL", c));
                } else if self.rng.chance(1, 2) {
                    let e = self.simple();
                    self.emit(format!("IF {} THEN {} ELSE {}", c, t, e));
                } else if self.rng.chance(1, 3) {
                    let t2 = self.simple();
                    self.emit(format!("IF {} THEN {}:{}", c, t, t2));
                } else {
                    self.emit(format!("IF {} THEN {}", c, t));
                }
            }
            8 => {
                // IF … THEN line-number skipping a block (forward jump)
                let c = self.cond();
                let at = self.lines.len();
                self.emit(String::new());
                let n = 1 + self.rng.below(2);
                for _ in 0..n {
                    self.block(depth - 1);
                }
                let target = self.next_line;
                self.emit("REM target".to_string());
                let form = self.rng.below(3);
                self.lines[at].1 = match form {
                    0 => format!("IF {} THEN {}", c, target),
                    1 => format!("IF {} GOTO {}", c, target),
                    _ => format!("IF {} THEN PRINT \"T\" ELSE {}", c, target),
                };
            }
            9 | 10 => {
                // FOR / NEXT
                let v = self.rng.pick(&["I", "J", "K", "L%"]).to_string();
                let v = format!("{}{}", &v[..1], if v.ends_with('%') { "%" } else { "" });
                let var = if self.loop_depth == 0 { v } else { format!("F{}", self.loop_depth) };
                let (a, b, st) = match self.rng.below(5) {
                    0 => (1, 3, 1),
                    1 => (3, 1, -1),
                    2 => (0, 4, 2),
                    3 => (5, 1, 1), // first pass past the limit: body runs once
                    _ => (2, 2, 1),
                };
                let head = if st == 1 && self.rng.chance(1, 2) {
                    format!("FOR {}={} TO {}", var, a, b)
                } else {
                    format!("FOR {}={} TO {} STEP {}", var, a, b, st)
                };
                self.loop_depth += 1;
                if self.rng.chance(1, 4) {
                    // single-line loop
                    let body = self.simple();
                    self.emit(format!("{}:{}:NEXT {}", head, body, var));
                } else {
                    self.emit(head);
                    let n = 1 + self.rng.below(2);
                    for _ in 0..n {
                        self.block(depth - 1);
                    }
                    if self.rng.chance(1, 6) {
                        // early exit
                        let target = self.next_line + self.step;
                        self.emit(format!("IF {}={} THEN {}", var, b, target));
                        let nx = if self.rng.chance(1, 2) { format!("NEXT {}", var) } else { "NEXT".into() };
                        self.emit(nx);
                        self.emit("REM after loop".into());
                    } else {
                        let nx = if self.rng.chance(1, 2) { format!("NEXT {}", var) } else { "NEXT".into() };
                        self.emit(nx);
                    }
                }
                self.loop_depth -= 1;
            }
            11 => {
                // WHILE / WEND with a fresh counter
                let z = self.fresh_counter();
                self.emit(format!("{}=0", z));
                let lim = 1 + self.rng.below(3);
                self.emit(format!("WHILE {}<{}", z, lim));
                self.block(depth - 1);
                self.emit(format!("{}={}+1", z, z));
                self.emit("WEND".into());
            }
            12 | 13 => {
                // GOSUB
                let body_n = 1 + self.rng.below(2);
                let mut body: Vec<String> = vec![];
                for _ in 0..body_n {
                    body.push(self.simple());
                }
                let idx = self.sub_bodies.len();
                self.sub_bodies.push(body);
                if self.rng.chance(1, 3) {
                    let sel = self.rng.below(4);
                    self.emit(format!("ON {} GOSUB @{},@{}", sel, idx, idx));
                } else {
                    self.emit(format!("GOSUB @{}", idx));
                }
            }
            14 => {
                // ON … GOTO forward
                let sel = self.iexpr(0);
                let at = self.lines.len();
                self.emit(String::new());
                self.emit(self_simple_print("ON-FALLTHROUGH"));
                let t1 = self.next_line;
                self.emit(self_simple_print("T1"));
                let t2 = self.next_line;
                self.emit(self_simple_print("T2"));
                self.lines[at].1 = format!("ON {} GOTO {},{}", sel, t1, t2);
            }
            _ => {
                // backward GOTO guarded by a counter
                let z = self.fresh_counter();
                let top = self.next_line;
                self.emit(format!("{}={}+1", z, z));
                self.block(depth - 1);
                let lim = 2 + self.rng.below(2);
                self.emit(format!("IF {}<{} THEN GOTO {}", z, lim, top));
            }
        }
    }
}

fn self_simple_print(tag: &str) -> String {
    format!("PRINT \"{}\"", tag)
}

/// A terminating program of the well-defined fragment. `size` ≈ number of top-level blocks.
pub fn gen_program(rng: &mut Rng, size: usize) -> Prog {
    let start = *rng.pick(&[10u32, 10, 100, 5, 1000, 0, 0]);
    let step = *rng.pick(&[10u32, 10, 5, 1, 20]);
    let mut g = PG {
        rng,
        lines: vec![],
        next_line: start,
        step,
        subs: vec![],
        sub_bodies: vec![],
        replies: vec![],
        loop_depth: 0,
        counter: 0,
        data_items: 0,
        reads: 0,
        fns: vec![],
        dims: vec![],
    };
    // preamble
    if g.rng.chance(1, 3) {
        g.emit("DEFINT A-C".into());
    }
    if g.rng.chance(1, 2) {
        g.emit("DIM D(5),E$(3)".into());
        g.dims.push("D".into());
    }
    if g.rng.chance(1, 2) {
        g.emit("DEF FNA(X)=X*2+1".into());
        g.fns.push(("FNA".into(), 1));
        if g.rng.chance(1, 2) {
            g.emit("DEF FNB(X,Y)=FNA(X)-Y+A".into());
            g.fns.push(("FNB".into(), 2));
        }
        if g.rng.chance(1, 3) {
            // typed parameters that share their names with program variables
            g.emit("DEF FNC(X#,N%)=X#+N%*2+X".into());
            g.fns.push(("FNC".into(), 2));
            g.emit("X#=40:X=2".into());
        }
    }
    let data_early = g.rng.chance(1, 2);
    let n_data = g.rng.below(6);
    g.data_items = n_data;
    let data_line = |n: usize, rng: &mut Rng| -> String {
        let items: Vec<String> = (0..n).map(|_| format!("{}", rng.below(40) as i32 - 10)).collect();
        format!("DATA {}", items.join(","))
    };
    if data_early && n_data > 0 {
        let l = data_line(n_data, g.rng);
        g.emit(l);
    }
    if g.rng.chance(1, 5) {
        g.emit("TRON".into());
    }
    for _ in 0..size {
        g.block(2);
    }
    if g.rng.chance(1, 8) {
        g.emit("STOP".into());
    }
    if g.rng.chance(1, 2) {
        g.emit("PRINT \"DONE\";A;B;X".into());
    }
    // mostly a plain END; sometimes the program's last statement leaves a label behind the last opcode
    // (the false branch of a trailing IF, the exit of a loop that never runs): D20
    if g.sub_bodies.is_empty() && (data_early || n_data == 0) && g.rng.chance(1, 4) {
        let first = g.lines.first().map(|(n, _)| *n).unwrap_or(g.next_line);
        let on = format!("ON 0 GOTO {}", first); // an existing line: a dangling reference would be a different test
        let l = g.rng.pick(&["IF 0 THEN END", "IF A=-12345 THEN END", "IF 0 THEN STOP", "WHILE 0:WEND", "FOR Z9=1 TO 0:NEXT", "IF 0 THEN RETURN", on.as_str(), "IF 0 THEN END ELSE IF 0 THEN END"]).to_string();
        g.emit(l);
    } else {
        g.emit("END".into());
    }
    // subroutines after END
    let mut sub_lines: Vec<u32> = vec![];
    let bodies = std::mem::take(&mut g.sub_bodies);
    for body in bodies {
        sub_lines.push(g.next_line);
        for st in body {
            g.emit(st);
        }
        g.emit("RETURN".into());
    }
    if !data_early && n_data > 0 {
        let l = data_line(n_data, g.rng);
        g.emit(l);
    }
    if g.lines.iter().any(|(_, s)| s.contains("@TAIL")) {
        let tail = g.next_line;
        let what = if g.rng.chance(1, 2) { "REM tail" } else { "DATA 99" };
        g.emit(what.to_string());
        for (_, s) in g.lines.iter_mut() {
            if s.contains("@TAIL") {
                *s = s.replace("@TAIL", &tail.to_string());
            }
        }
    }
    g.subs = sub_lines.clone();
    for (_, s) in g.lines.iter_mut() {
        while let Some(i) = s.find('@') {
            let rest = &s[i + 1..];
            let digits: String = rest.chars().take_while(|c| c.is_ascii_digit()).collect();
            let idx: usize = digits.parse().unwrap_or(0);
            let ln = sub_lines.get(idx).copied().unwrap_or(0);
            s.replace_range(i..i + 1 + digits.len(), &ln.to_string());
        }
    }
    Prog { lines: g.lines, replies: g.replies }
}

/// Damage a program: dangling references, unmatched WHILE/WEND, token-level mutations.
pub fn damage(rng: &mut Rng, p: &mut Prog) {
    if p.lines.is_empty() {
        return;
    }
    let i = rng.below(p.lines.len());
    match rng.below(6) {
        0 => p.lines[i].1 = format!("GOTO {}", 60000 + rng.below(5000)),
        1 => p.lines[i].1 = "WEND".into(),
        2 => p.lines[i].1 = format!("WHILE {}", 1),
        3 => p.lines[i].1 = format!("PRINT \"é日本\":GOSUB {}", 7 + rng.below(3)),
        4 => p.lines[i].1 = format!("ON X GOTO 10,{},30:RESTORE {}", 64000 + rng.below(100), 64001),
        _ => {
            let l = p.lines[i].1.clone();
            p.lines[i].1 = mutate(rng, &l);
        }
    }
}
