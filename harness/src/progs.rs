//! Shared generators: realistic lines, expression trees, programs.
use crate::rng::Rng;

/// Realistic lines covering every statement kind and operand form (unnumbered).
pub const LINES: &[&str] = &[
    "PRINT \"HELLO\"", "PRINT 1;2,3", "PRINT A$;\" \";B", "PRINT TAB(5);X;SPC(2);Y", "PRINT", "PRINT 1+2*3;", "? \"X\",",
    "LET A=5", "A=5", "A$=\"abc\"+B$", "A%=7:B!=1.5:C#=2.5D3", "A(1,2)=3", "A$(I)=MID$(B$,2,3)", "X=-Y^2", "X=NOT A AND B OR C XOR D IMP E EQV F",
    "X=1<2", "X=A<=B", "X=A>=B", "X=A<>B", "X=(1+2)*(3-4)/5\\6 MOD 7", "X=&HFF+&17", "X=1E5+2.5E-3+3D2", "X=SIN(1)+COS(2)*ATN(3)", "X=LEN(A$)+ASC(B$)+VAL(C$)",
    "A$=LEFT$(B$,2)+RIGHT$(B$,1)+CHR$(65)+STR$(5)+HEX$(255)+OCT$(8)+STRING$(3,\"x\")", "X=INSTR(A$,B$)+INSTR(2,A$,B$)", "X=RND(1)+RND+POS(0)", "X=FNA(1)+FNB(2,3)",
    "MID$(A$,2)=\"x\"", "MID$(A$,2,1)=B$", "LET MID$(A$,1)=\"q\"",
    "FOR I=1 TO 10", "FOR I=1 TO 10 STEP 2", "FOR I%=10 TO 1 STEP -1", "NEXT", "NEXT I", "NEXT J,I",
    "IF A THEN 100", "IF A=1 THEN PRINT 1", "IF A THEN PRINT 1 ELSE PRINT 2", "IF A THEN 10 ELSE 20", "IF A GOTO 50", "IF A THEN PRINT 1:PRINT 2 ELSE PRINT 3:PRINT 4", "IF A THEN IF B THEN PRINT 1 ELSE PRINT 2",
    "GOTO 100", "GOSUB 200", "RETURN", "ON X GOTO 10,20,30", "ON X GOSUB 100,200", "ON X+1 GOTO 10",
    "WHILE A<10", "WEND", "END", "STOP", "CONT", "CLEAR", "CLEAR 100,200", "CLS", "NEW", "TRON", "TROFF",
    "DATA 1,2,\"three\",-4,5.5", "DATA -1", "READ A,B$,C(1)", "RESTORE", "RESTORE 100",
    "DIM A(10)", "DIM A(10),B$(5,5),C%(2,3,4)", "ERASE A", "ERASE A,B$", "SWAP A,B", "SWAP A$(1),B$",
    "DEF FNA(X)=X*2", "DEF FNB(X,Y)=X+Y", "DEF FNC$(A$)=A$+A$", "DEF FND()=1", "DEFINT A", "DEFINT A-C", "DEFSNG X", "DEFDBL D-F", "DEFSTR S",
    "INPUT A", "INPUT \"NAME\";A$", "INPUT \"A,B\";A,B", "INPUT ,A", "INPUT ,\"P\";A$,B(1)", "INPUT \"X\" A",
    "LIST", "LIST 10", "LIST 10-", "LIST -20", "LIST 10-20", "DELETE 10", "DELETE 10-20", "DELETE -20", "DELETE 10-",
    "RENUM", "RENUM 100", "RENUM 100,10", "RENUM 100,10,5", "RENUM ,,5", "RENUM 100,,5",
    "RUN", "RUN 100", "RUN \"FILE\"", "LOAD \"FILE\"", "SAVE \"FILE\"",
    "REM a comment: PRINT 1", "' another", "PRINT 1 ' trailing", "PRINT 1:REM x", "A=1:B=2:C=3", ":::", "A=1::B=2",
    "GO TO 10", "GO SUB 20", "PRINT 1 ELSE 2", "FOR I=1TO10STEP2", "IFA=1THENPRINT1", "PRINT\"é日本\";A$",
];

pub const IDENTS: &[&str] = &["A", "B", "I", "J", "X", "Y", "Z", "A$", "B$", "A%", "B!", "C#", "AB", "A1", "X9$", "TOTAL", "N"];
pub const NUMS: &[&str] = &["0", "1", "2", "7", "10", "255", "32767", "32768", "65529", "65530", "1.5", ".5", "2.", "1E3", "1.5E-2", "2D2", "3#", "4!", "5%", "&HFF", "&17", "&H7FFF", "123456789", "0.1"];
pub const BINOPS: &[&str] = &["^", "*", "/", "\\", " MOD ", "+", "-", "=", "<>", "<", "<=", ">", ">=", " AND ", " OR ", " XOR ", " IMP ", " EQV "];
pub const FUNCS1: &[&str] = &["ABS", "INT", "SGN", "FIX", "CINT", "CSNG", "CDBL", "SQR", "LEN", "ASC", "VAL"];

/// A random expression as source text; `depth` bounds nesting. Parentheses are minimal or redundant at random.
pub fn gen_expr(rng: &mut Rng, depth: usize) -> String {
    if depth == 0 || rng.chance(1, 4) {
        return match rng.below(6) {
            0 | 1 => rng.pick(NUMS).to_string(),
            2 | 3 => rng.pick(IDENTS).to_string(),
            4 => format!("\"{}\"", rng.pick(&["", "a", "hi there", "é"])),
            _ => format!("{}({})", rng.pick(&["A", "B$", "Q"]), gen_expr(rng, 0)),
        };
    }
    match rng.below(10) {
        0 => format!("-{}", gen_expr(rng, depth - 1)),
        1 => format!("NOT {}", gen_expr(rng, depth - 1)),
        2 => format!("({})", gen_expr(rng, depth - 1)),
        3 => format!("{}({})", rng.pick(FUNCS1), gen_expr(rng, depth - 1)),
        4 => format!("+{}", gen_expr(rng, depth - 1)),
        5 => format!("FNA({},{})", gen_expr(rng, depth - 1), gen_expr(rng, depth - 1)),
        _ => {
            let l = gen_expr(rng, depth - 1);
            let r = gen_expr(rng, depth - 1);
            let op = rng.pick(BINOPS);
            if rng.chance(1, 5) {
                format!("({}){}({})", l, op, r)
            } else {
                format!("{}{}{}", l, op, r)
            }
        }
    }
}

pub const SOUP: &[&str] = &[
    "PRINT", "LET", "IF", "THEN", "ELSE", "FOR", "TO", "STEP", "NEXT", "GOTO", "GOSUB", "RETURN", "ON", "WHILE", "WEND", "DATA", "READ", "RESTORE", "DIM", "ERASE",
    "SWAP", "DEF", "DEFINT", "INPUT", "LIST", "DELETE", "RENUM", "RUN", "END", "STOP", "REM", "'", "CLEAR", "MID$", "TAB", "FNA", "FN",
    "A", "B$", "I%", "X1", "10", "20", "1.5", "1E5", "&HFF", "\"s\"", "\"", "(", ")", ",", ";", ":", "+", "-", "*", "/", "\\", "^", "=", "<", ">", "<=", ">=", "<>", "AND", "OR", "NOT", "MOD", " ", "  ", "?", "#", "!", "%", "$", "@", "é",
];

pub fn gen_soup(rng: &mut Rng) -> String {
    let n = 1 + rng.below(10);
    let mut s = String::new();
    for _ in 0..n {
        s.push_str(*rng.pick(SOUP));
        if rng.chance(2, 3) {
            s.push(' ');
        }
    }
    s
}

/// Mutate a line at the character level (delete / duplicate / replace / insert).
pub fn mutate(rng: &mut Rng, line: &str) -> String {
    let mut cs: Vec<char> = line.chars().collect();
    let n = 1 + rng.below(3);
    let pool: Vec<char> = "()=,;:\"+-<> 019.EDA$%#!&'?".chars().collect();
    for _ in 0..n {
        if cs.is_empty() {
            cs.push(*rng.pick(&pool));
            continue;
        }
        let i = rng.below(cs.len());
        match rng.below(4) {
            0 => {
                cs.remove(i);
            }
            1 => {
                let c = cs[i];
                cs.insert(i, c);
            }
            2 => cs[i] = *rng.pick(&pool),
            _ => cs.insert(i, *rng.pick(&pool)),
        }
    }
    cs.into_iter().collect()
}
