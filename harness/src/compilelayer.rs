//! Layer COMPILE: `program.rs` + `codegen.rs` + `link.rs` on whole listings (plus an optional direct line).
use crate::astproto::show_tokens;
use crate::progproto::show_program;
use crate::progs::*;
use crate::proto::{hex, unhex};
use crate::rng::Rng;
use basic::lang::{lex, Line};
use basic::mach::Program;
use std::io::Write;
use std::panic::{catch_unwind, AssertUnwindSafe};

pub fn src_field(src: &str) -> String {
    let (ln, toks) = lex(src);
    let l = match ln {
        Some(n) => n.to_string(),
        None => "-".into(),
    };
    format!("{}~{} {}", hex(src), l, show_tokens(&toks))
}

pub fn request(lines: &[String]) -> String {
    let fields: Vec<String> = lines.iter().map(|l| src_field(l)).collect();
    format!("COMPILE {}", fields.join("|"))
}

pub fn answer_compile(req: &str) -> String {
    let body = &req["COMPILE ".len()..];
    let srcs: Vec<String> = body.split('|').map(|f| unhex(f.split('~').next().unwrap_or(""))).collect();
    match catch_unwind(AssertUnwindSafe(|| {
        let mut p = Program::default();
        let lines: Vec<Line> = srcs.iter().map(|s| Line::new(s)).collect();
        let indirect: Vec<&Line> = lines.iter().filter(|l| !l.is_direct()).collect();
        p.codegen(indirect.into_iter());
        if let Some(d) = lines.iter().find(|l| l.is_direct()) {
            p.codegen(d);
        }
        p.link();
        show_program(&p)
    })) {
        Ok(s) => s,
        Err(_) => "fault".into(),
    }
}

fn emit<W: Write>(w: &mut W, lines: &[String]) {
    let req = request(lines);
    let ans = answer_compile(&req);
    let _ = writeln!(w, "K\t{}\t{}", req, ans);
}

pub fn gen_compile<W: Write>(w: &mut W, tier: &str, seed: u64) {
    let mut rng = Rng::new(seed ^ 0xC0DE);
    // every realistic line alone, as program line and as direct line
    for l in LINES {
        emit(w, &[format!("10 {}", l)]);
        emit(w, &[l.to_string()]);
        emit(w, &[format!("10 {}", l), "20 PRINT 1".into(), format!("30 {}", l), "RUN".into()]);
        // the boundary line numbers
        emit(w, &[format!("0 {}", l), "5 FOR I=1 TO 2:NEXT".into(), format!("65529 {}", l), "GOTO 0".into()]);
        emit(w, &["0 REM".into(), "7 IF A THEN 0 ELSE 65529".into(), format!("65528 {}", l), "65529 GOTO 0:GOSUB 65529:ON X GOTO 0,65529:RESTORE 0".into()]);
    }
    let n = if tier == "thorough" { 50_000 } else { 2_000 };
    for i in 0..n {
        let size = 1 + rng.below(8);
        let mut p = gen_program(&mut rng, size);
        if i % 4 == 3 {
            damage(&mut rng, &mut p);
        }
        let mut lines = p.text();
        match rng.below(4) {
            0 => lines.push("RUN".into()),
            1 => lines.push(format!("GOTO {}", p.lines[rng.below(p.lines.len())].0)),
            2 => lines.push(format!("PRINT {}:GOSUB {}", gen_expr(&mut rng, 2), p.lines[0].0)),
            _ => {}
        }
        emit(w, &lines);
    }
}
