//! Layer SES: whole sessions against `Runtime` (enter / execute / interrupt / snapshots), with state dumps.
use crate::compilelayer::src_field;
use crate::progs::*;
use crate::proto::{hex, unhex};
use crate::rng::Rng;
use crate::rtproto::*;
use basic::mach::{Event, Listing, Runtime};
use std::io::Write;
use std::panic::{catch_unwind, AssertUnwindSafe};

/// A recorded session: the concrete API calls and what the implementation answered.
pub struct Session {
    pub rt: Runtime,
    pub calls: Vec<String>,
    pub outs: Vec<String>,
    pub snapshots: Vec<Listing>,
    pub last: Option<String>,
}

pub fn is_idle(e: &Event) -> bool {
    matches!(e, Event::Stopped | Event::Input(..) | Event::Inkey | Event::Load(_) | Event::Run(_) | Event::Save(_))
}

impl Session {
    pub fn new() -> Session {
        let mut s = Session { rt: Runtime::default(), calls: vec![], outs: vec![], snapshots: vec![], last: None };
        // consume the intro banner and the first prompt
        s.idle(5000, 10);
        s
    }
    pub fn enter(&mut self, line: &str) {
        self.rt.enter(line);
        self.calls.push(format!("E {}", src_field(line)));
        self.outs.push("e".into());
    }
    /// `execute(n)` exactly `k` times
    pub fn exec(&mut self, n: usize, k: usize) -> Vec<String> {
        let mut evs = vec![];
        for _ in 0..k {
            let e = self.rt.execute(n);
            self.last = Some(show_event(&e));
            evs.push(show_event(&e));
        }
        self.calls.push(format!("X {} {}", n, k));
        self.outs.push(evs.join(";"));
        evs
    }
    /// execute with quantum `n` until an idle event or `max` calls; returns the last event text
    pub fn idle(&mut self, n: usize, max: usize) -> Option<Event> {
        let mut evs: Vec<String> = vec![];
        let mut last = None;
        for _ in 0..max {
            let e = self.rt.execute(n);
            evs.push(show_event(&e));
            let idle = is_idle(&e);
            last = Some(e);
            if idle {
                break;
            }
        }
        self.calls.push(format!("X {} {}", n, evs.len()));
        self.outs.push(evs.join(";"));
        last
    }
    /// LOAD (run = false) / RUN "file" (run = true): the file's lines go through `load_str`
    /// (a line it refuses is skipped), then `set_listing`
    pub fn load(&mut self, file: &[String], run: bool) {
        let mut listing = basic::mach::Listing::default();
        for l in file {
            let _ = listing.load_str(l);
        }
        self.rt.set_listing(listing, run);
        let body = if file.is_empty() { "-".to_string() } else { file.iter().map(|l| hex(l)).collect::<Vec<_>>().join(",") };
        self.calls.push(format!("S {} {}", if run { 1 } else { 0 }, body));
        self.outs.push("s".into());
    }
    pub fn interrupt(&mut self) {
        self.rt.interrupt();
        self.calls.push("I".into());
        self.outs.push("i".into());
    }
    pub fn dump(&mut self, full: bool) {
        self.calls.push(if full { "DP".into() } else { "D".into() });
        let d = if full { show_full(&self.rt) } else { show_core(&self.rt) };
        self.outs.push(format!("D{{{}}}", d));
    }
    pub fn snapshot(&mut self) {
        self.snapshots.push(self.rt.get_listing());
        self.calls.push("G".into());
        self.outs.push("g".into());
    }
    pub fn drop_snapshot(&mut self) {
        self.snapshots.pop();
        self.calls.push("g".into());
        self.outs.push("g".into());
    }
    /// run to completion feeding `replies` to INPUT (default reply "1"); bounded
    pub fn run_to_end(&mut self, quantum: usize, replies: &[String], max_calls: usize) {
        let mut ri = 0;
        let mut budget = max_calls;
        loop {
            let before = self.calls.len();
            let e = self.idle(quantum, budget.min(4000));
            let used = self.outs[before].split(';').count();
            budget = budget.saturating_sub(used);
            match e {
                Some(Event::Input(..)) => {
                    let r = replies.get(ri).cloned().unwrap_or_else(|| "1".into());
                    ri += 1;
                    self.enter(&r);
                }
                Some(Event::Inkey) => self.enter(""),
                Some(Event::Stopped) | Some(Event::Load(_)) | Some(Event::Run(_)) | Some(Event::Save(_)) => break,
                _ => {}
            }
            if budget == 0 {
                // still running: stop it so the session ends at the prompt
                self.interrupt();
                self.idle(quantum, 10);
                break;
            }
        }
    }
    pub fn request(&self) -> String {
        format!("SES {}", self.calls.join("|"))
    }
    pub fn answer(&self) -> String {
        self.outs.join("|")
    }
}

/// Re-run a recorded request on the implementation (used by `replay`).
pub fn answer_ses(req: &str) -> String {
    let body = &req["SES ".len()..];
    match catch_unwind(AssertUnwindSafe(|| {
        let mut s = Session { rt: Runtime::default(), calls: vec![], outs: vec![], snapshots: vec![], last: None };
        for call in body.split('|') {
            let parts: Vec<&str> = call.split(' ').collect();
            match parts[0] {
                "X" => {
                    let n: usize = parts[1].parse().unwrap_or(1);
                    let k: usize = parts[2].parse().unwrap_or(1);
                    s.exec(n, k);
                }
                "I" => s.interrupt(),
                "S" => {
                    let file: Vec<String> = if parts.get(2) == Some(&"-") { vec![] } else { parts.get(2).unwrap_or(&"").split(',').map(unhex).collect() };
                    s.load(&file, parts.get(1) == Some(&"1"));
                }
                "D" => s.dump(false),
                "DP" => s.dump(true),
                "G" => s.snapshot(),
                "g" => s.drop_snapshot(),
                "E" => {
                    let field = &call[2..];
                    let src = unhex(field.split('~').next().unwrap_or(""));
                    s.rt.enter(&src);
                    s.calls.push(call.to_string());
                    s.outs.push("e".into());
                }
                _ => s.outs.push("bad-call".into()),
            }
        }
        s.answer()
    })) {
        Ok(a) => a,
        Err(_) => "fault".into(),
    }
}

fn emit<W: Write>(w: &mut W, tag: &str, s: &Session) {
    let _ = writeln!(w, "{}\t{}\t{}", tag, s.request(), s.answer());
}

const QUANTA: &[usize] = &[1, 2, 3, 7, 5000];

/// programs of the generated fragment: enter, RUN, run to the end with a random quantum, dumps
pub fn gen_ses<W: Write>(w: &mut W, tier: &str, seed: u64) {
    let mut rng = Rng::new(seed ^ 0x5E5);
    // the line buffer limit, on the typed text and on the listed text (D19)
    for n in [165usize, 168, 169, 170, 171, 172, 175, 340, 510, 511, 512] {
        let mut s = Session::new();
        s.enter(&format!("10 {}", "?:".repeat(n)));
        s.run_to_end(5000, &[], 20);
        s.enter(&format!("?{}", ":?".repeat(n)));
        s.run_to_end(5000, &[], 20);
        s.dump(true);
        emit(w, "K", &s);
    }
    for n in [1005usize, 1012, 1013, 1014, 1015, 1016, 1030] {
        let mut s = Session::new();
        s.enter(&format!("10 PRINT \"{}", "x".repeat(n)));
        s.run_to_end(5000, &[], 20);
        s.enter(&format!("20 A$=\"{}", "\u{20ac}".repeat(n / 3)));
        s.run_to_end(5000, &[], 20);
        // a direct line: the limit counts bytes, not characters
        s.enter(&format!("PRINT LEN(\"{}\")", "\u{20ac}".repeat(n / 3 - 10)));
        s.run_to_end(5000, &[], 20);
        s.enter(&format!("PRINT LEN(\"{}\")", "\u{e9}".repeat(n / 2 - 10)));
        s.run_to_end(5000, &[], 20);
        s.dump(true);
        emit(w, "K", &s);
    }
    // the same limit on an INPUT reply: too long a reply is asked for again, the statement keeps waiting
    for n in [1020usize, 1023, 1024, 1025, 1026, 1040] {
        let mut s = Session::new();
        s.enter("10 INPUT \"NAME\";A$,B");
        s.enter("20 PRINT LEN(A$);B");
        s.enter("RUN");
        let long = format!("{},12", "X".repeat(n - 3));
        s.run_to_end(5000, &[long, "JOE, 3".to_string()], 30);
        s.dump(true);
        emit(w, "K", &s);
    }
    // every realistic line as a direct statement, and as a one-line program
    for l in LINES {
        if l.contains("RND") {
            continue;
        }
        let mut s = Session::new();
        s.enter(l);
        s.run_to_end(5000, &[], 50);
        s.dump(true);
        emit(w, "K", &s);
        let mut s = Session::new();
        s.enter(&format!("10 {}", l));
        s.enter("20 PRINT \"X\";A;B$");
        s.enter("RUN");
        s.run_to_end(*rng.pick(QUANTA), &[], 300);
        s.dump(true);
        emit(w, "K", &s);
    }
    let n = if tier == "thorough" { 50_000 } else { 1_500 };
    for i in 0..n {
        let size = 1 + rng.below(7);
        let mut p = gen_program(&mut rng, size);
        if i % 5 == 4 {
            damage(&mut rng, &mut p);
        }
        let mut s = Session::new();
        for l in p.text() {
            s.enter(&l);
        }
        if rng.chance(1, 6) {
            s.enter("TRON");
            s.idle(5000, 5);
        }
        s.enter("RUN");
        let q = *rng.pick(QUANTA);
        s.run_to_end(q, &p.replies, if q == 1 { 6000 } else { 3000 });
        s.dump(true);
        // a second act: direct statements, CONT, another RUN
        match rng.below(5) {
            0 => {
                s.enter("CONT");
                s.run_to_end(q, &[], 2000);
            }
            1 => {
                s.enter("PRINT A;B;X;A$");
                s.run_to_end(5000, &[], 20);
                s.enter("RUN");
                s.run_to_end(5000, &p.replies, 3000);
            }
            2 => {
                s.enter(&format!("GOTO {}", p.lines[rng.below(p.lines.len())].0));
                s.run_to_end(q, &p.replies, 2000);
            }
            _ => {}
        }
        s.dump(false);
        emit(w, "K", &s);
    }
}

/// edit histories, interrupts, snapshots, LIST/DELETE/NEW, token soup lines
pub fn gen_hist<W: Write>(w: &mut W, tier: &str, seed: u64) {
    let mut rng = Rng::new(seed ^ 0x4157);
    let n = if tier == "thorough" { 50_000 } else { 1_500 };
    for _ in 0..n {
        let mut s = Session::new();
        let sz = 1 + rng.below(4);
        let mut p = gen_program(&mut rng, sz);
        if rng.chance(1, 4) {
            damage(&mut rng, &mut p);
        }
        for l in p.text() {
            s.enter(&l);
        }
        let steps = 2 + rng.below(10);
        for _ in 0..steps {
            match rng.below(16) {
                0 => {
                    s.enter("RUN");
                    // stop somewhere in the middle
                    let k = 1 + rng.below(40);
                    s.exec(1 + rng.below(3), k);
                    if rng.chance(1, 2) {
                        s.interrupt();
                    }
                    s.run_to_end(5000, &p.replies, 300);
                }
                1 => {
                    s.enter("RUN");
                    s.run_to_end(*rng.pick(QUANTA), &p.replies, 2500);
                }
                2 if rng.chance(1, 3) => {
                    // LOAD / RUN "file": a different program replaces the one in memory, whatever state we are in
                    let qsz = 1 + rng.below(3);
                    let q = gen_program(&mut rng, qsz);
                    let mut file = q.text();
                    if rng.chance(1, 4) {
                        file.push("PRINT 1".into()); // refused by load_str (no line number): skipped
                    }
                    if rng.chance(1, 6) {
                        file.clear();
                    }
                    let run = rng.chance(1, 2);
                    s.load(&file, run);
                    s.run_to_end(5000, &q.replies, 300);
                    if rng.chance(1, 2) {
                        s.enter("CONT");
                        s.run_to_end(5000, &q.replies, 300);
                    }
                    s.dump(true);
                }
                2 => {
                    // replace / insert a line
                    let ln = if rng.chance(1, 2) { p.lines[rng.below(p.lines.len())].0 } else { 1 + rng.below(2000) as u32 };
                    let body = *rng.pick(&["PRINT \"NEW\"", "A=A+1", "GOSUB 9000", "REM", "END", "X=1:PRINT X"]);
                    s.enter(&format!("{} {}", ln, body));
                }
                3 => {
                    // delete a present or an absent line
                    let ln = if rng.chance(1, 2) { p.lines[rng.below(p.lines.len())].0 } else { 1 + rng.below(3000) as u32 };
                    s.enter(&format!("{}", ln));
                }
                4 => {
                    let a = rng.below(300);
                    let b = a + rng.below(300);
                    let form = match rng.below(4) {
                        0 => format!("DELETE {}", a),
                        1 => format!("DELETE {}-{}", a, b),
                        2 => format!("DELETE -{}", a),
                        _ => format!("DELETE {}-", b),
                    };
                    s.enter(&form);
                    s.run_to_end(5000, &[], 20);
                }
                5 => {
                    let a = rng.below(300);
                    let form = match rng.below(5) {
                        0 => "LIST".to_string(),
                        1 => format!("LIST {}", a),
                        2 => format!("LIST {}-{}", a, a + rng.below(200)),
                        3 => format!("LIST -{}", a),
                        _ => format!("LIST {}-", a),
                    };
                    s.enter(&form);
                    s.run_to_end(5000, &[], 400);
                }
                6 => {
                    s.enter("CONT");
                    s.run_to_end(5000, &p.replies, 600);
                }
                7 => {
                    s.enter(*rng.pick(&["RENUM", "RENUM 100", "RENUM 1000,20,5", "RENUM 5,1,1", "RENUM ,,3", "RETURN", "NEXT", "NEXT I", "PRINT FNA(2)", "READ A:PRINT A", "RESTORE", "CLEAR", "PRINT A;B;I;Z1", "GOTO 10", "GOSUB 10", "STOP", "END", "TRON", "TROFF", "DIM D(3)", "A$=\"x\":B=3", "DEFINT A-B", "X=1/0", "PRINT Q(11)", "INPUT A", "PRINT POS(0);", "LIST 10:PRINT POS(0)"]));
                    s.run_to_end(5000, &p.replies, 600);
                }
                8 => {
                    s.enter("NEW");
                    s.run_to_end(5000, &[], 10);
                    let sz = 1 + rng.below(2);
                    let p2 = gen_program(&mut rng, sz);
                    for l in p2.text() {
                        s.enter(&l);
                    }
                    p = p2;
                }
                9 => s.snapshot(),
                10 => s.drop_snapshot(),
                11 => {
                    let soup = gen_soup(&mut rng);
                    if true {
                        s.enter(&soup);
                        s.run_to_end(5000, &[], 50);
                    }
                }
                12 => {
                    let l = *rng.pick(LINES);
                    let m = mutate(&mut rng, l);
                    if !m.to_uppercase().contains("RND") {
                        s.enter(&m);
                        s.run_to_end(5000, &[], 200);
                    }
                }
                13 => {
                    // interrupt at the prompt / while idle
                    s.interrupt();
                    s.run_to_end(5000, &[], 10);
                }
                _ => s.dump(false),
            }
        }
        s.run_to_end(5000, &[], 50);
        s.dump(true);
        emit(w, "K", &s);
    }
}
