import BasicModel.Proto
import BasicModel.Model.Renum
import Driver.ReqLex
import Driver.ReqVar
import Driver.ReqLst
import BasicModel.ProtoAst
import BasicModel.ProtoProg
import BasicModel.ProtoRt
import BasicModel.Spec.IntSpec
import BasicModel.Spec.StrSpec
/-
  Line protocol: one request per line, one answer per line (DESIGN §6.1).
-/
open Basic Basic.Proto

namespace Driver

def op1 : String → Option (Val → Res Val)
  | "neg" => some Ops.negate | "not" => some Ops.not
  | "abs" => some Func.abs | "asc" => some Func.asc | "atn" => some Func.atn | "cdbl" => some Func.cdbl
  | "chr" => some Func.chr | "cint" => some Func.cint | "cos" => some Func.cos | "csng" => some Func.csng
  | "exp" => some Func.exp | "fix" => some Func.fix | "hex" => some Func.hex | "int" => some Func.int
  | "len" => some Func.len | "log" => some Func.log | "oct" => some Func.oct | "sgn" => some Func.sgn
  | "sin" => some Func.sin | "spc" => some Func.spc | "sqr" => some Func.sqr | "str" => some Func.str
  | "tan" => some Func.tan | "val" => some Func.val
  | "toi16" => some fun v => do let n ← v.toI16; pure (.int n)
  | "tou16" => some fun v => do let n ← v.toU16; pure (.dbl (F.b64 (Float.ofNat n)))
  | "tou32" => some fun v => do let n ← v.toU32; pure (.dbl (F.b64 (Float.ofNat n)))
  | "tousize" => some fun v => do let n ← v.toUsize; pure (.dbl (F.b64 (Float.ofNat n)))
  | "tof32" => some fun v => do let x ← v.toF32; pure (.sng (F.b32 x))
  | "tof64" => some fun v => do let x ← v.toF64; pure (.dbl (F.b64 x))
  | "toline" => some fun v => do
      let n ← v.toLineNumber
      pure (.int (Int16.ofNat ((n.getD 0) % 32768)))
  | _ => none

def op2 : String → Option (Val → Val → Res Val)
  | "pow" => some Ops.power | "mul" => some Ops.multiply | "div" => some Ops.divide
  | "divint" => some Ops.divint | "mod" => some Ops.remainder | "add" => some Ops.sum
  | "sub" => some Ops.subtract | "eq" => some Ops.equal | "ne" => some Ops.notEqual
  | "lt" => some Ops.less | "le" => some Ops.lessEqual | "gt" => some Ops.greater
  | "ge" => some Ops.greaterEqual | "and" => some Ops.and | "or" => some Ops.or
  | "xor" => some Ops.xor | "imp" => some Ops.imp | "eqv" => some Ops.eqv
  | "left" => some Func.left | "right" => some Func.right | "string" => some Func.string
  | _ => none

def opN : String → Option (List Val → Res Val)
  | "instr" => some Func.instr | "mid" => some Func.mid
  | _ => none

def answerOp (name : String) (args : List String) : String :=
  match args.mapM readVal with
  | none => "bad-val"
  | some vs =>
    match opN name with
    | some f => showRes (f vs)
    | none =>
      match vs, op1 name, op2 name with
      | [a], some f, _ => showRes (f a)
      | [a, b], _, some f => showRes (f a b)
      | _, _, _ => "bad-op"

def showSpecInt : Option (Except Nat Int) → String
  | none => "no-spec"
  | some (.ok z) => s!"ok I{z}"
  | some (.error c) => s!"err {c}@-:0-0;"

def readInt (s : String) : Option Int :=
  match s.toList with
  | 'I' :: r => (String.ofList r).toInt?
  | _ => none

/-- the string functions as specified (Integer arguments only): documented result or error code -/
def specStr (fn : String) (args : List Val) : Option (Except Nat Val) :=
  match fn, args with
  | "left", [.str s, .int n] => some (if n.toInt < 0 then .error Code.overflow else .ok (.str (Spec.left s n.toInt.toNat)))
  | "right", [.str s, .int n] => some (if n.toInt < 0 then .error Code.overflow else .ok (.str (Spec.right s n.toInt.toNat)))
  | "mid", [.str s, .int p] => some (if p.toInt ≤ 0 then .error Code.overflow else .ok (.str (Spec.mid s p.toInt.toNat none)))
  | "mid", [.str s, .int p, .int l] =>
    some (if l.toInt < 0 then .error Code.overflow else if p.toInt ≤ 0 then .error Code.overflow
      else .ok (.str (Spec.mid s p.toInt.toNat (some l.toInt.toNat))))
  | "instr", [.str x, .str y] => some (.ok (.int (Int16.ofNat (Spec.instr 1 x y))))
  | "instr", [.int st, .str x, .str y] =>
    some (if st.toInt ≤ 0 then .error Code.illegalFunctionCall else .ok (.int (Int16.ofNat (Spec.instr st.toInt.toNat x y))))
  | "len", [.str s] => some (.ok (.int (Int16.ofNat s.length)))
  | _, _ => none

def answerSpec : List String → String
  | "str" :: fn :: args => (match args.mapM readVal with
      | none => "bad-val"
      | some vs => match specStr fn vs with
        | none => "no-spec"
        | some (.ok v) => "ok " ++ showVal v
        | some (.error c) => s!"err {c}@-:0-0;")
  | ["int", op, a, b] => (match readInt a, readInt b with
      | some a, some b => showSpecInt (Spec.intBin op a b)
      | _, _ => "bad-val")
  | ["int", op, a] => (match readInt a with
      | some a => showSpecInt (Spec.intUn op a)
      | none => "bad-val")
  | _ => "bad-request"

def readLineNo (s : String) : Option (Option Nat) :=
  if s == "-" then some none else s.toNat?.map some

def answerParse : List String → String
  | ln :: toks => (match readLineNo ln, (toks.filter (· ≠ "")).mapM readToken with
      | some n, some ts => showParse (Parse.parse n ts)
      | _, _ => "bad-request")
  | [] => "bad-request"

/-- `<hexsrc>~<num|-> <tok> <tok>...` -/
def readSrcLine (s : String) : Option Line :=
  match s.splitOn "~" with
  | [_, toks] =>
    (match toks.splitOn " " with
     | ln :: ts => (match readLineNo ln, (ts.filter (· ≠ "")).mapM readToken with
        | some n, some ts => some ⟨n, ts⟩
        | _, _ => none)
     | [] => none)
  | _ => none

def answerCompile (rest : String) : String :=
  match (rest.splitOn "|").mapM readSrcLine with
  | none => "bad-request"
  | some lines =>
    let p := Program.codegenLines {} lines
    showProgram p.linkProg

/-- temporary `Line::renum`: renumbers the line itself only (reference rewriting needs the lexer) -/
def stubLineRenum (changes : List (Nat × Nat)) (l : Line) : Line :=
  match l.number with
  | some n => { l with number := some ((changes.lookup n).getD n) }
  | none => l

def runLine : Line := ⟨none, [.word .run]⟩

/-- the environment of the model runtime: the Lean lexer and the Lean `Line::renum` (no stubs) -/
def mkEnv (_given : Line) : Env :=
  { lex := Lex.lineNew, lineRenum := Lex.lineRenum }

/-- one call of a session; returns the new state and the text it contributes to the answer -/
def sesCall (s : Runtime) (call : String) : Runtime × String :=
  match call.splitOn " " with
  | ["X", n, k] =>
    (match n.toNat?, k.toNat? with
     | some n, some k =>
       let rec go : Nat → Runtime → List String → Runtime × List String
         | 0, s, acc => (s, acc)
         | k+1, s, acc =>
           let (s, e) := Runtime.execute (mkEnv runLine) s n
           go k s (showEvent e :: acc)
       let (s, evs) := go k s []
       (s, ";".intercalate evs.reverse)
     | _, _ => (s, "bad-call"))
  | ["I"] => (Runtime.interrupt s, "i")
  | ["S", run, file] =>
    -- LOAD / RUN "file": every line through `load_str` (a refused line is skipped), then `set_listing`
    let lines := if file == "-" then [] else (file.splitOn ",").map strOfHex
    let listing := lines.foldl (fun (l : Listing) t =>
      match l.loadStr Lex.lex t with
      | .ok l' => l'
      | .error _ => l) {}
    (Runtime.setListing (mkEnv runLine) s listing (run == "1"), "s")
  | ["D"] => (s, "D{" ++ showCore s ++ "}")
  | ["DP"] => (s, "D{" ++ showFull s ++ "}")
  | ["G"] => (s, "g")
  | ["g"] => (s, "g")
  | "E" :: rest =>
    let field := " ".intercalate rest
    (match field.splitOn "~" with
     | [src, _] =>
       (match readSrcLine field with
        | some line =>
          -- the tokens in the request come from the real lexer: cross-check the model's lexer on the way
          let mark := if Lex.lineNew (strOfHex src) == line then "e" else "e!lex-differs"
          (Runtime.enter (mkEnv line) s (strOfHex src), mark)
        | none => (s, "bad-call"))
     | _ => (s, "bad-call"))
  | _ => (s, "bad-call")

def answerSes (rest : String) : String :=
  let calls := rest.splitOn "|"
  let (_, outs) := calls.foldl (fun (s, acc) c => let (s, o) := sesCall s c; (s, o :: acc)) (({} : Runtime), [])
  "|".intercalate outs.reverse

def answer (line : String) : String :=
  if line.startsWith "SES " then answerSes (line.drop 4).toString else
  if line.startsWith "COMPILE " then answerCompile (line.drop 8).toString else
  match line.splitOn " " with
  | "PARSE" :: rest => answerParse rest
  | "FIND" :: _ => "ok"
  | "LEX" :: rest => answerLex rest
  | "RENUMLINE" :: rest => answerRenumLine rest
  | "C05" :: _ => "ok"
  | "C16" :: _ => "ok"
  | "VAR" :: rest => answerVar rest
  | "LST" :: rest => answerLst rest
  | "VARSPEC" :: rest => answerVarSpec rest
  | "LSTSPEC" :: rest => answerLstSpec rest
  | "SPEC" :: rest => answerSpec rest
  | "OP" :: name :: args => answerOp name args
  | ["FMT", v] => (match readVal v with
      | some v => "ok T" ++ hexOfStr v.display
      | none => "bad-val")
  | ["OFSTR", h] => "ok " ++ showVal (Val.ofStr (strOfHex h))
  | ["TAB", col, v] => (match col.toNat?, readVal v with
      | some c, some v => showRes (Func.tab c v)
      | _, _ => "bad-val")
  | ["POS", col] => (match col.toNat? with
      | some c => showRes (Func.pos c)
      | none => "bad-val")
  | _ => "bad-request"

end Driver
