import BasicModel.Proto
import BasicModel.Model.Listing
import BasicModel.Model.Lex
import BasicModel.Spec.MapSpec
/-
  `LST <op>;<op>;...` — one request is one whole history on a fresh `Listing`.

  ops:  ins <n> <hextext>      insert line n whose listed text after the number is <text>
        del <n>                remove                        -> ok 0|1
        delrange <lo|-> <hi|-> remove_range                  -> ok 0|1 | fault
        list <lo|-> <hi|->     iterate list_line to the end  -> ok [<hextext>@<cols>><lo>..<hi>,...] | fault
        line <n>               line                          -> ok <hextext>@<cols> | none
        errs [<n>:<s>-<e>,...] set indirect_errors (SYNTAX ERROR in line n, column s..e)
        renum <new> <old> <step>      renum                  -> ok | err <showErr>
        renumplan <new> <old> <step>  renum on a copy        -> ok <old>><new|x>,... | err <showErr>
        clear | empty (-> ok 0|1)
  <cols> = `s-e` joined by `+`.  Answer: results joined by `;`, ` | `, `{n:hextext,...}`;
  a fault ends the history and the dump is the word `fault`.
  `LSTSPEC <history>`: same syntax restricted to ins/del/delrange/list/line with lo ≤ hi,
  answered by `Spec.MapSpec` (results only; list = emitted texts only).
-/
open Basic Basic.Proto

namespace Driver

def readOptNat (s : String) : Option (Option Nat) :=
  if s = "-" then some none else s.toNat?.map some

def showOptNat : Option Nat → String
  | none => "-"
  | some n => toString n

def showCols (cs : List (Nat × Nat)) : String :=
  "+".intercalate (cs.map fun c => s!"{c.1}-{c.2}")

def showListed (x : Str × List (Nat × Nat)) : String := hexOfStr x.1 ++ "@" ++ showCols x.2

/-- iterate `list_line` until it returns `None` (fuel: one more than the number of lines) -/
def listAll (l : Listing) : Nat → Option Nat → Option Nat → List String → Option (List String)
  | 0, _, _, _ => none
  | fuel+1, lo, hi, acc =>
    match l.listLineR lo hi with
    | .error _ => none
    | .ok none => some acc.reverse
    | .ok (some (x, (lo', hi'))) =>
      listAll l fuel lo' hi' ((showListed x ++ ">" ++ showOptNat lo' ++ ".." ++ showOptNat hi') :: acc)

def readErrs (s : String) : Option (List Error) :=
  (s.splitOn ",").mapM fun item =>
    match item.splitOn ":" with
    | [n, c] =>
      match c.splitOn "-" with
      | [a, b] => do
        let n ← n.toNat?
        let a ← a.toNat?
        let b ← b.toNat?
        pure (((Error.mk' Code.syntaxError).inLine (some n)).inCol a b)
      | _ => none
    | _ => none

def mkLine (n : Nat) (text : Str) : Line := { number := some n, tokens := [Token.unknown text] }

def showPlan (old : List (Nat × Line)) (new : Listing) (changes : List (Nat × Nat)) : String :=
  ",".intercalate (old.map fun p =>
    let target := match changes.find? (fun c => c.1 == p.1) with
      | some c => c.2
      | none => p.1
    match new.get? target with
    | some line => if line.tokens = p.2.tokens then s!"{p.1}>{target}" else s!"{p.1}>x"
    | none => s!"{p.1}>x")

def showErrOrFault (e : Error) : String := if e.isFault then "fault" else "err " ++ showErr e

def runLstOp (l : Listing) (words : List String) : Option (Listing × String) :=
  match words with
  | ["ins", n, t] => do
    let n ← n.toNat?
    pure (l.insert (mkLine n (strOfHex t)), "ok")
  | ["del", n] => do
    let n ← readOptNat n
    let (l', b) := l.remove n
    pure (l', if b then "ok 1" else "ok 0")
  | ["delrange", lo, hi] => do
    let lo ← readOptNat lo
    let hi ← readOptNat hi
    match l.removeRangeR lo hi with
    | .ok (l', b) => pure (l', if b then "ok 1" else "ok 0")
    | .error e => pure (l, showErrOrFault e)
  | ["list", lo, hi] => do
    let lo ← readOptNat lo
    let hi ← readOptNat hi
    match listAll l (l.source.length + 1) lo hi [] with
    | some out => pure (l, "ok [" ++ ",".intercalate out ++ "]")
    | none => pure (l, "fault")
  | ["line", n] => do
    let n ← n.toNat?
    match l.line n with
    | some x => pure (l, "ok " ++ showListed x)
    | none => pure (l, "none")
  | ["errs"] => pure ({ l with indirectErrors := [] }, "ok")
  | ["errs", s] => do
    let es ← readErrs s
    pure ({ l with indirectErrors := es }, "ok")
  | ["renum", a, b, c] => do
    let a ← a.toNat?
    let b ← b.toNat?
    let c ← c.toNat?
    match l.renum Listing.renumNumberOnly a b c with
    | .ok l' => pure (l', "ok")
    | .error e => pure (l, showErrOrFault e)
  | ["renumplan", a, b, c] => do
    let a ← a.toNat?
    let b ← b.toNat?
    let c ← c.toNat?
    match Listing.renumPlan (l.source.map (·.1)) a b c, l.renum Listing.renumNumberOnly a b c with
    | .ok changes, .ok l' => pure (l, "ok " ++ showPlan l.source l' changes)
    | .error e, _ => pure (l, showErrOrFault e)
    | _, .error e => pure (l, showErrOrFault e)
  | ["clear"] => pure (l.clear, "ok")
  | ["empty"] => pure (l, if l.isEmpty then "ok 1" else "ok 0")
  | ["load", t] =>
    match l.loadStr Lex.lex (strOfHex t) with
    | .ok l' => pure (l', "ok")
    | .error e => pure (l, showErrOrFault e)
  | ["load"] =>
    match l.loadStr Lex.lex [] with
    | .ok l' => pure (l', "ok")
    | .error e => pure (l, showErrOrFault e)
  | _ => none

def dumpLst (l : Listing) : String :=
  "{" ++ ",".intercalate (l.source.map fun p =>
    s!"{p.1}:" ++ hexOfStr (printTokens p.2.tokens)) ++ "}"

def runLstScript : List String → Listing → List String → Option (Listing × List String × Bool)
  | [], l, acc => some (l, acc.reverse, false)
  | op :: rest, l, acc =>
    match runLstOp l (op.splitOn " ") with
    | none => none
    | some (l', r) =>
      if r = "fault" then some (l', (r :: acc).reverse, true)
      else runLstScript rest l' (r :: acc)

def lstOps (rest : List String) : List String :=
  let script := " ".intercalate rest
  if script = "" then [] else script.splitOn ";"

def answerLst (rest : List String) : String :=
  match runLstScript (lstOps rest) {} [] with
  | none => "bad-request"
  | some (l, rs, faulted) =>
    ";".intercalate rs ++ " | " ++ (if faulted then "fault" else dumpLst l)

/-! ### `LSTSPEC`: the same histories answered by the map specification -/

structure SpecLst where
  map : Spec.LMap := Spec.LMap.empty
  cands : List Nat := []

def specText (p : Nat × Line) : String := hexOfStr (printLine p.2.number p.2.tokens)

def runLstSpecOp (s : SpecLst) (words : List String) : Option (SpecLst × String) :=
  match words with
  | ["ins", n, t] => do
    let n ← n.toNat?
    pure ({ map := s.map.insert n (mkLine n (strOfHex t)), cands := n :: s.cands }, "ok")
  | ["del", n] => do
    let n ← n.toNat?
    pure ({ s with map := s.map.delete n }, if (s.map n).isSome then "ok 1" else "ok 0")
  | ["delrange", lo, hi] => do
    let lo ← readOptNat lo
    let hi ← hi.toNat?
    let lo := lo.getD 0
    pure ({ s with map := s.map.deleteRange lo hi },
      if (Spec.listSpecOn s.cands s.map lo hi).isEmpty then "ok 0" else "ok 1")
  | ["list", lo, hi] => do
    let lo ← readOptNat lo
    let hi ← hi.toNat?
    pure (s, "ok [" ++ ",".intercalate ((Spec.listSpecOn s.cands s.map (lo.getD 0) hi).map specText) ++ "]")
  | ["line", n] => do
    let n ← n.toNat?
    match s.map n with
    | some x => pure (s, "ok " ++ specText (n, x))
    | none => pure (s, "none")
  | _ => none

def runLstSpecScript : List String → SpecLst → List String → Option (List String)
  | [], _, acc => some acc.reverse
  | op :: rest, s, acc =>
    match runLstSpecOp s (op.splitOn " ") with
    | none => none
    | some (s', r) => runLstSpecScript rest s' (r :: acc)

def answerLstSpec (rest : List String) : String :=
  match runLstSpecScript (lstOps rest) {} [] with
  | none => "bad-request"
  | some rs => ";".intercalate rs

end Driver
