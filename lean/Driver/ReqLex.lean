import BasicModel.ProtoAst
import BasicModel.Model.Lex
import BasicModel.Model.Renum
/-
  `LEX <hex of the UTF-8 source line>`  →  `<number|-> <tokens> | <hex of to_string()>`
  with the tokens in the canonical text of `Proto.showToken`, separated by single blanks.
  `C05 <hex line>` is answered by the constant `ok` (the expected verdict of the C05 oracle) in
  `Driver.answer`.
  `RENUMLINE <old>:<new>,… <hex line>` → `<number|-> <hex of to_string()>` of the renumbered line.
-/
open Basic Basic.Proto

namespace Driver

def showLex (l : Line) : String :=
  let n := match l.number with | some n => toString n | none => "-"
  n ++ " " ++ " ".intercalate (l.tokens.map showToken) ++ " | " ++ hexOfStr (printLine l.number l.tokens)

def answerLex : List String → String
  | [h] => showLex (Lex.lineNew (strOfHex h))
  | [] => showLex (Lex.lineNew [])
  | _ => "bad-request"

/-- `10:100,20:110` (or `-` for the empty map) -/
def readChanges (s : String) : Option (List (Nat × Nat)) :=
  if s == "-" || s == "" then some []
  else (s.splitOn ",").mapM fun p =>
    match p.splitOn ":" with
    | [a, b] => (match a.toNat?, b.toNat? with
      | some a, some b => some (a, b)
      | _, _ => none)
    | _ => none

/-- `RENUMLINE <old>:<new>,… <hex source line>` → `<num|-> <hex of to_string()>` of
    `Line::new(src).renum(&changes)` -/
def renumLine (ch h : String) : String :=
  match readChanges ch with
  | some changes =>
    let l := Lex.lineRenum changes (Lex.lineNew (strOfHex h))
    let n := match l.number with | some n => toString n | none => "-"
    n ++ " " ++ hexOfStr (printLine l.number l.tokens)
  | none => "bad-request"

def answerRenumLine : List String → String
  | [ch, h] => renumLine ch h
  | [ch] => renumLine ch ""
  | _ => "bad-request"

end Driver
