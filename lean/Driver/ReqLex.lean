import BasicModel.ProtoAst
import BasicModel.Model.Lex
/-
  `LEX <hex of the UTF-8 source line>`  →  `<number|-> <tokens> | <hex of to_string()>`
  with the tokens in the canonical text of `Proto.showToken`, separated by single blanks.
  `C05 <hex line>` is answered by the constant `ok` (the expected verdict of the C05 oracle) in
  `Driver.answer`.
-/
open Basic Basic.Proto

namespace Driver

def showLex (l : Line) : String :=
  let n := match l.number with | some n => toString n | none => "-"
  n ++ " " ++ " ".intercalate (l.tokens.map showToken) ++ " | " ++ hexOfStr (printLine l.number l.tokens)

def answerLex : List String → String
  | [h] => showLex (Lex.lineNew (strOfHex h))
  | [] => showLex (Lex.lineNew [])
  | _ => "bad-request"

end Driver
