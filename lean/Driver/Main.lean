import BasicModel.Proto
import Driver.Requests
open Basic

partial def loop (h : IO.FS.Stream) (out : IO.FS.Stream) : IO Unit := do
  let line ← h.getLine
  if line.isEmpty then return ()
  let l := String.ofList ((line.toList.reverse.dropWhile (fun c => c = '\n' || c = '\r')).reverse)
  out.putStrLn (Driver.answer l)
  loop h out

def main : IO Unit := do
  let stdin ← IO.getStdin
  let stdout ← IO.getStdout
  loop stdin stdout
  stdout.flush
