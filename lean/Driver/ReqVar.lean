import BasicModel.Proto
import BasicModel.Model.Var
import BasicModel.Spec.VarSpec
/-
  `VAR <op>;<op>;...` — one request is one whole script on a fresh `Var` (the driver is stateless).

  ops:  store <name> <val> | fetch <name> | storearr <name> <val> <idx>... | fetcharr <name> <idx>...
        dim <name> <idx>... | erase <name> | defint|defsng|defdbl|defstr <val> <val> | clear
        fill <n>   (stores I1 into Q0%, Q1%, ... Q<n-1>%; stops at the first error)
  <name> is hex UTF-8, `-` for the empty name; <val>/<idx> in the `showVal` syntax.
  answer: per-op results joined by `;` (`ok`, `ok <val>`, `err <showErr>`, `fault`), then ` | ` and
  `vars={hexkey=val,...} dims={hexkey=[n,...],...} types=<26 letters>` (sorted by key).
  A `fault` (Rust panic) ends the script; the dump is then the word `fault`.

  `VARSPEC <script>`: same script syntax, answered by `Spec.VarSpec` (results only).
-/
open Basic Basic.Proto

namespace Driver

def readName (s : String) : Str := if s = "-" then [] else strOfHex s

def sortByKey {α : Type} (l : List (Str × α)) : List (Str × α) :=
  l.mergeSort (fun a b => RStd.strLe a.1 b.1)

def dumpVar (v : Var) : String :=
  let vs := (sortByKey v.vars).map fun p => hexOfStr p.1 ++ "=" ++ showVal p.2
  let ds := (sortByKey v.dims).map fun p =>
    hexOfStr p.1 ++ "=[" ++ ",".intercalate (p.2.map fun n => toString n.toInt) ++ "]"
  "vars={" ++ ",".intercalate vs ++ "} dims={" ++ ",".intercalate ds ++ "} types=" ++ String.ofList v.typeLetters

def showUnit : Res Unit → String
  | .ok _ => "ok"
  | .error e => if e.isFault then "fault" else "err " ++ showErr e

def showResV : Res Val → String
  | .ok x => "ok " ++ showVal x
  | .error e => if e.isFault then "fault" else "err " ++ showErr e

def ofResVar (v : Var) (r : Res Var) : Var × String :=
  match r with
  | .ok v' => (v', "ok")
  | .error e => (v, if e.isFault then "fault" else "err " ++ showErr e)

def fillVar : Nat → Nat → Var → Var × String
  | 0, _, v => (v, "ok")
  | n+1, i, v =>
    match v.store ('Q' :: RStd.natDigits i ++ ['%']) (.int 1) with
    | .ok v' => fillVar n (i+1) v'
    | .error e => (v, if e.isFault then "fault" else "err " ++ showErr e)

def defOf : String → Option VarTy
  | "defint" => some .integer | "defsng" => some .single
  | "defdbl" => some .double | "defstr" => some .string
  | _ => none

/-- one op on the model; `none`: malformed request -/
def runVarOp (v : Var) (words : List String) : Option (Var × String) :=
  match words with
  | ["store", n, x] => do
    let x ← readVal x
    pure (ofResVar v (v.store (readName n) x))
  | ["fetch", n] => pure (v, showResV (v.fetch (readName n)))
  | "storearr" :: n :: x :: idx => do
    let x ← readVal x
    let idx ← idx.mapM readVal
    let (v', r) := v.storeArray (readName n) idx x
    pure (v', showUnit r)
  | "fetcharr" :: n :: idx => do
    let idx ← idx.mapM readVal
    let (v', r) := v.fetchArray (readName n) idx
    pure (v', showResV r)
  | "dim" :: n :: idx => do
    let idx ← idx.mapM readVal
    pure (ofResVar v (v.dimensionArray (readName n) idx))
  | ["erase", n] => pure (ofResVar v (v.eraseArray (readName n)))
  | ["clear"] => pure (v.clear, "ok")
  | ["fill", n] => do
    let n ← n.toNat?
    pure (fillVar n 0 v)
  | [d, a, b] => do
    let t ← defOf d
    let a ← readVal a
    let b ← readVal b
    pure (ofResVar v (v.defTy t a b))
  | _ => none

def runVarScript : List String → Var → List String → Option (Var × List String × Bool)
  | [], v, acc => some (v, acc.reverse, false)
  | op :: rest, v, acc =>
    match runVarOp v (op.splitOn " ") with
    | none => none
    | some (v', r) =>
      if r = "fault" then some (v', (r :: acc).reverse, true)
      else runVarScript rest v' (r :: acc)

def scriptOps (rest : List String) : List String :=
  let script := " ".intercalate rest
  if script = "" then [] else script.splitOn ";"

def answerVar (rest : List String) : String :=
  match runVarScript (scriptOps rest) Var.new [] with
  | none => "bad-request"
  | some (v, rs, faulted) =>
    ";".intercalate rs ++ " | " ++ (if faulted then "fault" else dumpVar v)

/-! ### `VARSPEC`: the same scripts answered by the specification -/

def showSpecVal : Val → String
  | .sng b => if b = 0x80000000 then showVal (.sng 0) else showVal (.sng b)
  | .dbl b => if b = 0x8000000000000000 then showVal (.dbl 0) else showVal (.dbl b)
  | v => showVal v

def specUnit (s : Spec.VStore) : Spec.SRes Spec.VStore → Spec.VStore × String
  | .ok s' => (s', "ok")
  | .error c => (s, s!"err {c}")

def specDefOf : String → Option Spec.STy
  | "defint" => some .int | "defsng" => some .sng
  | "defdbl" => some .dbl | "defstr" => some .str
  | _ => none

def specLetter : Val → Option Nat
  | .str (c :: _) => if 65 ≤ c.toNat ∧ c.toNat ≤ 90 then some (c.toNat - 65) else none
  | _ => none

def runSpecOp (s : Spec.VStore) (words : List String) : Option (Spec.VStore × String) :=
  match words with
  | ["store", n, x] => do
    let x ← readVal x
    pure (specUnit s (Spec.store s (readName n) x))
  | ["fetch", n] => pure (s, "ok " ++ showSpecVal (Spec.fetch s (readName n)))
  | "storearr" :: n :: x :: idx => do
    let x ← readVal x
    let idx ← idx.mapM readVal
    match Spec.storeArr s (readName n) idx x with
    | (s', .ok _) => pure (s', "ok")
    | (s', .error c) => pure (s', s!"err {c}")
  | "fetcharr" :: n :: idx => do
    let idx ← idx.mapM readVal
    match Spec.fetchArr s (readName n) idx with
    | (s', .ok v) => pure (s', "ok " ++ showSpecVal v)
    | (s', .error c) => pure (s', s!"err {c}")
  | "dim" :: n :: idx => do
    let idx ← idx.mapM readVal
    pure (specUnit s (Spec.dim s (readName n) idx))
  | ["erase", n] => pure (specUnit s (Spec.erase s (readName n)))
  | ["clear"] => pure (Spec.clear s, "ok")
  | [d, a, b] => do
    let t ← specDefOf d
    let a ← readVal a
    let b ← readVal b
    match specLetter a, specLetter b with
    | some a, some b => if a ≤ b then pure (Spec.deftype s t a b, "ok") else pure (s, "no-spec")
    | _, _ => pure (s, "no-spec")
  | _ => none

def runSpecScript : List String → Spec.VStore → List String → Option (List String)
  | [], _, acc => some acc.reverse
  | op :: rest, s, acc =>
    match runSpecOp s (op.splitOn " ") with
    | none => none
    | some (s', r) => runSpecScript rest s' (r :: acc)

def answerVarSpec (rest : List String) : String :=
  match runSpecScript (scriptOps rest) {} [] with
  | none => "bad-request"
  | some rs => ";".intercalate rs

end Driver
