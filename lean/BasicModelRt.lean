-- second root of the library: the runtime-level lemma chain (C03 C04 C12 C13).  It is kept apart from
-- `BasicModel.lean` because its run-lemmas share names with those of `Lemmas/Runtime.lean`
-- (both were developed independently); no module imports both chains.
import BasicModel.Lemmas.RtSplit
import BasicModel.Lemmas.Frame
import BasicModel.Lemmas.Step
import BasicModel.Lemmas.StepAll
import BasicModel.Lemmas.Slice
import BasicModel.Lemmas.Execute
import BasicModel.Lemmas.Enter
import BasicModel.Lemmas.Program
import BasicModel.Lemmas.GenNeg
import BasicModel.Lemmas.DirectFrame
import BasicModel.Lemmas.Inv
import BasicModel.Lemmas.RunClear
import BasicModel.Lemmas.Sim
import BasicModel.Lemmas.ContParse
import BasicModel.Lemmas.ContLine
import BasicModel.Lemmas.LinkedInv
import BasicModel.Lemmas.Resume
import BasicModel.Lemmas.Inspect
import BasicModel.Lemmas.GenBound
import BasicModel.Lemmas.Layout
import BasicModel.Thm.C12
import BasicModel.Thm.C13
import BasicModel.Thm.C03
import BasicModel.Thm.C04
import BasicModel.Thm.C20Layout
