import BasicModel.Model.Func
/-
  Canonical text of values / errors shared by the Lean driver and the Rust harness (DESIGN App. D).
-/
namespace Basic
namespace Proto

def hexNib (n : Nat) : Char := if n < 10 then Char.ofNat (48 + n) else Char.ofNat (87 + n)

def hexOfBytes (b : ByteArray) : String :=
  String.ofList (b.toList.flatMap fun x => [hexNib (x.toNat / 16), hexNib (x.toNat % 16)])

def hexOfStr (s : Str) : String := hexOfBytes (String.ofList s).toUTF8
def hexOfString (s : String) : String := hexOfBytes s.toUTF8

def nibVal (c : Char) : Nat :=
  if '0' ≤ c && c ≤ '9' then c.toNat - 48
  else if 'a' ≤ c && c ≤ 'f' then c.toNat - 87
  else if 'A' ≤ c && c ≤ 'F' then c.toNat - 55 else 0

def bytesOfHex (s : String) : ByteArray :=
  let rec go : List Char → ByteArray → ByteArray
    | a :: b :: r, acc => go r (acc.push (UInt8.ofNat (nibVal a * 16 + nibVal b)))
    | _, acc => acc
  go s.toList ByteArray.empty

def strOfHex (s : String) : Str :=
  match String.fromUTF8? (bytesOfHex s) with
  | some t => t.toList
  | none => []

def hexNat (width : Nat) (n : Nat) : String :=
  let rec go (w n : Nat) (acc : List Char) : List Char :=
    match w with
    | 0 => acc
    | w+1 => go w (n / 16) (hexNib (n % 16) :: acc)
  String.ofList (go width n [])

def natOfHex (s : String) : Nat := s.toList.foldl (fun a c => a * 16 + nibVal c) 0

/-- NaNs are canonicalised (payload and sign are not compared) -/
def canon32 (b : UInt32) : UInt32 := if (F.f32 b).isNaN then 0x7fc00000 else b
def canon64 (b : UInt64) : UInt64 := if (F.f64 b).isNaN then 0x7ff8000000000000 else b

def showVal : Val → String
  | .int n => s!"I{n.toInt}"
  | .sng b => "S" ++ hexNat 8 (canon32 b).toNat
  | .dbl b => "D" ++ hexNat 16 (canon64 b).toNat
  | .str s => "T" ++ hexOfStr s
  | .ret a => s!"R{a}"
  | .nxt a => s!"N{a}"

def readVal (s : String) : Option Val :=
  match s.toList with
  | 'I' :: r => (String.ofList r).toInt?.map fun z => .int (Int16.ofInt z)
  | 'S' :: r => some (.sng (UInt32.ofNat (natOfHex (String.ofList r))))
  | 'D' :: r => some (.dbl (UInt64.ofNat (natOfHex (String.ofList r))))
  | 'T' :: r => some (.str (strOfHex (String.ofList r)))
  | 'R' :: r => (String.ofList r).toNat?.map .ret
  | 'N' :: r => (String.ofList r).toNat?.map .nxt
  | _ => none

def showErr (e : Error) : String :=
  let l := match e.line with | some n => toString n | none => "-"
  s!"{e.code}@{l}:{e.colStart}-{e.colEnd};{hexOfString e.msg}"

def showRes (r : Res Val) : String :=
  match r with
  | .ok v => "ok " ++ showVal v
  | .error e => "err " ++ showErr e

end Proto
end Basic
