import BasicModel.ProtoProg
import BasicModel.Model.Runtime
/-
  Canonical text of events and VM state (shared with harness/src/rtproto.rs).
-/
namespace Basic
namespace Proto

def sortCols (l : List (Nat × Nat)) : List (Nat × Nat) :=
  l.foldl (fun acc p =>
    let (a, b) := acc.span (fun q => q.1 < p.1 || (q.1 == p.1 && q.2 ≤ p.2))
    a ++ p :: b) []

/-- diagnostics of one line come out in `HashMap` order in the Rust code: canonicalised by sorting -/
def showCols (cs : List (Nat × Nat)) : String := ",".intercalate ((sortCols cs).map fun (a, b) => s!"{a}-{b}")

def showEvent : Event → String
  | .errors es => s!"E[{showErrs es}]"
  | .input p caps => s!"I{hexOfStr p},{if caps then 1 else 0}"
  | .print s => "P" ++ hexOfStr s
  | .list t cs => s!"L{hexOfStr t},[{showCols cs}]"
  | .running => "r"
  | .stopped => "S"
  | .load s => "LOAD" ++ hexOfStr s
  | .run s => "RUN" ++ hexOfStr s
  | .save s => "SAVE" ++ hexOfStr s
  | .cls => "CLS"
  | .inkey => "K"

def showLn : Option Nat → String
  | some n => toString n
  | none => "-"

def showRState : RState → String
  | .intro => "Intro" | .stopped => "Stopped"
  | .listing lo hi => s!"Listing({showLn lo},{showLn hi})"
  | .runtimeError e => s!"RuntimeError({e.code}@{showLn e.line})"
  | .running => "Running" | .input => "Input" | .inputRedo => "InputRedo"
  | .inputRunning => "InputRunning" | .interrupt => "Interrupt" | .inkey => "Inkey"

def sortPairs (l : List (String × String)) : List (String × String) :=
  l.foldl (fun acc p =>
    let (a, b) := acc.span (fun q => q.1 < p.1 || q.1 == p.1)
    a ++ p :: b) []

def showVarStore (v : Var) : String :=
  let vs := sortPairs (v.vars.map fun (k, x) => (hexOfStr k, showVal x))
  let ds := sortPairs (v.dims.map fun (k, d) => (hexOfStr k, ":".intercalate (d.map fun i => toString i.toInt)))
  let vtxt := ",".intercalate (vs.map fun (k, x) => s!"{k}={x}")
  let dtxt := ",".intercalate (ds.map fun (k, x) => s!"{k}=[{x}]")
  s!"vars=\{{vtxt}} dims=\{{dtxt}} types={String.ofList v.typeLetters}"

/-- everything except program text and listing -/
def showCore (s : Runtime) : String :=
  let stack := ",".intercalate (s.stack.toList.map showVal)
  let fns := sortPairs (s.functions.map fun (k, (n, a)) => (hexOfStr k, s!"{n}@{a}"))
  let ftxt := ",".intercalate (fns.map fun (k, x) => s!"{k}={x}")
  s!"pc={s.pc} entry={s.entryAddress} state={showRState s.state} cont={showRState s.cont} contpc={s.contPc} col={s.printCol} dirty={s.dirty} tron={s.tron} tr={showLn s.tr} stack=[{stack}] {showVarStore s.vars} fns=\{{ftxt}} datapos={s.program.link.dataPos}"

def showListing (l : Listing) : String :=
  ",".intercalate (l.source.map fun (k, line) => s!"{k}:{hexOfStr (printLine line.number line.tokens)}")

def showFull (s : Runtime) : String :=
  s!"{showCore s} ## {showProgram s.program} ## listing=\{{showListing s.listing}} lierr=[{showErrs s.listing.indirectErrors}] lderr=[{showErrs s.listing.directErrors}]"

end Proto
end Basic
