def hello := "world"
