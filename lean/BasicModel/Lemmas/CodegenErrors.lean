import BasicModel.Lemmas.NoFaultOps
import BasicModel.Lemmas.GenNeg
import BasicModel.Lemmas.ParseNoFault
import BasicModel.Lemmas.Program
/-
  Compile-time diagnostics are never *faults*: every error the code generator, the linker and
  `Program.codegenLine` / `linkProg` report has an ordinary error code (the parser's by
  `Lemmas/ParseNoFault.lean`).  `NE m`: no run of the generator action `m` throws a fault.
-/
namespace Basic

def ErrsOk (es : List Error) : Prop := ∀ e ∈ es, e.isFault = false

theorem ErrsOk.nil : ErrsOk [] := fun _ h => nomatch h
theorem ErrsOk.append {a b : List Error} (ha : ErrsOk a) (hb : ErrsOk b) : ErrsOk (a ++ b) := by
  intro e he
  rcases List.mem_append.1 he with h | h
  · exact ha e h
  · exact hb e h
theorem ErrsOk.single {e : Error} (h : e.isFault = false) : ErrsOk [e] := by
  intro e' he; rw [List.mem_singleton] at he; subst he; exact h
theorem Error.isFault_inLine (e : Error) (l : Option Nat) : (e.inLine l).isFault = e.isFault := rfl
theorem Error.isFault_inCol (e : Error) (a b : Nat) : (e.inCol a b).isFault = e.isFault := rfl
theorem ErrsOk.map_inLine {es : List Error} (h : ErrsOk es) (l : Option Nat) : ErrsOk (es.map (·.inLine l)) := by
  intro e he
  obtain ⟨x, hx, rfl⟩ := List.mem_map.1 he
  exact h x hx

namespace Codegen
open Link
variable {α β : Type}

structure NE (m : GM α) : Prop where
  out : ∀ g e, (m.run.run g).1 = .error e → e.isFault = false

theorem NE.ret (a : α) : NE (pure a : GM α) := ⟨fun _ _ h => nomatch h⟩
theorem NE.thr (e : Error) (h : e.isFault = false) : NE (throw e : GM α) :=
  ⟨fun _ e' h' => by cases h'; exact h⟩
theorem NE.rd : NE (get : GM GState) := ⟨fun _ _ h => nomatch h⟩
theorem NE.wr (t : GState) : NE (set t : GM Unit) := ⟨fun _ _ h => nomatch h⟩
theorem NE.mod (f : GState → GState) : NE (modify f : GM Unit) := ⟨fun _ _ h => nomatch h⟩
theorem NE.lift {r : Except Error α} (h : NFE r) : NE (liftE r : GM α) := by
  constructor; intro s e he; rw [g_liftE] at he; exact h.out e he

theorem NE.seq {m : GM α} {f : α → GM β} (hm : NE m) (hf : ∀ a, NE (f a)) : NE (m >>= f) := by
  constructor
  intro s e he
  rw [g_bind] at he
  rcases h : m.run.run s with ⟨r, s'⟩
  rw [h] at he
  cases r with
  | ok a => exact (hf a).out s' e he
  | error e' =>
    cases he
    exact hm.out s e (by rw [h])

theorem NE.forLoop {γ : Type} (l : List γ) (init : β) (f : γ → β → GM (ForInStep β))
    (hf : ∀ a b, NE (f a b)) : NE (forIn l init f) := by
  induction l generalizing init with
  | nil => exact NE.ret _
  | cons a as ih =>
    rw [List.forIn_cons]
    refine NE.seq (hf a init) ?_
    intro r
    cases r with
    | done b => exact NE.ret _
    | yield b => exact ih b

theorem nfe_lineNumberOfLink (l : Link) : NFE (lineNumberOfLink l) := by
  unfold lineNumberOfLink
  split
  · split
    · exact nfe_toLineNumber _
    · exact NFE.error _ rfl
  · exact NFE.error _ rfl

theorem nfe_symbolForLineNumber (o : Option Nat) : NFE (Link.symbolForLineNumber o) := by
  unfold Link.symbolForLineNumber
  split
  · exact NFE.ok _
  · exact NFE.error _ rfl

theorem nfe_testForBuiltIn (v : VarItem) (b : Bool) : NFE (testForBuiltIn v b) := by
  unfold testForBuiltIn
  split
  · split
    · exact NFE.ok _
    · split
      · exact NFE.ok _
      · exact NFE.error _ rfl
  · exact NFE.ok _

theorem nfe_push (l : Link) (op : Opcode) : NFE (l.push op).2 := by
  unfold Link.push
  dsimp only
  split
  · exact NFE.error _ rfl
  · exact NFE.ok _

theorem nfe_pushData (l : Link) (v : Val) : NFE (l.pushData v).2 := by
  unfold Link.pushData
  dsimp only
  split
  · exact NFE.error _ rfl
  · exact NFE.ok _

theorem nfe_append (a b : Link) : NFE (a.append b).2 := by
  unfold Link.append
  split
  · exact NFE.error _ rfl
  · dsimp only
    split
    · exact NFE.error _ rfl
    · dsimp only
      split
      · exact NFE.error _ rfl
      · exact NFE.ok _

theorem nfe_transformToData (l : Link) (c : Col) : NFE (transformToData l c).2 := by
  unfold transformToData
  dsimp only
  split
  · split
    · exact nfe_pushData _ _
    · exact NFE.error _ rfl
  · split
    · split
      · split
        · exact nfe_pushData _ _
        · rename_i e he
          exact NFE.error _ ((Ops.nfe_negate _).out e he)
      · exact NFE.error _ rfl
    · exact NFE.error _ rfl

theorem nfe_of_transformToData {l l' : Link} {c : Col} {r : Except Error Unit}
    (e : transformToData l c = (l', r)) : NFE r := by
  have := nfe_transformToData l c
  rw [e] at this; exact this

/-- side conditions; extended by `macro_rules` -/
syntax "ne_side" : tactic
macro_rules | `(tactic| ne_side) => `(tactic| assumption)
macro_rules | `(tactic| ne_side) => `(tactic| nfe_known)
macro_rules | `(tactic| ne_side) => `(tactic| exact nfe_symbolForLineNumber _)
macro_rules | `(tactic| ne_side) => `(tactic| exact nfe_testForBuiltIn _ _)
macro_rules | `(tactic| ne_side) => `(tactic| exact nfe_of_transformToData (by assumption))
macro_rules | `(tactic| ne_side) => `(tactic| exact nfe_transformToData _ _)
macro_rules | `(tactic| ne_side) => `(tactic| exact nfe_push _ _)
macro_rules | `(tactic| ne_side) => `(tactic| exact nfe_append _ _)

/-- thrown errors: constants, or an error of `lineNumberOfLink` with a column added -/
macro "ne_thrown" : tactic => `(tactic| first
  | rfl
  | decide
  | exact (Error.isFault_inCol _ _ _).trans ((nfe_lineNumberOfLink _).out _ (by assumption)))

syntax "ne_known" : tactic
macro_rules | `(tactic| ne_known) => `(tactic| assumption)

macro "ne_step" : tactic =>
  `(tactic| first
    | with_reducible exact NE.ret _
    | ((with_reducible refine NE.thr _ ?_); ne_thrown)
    | ((with_reducible refine NE.lift ?_); ne_side)
    | with_reducible exact NE.rd
    | with_reducible exact NE.wr _
    | with_reducible exact NE.mod _
    | ne_known
    | ((with_reducible apply NE.forLoop); intro _ _)
    | with_reducible apply NE.seq
    | intro _
    | split)

macro "ne" : tactic => `(tactic| (try dsimp only
                                  repeat' ne_step))

theorem ne_popExpr : NE popExpr := by unfold popExpr; ne
theorem ne_popVar : NE popVar := by unfold popVar; ne
theorem ne_popNExpr (n : Nat) : NE (popNExpr n) := by unfold popNExpr; ne
theorem ne_popNVar (n : Nat) : NE (popNVar n) := by unfold popNVar; ne
theorem ne_popNStmt (n : Nat) : NE (popNStmt n) := by unfold popNStmt; ne
theorem ne_lpush (op : Opcode) : NE (lpush op) := by unfold lpush; ne
theorem ne_lappend (f : Link) : NE (lappend f) := by unfold lappend; ne
theorem ne_lnextSymbol : NE lnextSymbol := by unfold lnextSymbol; ne
theorem ne_lpushSymbol (s : Symbol) : NE (lpushSymbol s) := by unfold lpushSymbol; ne
theorem ne_laddUnlinked (c : Col) (s : Symbol) : NE (laddUnlinked c s) := by unfold laddUnlinked; ne
theorem ne_lenVal (n : Nat) : NE (lenVal n) := by unfold lenVal; ne
macro_rules | `(tactic| ne_known) => `(tactic| with_reducible exact ne_popExpr)
macro_rules | `(tactic| ne_known) => `(tactic| with_reducible exact ne_popVar)
macro_rules | `(tactic| ne_known) => `(tactic| with_reducible exact ne_popNExpr _)
macro_rules | `(tactic| ne_known) => `(tactic| with_reducible exact ne_popNVar _)
macro_rules | `(tactic| ne_known) => `(tactic| with_reducible exact ne_popNStmt _)
macro_rules | `(tactic| ne_known) => `(tactic| with_reducible exact ne_lpush _)
macro_rules | `(tactic| ne_known) => `(tactic| with_reducible exact ne_lappend _)
macro_rules | `(tactic| ne_known) => `(tactic| with_reducible exact ne_lnextSymbol)
macro_rules | `(tactic| ne_known) => `(tactic| with_reducible exact ne_lpushSymbol _)
macro_rules | `(tactic| ne_known) => `(tactic| with_reducible exact ne_laddUnlinked _ _)
macro_rules | `(tactic| ne_known) => `(tactic| with_reducible exact ne_lenVal _)

theorem ne_pushJump (c : Col) (sym : Symbol) : NE (pushJump c sym) := by unfold pushJump; ne
theorem ne_pushIfnot (c : Col) (sym : Symbol) : NE (pushIfnot c sym) := by unfold pushIfnot; ne
theorem ne_pushReturnVal (c : Col) (sym : Symbol) : NE (pushReturnVal c sym) := by unfold pushReturnVal; ne
macro_rules | `(tactic| ne_known) => `(tactic| with_reducible exact ne_pushJump _ _)
macro_rules | `(tactic| ne_known) => `(tactic| with_reducible exact ne_pushIfnot _ _)
macro_rules | `(tactic| ne_known) => `(tactic| with_reducible exact ne_pushReturnVal _ _)
theorem ne_pushGoto (c : Col) (ln : Option Nat) : NE (pushGoto c ln) := by unfold pushGoto; ne
theorem ne_pushGosub (c : Col) (ln : Option Nat) : NE (pushGosub c ln) := by unfold pushGosub; ne
theorem ne_pushFor (c : Col) : NE (pushFor c) := by unfold pushFor; ne
theorem ne_pushRestore (c : Col) (ln : Option Nat) : NE (pushRestore c ln) := by unfold pushRestore; ne
theorem ne_pushRun (c : Col) (ln : Option Nat) : NE (pushRun c ln) := by unfold pushRun; ne
theorem ne_pushWend (c : Col) : NE (pushWend c) := by unfold pushWend; ne
theorem ne_pushWhile (c : Col) (e : Link) : NE (pushWhile c e) := by unfold pushWhile; ne
theorem ne_pushDefFn (c : Col) (i : Str) (vs : List Str) (e : Link) : NE (pushDefFn c i vs e) := by
  unfold pushDefFn; ne
macro_rules | `(tactic| ne_known) => `(tactic| with_reducible exact ne_pushGoto _ _)
macro_rules | `(tactic| ne_known) => `(tactic| with_reducible exact ne_pushGosub _ _)
macro_rules | `(tactic| ne_known) => `(tactic| with_reducible exact ne_pushFor _)
macro_rules | `(tactic| ne_known) => `(tactic| with_reducible exact ne_pushRestore _ _)
macro_rules | `(tactic| ne_known) => `(tactic| with_reducible exact ne_pushRun _ _)
macro_rules | `(tactic| ne_known) => `(tactic| with_reducible exact ne_pushWend _)
macro_rules | `(tactic| ne_known) => `(tactic| with_reducible exact ne_pushWhile _ _)
macro_rules | `(tactic| ne_known) => `(tactic| with_reducible exact ne_pushDefFn _ _ _ _)
theorem ne_pushAsDim (v : VarItem) : NE (pushAsDim v) := by unfold pushAsDim; ne
theorem ne_pushAsPopUnary (v : VarItem) : NE (pushAsPopUnary v) := by unfold pushAsPopUnary; ne
theorem ne_pushAsPop (v : VarItem) : NE (pushAsPop v) := by unfold pushAsPop; ne
theorem ne_pushAsExpression (v : VarItem) : NE (pushAsExpression v) := by unfold pushAsExpression; ne
macro_rules | `(tactic| ne_known) => `(tactic| with_reducible exact ne_pushAsDim _)
macro_rules | `(tactic| ne_known) => `(tactic| with_reducible exact ne_pushAsPopUnary _)
macro_rules | `(tactic| ne_known) => `(tactic| with_reducible exact ne_pushAsPop _)
macro_rules | `(tactic| ne_known) => `(tactic| with_reducible exact ne_pushAsExpression _)
theorem ne_exprPopLineNumber : NE exprPopLineNumber := by unfold exprPopLineNumber; ne
macro_rules | `(tactic| ne_known) => `(tactic| with_reducible exact ne_exprPopLineNumber)
theorem ne_genVariable (v : Variable) : NE (genVariable v) := by
  cases v <;> (simp only [genVariable]; ne)
theorem ne_unaryExpr (op : Opcode) (c : Col) : NE (unaryExpr op c) := by unfold unaryExpr; ne
theorem ne_binaryExpr (op : Opcode) : NE (binaryExpr op) := by unfold binaryExpr; ne
macro_rules | `(tactic| ne_known) => `(tactic| with_reducible exact ne_unaryExpr _ _)
macro_rules | `(tactic| ne_known) => `(tactic| with_reducible exact ne_binaryExpr _)
theorem ne_genExpression (e : Expr) : NE (genExpression e) := by
  cases e <;> (simp only [genExpression]; ne)
theorem ne_defType (op : Opcode) (c : Col) : NE (defType op c) := by unfold defType; ne
theorem ne_rangeStmt (op : Opcode) (c : Col) : NE (rangeStmt op c) := by unfold rangeStmt; ne
theorem ne_genOn (c : Col) (len : Nat) (b : Bool) : NE (genOn c len b) := by unfold genOn; ne
macro_rules | `(tactic| ne_known) => `(tactic| with_reducible exact ne_defType _ _)
macro_rules | `(tactic| ne_known) => `(tactic| with_reducible exact ne_rangeStmt _ _)
macro_rules | `(tactic| ne_known) => `(tactic| with_reducible exact ne_genOn _ _ _)
theorem ne_genStatement (st : Stmt) : NE (genStatement st) := by
  cases st <;> (simp only [genStatement]; ne)

/-! ### the visitor -/

/-- the errors collected so far are not faults -/
def EOk (s : VState) : Prop := ErrsOk s.errors

theorem runFresh_error {m : GM α} (hm : NE m) (g : GState) (e : Error)
    (h : (runFresh m g).1 = .error e) : e.isFault = false := by
  unfold runFresh at h
  exact hm.out _ e h

theorem visitVariable_eok (v : Variable) (s : VState) (h : EOk s) : EOk (visitVariable v s) := by
  have hr := runFresh_error (ne_genVariable v) s.g
  unfold visitVariable
  generalize runFresh (genVariable v) s.g = x at hr
  rcases x with ⟨r, link, g⟩
  cases r with
  | ok a => exact h
  | error e => exact ErrsOk.append h (ErrsOk.single (hr e rfl))

theorem visitExpression_eok (e : Expr) (s : VState) (h : EOk s) : EOk (visitExpression e s) := by
  have hr := runFresh_error (ne_genExpression e) s.g
  unfold visitExpression
  generalize runFresh (genExpression e) s.g = x at hr
  rcases x with ⟨r, link, g⟩
  cases r with
  | ok a => exact h
  | error e => exact ErrsOk.append h (ErrsOk.single (hr e rfl))

theorem visitStatement_eok (st : Stmt) (s : VState) (h : EOk s) : EOk (visitStatement st s) := by
  have hr := runFresh_error (ne_genStatement st) s.g
  unfold visitStatement
  generalize runFresh (genStatement st) s.g = x at hr
  rcases x with ⟨r, link, g⟩
  cases r with
  | ok a => exact h
  | error e => exact ErrsOk.append h (ErrsOk.single (hr e rfl))

mutual
theorem acceptVar_eok : ∀ (v : Variable) (s : VState), EOk s → EOk (acceptVar v s)
  | .unary c i, s, h => by rw [acceptVar]; exact visitVariable_eok _ _ h
  | .array c i es, s, h => by rw [acceptVar]; exact visitVariable_eok _ _ (acceptExprs_eok es s h)
theorem acceptExpr_eok : ∀ (e : Expr) (s : VState), EOk s → EOk (acceptExpr e s)
  | .var v, s, h => by rw [acceptExpr]; exact visitExpression_eok _ _ (acceptVar_eok v s h)
  | .neg c e, s, h => by rw [acceptExpr]; exact visitExpression_eok _ _ (acceptExpr_eok e s h)
  | .not c e, s, h => by rw [acceptExpr]; exact visitExpression_eok _ _ (acceptExpr_eok e s h)
  | .bin op c l r, s, h => by
    rw [acceptExpr]; exact visitExpression_eok _ _ (acceptExpr_eok r _ (acceptExpr_eok l s h))
  | .single c b, s, h => by rw [acceptExpr] <;> first | exact visitExpression_eok _ _ h | nofun
  | .double c b, s, h => by rw [acceptExpr] <;> first | exact visitExpression_eok _ _ h | nofun
  | .integer c b, s, h => by rw [acceptExpr] <;> first | exact visitExpression_eok _ _ h | nofun
  | .string c b, s, h => by rw [acceptExpr] <;> first | exact visitExpression_eok _ _ h | nofun
theorem acceptExprs_eok : ∀ (es : List Expr) (s : VState), EOk s → EOk (acceptExprs es s)
  | [], s, h => by rw [acceptExprs]; exact h
  | e :: es, s, h => by rw [acceptExprs]; exact acceptExprs_eok es _ (acceptExpr_eok e s h)
end

theorem acceptVars_eok (vs : List Variable) (s : VState) (h : EOk s) : EOk (acceptVars vs s) := by
  unfold acceptVars
  induction vs generalizing s with
  | nil => exact h
  | cons v vs ih => rw [List.foldl_cons]; exact ih _ (acceptVar_eok v s h)

mutual
theorem acceptStmt_eok : ∀ (st : Stmt) (s : VState), EOk s → EOk (acceptStmt st s)
  | .data c es, s, h => by rw [acceptStmt]; exact visitStatement_eok _ _ (acceptExprs_eok es s h)
  | .print c es, s, h => by rw [acceptStmt]; exact visitStatement_eok _ _ (acceptExprs_eok es s h)
  | .def c v ps e, s, h => by
    rw [acceptStmt]
    exact visitStatement_eok _ _ (acceptExpr_eok e _ (acceptVars_eok ps _ (acceptVar_eok v s h)))
  | .defdbl c a b, s, h => by
    rw [acceptStmt]; exact visitStatement_eok _ _ (acceptVar_eok b _ (acceptVar_eok a s h))
  | .defint c a b, s, h => by
    rw [acceptStmt]; exact visitStatement_eok _ _ (acceptVar_eok b _ (acceptVar_eok a s h))
  | .defsng c a b, s, h => by
    rw [acceptStmt]; exact visitStatement_eok _ _ (acceptVar_eok b _ (acceptVar_eok a s h))
  | .defstr c a b, s, h => by
    rw [acceptStmt]; exact visitStatement_eok _ _ (acceptVar_eok b _ (acceptVar_eok a s h))
  | .swap c a b, s, h => by
    rw [acceptStmt]; exact visitStatement_eok _ _ (acceptVar_eok b _ (acceptVar_eok a s h))
  | .mid c v e1 e2 e3, s, h => by
    rw [acceptStmt]
    exact visitStatement_eok _ _
      (acceptExpr_eok e3 _ (acceptExpr_eok e2 _ (acceptExpr_eok e1 _ (acceptVar_eok v s h))))
  | .for c v e1 e2 e3, s, h => by
    rw [acceptStmt]
    exact visitStatement_eok _ _
      (acceptExpr_eok e3 _ (acceptExpr_eok e2 _ (acceptExpr_eok e1 _ (acceptVar_eok v s h))))
  | .gosub c e, s, h => by rw [acceptStmt]; exact visitStatement_eok _ _ (acceptExpr_eok e s h)
  | .goto c e, s, h => by rw [acceptStmt]; exact visitStatement_eok _ _ (acceptExpr_eok e s h)
  | .load c e, s, h => by rw [acceptStmt]; exact visitStatement_eok _ _ (acceptExpr_eok e s h)
  | .restore c e, s, h => by rw [acceptStmt]; exact visitStatement_eok _ _ (acceptExpr_eok e s h)
  | .run c e, s, h => by rw [acceptStmt]; exact visitStatement_eok _ _ (acceptExpr_eok e s h)
  | .save c e, s, h => by rw [acceptStmt]; exact visitStatement_eok _ _ (acceptExpr_eok e s h)
  | .while c e, s, h => by rw [acceptStmt]; exact visitStatement_eok _ _ (acceptExpr_eok e s h)
  | .if c p th el, s, h => by
    rw [acceptStmt]
    exact visitStatement_eok _ _ (acceptStmts_eok el _ (acceptStmts_eok th _ (acceptExpr_eok p s h)))
  | .let c v e, s, h => by
    rw [acceptStmt]; exact visitStatement_eok _ _ (acceptExpr_eok e _ (acceptVar_eok v s h))
  | .delete c a b, s, h => by
    rw [acceptStmt]; exact visitStatement_eok _ _ (acceptExpr_eok b _ (acceptExpr_eok a s h))
  | .list c a b, s, h => by
    rw [acceptStmt]; exact visitStatement_eok _ _ (acceptExpr_eok b _ (acceptExpr_eok a s h))
  | .input c e1 e2 vs, s, h => by
    rw [acceptStmt]
    exact visitStatement_eok _ _ (acceptVars_eok vs _ (acceptExpr_eok e2 _ (acceptExpr_eok e1 s h)))
  | .onGoto c e ls, s, h => by
    rw [acceptStmt]; exact visitStatement_eok _ _ (acceptExprs_eok ls _ (acceptExpr_eok e s h))
  | .onGosub c e ls, s, h => by
    rw [acceptStmt]; exact visitStatement_eok _ _ (acceptExprs_eok ls _ (acceptExpr_eok e s h))
  | .renum c a b st, s, h => by
    rw [acceptStmt]
    exact visitStatement_eok _ _ (acceptExpr_eok st _ (acceptExpr_eok b _ (acceptExpr_eok a s h)))
  | .dim c vs, s, h => by rw [acceptStmt]; exact visitStatement_eok _ _ (acceptVars_eok vs s h)
  | .erase c vs, s, h => by rw [acceptStmt]; exact visitStatement_eok _ _ (acceptVars_eok vs s h)
  | .next c vs, s, h => by rw [acceptStmt]; exact visitStatement_eok _ _ (acceptVars_eok vs s h)
  | .read c vs, s, h => by rw [acceptStmt]; exact visitStatement_eok _ _ (acceptVars_eok vs s h)
  | .clear c, s, h => by rw [acceptStmt] <;> first | exact visitStatement_eok _ _ h | nofun
  | .cls c, s, h => by rw [acceptStmt] <;> first | exact visitStatement_eok _ _ h | nofun
  | .cont c, s, h => by rw [acceptStmt] <;> first | exact visitStatement_eok _ _ h | nofun
  | .end c, s, h => by rw [acceptStmt] <;> first | exact visitStatement_eok _ _ h | nofun
  | .new c, s, h => by rw [acceptStmt] <;> first | exact visitStatement_eok _ _ h | nofun
  | .return c, s, h => by rw [acceptStmt] <;> first | exact visitStatement_eok _ _ h | nofun
  | .stop c, s, h => by rw [acceptStmt] <;> first | exact visitStatement_eok _ _ h | nofun
  | .troff c, s, h => by rw [acceptStmt] <;> first | exact visitStatement_eok _ _ h | nofun
  | .tron c, s, h => by rw [acceptStmt] <;> first | exact visitStatement_eok _ _ h | nofun
  | .wend c, s, h => by rw [acceptStmt] <;> first | exact visitStatement_eok _ _ h | nofun
theorem acceptStmts_eok : ∀ (sts : List Stmt) (s : VState), EOk s → EOk (acceptStmts sts s)
  | [], s, h => by rw [acceptStmts]; exact h
  | st :: sts, s, h => by rw [acceptStmts]; exact acceptStmts_eok sts _ (acceptStmt_eok st s h)
end


theorem appendAll_errsOk (frags : List (Col × Link)) :
    ∀ (link : Link) (errs : List Error), ErrsOk errs → ErrsOk (codegen.appendAll frags link errs).2 := by
  induction frags with
  | nil => intro link errs h; rw [codegen.appendAll]; exact h
  | cons x rest ih =>
    intro link errs h
    obtain ⟨c, f⟩ := x
    rw [codegen.appendAll]
    have ha := nfe_append link f
    generalize link.append f = r at ha
    obtain ⟨l', r'⟩ := r
    cases r' with
    | ok u => exact ih l' errs h
    | error e => exact ErrsOk.append h (ErrsOk.single (ha.out e rfl))

/-- **the code generator reports no fault** -/
theorem codegen_errsOk (link : Link) (ast : List Stmt) : ErrsOk (codegen link ast).2 := by
  unfold codegen
  exact appendAll_errsOk _ _ _ (acceptStmts_eok ast {} ErrsOk.nil)

end Codegen
/-! ### the linker -/
namespace Link

theorem linkWhiles_go_errsOk (l : Link) : ∀ (ws : List (Bool × Col × Nat × Symbol)) (stack : List (Col × Nat × Symbol))
    (unl : List (Nat × (Col × Symbol))) (errs : List Error), ErrsOk errs →
    ErrsOk (linkWhiles.go l ws stack unl errs).2.1 := by
  intro ws
  induction ws with
  | nil => intro stack unl errs h; rw [linkWhiles.go]; exact h
  | cons w rest ih =>
    intro stack unl errs h
    obtain ⟨k, c, a, s⟩ := w
    cases k with
    | true => rw [linkWhiles.go]; exact ih _ _ _ h
    | false =>
      cases stack with
      | nil =>
        rw [linkWhiles.go]
        exact ih _ _ _ (ErrsOk.append h (ErrsOk.single rfl))
      | cons top st =>
        obtain ⟨wc, wa, ws'⟩ := top
        rw [linkWhiles.go]
        exact ih _ _ _ h

theorem linkWhiles_errsOk (l : Link) : ErrsOk l.linkWhiles.2 := by
  unfold Link.linkWhiles
  have := linkWhiles_go_errsOk l l.whiles [] l.unlinked [] ErrsOk.nil
  generalize linkWhiles.go l l.whiles [] l.unlinked [] = r at this
  obtain ⟨unl, errs, stack⟩ := r
  dsimp only
  refine ErrsOk.append this ?_
  intro e he
  obtain ⟨x, _, rfl⟩ := List.mem_map.1 he
  rfl

theorem linkOne_errOk (l : Link) (a : Nat) (c : Col) (sym : Symbol) (e : Error)
    (h : (l.linkOne a c sym).2 = some e) : e.isFault = false := by
  unfold Link.linkOne at h
  dsimp only at h
  split at h
  · split at h <;> (cases h; rfl)
  · split at h
    all_goals first | (cases h; done) | (cases h; rfl)

theorem link_errsOk (l : Link) : ErrsOk l.link.2 := by
  unfold Link.link
  dsimp only
  have key : ∀ (pend : List (Nat × (Col × Symbol))) (acc : Link × List Error), ErrsOk acc.2 →
      ErrsOk (pend.foldl (fun (x : Link × List Error) (y : Nat × (Col × Symbol)) =>
        match x, y with
        | (l, errs), (a, (c, s)) =>
          match Link.linkOne l a c s with
          | (l, some e) => (l, errs ++ [e])
          | (l, none) => (l, errs)) acc).2 := by
    intro pend
    induction pend with
    | nil => intro acc h; exact h
    | cons y rest ih =>
      intro acc hacc
      rw [List.foldl_cons]
      apply ih
      obtain ⟨l0, errs⟩ := acc
      obtain ⟨a, c, s⟩ := y
      have := linkOne_errOk l0 a c s
      dsimp only
      generalize Link.linkOne l0 a c s = r at this
      obtain ⟨l1, o⟩ := r
      cases o with
      | none => exact hacc
      | some e => exact ErrsOk.append hacc (ErrsOk.single (this e rfl))
  exact key _ _ (linkWhiles_errsOk l)

end Link

/-! ### program memory -/
namespace Program

/-- the diagnostics kept in program memory are not faults -/
def PErrOk (p : Program) : Prop := ErrsOk p.errors ∧ ErrsOk p.indirectErrors

theorem PErrOk.empty : PErrOk {} := ⟨ErrsOk.nil, ErrsOk.nil⟩
theorem PErrOk.clear (p : Program) : PErrOk p.clear := ⟨ErrsOk.nil, ErrsOk.nil⟩
theorem PErrOk.withDP {p : Program} (h : PErrOk p) (d : Nat) : PErrOk (p.withDP d) := h

theorem PErrOk.pushEndP {p : Program} (h : PErrOk p) : PErrOk (pushEndP p) := by
  unfold Program.pushEndP
  have := Codegen.nfe_push p.link .end
  generalize p.link.push Opcode.end = r at this
  obtain ⟨l, r'⟩ := r
  cases r' with
  | ok u => exact h
  | error e => exact ⟨ErrsOk.append h.1 (ErrsOk.single (this.out e rfl)), h.2⟩

theorem PErrOk.ensureEnd {p : Program} (h : PErrOk p) : PErrOk (ensureEnd p) := by
  unfold Program.ensureEnd
  split
  · split
    · exact h.pushEndP
    · exact h
  · exact h.pushEndP

theorem PErrOk.resolve {p : Program} (h : PErrOk p) : PErrOk (resolve p) := by
  unfold Program.resolve
  have hl := Link.link_errsOk p.link
  dsimp only
  split
  · exact ⟨hl, h.2⟩
  · exact h

theorem PErrOk.markDirect {p : Program} (h : PErrOk p) : PErrOk (markDirect p) := by
  unfold Program.markDirect
  split
  · exact ⟨ErrsOk.nil, h.1⟩
  · exact h

theorem PErrOk.linkProg {p : Program} (h : PErrOk p) : PErrOk p.linkProg := by
  rw [linkProg_eq]; exact h.ensureEnd.resolve.markDirect

theorem PErrOk.codegenLine {p : Program} (h : PErrOk p) (line : Line) : PErrOk (p.codegenLine line) := by
  unfold Program.codegenLine
  have h0 : PErrOk (if line.number.isNone then p.linkProg else p) := by
    split
    · exact h.linkProg
    · exact h
  revert h0
  generalize (if line.number.isNone then p.linkProg else p) = q
  intro hq
  cases hn : line.number with
  | some n =>
    dsimp only
    cases hp : Parse.parse (some n) line.tokens with
    | error e =>
      exact ⟨ErrsOk.append hq.1 (ErrsOk.single (Lemmas.ParseNoFault.parse_never_faults _ _ e hp)), hq.2⟩
    | ok ast =>
      dsimp only
      exact ⟨ErrsOk.append hq.1 ((Codegen.codegen_errsOk _ ast).map_inLine _), hq.2⟩
  | none =>
    dsimp only
    cases hp : Parse.parse none line.tokens with
    | error e =>
      exact ⟨ErrsOk.append ErrsOk.nil (ErrsOk.single (Lemmas.ParseNoFault.parse_never_faults _ _ e hp)), hq.2⟩
    | ok ast =>
      dsimp only
      have hc := Codegen.codegen_errsOk ({ q.link with ops := q.link.ops.extract 0 q.directAddress } : Link) ast
      generalize Codegen.codegen ({ q.link with ops := q.link.ops.extract 0 q.directAddress } : Link) ast = cg at hc
      rcases cg with ⟨cl, ce⟩
      dsimp only
      have := Codegen.nfe_push cl .end
      generalize cl.push Opcode.end = r2 at this
      obtain ⟨l2, r2'⟩ := r2
      have hce : ErrsOk ([] ++ ce.map (·.inLine none)) := ErrsOk.append ErrsOk.nil (hc.map_inLine _)
      cases r2' with
      | ok u => exact ⟨hce, hq.2⟩
      | error e => exact ⟨ErrsOk.append hce (ErrsOk.single (this.out e rfl)), hq.2⟩

theorem PErrOk.codegenLines {p : Program} (h : PErrOk p) (lines : List Line) : PErrOk (p.codegenLines lines) := by
  unfold Program.codegenLines
  induction lines generalizing p with
  | nil => exact h
  | cons l ls ih => rw [List.foldl_cons]; exact ih (h.codegenLine l)

end Program
end Basic
