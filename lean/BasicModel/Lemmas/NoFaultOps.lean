import BasicModel.Lemmas.NameOk
/-
  No operator, built-in function, conversion or store operation returns the fault code.  Since
  fix D21 (`Var.tyOf` looks the DEFtype table up with a checked index) this holds for the variable
  store with ANY name, and since fix D22 (`Var.defTy` refuses a range whose ends are not letters)
  for DEFtype too: `Model/Var.lean` contains no fault any more.

  `NFE x`: the result `x : Res α` is not a fault.  A small calculus (`ok`, `err`, `bind`, `split`)
  walks through the definitions.
-/
namespace Basic

/-- not the fault code -/
structure NFE {α : Type} (x : Res α) : Prop where
  out : ∀ e, x = .error e → e.isFault = false

namespace NFE
variable {α β : Type}

theorem ok (a : α) : NFE (.ok a : Res α) := ⟨fun _ h => nomatch h⟩
theorem pure (a : α) : NFE (Pure.pure a : Res α) := ⟨fun _ h => nomatch h⟩
theorem err (c : Nat) (h : (c == Code.fault) = false) : NFE (err c : Res α) := by
  constructor; intro e he; cases he; exact h
theorem errMsg (c : Nat) (m : String) (h : (c == Code.fault) = false) : NFE (errMsg c m : Res α) := by
  constructor; intro e he; cases he; exact h
theorem error (e : Error) (h : e.isFault = false) : NFE (.error e : Res α) := by
  constructor; intro e' he; cases he; exact h
theorem bind {x : Res α} {f : α → Res β} (hx : NFE x) (hf : ∀ a, NFE (f a)) : NFE (x >>= f) := by
  constructor
  intro e he
  cases x with
  | error e' => cases he; exact hx.out e rfl
  | ok a => exact (hf a).out e he
theorem bind' {x : Res α} {f : α → Res β} (hx : NFE x) (hf : ∀ a, x = .ok a → NFE (f a)) : NFE (x >>= f) := by
  constructor
  intro e he
  cases x with
  | error e' => cases he; exact hx.out e rfl
  | ok a => exact (hf a rfl).out e he
theorem map {x : Res α} {f : α → β} (hx : NFE x) : NFE (f <$> x) := by
  constructor
  intro e he
  cases x with
  | error e' => cases he; exact hx.out e rfl
  | ok a => cases he

end NFE

/-- the lemmas proved so far; extended by `macro_rules` -/
syntax "nfe_known" : tactic
macro_rules | `(tactic| nfe_known) => `(tactic| assumption)

macro "nfe_step" : tactic => `(tactic| first
  | with_reducible exact NFE.ok _
  | with_reducible exact NFE.pure _
  | ((with_reducible refine NFE.err _ ?_); decide)
  | ((with_reducible refine NFE.errMsg _ _ ?_); decide)
  | nfe_known
  | with_reducible apply NFE.bind
  | with_reducible apply NFE.map
  | intro _
  | split)

macro "nfe" : tactic => `(tactic| (try dsimp only
                                   repeat' nfe_step))

/-! ### conversions -/

theorem nfe_toI16 (v : Val) : NFE v.toI16 := by unfold Val.toI16; nfe
macro_rules | `(tactic| nfe_known) => `(tactic| with_reducible exact nfe_toI16 _)
theorem nfe_toUnsigned (a b c : Nat) (v : Val) : NFE (Val.toUnsigned a b c v) := by unfold Val.toUnsigned; nfe
theorem nfe_toU16 (v : Val) : NFE v.toU16 := nfe_toUnsigned _ _ _ v
theorem nfe_toU32 (v : Val) : NFE v.toU32 := nfe_toUnsigned _ _ _ v
theorem nfe_toUsize (v : Val) : NFE v.toUsize := nfe_toUnsigned _ _ _ v
macro_rules | `(tactic| nfe_known) => `(tactic| with_reducible exact nfe_toU16 _)
macro_rules | `(tactic| nfe_known) => `(tactic| with_reducible exact nfe_toU32 _)
macro_rules | `(tactic| nfe_known) => `(tactic| with_reducible exact nfe_toUsize _)
theorem nfe_toF32 (v : Val) : NFE v.toF32 := by unfold Val.toF32; nfe
theorem nfe_toF64 (v : Val) : NFE v.toF64 := by unfold Val.toF64; nfe
theorem nfe_toStr (v : Val) : NFE v.toStr := by unfold Val.toStr; nfe
macro_rules | `(tactic| nfe_known) => `(tactic| with_reducible exact nfe_toF32 _)
macro_rules | `(tactic| nfe_known) => `(tactic| with_reducible exact nfe_toF64 _)
macro_rules | `(tactic| nfe_known) => `(tactic| with_reducible exact nfe_toStr _)
theorem nfe_toLineNumber (v : Val) : NFE v.toLineNumber := by unfold Val.toLineNumber; nfe
theorem nfe_ofLineNumber (n : Option Nat) : NFE (Val.ofLineNumber n) := by unfold Val.ofLineNumber; nfe
theorem nfe_ofUsize (n : Nat) : NFE (Val.ofUsize n) := by unfold Val.ofUsize; nfe
macro_rules | `(tactic| nfe_known) => `(tactic| with_reducible exact nfe_toLineNumber _)
macro_rules | `(tactic| nfe_known) => `(tactic| with_reducible exact nfe_ofLineNumber _)
macro_rules | `(tactic| nfe_known) => `(tactic| with_reducible exact nfe_ofUsize _)

/-! ### operators -/
namespace Ops

theorem nfe_negate (v : Val) : NFE (negate v) := by unfold negate; nfe
theorem nfe_power (a b : Val) : NFE (power a b) := by unfold power; nfe
theorem nfe_ofChecked (o : Option Int16) : NFE (ofChecked o) := by unfold ofChecked; nfe
theorem nfe_arith (fi : Int16 → Int16 → Res Val) (fs : Float32 → Float32 → Float32) (fd : Float → Float → Float)
    (hfi : ∀ l r, NFE (fi l r)) (a b : Val) : NFE (arith fi fs fd a b) := by
  unfold arith; nfe
  exact hfi _ _
theorem nfe_multiply (a b : Val) : NFE (multiply a b) := nfe_arith _ _ _ (fun _ _ => nfe_ofChecked _) a b
theorem nfe_divide (a b : Val) : NFE (divide a b) := nfe_arith _ _ _ (fun _ _ => NFE.ok _) a b
theorem nfe_subtract (a b : Val) : NFE (subtract a b) := nfe_arith _ _ _ (fun _ _ => nfe_ofChecked _) a b
theorem nfe_sum (a b : Val) : NFE (sum a b) := by
  unfold sum
  split
  · exact NFE.ok _
  · exact NFE.err _ (by decide)
  · exact nfe_arith _ _ _ (fun _ _ => nfe_ofChecked _) _ _
theorem nfe_divint (a b : Val) : NFE (divint a b) := by unfold divint; nfe
theorem nfe_remainder (a b : Val) : NFE (remainder a b) := by unfold remainder; nfe
theorem nfe_equalBool (a b : Val) : NFE (equalBool a b) := by unfold equalBool; nfe
theorem nfe_lessBool (a b : Val) : NFE (lessBool a b) := by unfold lessBool; nfe
theorem nfe_lessEqualBool (a b : Val) : NFE (lessEqualBool a b) := by unfold lessEqualBool; nfe
macro_rules | `(tactic| nfe_known) => `(tactic| with_reducible exact nfe_equalBool _ _)
macro_rules | `(tactic| nfe_known) => `(tactic| with_reducible exact nfe_lessBool _ _)
macro_rules | `(tactic| nfe_known) => `(tactic| with_reducible exact nfe_lessEqualBool _ _)
theorem nfe_equal (a b : Val) : NFE (equal a b) := by unfold equal; nfe
theorem nfe_notEqual (a b : Val) : NFE (notEqual a b) := by unfold notEqual; nfe
theorem nfe_less (a b : Val) : NFE (less a b) := by unfold less; nfe
theorem nfe_greater (a b : Val) : NFE (greater a b) := by unfold greater; nfe
theorem nfe_lessEqual (a b : Val) : NFE (lessEqual a b) := by unfold lessEqual; nfe
theorem nfe_greaterEqual (a b : Val) : NFE (greaterEqual a b) := by unfold greaterEqual; nfe
theorem nfe_logic2 (f : Int16 → Int16 → Int16) (a b : Val) : NFE (logic2 f a b) := by unfold logic2; nfe
theorem nfe_and (a b : Val) : NFE (Ops.and a b) := nfe_logic2 _ a b
theorem nfe_or (a b : Val) : NFE (Ops.or a b) := nfe_logic2 _ a b
theorem nfe_xor (a b : Val) : NFE (Ops.xor a b) := nfe_logic2 _ a b
theorem nfe_imp (a b : Val) : NFE (Ops.imp a b) := nfe_logic2 _ a b
theorem nfe_eqv (a b : Val) : NFE (Ops.eqv a b) := nfe_logic2 _ a b
theorem nfe_not (a : Val) : NFE (Ops.not a) := by unfold Ops.not; nfe

end Ops

/-! ### built-in functions -/
namespace Func

theorem nfe_num1 (fs : Float32 → Float32) (fd : Float → Float) (v : Val) : NFE (num1 fs fd v) := by
  unfold num1; nfe
theorem nfe_abs (v : Val) : NFE (abs v) := by unfold abs; nfe
theorem nfe_asc (v : Val) : NFE (asc v) := by unfold asc; nfe
theorem nfe_atn (v : Val) : NFE (atn v) := nfe_num1 _ _ v
theorem nfe_cos (v : Val) : NFE (cos v) := nfe_num1 _ _ v
theorem nfe_exp (v : Val) : NFE (exp v) := nfe_num1 _ _ v
theorem nfe_log (v : Val) : NFE (log v) := nfe_num1 _ _ v
theorem nfe_sin (v : Val) : NFE (sin v) := nfe_num1 _ _ v
theorem nfe_sqr (v : Val) : NFE (sqr v) := nfe_num1 _ _ v
theorem nfe_tan (v : Val) : NFE (tan v) := nfe_num1 _ _ v
theorem nfe_cdbl (v : Val) : NFE (cdbl v) := by unfold cdbl; nfe
theorem nfe_csng (v : Val) : NFE (csng v) := by unfold csng; nfe
theorem nfe_chr (v : Val) : NFE (chr v) := by unfold chr; nfe
theorem nfe_cint (v : Val) : NFE (cint v) := by unfold cint; nfe
theorem nfe_fix (v : Val) : NFE (fix v) := by unfold fix; nfe
theorem nfe_int (v : Val) : NFE (int v) := by unfold int; nfe
theorem nfe_hex (v : Val) : NFE (hex v) := by unfold hex; nfe
theorem nfe_oct (v : Val) : NFE (oct v) := by unfold oct; nfe
theorem nfe_instr (args : List Val) : NFE (instr args) := by unfold instr; nfe
theorem nfe_left (a b : Val) : NFE (left a b) := by unfold left; nfe
theorem nfe_len (a : Val) : NFE (len a) := by unfold len; nfe
theorem nfe_mid (args : List Val) : NFE (mid args) := by unfold mid; nfe
theorem nfe_pos (c : Nat) : NFE (pos c) := by unfold pos; nfe
theorem nfe_right (a b : Val) : NFE (right a b) := by unfold right; nfe
theorem nfe_sgn (v : Val) : NFE (sgn v) := by unfold sgn; nfe
theorem nfe_spc (v : Val) : NFE (spc v) := by unfold spc; nfe
theorem nfe_str (v : Val) : NFE (str v) := by unfold str; nfe
theorem nfe_string (a b : Val) : NFE (string a b) := by unfold string; nfe
theorem nfe_tab (c : Nat) (v : Val) : NFE (tab c v) := by unfold tab; nfe
theorem nfe_val (v : Val) : NFE (val v) := by unfold val; nfe
theorem nfe_rnd (st : Nat × Nat × Nat) (args : List Val) : NFE (rnd st args) := by unfold rnd; nfe

end Func
/-! ### the variable store -/
namespace Var

theorem letterIndex_lt {c : Char} (h1 : 65 ≤ c.toNat) (h2 : c.toNat ≤ 90) : letterIndex c < 26 := by
  unfold letterIndex
  rw [if_pos h1]
  omega

/-- the type table is looked up with a checked index (fix D21): never a fault, for any name -/
theorem nfe_tyOf (v : Var) (name : Str) : NFE (v.tyOf name) := by
  unfold tyOf
  cases suffixTy name with
  | some t => exact NFE.ok _
  | none =>
    dsimp only
    cases name with
    | nil => exact NFE.ok _
    | cons c r => dsimp only; split <;> exact NFE.ok _

theorem nfe_fetch (v : Var) (name : Str) : NFE (v.fetch name) := by
  have := nfe_tyOf v name
  unfold fetch; nfe

theorem nfe_insertString (v : Var) (n : Str) (x : Val) : NFE (v.insertString n x) := by unfold insertString; nfe
theorem nfe_insertInteger (v : Var) (n : Str) (x : Val) : NFE (v.insertInteger n x) := by unfold insertInteger; nfe
theorem nfe_insertSingle (v : Var) (n : Str) (x : Val) : NFE (v.insertSingle n x) := by unfold insertSingle; nfe
theorem nfe_insertDouble (v : Var) (n : Str) (x : Val) : NFE (v.insertDouble n x) := by unfold insertDouble; nfe
theorem nfe_insertTy (v : Var) (t : VarTy) (n : Str) (x : Val) : NFE (v.insertTy t n x) := by
  cases t
  · exact nfe_insertInteger v n x
  · exact nfe_insertSingle v n x
  · exact nfe_insertDouble v n x
  · exact nfe_insertString v n x

theorem nfe_store (v : Var) (name : Str) (x : Val) : NFE (v.store name x) := by
  have := nfe_tyOf v name
  have hi := fun t => nfe_insertTy v t name x
  unfold store; nfe
  exact hi _

theorem nfe_vecValToVecI16 (l : List Val) : NFE (vecValToVecI16 l) := by
  induction l with
  | nil => unfold vecValToVecI16; exact NFE.ok _
  | cons x r ih =>
    unfold vecValToVecI16
    split
    · nfe
    · rename_i e he
      split
      · exact NFE.err _ (by decide)
      · exact NFE.error _ ((nfe_toI16 x).out e he)

theorem letter1_arrayKey {name : Str} (h : Letter1 name) (idx : List Int16) : Letter1 (arrayKey name idx) := by
  unfold arrayKey
  rw [List.append_assoc]
  exact h.append _

theorem nfe_buildArrayKey_tail (name : Str) (vd : Var × List Int16) (requested : List Int16) :
    NFE (if vd.2.length ≠ requested.length then (vd.1, (err Code.subscriptOutOfRange : Res Str))
      else if withinBounds requested vd.2 then (vd.1, .ok (arrayKey name requested))
      else (vd.1, err Code.subscriptOutOfRange)).2 := by
  by_cases h1 : vd.2.length ≠ requested.length
  · rw [if_pos h1]; exact NFE.err _ (by decide)
  · rw [if_neg h1]
    by_cases h2 : withinBounds requested vd.2 = true
    · rw [if_pos h2]; exact NFE.ok _
    · rw [if_neg h2]; exact NFE.err _ (by decide)

theorem nfe_buildArrayKey (v : Var) (name : Str) (arr : List Val) : NFE (v.buildArrayKey name arr).2 := by
  unfold buildArrayKey
  split
  · rename_i e he
    exact NFE.error _ ((nfe_vecValToVecI16 arr).out e he)
  · exact nfe_buildArrayKey_tail name _ _

theorem nfe_storeArray (v : Var) (name : Str) (arr : List Val) (x : Val) : NFE (v.storeArray name arr x).2 := by
  have hb := nfe_buildArrayKey v name arr
  unfold storeArray
  generalize v.buildArrayKey name arr = r at hb
  obtain ⟨v', rk⟩ := r
  cases rk with
  | error e => dsimp only; exact NFE.error _ (hb.out e rfl)
  | ok key =>
    dsimp only
    have hs := nfe_store v' key x
    generalize v'.store key x = rs at hs
    cases rs with
    | ok _ => dsimp only; exact NFE.ok _
    | error e => dsimp only; exact NFE.error _ (hs.out e rfl)

theorem nfe_fetchArray (v : Var) (name : Str) (arr : List Val) : NFE (v.fetchArray name arr).2 := by
  have hb := nfe_buildArrayKey v name arr
  unfold fetchArray
  generalize v.buildArrayKey name arr = r at hb
  obtain ⟨v', rk⟩ := r
  cases rk with
  | error e => dsimp only; exact NFE.error _ (hb.out e rfl)
  | ok key => dsimp only; exact nfe_fetch v' key

theorem nfe_eraseArray (v : Var) (name : Str) : NFE (v.eraseArray name) := by unfold eraseArray; nfe
theorem nfe_dimensionArray (v : Var) (name : Str) (arr : List Val) : NFE (v.dimensionArray name arr) := by
  have := nfe_vecValToVecI16 arr
  unfold dimensionArray; nfe

/-- DEFtype never faults (fix D22: the range is refused unless both ends are letters) -/
theorem nfe_defTy (v : Var) (t : VarTy) (frm to : Val) : NFE (v.defTy t frm to) := by
  unfold defTy; nfe

end Var
end Basic
