import BasicModel.Lemmas.Layout
import BasicModel.Lemmas.DataOrder
/-
  The DATA cursor at run time (C09; chain 2).

  * `KeepProg`: every instruction other than `read`, `restore`, `clear`, `new` leaves the whole
    compiled program — code, data segment, symbols and the DATA cursor — exactly as it was
    (`execOp_keepProg`, `step_keepProg`), whether it succeeds, throws or returns an event;
  * what the four cursor instructions do (`step_read_…`, `step_restore`, `step_at_clear`);
  * `Reads`: executions that deliver constants, and the headline theorem `reads_in_order`.
-/
namespace Basic
namespace Runtime
variable {α β : Type}

/-! ### `KeepProg`: the compiled program, the DATA cursor included -/

structure KeepProg (s t : Runtime) : Prop where
  prog : t.program = s.program

instance : FrameRel KeepProg where
  refl _ := ⟨rfl⟩
  trans h1 h2 := ⟨h2.prog.trans h1.prog⟩

macro_rules | `(tactic| frame_rel) => `(tactic| exact ⟨rfl⟩)

theorem keepProg_doEnd (s : Runtime) : KeepProg s (doEnd s) := by
  unfold doEnd; dsimp only
  split <;> split <;> exact ⟨rfl⟩
macro_rules | `(tactic| frame_rel) => `(tactic| exact keepProg_doEnd _)

theorem kp_push (v : Val) : Frame KeepProg (push v) := by
  constructor; intro s; rw [run_push]; exact ⟨rfl⟩
macro_rules | `(tactic| frame_known) => `(tactic| with_reducible exact FrameFrom.of_frame (kp_push _))

theorem kp_pop : Frame KeepProg pop := by
  constructor; intro s; rw [run_pop]; split
  · exact ⟨rfl⟩
  · exact FrameRel.refl s
macro_rules | `(tactic| frame_known) => `(tactic| with_reducible exact FrameFrom.of_frame kp_pop)

theorem kp_pop2 : Frame KeepProg pop2 := by unfold pop2; frame
macro_rules | `(tactic| frame_known) => `(tactic| with_reducible exact FrameFrom.of_frame kp_pop2)

theorem kp_popN (n : Nat) : Frame KeepProg (popN n) := by unfold popN; frame
macro_rules | `(tactic| frame_known) => `(tactic| with_reducible exact FrameFrom.of_frame (kp_popN _))

theorem kp_popVec : Frame KeepProg popVec := by unfold popVec; frame
macro_rules | `(tactic| frame_known) => `(tactic| with_reducible exact FrameFrom.of_frame kp_popVec)

theorem kp_pop1Push (f : Val → Res Val) : Frame KeepProg (pop1Push f) := by unfold pop1Push; frame
macro_rules | `(tactic| frame_known) => `(tactic| with_reducible exact FrameFrom.of_frame (kp_pop1Push _))

theorem kp_pop2Push (f : Val → Val → Res Val) : Frame KeepProg (pop2Push f) := by unfold pop2Push; frame
macro_rules | `(tactic| frame_known) => `(tactic| with_reducible exact FrameFrom.of_frame (kp_pop2Push _))

theorem kp_doDef (name : Str) : Frame KeepProg (doDef name) := by unfold doDef; frame
macro_rules | `(tactic| frame_known) => `(tactic| with_reducible exact FrameFrom.of_frame (kp_doDef _))

theorem kp_doDefType (f : Var → Val → Val → Res Var) : Frame KeepProg (doDefType f) := by
  unfold doDefType; frame
macro_rules | `(tactic| frame_known) => `(tactic| with_reducible exact FrameFrom.of_frame (kp_doDefType _))

theorem kp_doFn (name : Str) : Frame KeepProg (doFn name) := by unfold doFn; frame
macro_rules | `(tactic| frame_known) => `(tactic| with_reducible exact FrameFrom.of_frame (kp_doFn _))

theorem kp_doLetMid : Frame KeepProg doLetMid := by unfold doLetMid; frame
macro_rules | `(tactic| frame_known) => `(tactic| with_reducible exact FrameFrom.of_frame kp_doLetMid)

theorem kp_doOn : Frame KeepProg doOn := by unfold doOn; frame
macro_rules | `(tactic| frame_known) => `(tactic| with_reducible exact FrameFrom.of_frame kp_doOn)

theorem kp_doSwap : Frame KeepProg doSwap := by unfold doSwap; frame
macro_rules | `(tactic| frame_known) => `(tactic| with_reducible exact FrameFrom.of_frame kp_doSwap)

theorem kp_doNext_loop (name : Str) : ∀ fuel, Frame KeepProg (doNext.loop name fuel) := by
  intro fuel
  induction fuel with
  | zero => unfold doNext.loop; frame
  | succ k ih =>
    have ih' : ∀ s₀, FrameFrom KeepProg s₀ (doNext.loop name k) := fun _ => FrameFrom.of_frame ih
    unfold doNext.loop; frame
    all_goals exact ih' _

theorem kp_doNext (name : Str) : Frame KeepProg (doNext name) := by
  have := kp_doNext_loop name
  unfold doNext
  try dsimp only
  apply Frame.of_from; intro _
  apply FrameFrom.rd_seq; intro s
  exact FrameFrom.of_frame (this _)
macro_rules | `(tactic| frame_known) => `(tactic| with_reducible exact FrameFrom.of_frame (kp_doNext _))

theorem kp_doReturn_loop : ∀ fuel rv first, Frame KeepProg (doReturn.loop fuel rv first) := by
  intro fuel
  induction fuel with
  | zero => intro rv first; unfold doReturn.loop; frame
  | succ k ih =>
    intro rv first
    have ih' : ∀ rv first s₀, FrameFrom KeepProg s₀ (doReturn.loop k rv first) :=
      fun _ _ _ => FrameFrom.of_frame (ih _ _)
    unfold doReturn.loop; frame
    all_goals exact ih' _ _ _

theorem kp_doReturn : Frame KeepProg doReturn := by
  have := kp_doReturn_loop
  unfold doReturn
  try dsimp only
  apply Frame.of_from; intro _
  apply FrameFrom.rd_seq; intro s
  exact FrameFrom.of_frame (this _ _ _)
macro_rules | `(tactic| frame_known) => `(tactic| with_reducible exact FrameFrom.of_frame kp_doReturn)

theorem kp_doCont : Frame KeepProg doCont := by unfold doCont; frame
theorem kp_doInput (n : Str) : Frame KeepProg (doInput n) := by unfold doInput; frame
theorem kp_doList : Frame KeepProg doList := by unfold doList; frame
theorem kp_doPrint : Frame KeepProg doPrint := by unfold doPrint; frame
theorem kp_fileOp (mk : Str → Event) (b : Bool) : Frame KeepProg (fileOp mk b) := by unfold fileOp; frame
theorem kp_doDelete : Frame KeepProg doDelete := by unfold doDelete; frame
theorem kp_doRenum (env : Env) : Frame KeepProg (doRenum env) := by unfold doRenum; frame

macro_rules | `(tactic| frame_known) => `(tactic| with_reducible exact FrameFrom.of_frame kp_doCont)
macro_rules | `(tactic| frame_known) => `(tactic| with_reducible exact FrameFrom.of_frame (kp_doInput _))
macro_rules | `(tactic| frame_known) => `(tactic| with_reducible exact FrameFrom.of_frame kp_doList)
macro_rules | `(tactic| frame_known) => `(tactic| with_reducible exact FrameFrom.of_frame kp_doPrint)
macro_rules | `(tactic| frame_known) => `(tactic| with_reducible exact FrameFrom.of_frame (kp_fileOp _ _))
macro_rules | `(tactic| frame_known) => `(tactic| with_reducible exact FrameFrom.of_frame kp_doDelete)
macro_rules | `(tactic| frame_known) => `(tactic| with_reducible exact FrameFrom.of_frame (kp_doRenum _))

/-- the instructions that move the DATA cursor (NEW through the CLEAR it performs) -/
def isCursorOp : Opcode → Bool
  | .read | .restore _ | .clear | .new => true
  | _ => false

set_option maxHeartbeats 2000000 in
/-- **the frame lemma**: every instruction other than `read`, `restore`, `clear`, `new` leaves the
    compiled program — code, data, symbols, DATA cursor — untouched, whatever its outcome -/
theorem execOp_keepProg (env : Env) (h : Bool) (op : Opcode) (hop : isCursorOp op = false) :
    Frame KeepProg (execOp env h op) := by
  cases op <;> first
    | (simp [isCursorOp] at hop; done)
    | (simp only [execOp]; frame)

/-- `step`: the trace part touches only `tr` and the print column; an instruction that is not one of
    the four leaves the program as it is -/
theorem step_keepProg (env : Env) (h : Bool) (s : Runtime)
    (hop : ∀ op, s.program.link.ops[s.pc]? = some op → isCursorOp op = false) :
    ((step env h).run.run s).2.program = s.program := by
  rcases step_cases env h s with ⟨text, tr, col, he⟩ | ⟨tr, he⟩
  · rw [he]
  · rw [he, run_fetchExec]
    show (match s.program.link.ops[s.pc]? with
      | none => _
      | some op => (execOp env h op).run.run { s with tr := tr, pc := s.pc + 1 }).2.program = _
    cases hq : s.program.link.ops[s.pc]? with
    | none => rfl
    | some op => exact ((execOp_keepProg env h op (hop op hq)).run _).prog

/-! ### the four cursor instructions -/

/-- `doRead`, whatever the stack: either there is no constant under the cursor (OUT OF DATA, nothing
    changes), or the constant is pushed and the cursor advances by one (this happens even when the
    push then overflows the stack) -/
theorem doRead_cases (s : Runtime) :
    (s.program.link.data.size ≤ s.program.link.dataPos ∧
      doRead.run.run s = (.error (Error.mk' Code.outOfData), s)) ∨
    (∃ (hlt : s.program.link.dataPos < s.program.link.data.size) (r : Except Error Unit),
      doRead.run.run s = (r, { s with
        program := s.program.withDP (s.program.link.dataPos + 1),
        stack := s.stack.push s.program.link.data[s.program.link.dataPos] })) := by
  unfold doRead
  rw [run_bind_ok (run_get s)]
  unfold Link.readData
  rcases Nat.lt_or_ge s.program.link.dataPos s.program.link.data.size with hlt | hge
  · right
    refine ⟨hlt, ?_⟩
    rw [Array.getElem?_eq_getElem hlt]
    dsimp only
    rw [run_bind_ok (run_set _ s), run_bind_ok (run_liftE _ _), run_push]
    exact ⟨_, rfl⟩
  · left
    refine ⟨hge, ?_⟩
    rw [Array.getElem?_eq_none hge]
    dsimp only
    rw [run_bind_ok (run_set _ s)]
    exact run_bind_error (run_liftE _ _)

/-- a `step` at a `read`: the program is untouched (a trace print came first, or OUT OF DATA), or the
    constant under the cursor was pushed and the cursor advanced by one -/
theorem step_read_cases (env : Env) (h : Bool) (s : Runtime)
    (hop : s.program.link.ops[s.pc]? = some .read) :
    (((step env h).run.run s).2.program = s.program ∧ ((step env h).run.run s).2.stack = s.stack) ∨
    (∃ (hlt : s.program.link.dataPos < s.program.link.data.size),
      ((step env h).run.run s).2.program = s.program.withDP (s.program.link.dataPos + 1) ∧
      ((step env h).run.run s).2.stack = s.stack.push s.program.link.data[s.program.link.dataPos]) := by
  rcases step_cases env h s with ⟨text, tr, col, he⟩ | ⟨tr, he⟩
  · rw [he]; exact .inl ⟨rfl, rfl⟩
  · rw [he, run_fetchExec]
    show (_ ∧ _) ∨ _
    have hop' : ({ s with tr := tr } : Runtime).program.link.ops[({ s with tr := tr } : Runtime).pc]? = some .read := hop
    rw [hop']
    show ((((execOp env h .read).run.run { s with tr := tr, pc := s.pc + 1 }).2.program = s.program ∧ _) ∨ _)
    simp only [execOp]
    rcases doRead_cases { s with tr := tr, pc := s.pc + 1 } with ⟨-, e⟩ | ⟨hlt, r, e⟩
    · rw [run_bind_error e]; exact .inl ⟨rfl, rfl⟩
    · right
      refine ⟨hlt, ?_⟩
      rw [run_bind, e]
      cases r <;> exact ⟨rfl, rfl⟩

/-- `restore a` sets the cursor to `a` (unless a trace print came first) -/
theorem step_restore (env : Env) (h : Bool) (s : Runtime) (a : Nat)
    (hop : s.program.link.ops[s.pc]? = some (.restore a)) (htr : s.tron = false) :
    (step env h).run.run s = (.ok .continue, { s with pc := s.pc + 1, program := s.program.withDP a }) := by
  rw [step_troff env h s htr, run_fetchExec, hop]
  simp only [execOp]
  rw [run_bind_ok (run_modify _ _)]
  rfl

/-- `clear` (the first instruction of RUN) rewinds the cursor to 0 and leaves code and data alone -/
theorem step_at_clear (env : Env) (h : Bool) (s : Runtime)
    (hop : s.program.link.ops[s.pc]? = some .clear) (htr : s.tron = false) :
    (step env h).run.run s = (.ok .continue, doClear env { s with pc := s.pc + 1 }) ∧
    (doClear env { s with pc := s.pc + 1 }).program = s.program.withDP 0 := by
  refine ⟨?_, rfl⟩
  rw [step_troff env h s htr, run_fetchExec, hop]
  simp only [execOp]
  rw [run_bind_ok (run_modify _ _)]
  rfl

/-! ### executions and the constants they deliver -/

/-- the constant a `step` delivered, if it executed a `read` to the point of advancing the cursor -/
def delivered (env : Env) (h : Bool) (s : Runtime) : List Val :=
  if ((step env h).run.run s).2.program.link.dataPos = s.program.link.dataPos + 1 then
    ((step env h).run.run s).2.stack.back?.toList
  else []

/-- `Reads env h s vs u`: an execution from `s` to `u`, one `step` at a time, in which no `restore`,
    `clear` or `new` is executed, and whose `read`s delivered the values `vs`, in this order.  Steps
    may be of any kind and have any outcome: expressions, assignments, branches, PRINT events,
    trace prints, even errors. -/
inductive Reads (env : Env) (h : Bool) : Runtime → List Val → Runtime → Prop
  | done (s : Runtime) : Reads env h s [] s
  | other {s u : Runtime} {vs : List Val} :
      (∀ op, s.program.link.ops[s.pc]? = some op → isCursorOp op = false) →
      Reads env h ((step env h).run.run s).2 vs u → Reads env h s vs u
  | read {s u : Runtime} {vs : List Val} :
      s.program.link.ops[s.pc]? = some .read →
      Reads env h ((step env h).run.run s).2 vs u → Reads env h s (delivered env h s ++ vs) u

/-- **READ consumes DATA in order**: in an execution without RESTORE / CLEAR / NEW that starts with
    the cursor at `p`, the values the successive `read`s deliver are `data[p], data[p+1], …`; the
    data segment is never touched and the cursor ends `|vs|` further -/
theorem reads_in_order {env : Env} {h : Bool} {s u : Runtime} {vs : List Val} (hr : Reads env h s vs u) :
    vs = (s.program.link.data.toList.drop s.program.link.dataPos).take vs.length ∧
    u.program = s.program.withDP (s.program.link.dataPos + vs.length) := by
  induction hr with
  | done s => exact ⟨by simp, rfl⟩
  | @other s u vs hop _ ih =>
    rw [step_keepProg env h s hop] at ih
    exact ih
  | @read s u vs hop _ ih =>
    rcases step_read_cases env h s hop with ⟨e1, -⟩ | ⟨hlt, e1, e2⟩
    · have hd : delivered env h s = [] := by
        unfold delivered
        rw [e1, if_neg (by omega)]
      rw [hd, List.nil_append]
      rw [e1] at ih
      exact ih
    · have hd : delivered env h s = [s.program.link.data[s.program.link.dataPos]] := by
        unfold delivered
        rw [e1, e2, if_pos (show (s.program.withDP (s.program.link.dataPos + 1)).link.dataPos = s.program.link.dataPos + 1 from rfl)]
        simp
      rw [hd]
      rw [e1] at ih
      obtain ⟨i1, i2⟩ := ih
      have hlt' : s.program.link.dataPos < s.program.link.data.toList.length := by simpa using hlt
      refine ⟨?_, ?_⟩
      · show _ :: vs = _
        rw [List.drop_eq_getElem_cons hlt', List.singleton_append, List.length_cons, List.take_succ_cons]
        congr 1
      · rw [i2]
        show (s.program.withDP _).withDP _ = _
        simp only [List.singleton_append, List.length_cons]
        unfold Program.withDP Link.withDP
        simp only [Nat.add_assoc, Nat.add_comm 1]

end Runtime
end Basic
