import BasicModel.Model.Runtime
import BasicModel.Model.Parse
import BasicModel.Spec.PrintSpec
/-
  Helper lemmas for C11 (PRINT layout): decimal digits never look like a sign, the fold of
  `doPrint` is `Spec.columnAfter`, one-step evaluation of the runtime and parser monads.
-/
set_option linter.unusedSimpArgs false

namespace Basic
namespace Lemmas.C11
open RStd

/-! ### decimal digits -/

theorem natDigits_eq (k : Nat) : natDigits k = Nat.toDigits 10 k := by
  simp [natDigits]

theorem natDigits_isDigit {k : Nat} {c : Char} (h : c ∈ natDigits k) : c.isDigit = true := by
  rw [natDigits_eq] at h
  exact Nat.isDigit_of_mem_toDigits (by decide) (by decide) h

theorem natDigits_ne_nil (k : Nat) : natDigits k ≠ [] := by
  rw [natDigits_eq]; exact Nat.toDigits_ne_nil

theorem minus_not_mem_natDigits (k : Nat) : '-' ∉ natDigits k := by
  intro h
  have := natDigits_isDigit h
  exact absurd this (by decide)

theorem natDigits_head_ne_minus (k : Nat) : (natDigits k).head? ≠ some '-' := by
  intro h
  exact minus_not_mem_natDigits k (List.mem_of_mem_head? (by simp [h]))

/-! ### the column fold -/

theorem foldl_eq_columnAfter (text : Str) (c : Nat) :
    text.foldl (fun c ch => if ch = '\n' then 0 else c + 1) c = Spec.columnAfter c text := by
  induction text generalizing c with
  | nil => rfl
  | cons ch s ih => simp only [List.foldl_cons, Spec.columnAfter]; exact ih _

theorem columnAfter_append (c : Nat) (a b : Str) :
    Spec.columnAfter c (a ++ b) = Spec.columnAfter (Spec.columnAfter c a) b := by
  induction a generalizing c with
  | nil => rfl
  | cons ch s ih => simp only [List.cons_append, Spec.columnAfter]; exact ih _

theorem columnAfter_no_newline (c : Nat) (s : Str) (h : '\n' ∉ s) :
    Spec.columnAfter c s = c + s.length := by
  induction s generalizing c with
  | nil => rfl
  | cons ch s ih =>
    have h1 : ch ≠ '\n' := fun e => h (by simp [e])
    have h2 : '\n' ∉ s := fun e => h (List.mem_cons_of_mem _ e)
    simp only [Spec.columnAfter, if_neg h1, List.length_cons]
    rw [ih _ h2]; omega

theorem columnAfter_after_newline (c : Nat) (a b : Str) :
    Spec.columnAfter c (a ++ '\n' :: b) = Spec.columnAfter 0 b := by
  rw [columnAfter_append]; simp [Spec.columnAfter]

/-! ### the runtime monad -/

theorem pop_run (s : Runtime) (v : Val) (h : s.stack.back? = some v) :
    (Runtime.pop.run).run s = (.ok v, { s with stack := s.stack.pop }) := by
  simp [Runtime.pop, h, ExceptT.run, bind, ExceptT.bind, ExceptT.mk, ExceptT.bindCont, StateT.bind,
    get, getThe, MonadStateOf.get, liftM, monadLift, MonadLift.monadLift, ExceptT.lift, StateT.get,
    StateT.run, set, StateT.set, pure, ExceptT.pure, StateT.pure, Functor.map, StateT.map]

/-- the text PRINT emits for one popped item -/
def printText : Val → Str
  | .str s => s
  | v => v.display ++ [' ']

/-- `doPrint` in one step: pops the item, emits its text, advances the column by `Spec.columnAfter` -/
theorem doPrint_run (s : Runtime) (item : Val) (h : s.stack.back? = some item) :
    (Runtime.doPrint.run).run s =
      (.ok (.print (printText item)),
       { s with stack := s.stack.pop, printCol := Spec.columnAfter s.printCol (printText item) }) := by
  have hp := pop_run s item h
  simp only [ExceptT.run, StateT.run] at hp
  cases item <;>
  simp [Runtime.doPrint, printText, ExceptT.run, bind, ExceptT.bind, ExceptT.mk, ExceptT.bindCont, StateT.bind,
    hp, modify, modifyGet, MonadStateOf.modifyGet, liftM, monadLift, MonadLift.monadLift, ExceptT.lift,
    StateT.modifyGet, StateT.run, pure, ExceptT.pure, StateT.pure, Functor.map, StateT.map,
    foldl_eq_columnAfter, columnAfter_append, Spec.columnAfter]

theorem doPrint_run_empty (s : Runtime) (h : s.stack.back? = none) :
    (Runtime.doPrint.run).run s = (.error Runtime.underflow, s) := by
  simp [Runtime.doPrint, Runtime.pop, h, ExceptT.run, bind, ExceptT.bind, ExceptT.mk, ExceptT.bindCont, StateT.bind,
    get, getThe, MonadStateOf.get, liftM, monadLift, MonadLift.monadLift, ExceptT.lift, StateT.get,
    StateT.run, pure, ExceptT.pure, StateT.pure, Functor.map, StateT.map, throw, throwThe,
    MonadExceptOf.throw]

/-! ### the parser monad, with a token already peeked -/

open Parse in
theorem peek_run {st : PState} {t : Token} (h : st.peeked = some t) :
    Parse.peek.run st = .ok (some t, st) := by
  simp [Parse.peek, h, StateT.run, bind, StateT.bind, get, getThe, MonadStateOf.get, StateT.get,
    pure, StateT.pure, Except.bind, Except.pure]

open Parse in
theorem next_run {st : PState} {t : Token} (h : st.peeked = some t) :
    Parse.next.run st = .ok (some t, { st with peeked := none }) := by
  simp [Parse.next, h, StateT.run, bind, StateT.bind, get, getThe, MonadStateOf.get, StateT.get,
    set, StateT.set, pure, StateT.pure, Except.bind, Except.pure]

open Parse in
theorem col_run (st : PState) : Parse.col.run st = .ok ((st.cs, st.ce), st) := by
  simp [Parse.col, StateT.run, bind, StateT.bind, get, getThe, MonadStateOf.get, StateT.get,
    pure, StateT.pure, Except.bind, Except.pure]

/-- end of the token list with nothing peeked: `peek` reports `none` and moves the column to the end -/
theorem peek_run_nil {st : Parse.PState} (hp : st.peeked = none) (ht : st.toks = []) :
    Parse.peek.run st = .ok (none, { st with cs := st.ce }) := by
  cases st with
  | mk toks peeked rem cs ce =>
    simp only at hp ht
    subst hp; subst ht
    rfl

/-- sequencing in the parser monad after a step whose result is known -/
theorem run_bind_ok {α β} {x : Parse.PM α} {f : α → Parse.PM β} {st st' : Parse.PState} {a : α}
    (h : x.run st = .ok (a, st')) : (x >>= f).run st = (f a).run st' := by
  rw [StateT.run_bind, h]; rfl

theorem run_bind_error {α β} {x : Parse.PM α} {f : α → Parse.PM β} {st : Parse.PState} {e : Error}
    (h : x.run st = .error e) : (x >>= f).run st = .error e := by
  rw [StateT.run_bind, h]; rfl

/-! ### TAB on an Integer argument, all cases at once -/

theorem tab_int (c : Nat) (n : Int16) :
    Func.tab c (.int n) =
      if n.toInt < -255 ∨ n.toInt > 255 then err Code.overflow
      else .ok (.str (List.replicate
        (if n.toInt < 0 then (-n.toInt).toNat - c % (-n.toInt).toNat
         else if n.toInt.toNat > c then n.toInt.toNat - c else 0) ' ')) := by
  simp only [Func.tab, Val.toI16, bind, Except.bind, Bool.or_eq_true, decide_eq_true_eq, pure, Except.pure]

end Lemmas.C11
end Basic
