import BasicModel.Lemmas.Slice
/-
  `execute`, state by state.
-/
namespace Basic
namespace Runtime

/-- the error `execute` builds for an interrupt: `?BREAK IN <line>` -/
def breakError (s : Runtime) : Error := (Error.mk' Code.break).inLine (lineNumber s)

theorem execute_intro (env : Env) (s : Runtime) (n : Nat) (hs : s.state = .intro) :
    execute env s n = ({ s with state := .stopped }, .print introText) := by
  unfold execute
  simp only [hs]

theorem execute_interrupt_col (env : Env) (s : Runtime) (n : Nat)
    (hs : s.state = .interrupt) (hc : s.printCol > 0) :
    execute env s n =
      ({ s with state := .runtimeError (breakError s), printCol := 0 }, .print ['\n']) := by
  unfold execute
  simp only [hs]
  rw [if_pos hc]
  rfl

theorem execute_interrupt_nocol (env : Env) (s : Runtime) (n : Nat)
    (hs : s.state = .interrupt) (hc : s.printCol = 0) :
    execute env s n = ({ s with state := .stopped }, .errors [breakError s]) := by
  unfold execute
  simp only [hs]
  rw [if_neg (by omega)]
  rfl

theorem execute_runtimeError_col (env : Env) (s : Runtime) (n : Nat) (e : Error)
    (hs : s.state = .runtimeError e) (hc : s.printCol > 0) :
    execute env s n = ({ s with printCol := 0 }, .print ['\n']) := by
  unfold execute
  simp only [hs]
  rw [if_pos hc]

theorem execute_runtimeError_nocol (env : Env) (s : Runtime) (n : Nat) (e : Error)
    (hs : s.state = .runtimeError e) (hc : s.printCol = 0) :
    execute env s n = ({ s with state := .stopped }, .errors [e]) := by
  unfold execute
  simp only [hs]
  rw [if_neg (by omega)]

/-- at the prompt (`entryAddress = 0` says READY has been printed) nothing happens -/
theorem execute_stopped (env : Env) (s : Runtime) (n : Nat)
    (hs : s.state = .stopped) (he : s.entryAddress = 0) :
    execute env s n = (s, .stopped) := by
  unfold execute
  simp only [hs, readyPrompt, he]
  rfl

/-- `stopped` before READY has been printed: print it -/
theorem execute_stopped_prompt (env : Env) (s : Runtime) (n : Nat)
    (hs : s.state = .stopped) (he : s.entryAddress ≠ 0) :
    execute env s n =
      ({ s with entryAddress := 0, printCol := 0 },
       .print ((if s.printCol > 0 then ['\n'] else []) ++
               (if s.prompt.isEmpty then [] else s.prompt ++ ['\n']))) := by
  cases s
  dsimp only at hs he
  subst hs
  unfold execute readyPrompt
  dsimp only
  rw [if_pos he]

/-- what `execute` does with the result of the slice -/
def finishLoop (r : Except Error Event) (s : Runtime) : Runtime × Event :=
  match r with
  | .ok event =>
    match s.state, event with
    | .stopped, .stopped =>
      (match readyPrompt s with
       | (s, some e) => (s, e)
       | (s, none) => (s, event))
    | _, _ => (s, event)
  | .error error =>
    if s.state = .inputRunning then
      let (st, addr) := execute.unwind (s.stack.size + 1) s.stack
      let s := { s with stack := st, pc := addr.getD s.pc, state := .inputRedo }
      (s, .running)
    else
      let s := { s with cont := s.state, state := .runtimeError (error.inLine (lineNumber s)), contPc := s.pc }
      let s := if s.pc ≥ s.entryAddress || isFull s then { s with stack := #[], cont := .stopped } else s
      (s, .running)

/-- a running program without direct-mode compile errors: one slice, then `finishLoop` -/
theorem execute_running (env : Env) (s : Runtime) (n : Nat)
    (hs : s.state = .running) (hd : s.listing.directErrors = []) :
    execute env s n =
      finishLoop ((executeLoop env n).run.run s).1 ((executeLoop env n).run.run s).2 := by
  unfold execute
  simp only [hs, hd, List.isEmpty_nil, Bool.not_true, Bool.false_eq_true, if_false]
  rfl

/-! ### `execute` = state dispatch, then (unless an event is due) error report or a slice -/

/-- the first `match &self.state` of `execute`, verbatim -/
def executePre (s : Runtime) : Runtime × Option Event :=
    match s.state with
    | .intro => ({ s with state := .stopped }, some (.print introText))
    | .stopped =>
      match readyPrompt s with
      | (s, some e) => (s, some e)
      | (s, none) => (s, some .stopped)
    | .interrupt => ({ s with state := .runtimeError ((Error.mk' Code.break).inLine (lineNumber s)) }, none)
    | .listing lo hi =>
      match s.listing.listLine lo hi with
      | some ((text, cols), (lo', hi')) =>
        ({ s with state := .listing lo' hi', printCol := 0 }, some (.list text cols))
      | none => ({ s with state := .running }, none)
    | .input =>
      let (r, s') := (executeInput.run).run s
      match r with
      | .ok e => (s', some e)
      | .error e => ({ s' with state := .runtimeError (e.inLine (lineNumber s')) }, none)
    | .inputRedo => ({ s with state := .input }, some (.errors [Error.mk' Code.redoFromStart]))
    | .inputRunning | .running =>
      if !s.listing.directErrors.isEmpty then
        ({ s with state := .stopped }, some (.errors s.listing.directErrors))
      else (s, none)
    | .inkey | .runtimeError _ => (s, none)

/-- the rest of `execute` -/
def executeRest (env : Env) (s : Runtime) (n : Nat) : Runtime × Event :=
    match s.state with
    | .runtimeError err =>
      if s.printCol > 0 then ({ s with printCol := 0 }, .print ['\n'])
      else ({ s with state := .stopped }, .errors [err])
    | _ => finishLoop ((executeLoop env n).run.run s).1 ((executeLoop env n).run.run s).2

theorem execute_eq (env : Env) (s : Runtime) (n : Nat) :
    execute env s n =
      match executePre s with
      | (s, some e) => (s, e)
      | (s, none) => executeRest env s n := rfl

/-! ### `intro` never comes back -/

theorem sliceRun_weak (env : Env) (h : Bool) (n : Nat) (s : Runtime) :
    Weak s (sliceRun env h n s).2.1 := by
  induction n generalizing s with
  | zero => exact FrameRel.refl s
  | succ k ih =>
    have hw := step_weak env h s
    rw [sliceRun_succ]
    rcases hs : (step env h).run.run s with ⟨r, s'⟩
    rw [hs] at hw
    rcases r with e | st
    · exact hw
    · cases st with
      | «continue» => exact FrameRel.trans hw (ih s')
      | event e => exact hw

theorem executeLoop_weak (env : Env) (n : Nat) (s : Runtime) :
    Weak s ((executeLoop env n).run.run s).2 := by
  rw [executeLoop_run]; exact sliceRun_weak env _ n s

theorem frame_executeInput : Frame Quiet executeInput := by unfold executeInput; frame

theorem readyPrompt_noIntro (s : Runtime) (h : NoIntro s) : NoIntro (readyPrompt s).1 := by
  unfold readyPrompt; split <;> exact h

theorem executePre_noIntro (s : Runtime) (h : NoIntro s) : NoIntro (executePre s).1 := by
  obtain ⟨h1, h2⟩ := h
  unfold executePre
  split
  · exact ⟨nofun, h2⟩
  · have := readyPrompt_noIntro s ⟨h1, h2⟩
    split <;> rename_i heq <;> rw [heq] at this <;> exact this
  · exact ⟨nofun, h2⟩
  · split
    · exact ⟨nofun, h2⟩
    · exact ⟨nofun, h2⟩
  · have hq := frame_executeInput.run s
    rcases hx : executeInput.run.run s with ⟨r, s'⟩
    rw [hx] at hq
    have hc : s'.cont ≠ .intro := hq.cont.elim (fun e => e ▸ h2) (fun e => by rw [e]; nofun)
    cases r with
    | ok e => exact ⟨hq.state ▸ h1, hc⟩
    | error e => exact ⟨nofun, hc⟩
  · exact ⟨nofun, h2⟩
  · split
    · exact ⟨nofun, h2⟩
    · exact ⟨h1, h2⟩
  · split
    · exact ⟨nofun, h2⟩
    · exact ⟨h1, h2⟩
  · exact ⟨h1, h2⟩
  · exact ⟨h1, h2⟩

theorem finishLoop_noIntro (r : Except Error Event) (s : Runtime) (h : NoIntro s) :
    NoIntro (finishLoop r s).1 := by
  obtain ⟨h1, h2⟩ := h
  unfold finishLoop
  split
  · split
    · have := readyPrompt_noIntro s ⟨h1, h2⟩
      split <;> rename_i heq <;> rw [heq] at this <;> exact this
    · exact ⟨h1, h2⟩
  · split
    · exact ⟨nofun, h2⟩
    · dsimp only
      split
      · exact ⟨nofun, nofun⟩
      · exact ⟨nofun, h1⟩

theorem executeRest_noIntro (env : Env) (s : Runtime) (n : Nat) (h : NoIntro s) :
    NoIntro (executeRest env s n).1 := by
  unfold executeRest
  split
  · split
    · exact h
    · exact ⟨nofun, h.2⟩
  · exact finishLoop_noIntro _ _ ((executeLoop_weak env n s).noIntro h)

/-- once neither `state` nor `cont` is `intro`, no call of `execute` brings it back -/
theorem execute_noIntro (env : Env) (s : Runtime) (n : Nat) (h : NoIntro s) :
    NoIntro (execute env s n).1 := by
  rw [execute_eq]
  have hp := executePre_noIntro s h
  generalize executePre s = x at hp ⊢
  rcases x with ⟨s', o⟩
  cases o with
  | some e => exact hp
  | none => exact executeRest_noIntro env s' n hp

end Runtime
end Basic
