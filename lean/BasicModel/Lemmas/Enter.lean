import BasicModel.Lemmas.Execute
/-
  `enter`, `interrupt` and `set_listing` keep `NoIntro`.
-/
namespace Basic
namespace Runtime

theorem doClear_noIntro_state (env : Env) (s : Runtime) (e : Error) :
    NoIntro { doClear env s with state := .runtimeError e } := ⟨nofun, nofun⟩

theorem weak_swap (m : RM Unit) (s : Runtime) (hf : Frame Weak m) :
    Weak s (match m.run.run s with | (r, s') => (s', r)).1 := by
  have := hf.run s
  generalize m.run.run s = x at this ⊢
  rcases x with ⟨r, s'⟩
  exact this

/-- the action inside `doInputReply` -/
def replyPush (fs : List Str) : RM Unit := do
  let st ← get
  push (.ret st.pc)
  for f in fs.reverse do
    push (.str f)
  modify fun s => { s with state := .inputRunning }

theorem weak_replyPush (fs : List Str) : Frame Weak (replyPush fs) := by unfold replyPush; frame

theorem doInputReply_weak (s : Runtime) (str : Str) : Weak s (doInputReply s str).1 := by
  unfold doInputReply
  split
  · dsimp only
    split
    · weak
    · rename_i fs _
      exact weak_swap (replyPush fs) s (weak_replyPush fs)
  · exact FrameRel.refl s

theorem enterDirect_noIntro (s : Runtime) (line : Line) (h : NoIntro s) : NoIntro (enterDirect s line) := by
  unfold enterDirect
  dsimp only
  split <;> exact ⟨nofun, h.2⟩

theorem enterIndirect_noIntro (s : Runtime) (line : Line) (h : NoIntro s) :
    NoIntro (enterIndirect s line) := by
  unfold enterIndirect
  dsimp only
  split
  · split <;> exact ⟨h.1, nofun⟩
  · exact ⟨h.1, nofun⟩

theorem enter_noIntro (env : Env) (s : Runtime) (str : Str) (h : NoIntro s) :
    NoIntro (enter env s str) := by
  unfold enter
  split
  · -- INPUT reply
    dsimp only
    split
    · exact ⟨nofun, h.2⟩
    · have hw := (doInputReply_weak s str).noIntro h
      generalize doInputReply s str = x at hw ⊢
      rcases x with ⟨s', r⟩
      cases r with
      | ok u => exact hw
      | error e => exact ⟨nofun, nofun⟩
  · -- INKEY$ reply
    dsimp only
    have hq := (frame_push (Val.str (if RStd.utf8Len str > Gen.maxLineLen then [] else str))).run s
    generalize (push (Val.str (if RStd.utf8Len str > Gen.maxLineLen then [] else str))).run.run s = x at hq ⊢
    rcases x with ⟨r, s'⟩
    cases r with
    | ok u => exact ⟨nofun, hq.cont.elim (fun e => e ▸ h.2) (fun e => by rw [e]; nofun)⟩
    | error e => exact ⟨nofun, nofun⟩
  · split
    · exact ⟨nofun, h.2⟩
    · dsimp only
      split
      · split
        · exact h
        · exact enterDirect_noIntro s _ h
      · split
        · exact ⟨nofun, h.2⟩
        · exact enterIndirect_noIntro s _ h

theorem interrupt_noIntro (s : Runtime) (h : NoIntro s) : NoIntro (interrupt s) := by
  unfold interrupt
  dsimp only
  split
  · exact ⟨nofun, nofun⟩
  · exact ⟨nofun, h.1⟩

/-- `set_listing` starts with NEW, so it establishes `NoIntro` from any state -/
theorem setListing_noIntro (env : Env) (s : Runtime) (l : Listing) (run : Bool) :
    NoIntro (setListing env s l run) := by
  unfold setListing
  dsimp only
  have h0 : NoIntro { doNew env s with listing := l } := ⟨nofun, nofun⟩
  split
  · exact enter_noIntro env _ _ h0
  · exact h0

end Runtime
end Basic
