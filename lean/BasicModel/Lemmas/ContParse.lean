import BasicModel.Lemmas.Enter
import BasicModel.Lemmas.Program
/-
  The tokens of the direct line `CONT`, its parse and its code, by evaluation of the parser and
  code generator models (kept in a file of its own: the evaluation of the parser is slow).
-/
namespace Basic

/-- the tokens of the line `CONT` -/
def contLine : Line := ⟨none, [.word .cont]⟩

/-- the environment's lexer reads `CONT` as the statement word -/
def LexCont (env : Env) : Prop := env.lex "CONT".toList = contLine

/-- the parser on the tokens of `CONT` (by evaluation of the parser model) -/
theorem parse_contLine : Parse.parse none [.word .cont] = .ok [.cont (0, 4)] := by
  simp [Parse.parse, Parse.parseTokens, Parse.fuelFor, Parse.statements, Parse.statement, Parse.peek,
    Parse.next, Parse.nextLoop, Parse.col, Parse.isRem, StateT.run, bind, StateT.bind, Except.bind, get,
    getThe, MonadStateOf.get, StateT.get, pure, StateT.pure, Except.pure, set, StateT.set, modify,
    modifyGet, MonadStateOf.modifyGet, StateT.modifyGet, Except.map, Token.text, Word.text]

/-- the code generator on the statement CONT: one fragment, `#[Cont]`, no diagnostics -/
theorem acceptStmts_cont :
    (Codegen.acceptStmts [.cont (0, 4)] {}).g.stmt.toList = [((0, 4), ({ ops := #[.cont] } : Link))] ∧
    (Codegen.acceptStmts [.cont (0, 4)] {}).errors = [] := ⟨rfl, rfl⟩

end Basic
