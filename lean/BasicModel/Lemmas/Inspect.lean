import BasicModel.Lemmas.Resume
/-
  Inspecting variables in direct mode between a break and CONT.

  A direct line whose code is made of `harmless` instructions (literals, fetches of simple
  variables, arithmetic, comparisons, side-effect-free built-ins, `Print`) followed by `End`
  keeps `cont`, `contPc`, the variables, the function table, the program with its DATA cursor and
  the listing (`Kept`) — while it runs (`InDirect`) and at the prompt afterwards (`AtPrompt`) —
  unless it fails with a runtime error: the report of an error in direct mode clears the
  continuation (`finishLoop`).  The final `End` of a direct line executes with
  `pc > entryAddress`, so `doEnd` leaves `cont` alone (it is the `End` that closes the *program*,
  `pc = entryAddress`, that resets it).
-/
namespace Basic
namespace Runtime
variable {α β : Type}

/-- what an expression evaluated and printed in direct mode leaves alone: everything except the
    stack, the print column (and `tr`) -/
structure Keeps (s t : Runtime) : Prop where
  cont : t.cont = s.cont
  contPc : t.contPc = s.contPc
  vars : t.vars = s.vars
  functions : t.functions = s.functions
  program : t.program = s.program
  entry : t.entryAddress = s.entryAddress
  listing : t.listing = s.listing
  dirty : t.dirty = s.dirty
  tron : t.tron = s.tron
  prompt : t.prompt = s.prompt
  rand : t.rand = s.rand
  state : t.state = s.state
  pc : t.pc = s.pc

instance : FrameRel Keeps where
  refl _ := ⟨rfl, rfl, rfl, rfl, rfl, rfl, rfl, rfl, rfl, rfl, rfl, rfl, rfl⟩
  trans h1 h2 :=
    ⟨h2.cont.trans h1.cont, h2.contPc.trans h1.contPc, h2.vars.trans h1.vars,
     h2.functions.trans h1.functions, h2.program.trans h1.program, h2.entry.trans h1.entry,
     h2.listing.trans h1.listing, h2.dirty.trans h1.dirty, h2.tron.trans h1.tron,
     h2.prompt.trans h1.prompt, h2.rand.trans h1.rand, h2.state.trans h1.state, h2.pc.trans h1.pc⟩

macro "keeps" : tactic => `(tactic| (constructor <;> rfl))
macro_rules | `(tactic| frame_rel) => `(tactic| keeps)

theorem keeps_push (v : Val) : Frame Keeps (push v) := by
  constructor; intro s; rw [run_push]; keeps
macro_rules | `(tactic| frame_known) => `(tactic| with_reducible exact FrameFrom.of_frame (keeps_push _))

theorem keeps_pop : Frame Keeps pop := by
  constructor; intro s; rw [run_pop]; split <;> keeps
macro_rules | `(tactic| frame_known) => `(tactic| with_reducible exact FrameFrom.of_frame keeps_pop)

theorem keeps_pop2 : Frame Keeps pop2 := by unfold pop2; frame
macro_rules | `(tactic| frame_known) => `(tactic| with_reducible exact FrameFrom.of_frame keeps_pop2)

theorem keeps_popN (n : Nat) : Frame Keeps (popN n) := by unfold popN; frame
macro_rules | `(tactic| frame_known) => `(tactic| with_reducible exact FrameFrom.of_frame (keeps_popN _))

theorem keeps_popVec : Frame Keeps popVec := by unfold popVec; frame
macro_rules | `(tactic| frame_known) => `(tactic| with_reducible exact FrameFrom.of_frame keeps_popVec)

theorem keeps_pop1Push (f : Val → Res Val) : Frame Keeps (pop1Push f) := by unfold pop1Push; frame
macro_rules | `(tactic| frame_known) => `(tactic| with_reducible exact FrameFrom.of_frame (keeps_pop1Push _))

theorem keeps_pop2Push (f : Val → Val → Res Val) : Frame Keeps (pop2Push f) := by unfold pop2Push; frame
macro_rules | `(tactic| frame_known) => `(tactic| with_reducible exact FrameFrom.of_frame (keeps_pop2Push _))

theorem keeps_doPrint : Frame Keeps doPrint := by unfold doPrint; frame
macro_rules | `(tactic| frame_known) => `(tactic| with_reducible exact FrameFrom.of_frame keeps_doPrint)

/-- the instructions of a PRINT of expressions over simple variables: literals, variable
    fetches, arithmetic / comparison / logic, the built-in functions without side effect, `Print` -/
def harmless : Opcode → Bool
  | .literal _ | .push _ | .print
  | .neg | .pow | .mul | .div | .divInt | .mod | .add | .sub | .eq | .notEq | .lt | .ltEq | .gt | .gtEq
  | .not | .and | .or | .xor | .imp | .eqv
  | .abs | .asc | .atn | .cdbl | .chr | .cint | .cos | .csng | .date | .exp | .fix | .hex | .instr | .int
  | .left | .len | .log | .mid | .oct | .pos | .right | .spc | .sgn | .sin | .sqr | .str | .string | .tab
  | .tan | .time | .val => true
  | _ => false

theorem execOp_keeps (env : Env) (h : Bool) (op : Opcode) (hop : harmless op = true) :
    Frame Keeps (execOp env h op) := by
  cases op <;> first
    | (simp [harmless] at hop; done)
    | (simp only [execOp]; frame)

/-- the fields a direct-mode inspection must not disturb (`u`: the state when it starts) -/
structure Kept (u w : Runtime) : Prop where
  cont : w.cont = u.cont
  contPc : w.contPc = u.contPc
  vars : w.vars = u.vars
  functions : w.functions = u.functions
  program : w.program = u.program
  listing : w.listing = u.listing
  dirty : w.dirty = u.dirty
  tron : w.tron = u.tron
  prompt : w.prompt = u.prompt
  rand : w.rand = u.rand

theorem Kept.refl (u : Runtime) : Kept u u := ⟨rfl, rfl, rfl, rfl, rfl, rfl, rfl, rfl, rfl, rfl⟩

theorem Kept.of_keeps {u w w' : Runtime} (h : Kept u w) (k : Keeps w w') : Kept u w' :=
  ⟨k.cont.trans h.cont, k.contPc.trans h.contPc, k.vars.trans h.vars, k.functions.trans h.functions,
   k.program.trans h.program, k.listing.trans h.listing, k.dirty.trans h.dirty, k.tron.trans h.tron,
   k.prompt.trans h.prompt, k.rand.trans h.rand⟩

/-- the direct code consists of harmless instructions and `End` -/
def DirectHarmless (u : Runtime) : Prop :=
  ∀ i op, u.entryAddress ≤ i → u.program.link.ops[i]? = some op → harmless op = true ∨ op = .end

/-- while the inspection line runs: still in direct code, `running` -/
structure InDirect (u w : Runtime) : Prop where
  kept : Kept u w
  entry : w.entryAddress = u.entryAddress
  pc : u.entryAddress ≤ w.pc
  state : w.state = .running

theorem rets_doPrint_ne_stopped : Rets doPrint (· ≠ .stopped) := by unfold doPrint; rets

/-- one instruction of the inspection line -/
theorem inspect_step (env : Env) (h : Bool) (u w : Runtime) (hu : DirectHarmless u) (htr : u.tron = false)
    (hw : InDirect u w) :
    (InDirect u ((step env h).run.run w).2 ∧ ((step env h).run.run w).1 ≠ .ok (.event .stopped)) ∨
    (Kept u ((step env h).run.run w).2 ∧ ((step env h).run.run w).2.state = .stopped ∧
      ((step env h).run.run w).1 = .ok (.event .stopped) ∧
      ((step env h).run.run w).2.entryAddress = u.entryAddress) := by
  rw [step_troff env h w (by rw [hw.kept.tron]; exact htr), run_fetchExec]
  cases hq : w.program.link.ops[w.pc]? with
  | none =>
    left
    exact ⟨hw, nofun⟩
  | some op =>
    dsimp only
    rcases hu w.pc op hw.pc (by rw [← hw.kept.program]; exact hq) with hop | hop
    · left
      have hk := (execOp_keeps env h op hop).run { w with pc := w.pc + 1 }
      have hcont : Rets (execOp env h op) (· ≠ .event .stopped) := by
        cases op <;> first
          | (simp [harmless] at hop; done)
          | (simp only [execOp]; rets; done)
          | (simp only [execOp]
             exact Rets.event rets_doPrint_ne_stopped (fun e (he : e ≠ .stopped) hh => he (by injection hh)))
      rcases hx : (execOp env h op).run.run { w with pc := w.pc + 1 } with ⟨r, w'⟩
      rw [hx] at hk
      have hk1 : Kept u { w with pc := w.pc + 1 } :=
        ⟨hw.kept.cont, hw.kept.contPc, hw.kept.vars, hw.kept.functions, hw.kept.program,
         hw.kept.listing, hw.kept.dirty, hw.kept.tron, hw.kept.prompt, hw.kept.rand⟩
      refine ⟨⟨hk1.of_keeps hk, hk.entry.trans hw.entry, ?_, hk.state.trans hw.state⟩, ?_⟩
      · rw [hk.pc]; exact Nat.le_succ_of_le hw.pc
      · intro hr
        cases hr
        exact hcont.run _ _ _ hx rfl
    · right
      subst hop
      have hgt : ({ w with pc := w.pc + 1 } : Runtime).pc > ({ w with pc := w.pc + 1 } : Runtime).entryAddress := by
        show w.pc + 1 > w.entryAddress
        rw [hw.entry]; exact Nat.lt_succ_of_le hw.pc
      have hend : (execOp env h .end).run.run { w with pc := w.pc + 1 } =
          (.ok (.event .stopped), doEnd { w with pc := w.pc + 1 }) := rfl
      rw [hend]
      have hde : doEnd { w with pc := w.pc + 1 } = { w with pc := w.pc + 1, state := .stopped } := by
        simp only [doEnd, Nat.not_lt_of_gt hgt, Nat.ne_of_gt hgt, if_false]
      rw [hde]
      exact ⟨⟨hw.kept.cont, hw.kept.contPc, hw.kept.vars, hw.kept.functions, hw.kept.program,
        hw.kept.listing, hw.kept.dirty, hw.kept.tron, hw.kept.prompt, hw.kept.rand⟩, rfl, rfl, hw.entry⟩

/-- a slice of the inspection line: either it is still running in direct code, or its `End` was
    reached — state `stopped`, everything else kept -/
theorem inspect_slice (env : Env) (h : Bool) (n : Nat) (u w : Runtime) (hu : DirectHarmless u)
    (htr : u.tron = false) (hw : InDirect u w) :
    (InDirect u (sliceRun env h n w).2.1 ∧ (sliceRun env h n w).1 ≠ .ok (some .stopped)) ∨
    (Kept u (sliceRun env h n w).2.1 ∧ (sliceRun env h n w).2.1.state = .stopped ∧
      (sliceRun env h n w).1 = .ok (some .stopped) ∧
      (sliceRun env h n w).2.1.entryAddress = u.entryAddress) := by
  induction n generalizing w with
  | zero => exact .inl ⟨hw, nofun⟩
  | succ k ih =>
    rw [sliceRun_succ]
    rcases inspect_step env h u w hu htr hw with ⟨h1, h2⟩ | ⟨h1, h2, h3, h4⟩
    · rcases hs : (step env h).run.run w with ⟨r, w'⟩
      rw [hs] at h1 h2
      rcases r with e | st
      · exact .inl ⟨h1, nofun⟩
      · cases st with
        | «continue» => exact ih w' h1
        | event ev =>
          refine .inl ⟨h1, ?_⟩
          intro hh
          apply h2
          cases hh
          rfl
    · rcases hs : (step env h).run.run w with ⟨r, w'⟩
      rw [hs] at h1 h2 h3 h4
      dsimp only at h3
      subst h3
      exact .inr ⟨h1, h2, rfl, h4⟩

/-- at the prompt after the inspection line ended -/
structure AtPrompt (u w : Runtime) : Prop where
  kept : Kept u w
  state : w.state = .stopped
  printCol : w.printCol = 0

/-- the inspection failed: a runtime error (which clears the continuation when reported) -/
def Failed (w : Runtime) : Prop := ∃ e, w.state = .runtimeError e

theorem kept_readyPrompt {u w : Runtime} (h : Kept u w) : Kept u (readyPrompt w).1 := by
  unfold readyPrompt
  split
  · exact ⟨h.cont, h.contPc, h.vars, h.functions, h.program, h.listing, h.dirty, h.tron, h.prompt, h.rand⟩
  · exact h

theorem readyPrompt_state (w : Runtime) : (readyPrompt w).1.state = w.state := by
  unfold readyPrompt; split <;> rfl

/-- one call of `execute` while the inspection line runs -/
theorem inspect_execute_running (env : Env) (n : Nat) (u w : Runtime) (hu : DirectHarmless u)
    (htr : u.tron = false) (hde : u.listing.directErrors = []) (hu0 : u.entryAddress ≠ 0)
    (hw : InDirect u w) :
    InDirect u (execute env w n).1 ∨ AtPrompt u (execute env w n).1 ∨ Failed (execute env w n).1 := by
  rw [execute_running env w n hw.state (by rw [hw.kept.listing]; exact hde), executeLoop_run]
  unfold slice
  rcases inspect_slice env (hasIndirectErrors w) n u w hu htr hw with ⟨h1, h2⟩ | ⟨h1, h2, h3, h4⟩
  · generalize sliceRun env (hasIndirectErrors w) n w = x at h1 h2
    rcases x with ⟨r, w', c⟩
    dsimp only at h1 h2 ⊢
    rcases r with e | o
    · -- an error: `runtimeError`
      right; right
      unfold finishLoop
      dsimp only [toEvent]
      rw [if_neg (by rw [h1.state]; nofun)]
      dsimp only
      split <;> exact ⟨_, rfl⟩
    · left
      have : finishLoop (toEvent (.ok o)) w' = (w', (match o with | none => .running | some e => e)) := by
        unfold finishLoop
        cases o with
        | none =>
          dsimp only [toEvent]
          split
          · rename_i hq; cases hq
          · rfl
        | some ev =>
          dsimp only [toEvent]
          split
          · rename_i hq; rw [h1.state] at hq; cases hq
          · rfl
      rw [this]
      exact h1
  · generalize sliceRun env (hasIndirectErrors w) n w = x at h1 h2 h3 h4
    rcases x with ⟨r, w', c⟩
    dsimp only at h1 h2 h3 h4 ⊢
    subst h3
    right; left
    have : finishLoop (toEvent (.ok (some .stopped))) w' =
        ({ w' with entryAddress := 0, printCol := 0 },
         .print ((if w'.printCol > 0 then ['\n'] else []) ++ (if w'.prompt.isEmpty then [] else w'.prompt ++ ['\n']))) := by
      unfold finishLoop readyPrompt
      dsimp only [toEvent]
      rw [h2, if_pos (by rw [h4]; exact hu0)]
    rw [this]
    exact ⟨⟨h1.cont, h1.contPc, h1.vars, h1.functions, h1.program, h1.listing, h1.dirty, h1.tron, h1.prompt,
      h1.rand⟩, h2, rfl⟩

/-- … and at the prompt afterwards -/
theorem inspect_execute_stopped (env : Env) (n : Nat) (u w : Runtime) (hw : AtPrompt u w) :
    AtPrompt u (execute env w n).1 := by
  by_cases he : w.entryAddress = 0
  · rw [execute_stopped env w n hw.state he]; exact hw
  · rw [execute_stopped_prompt env w n hw.state he]
    exact ⟨⟨hw.kept.cont, hw.kept.contPc, hw.kept.vars, hw.kept.functions, hw.kept.program, hw.kept.listing,
      hw.kept.dirty, hw.kept.tron, hw.kept.prompt, hw.kept.rand⟩, hw.state, rfl⟩

/-- any number of calls of `execute` after the inspection line was entered: unless some call
    ended in a runtime error, the line is still running or the prompt is back, and in both cases
    `cont`, `contPc`, the variables, the function table, the program (with its DATA cursor), the
    listing are what they were -/
theorem inspect_execList (env : Env) (qs : List Nat) (u w : Runtime) (hu : DirectHarmless u)
    (htr : u.tron = false) (hde : u.listing.directErrors = []) (hu0 : u.entryAddress ≠ 0)
    (hw : InDirect u w ∨ AtPrompt u w) :
    (InDirect u (execList env qs w).1 ∨ AtPrompt u (execList env qs w).1) ∨
    ∃ k, k ≤ qs.length ∧ Failed (execList env (qs.take k) w).1 := by
  induction qs generalizing w with
  | nil => exact .inl hw
  | cons q qs ih =>
    have step : (InDirect u (execute env w q).1 ∨ AtPrompt u (execute env w q).1) ∨ Failed (execute env w q).1 := by
      rcases hw with hw | hw
      · rcases inspect_execute_running env q u w hu htr hde hu0 hw with h | h | h
        · exact .inl (.inl h)
        · exact .inl (.inr h)
        · exact .inr h
      · exact .inl (.inr (inspect_execute_stopped env q u w hw))
    rw [execList_cons]
    dsimp only
    rcases step with h | h
    · rcases ih (execute env w q).1 h with h' | ⟨k, hk, hf⟩
      · exact .inl h'
      · refine .inr ⟨k + 1, by simp only [List.length_cons]; omega, ?_⟩
        rw [List.take_succ_cons, execList_cons]
        exact hf
    · refine .inr ⟨1, by simp only [List.length_cons]; omega, ?_⟩
      rw [List.take_succ_cons, List.take_zero, execList_cons, execList_nil]
      exact h

/-! ### an inspection between the break and CONT -/

/-- a direct line (not an INPUT/INKEY reply, not too long, not empty, unnumbered) goes to
    `enterDirect` -/
theorem enter_direct (env : Env) (w : Runtime) (str : Str) (line : Line)
    (hs : w.state = .stopped) (hlen : RStd.utf8Len str ≤ Gen.maxLineLen) (hlex : env.lex str = line)
    (hn : line.number = none) (hne : line.tokens.isEmpty = false) :
    enter env w str = enterDirect w line := by
  unfold enter
  split
  · rename_i h; rw [hs] at h; cases h
  · rename_i h; rw [hs] at h; cases h
  · rw [if_neg (by omega)]
    dsimp only
    rw [hlex, hn, hne]
    rfl

/-- the state in which an inspection line starts: entered after the break report of `s` -/
theorem inspect_start (s : Runtime) (ea : Nat) (line : Line) (code : Array Opcode)
    (hp : Program.PlainLine line code) (hharm : ∀ (i : Nat) (op : Opcode), code[i]? = some op → harmless op = true)
    (hd : s.dirty = false) (hl : Program.Linked s.program) (htr : s.tron = false)
    (hsize : s.program.directAddress + code.size + 2 ≤ Gen.stackMaxLen)
    (hdata : s.program.link.data.size ≤ Gen.stackMaxLen) :
    let u := enterDirect (broken s ea) line
    DirectHarmless u ∧ u.tron = false ∧ u.listing.directErrors = [] ∧ u.entryAddress ≠ 0 ∧ InDirect u u ∧
    u.cont = .running ∧ u.contPc = s.pc ∧ u.vars = s.vars ∧ u.functions = s.functions ∧ u.stack = s.stack ∧
    u.rand = s.rand ∧ u.prompt = s.prompt ∧ u.dirty = false ∧
    u.listing = { s.listing with indirectErrors := s.program.indirectErrors, directErrors := [] } ∧
    Program.DirectOf s.program code u.program := by
  intro u
  obtain ⟨P, hP0, hu⟩ := enterDirect_plain (broken s ea) line code hp hd hl hsize hdata
  have hP : Program.DirectOf s.program code P := hP0
  have hu' : u = _ := hu
  rw [hu']
  refine ⟨?_, htr, rfl, hl.direct, ⟨Kept.refl _, rfl, Nat.le_refl _, rfl⟩, rfl, rfl, rfl, rfl, rfl, rfl, rfl,
    hd, rfl, hP⟩
  intro i op hi hop
  have hop' : P.link.ops[i]? = some op := hop
  have hi' : s.program.directAddress ≤ i := hi
  by_cases h1 : i < s.program.directAddress + code.size
  · left
    have := hP.direct (i - s.program.directAddress) (by omega)
    rw [show s.program.directAddress + (i - s.program.directAddress) = i by omega, hop'] at this
    exact hharm _ op this.symm
  · right
    by_cases h2 : i = s.program.directAddress + code.size
    · subst h2
      rw [hP.end] at hop'
      injection hop' with h3
      exact h3.symm
    · exact hP.beyond i op (by omega) hop'

/-! ### the stack is restored -/

/-- `w'` is `w` with the top `k` values of the stack replaced by `j` values -/
structure StackEff (k j : Nat) (w w' : Runtime) : Prop where
  enough : k ≤ w.stack.size
  size : w'.stack.size + k = w.stack.size + j
  below : ∀ i, i + k < w.stack.size → w'.stack[i]? = w.stack[i]?

theorem StackEff.refl (w : Runtime) : StackEff 0 0 w w := ⟨Nat.zero_le _, rfl, fun _ _ => rfl⟩

theorem StackEff.of_stack_eq {w w' : Runtime} (h : w'.stack = w.stack) : StackEff 0 0 w w' :=
  ⟨Nat.zero_le _, by rw [h], fun _ _ => by rw [h]⟩

/-- pops first, pushes afterwards -/
theorem StackEff.pop_then {k : Nat} {a b c : Runtime} (h1 : StackEff k 0 a b) (h2 : StackEff 1 0 b c) :
    StackEff (k + 1) 0 a c := by
  have := h1.size; have := h2.size; have := h2.enough
  exact ⟨by omega, by omega, fun i hi => (h2.below i (by omega)).trans (h1.below i (by omega))⟩

theorem StackEff.then_push {k : Nat} {a b c : Runtime} (h1 : StackEff k 0 a b) (h2 : StackEff 0 1 b c) :
    StackEff k 1 a c := by
  have := h1.size; have := h2.size
  exact ⟨h1.enough, by omega, fun i hi => (h2.below i (by omega)).trans (h1.below i hi)⟩

theorem pop_eff {w w' : Runtime} {v : Val} (h : pop.run.run w = (.ok v, w')) : StackEff 1 0 w w' := by
  rw [run_pop] at h
  split at h
  · rename_i v' hb
    cases h
    have hne : w.stack.size ≠ 0 := by
      intro h0
      have : w.stack = #[] := Array.eq_empty_of_size_eq_zero h0
      rw [this] at hb; cases hb
    refine ⟨by omega, by show w.stack.pop.size + 1 = _; rw [Array.size_pop]; omega, ?_⟩
    intro i hi
    show w.stack.pop[i]? = _
    rw [Array.getElem?_pop, if_pos (by omega)]
  · cases h

theorem push_eff {w w' : Runtime} {v : Val} {r : Except Error Unit} (h : (push v).run.run w = (r, w')) :
    StackEff 0 1 w w' := by
  rw [run_push] at h
  cases h
  refine ⟨Nat.zero_le _, by show (w.stack.push v).size + 0 = _; rw [Array.size_push], ?_⟩
  intro i hi
  show (w.stack.push v)[i]? = _
  rw [Array.getElem?_push, if_neg (by omega)]

theorem bind_ok {m : RM α} {f : α → RM β} {s s'' : Runtime} {b : β}
    (h : (m >>= f).run.run s = (.ok b, s'')) :
    ∃ a s', m.run.run s = (.ok a, s') ∧ (f a).run.run s' = (.ok b, s'') := by
  rw [run_bind] at h
  rcases hm : m.run.run s with ⟨r, s'⟩
  rw [hm] at h
  cases r with
  | error e => cases h
  | ok a => exact ⟨a, s', rfl, h⟩

theorem liftE_ok {r : Except Error α} {s s' : Runtime} {a : α}
    (h : (liftE r : RM α).run.run s = (.ok a, s')) : r = .ok a ∧ s' = s := by
  rw [run_liftE] at h
  cases h
  exact ⟨rfl, rfl⟩

theorem pop2_eff {w w' : Runtime} {v : Val × Val} (h : pop2.run.run w = (.ok v, w')) :
    StackEff 2 0 w w' := by
  unfold pop2 at h
  obtain ⟨a, w1, h1, h⟩ := bind_ok h
  obtain ⟨b, w2, h2, h⟩ := bind_ok h
  cases h
  exact ((StackEff.refl w).pop_then (pop_eff h1)).pop_then (pop_eff h2)

theorem pop1Push_eff (f : Val → Res Val) {w w' : Runtime} {u : Unit}
    (h : (pop1Push f).run.run w = (.ok u, w')) : StackEff 1 1 w w' := by
  unfold pop1Push at h
  obtain ⟨v, w1, h1, hA⟩ := bind_ok h
  obtain ⟨x, w2, h2, hB⟩ := bind_ok hA
  obtain ⟨-, hw⟩ := liftE_ok h2
  subst hw
  exact ((StackEff.refl w).pop_then (pop_eff h1)).then_push (push_eff hB)

theorem pop2Push_eff (f : Val → Val → Res Val) {w w' : Runtime} {u : Unit}
    (h : (pop2Push f).run.run w = (.ok u, w')) : StackEff 2 1 w w' := by
  unfold pop2Push at h
  obtain ⟨v, w1, h1, hA⟩ := bind_ok h
  rcases v with ⟨a, b⟩
  obtain ⟨x, w2, h2, hB⟩ := bind_ok hA
  obtain ⟨-, hw⟩ := liftE_ok h2
  subst hw
  exact (pop2_eff h1).then_push (push_eff hB)

theorem doPrint_eff {w w' : Runtime} {e : Event} (h : doPrint.run.run w = (.ok e, w')) :
    StackEff 1 0 w w' := by
  unfold doPrint at h
  obtain ⟨v, w1, h1, h⟩ := bind_ok h
  obtain ⟨x, w2, h2, h⟩ := bind_ok h
  cases h
  rw [run_modify] at h2
  cases h2
  have := pop_eff h1
  exact ⟨this.enough, this.size, this.below⟩

/-- the stack effect of the instructions with a fixed one: (operands, results) -/
def arity : Opcode → Option (Nat × Nat)
  | .literal _ | .push _ | .date | .time => some (0, 1)
  | .neg | .not | .abs | .asc | .atn | .cdbl | .chr | .cint | .cos | .csng | .exp | .fix | .hex | .int
  | .len | .log | .oct | .spc | .sgn | .sin | .sqr | .str | .tan | .val | .tab => some (1, 1)
  | .pow | .mul | .div | .divInt | .mod | .add | .sub | .eq | .notEq | .lt | .ltEq | .gt | .gtEq
  | .and | .or | .xor | .imp | .eqv | .left | .right | .string => some (2, 1)
  | .print => some (1, 0)
  | _ => none

theorem bind_pure_ok {m : RM α} {f : α → β} {s s' : Runtime} {b : β}
    (h : (m >>= fun a => (pure (f a) : RM β)).run.run s = (.ok b, s')) :
    ∃ a, m.run.run s = (.ok a, s') := by
  obtain ⟨a, s1, h1, h2⟩ := bind_ok h
  rw [run_pure] at h2
  cases h2
  exact ⟨a, h1⟩

/-- an instruction with a fixed stack effect, when it succeeds, has that effect -/
theorem execOp_eff (env : Env) (hh : Bool) (op : Opcode) (k j : Nat) (ha : arity op = some (k, j))
    {w w' : Runtime} {r : Step} (h : (execOp env hh op).run.run w = (.ok r, w')) : StackEff k j w w' := by
  cases op <;> simp only [arity, Option.some.injEq, Prod.mk.injEq, reduceCtorEq] at ha
  all_goals obtain ⟨rfl, rfl⟩ := ha
  all_goals simp only [execOp] at h
  all_goals first
    | (obtain ⟨a, h1⟩ := bind_pure_ok h; first
        | exact pop1Push_eff _ h1
        | exact pop2Push_eff _ h1
        | exact push_eff h1
        | exact doPrint_eff h1)
    | skip
  · -- `Push name`
    obtain ⟨s, w1, h1, hA⟩ := bind_ok h
    rw [run_get] at h1
    cases h1
    obtain ⟨x, w2, h2, hB⟩ := bind_ok hA
    obtain ⟨-, hw⟩ := liftE_ok h2
    subst hw
    obtain ⟨a, h3⟩ := bind_pure_ok hB
    exact push_eff h3
  · -- `Tab`
    obtain ⟨v, w1, h1, hA⟩ := bind_ok h
    obtain ⟨s, w2, h2, hB⟩ := bind_ok hA
    rw [run_get] at h2
    cases h2
    obtain ⟨x, w3, h3, hC⟩ := bind_ok hB
    obtain ⟨-, hw⟩ := liftE_ok h3
    subst hw
    obtain ⟨a, h4⟩ := bind_pure_ok hC
    exact ((StackEff.refl w).pop_then (pop_eff h1)).then_push (push_eff h4)

theorem arity_harmless (op : Opcode) (k j : Nat) (ha : arity op = some (k, j)) : harmless op = true := by
  cases op <;> first | rfl | (simp [arity] at ha)

/-- the operand depth after running straight-line code from depth `d`; `none` if an instruction
    would reach below the operands of the line (or has no fixed effect) -/
def depthAfter : List Opcode → Nat → Option Nat
  | [], d => some d
  | op :: rest, d =>
    match arity op with
    | some (k, j) => if k ≤ d then depthAfter rest (d - k + j) else none
    | none => none

/-- the code of a direct line never reaches below its own operands and leaves none behind -/
def Balanced (code : Array Opcode) : Prop := depthAfter code.toList 0 = some 0

instance (code : Array Opcode) : Decidable (Balanced code) := by unfold Balanced; infer_instance

/-- the direct code of `u` is `code; End` -/
structure HasDirect (code : Array Opcode) (u : Runtime) : Prop where
  direct : ∀ i, i < code.size → u.program.link.ops[u.entryAddress + i]? = code[i]?
  «end» : u.program.link.ops[u.entryAddress + code.size]? = some .end

/-- while the line runs: the stack is the one it found plus its own operands -/
structure StackInv (code : Array Opcode) (u w : Runtime) : Prop where
  ex : ∃ i d, w.pc = u.entryAddress + i ∧ i ≤ code.size ∧ depthAfter (code.toList.drop i) d = some 0 ∧
    w.stack.size = u.stack.size + d ∧ ∀ x, x < u.stack.size → w.stack[x]? = u.stack[x]?

theorem stackInv_start (code : Array Opcode) (u : Runtime) (hb : Balanced code) (hpc : u.pc = u.entryAddress) :
    StackInv code u u :=
  ⟨0, 0, hpc, Nat.zero_le _, hb, rfl, fun _ _ => rfl⟩

/-- one instruction of a balanced line: an error, or the invariant again, or the final `End`
    with the stack as the line found it -/
theorem inspect_step_stack (env : Env) (h : Bool) (code : Array Opcode) (u w : Runtime)
    (hd : HasDirect code u) (htr : u.tron = false) (hw : InDirect u w) (hs : StackInv code u w) :
    (∃ e, ((step env h).run.run w).1 = .error e) ∨
    (((step env h).run.run w).1 ≠ .ok (.event .stopped) ∧ StackInv code u ((step env h).run.run w).2) ∨
    (((step env h).run.run w).1 = .ok (.event .stopped) ∧ ((step env h).run.run w).2.stack = u.stack) := by
  obtain ⟨i, d, hpc, hle, hdep, hsz, hbelow⟩ := hs.ex
  rw [step_troff env h w (by rw [hw.kept.tron]; exact htr), run_fetchExec]
  by_cases hi : i < code.size
  · -- an instruction of the line
    have hget : code[i]? = some code[i] := Array.getElem?_eq_getElem hi
    have hop : w.program.link.ops[w.pc]? = some code[i] := by
      rw [hw.kept.program, hpc, hd.direct i hi, hget]
    rw [hop]
    dsimp only
    have hdrop : code.toList.drop i = code[i] :: code.toList.drop (i + 1) := by
      rw [List.drop_eq_getElem_cons (by rw [Array.length_toList]; exact hi)]
      rfl
    rw [hdrop] at hdep
    unfold depthAfter at hdep
    cases ha : arity code[i] with
    | none => rw [ha] at hdep; cases hdep
    | some kj =>
      rcases kj with ⟨k, j⟩
      rw [ha] at hdep
      dsimp only at hdep
      by_cases hk : k ≤ d
      · rw [if_pos hk] at hdep
        have hkeep := (execOp_keeps env h code[i] (arity_harmless _ k j ha)).run { w with pc := w.pc + 1 }
        have hne : Rets (execOp env h code[i]) (· ≠ .event .stopped) := by
          have hop := arity_harmless _ k j ha
          generalize code[i] = op at hop
          cases op <;> first
            | (simp [harmless] at hop; done)
            | (simp only [execOp]; rets; done)
            | (simp only [execOp]
               exact Rets.event rets_doPrint_ne_stopped (fun e (he : e ≠ .stopped) hh => he (by injection hh)))
        rcases hx : (execOp env h code[i]).run.run { w with pc := w.pc + 1 } with ⟨r, w'⟩
        rw [hx] at hkeep
        cases r with
        | error e => exact .inl ⟨e, rfl⟩
        | ok r =>
          right; left
          have heff := execOp_eff env h code[i] k j ha hx
          refine ⟨fun hr => by cases hr; exact hne.run _ _ _ hx rfl, ⟨i + 1, d - k + j, ?_, hi, hdep, ?_, ?_⟩⟩
          · show w'.pc = _
            rw [hkeep.pc]
            show w.pc + 1 = _
            rw [hpc]; exact (Nat.add_assoc _ _ _)
          · have := heff.size
            have e1 : ({ w with pc := w.pc + 1 } : Runtime).stack.size = w.stack.size := rfl
            show w'.stack.size = _
            omega
          · intro x hx'
            have := heff.below x (by
              show x + k < w.stack.size
              omega)
            exact this.trans (hbelow x hx')
      · rw [if_neg hk] at hdep; cases hdep
  · -- the final `End`
    have hi' : i = code.size := by omega
    subst hi'
    have hop : w.program.link.ops[w.pc]? = some .end := by
      rw [hw.kept.program, hpc, hd.end]
    rw [hop]
    dsimp only
    right; right
    have hdrop : code.toList.drop code.size = [] := by
      rw [List.drop_eq_nil_iff, Array.length_toList]; exact Nat.le_refl _
    rw [hdrop] at hdep
    unfold depthAfter at hdep
    injection hdep with hd0
    subst hd0
    have hend : (execOp env h .end).run.run { w with pc := w.pc + 1 } =
        (.ok (.event .stopped), doEnd { w with pc := w.pc + 1 }) := rfl
    rw [hend]
    refine ⟨rfl, ?_⟩
    rw [doEnd_eq]
    show w.stack = u.stack
    apply Array.ext_getElem?
    intro x
    by_cases hx : x < u.stack.size
    · exact hbelow x hx
    · rw [Array.getElem?_eq_none (by omega), Array.getElem?_eq_none (by omega)]

theorem inspect_slice_stack (env : Env) (h : Bool) (n : Nat) (code : Array Opcode) (u w : Runtime)
    (hu : DirectHarmless u) (hd : HasDirect code u) (htr : u.tron = false)
    (hw : InDirect u w) (hs : StackInv code u w) :
    (∃ e, (sliceRun env h n w).1 = .error e) ∨
    ((sliceRun env h n w).1 ≠ .ok (some .stopped) ∧ StackInv code u (sliceRun env h n w).2.1) ∨
    ((sliceRun env h n w).1 = .ok (some .stopped) ∧ (sliceRun env h n w).2.1.stack = u.stack) := by
  induction n generalizing w with
  | zero => exact .inr (.inl ⟨nofun, hs⟩)
  | succ k ih =>
    rw [sliceRun_succ]
    have hA := inspect_step env h u w hu htr hw
    have hB := inspect_step_stack env h code u w hd htr hw hs
    rcases hx : (step env h).run.run w with ⟨r, w'⟩
    rw [hx] at hA hB
    dsimp only at hA hB
    rcases r with e | st
    · exact .inl ⟨e, rfl⟩
    · cases st with
      | «continue» =>
        dsimp only
        have hw' : InDirect u w' := by
          rcases hA with ⟨h1, -⟩ | ⟨-, -, h3, -⟩
          · exact h1
          · cases h3
        have hs' : StackInv code u w' := by
          rcases hB with ⟨e, he⟩ | ⟨-, h2⟩ | ⟨h1, -⟩
          · cases he
          · exact h2
          · cases h1
        rcases ih w' hw' hs' with ⟨e, he⟩ | ⟨h1, h2⟩ | ⟨h1, h2⟩
        · exact .inl ⟨e, he⟩
        · exact .inr (.inl ⟨h1, h2⟩)
        · exact .inr (.inr ⟨h1, h2⟩)
      | event ev =>
        dsimp only
        rcases hB with ⟨e, he⟩ | ⟨h1, h2⟩ | ⟨h1, h2⟩
        · cases he
        · refine .inr (.inl ⟨?_, h2⟩)
          intro hh
          apply h1
          cases hh
          rfl
        · cases h1
          exact .inr (.inr ⟨rfl, h2⟩)

/-- one call of `execute` while a balanced line runs -/
theorem inspect_execute_running_stack (env : Env) (n : Nat) (code : Array Opcode) (u w : Runtime)
    (hu : DirectHarmless u) (hd : HasDirect code u) (htr : u.tron = false)
    (hde : u.listing.directErrors = []) (hu0 : u.entryAddress ≠ 0)
    (hw : InDirect u w) (hs : StackInv code u w) :
    (InDirect u (execute env w n).1 ∧ StackInv code u (execute env w n).1) ∨
    (AtPrompt u (execute env w n).1 ∧ (execute env w n).1.stack = u.stack) ∨
    Failed (execute env w n).1 := by
  have hA := inspect_execute_running env n u w hu htr hde hu0 hw
  have hB := inspect_slice_stack env (hasIndirectErrors w) n code u w hu hd htr hw hs
  have hC := inspect_slice env (hasIndirectErrors w) n u w hu htr hw
  rw [execute_running env w n hw.state (by rw [hw.kept.listing]; exact hde), executeLoop_run] at hA ⊢
  unfold slice at hA ⊢
  generalize sliceRun env (hasIndirectErrors w) n w = x at hA hB hC ⊢
  rcases x with ⟨r, w', c⟩
  dsimp only at hA hB hC ⊢
  rcases r with e | o
  · -- error
    right; right
    rcases hA with h | h | h
    · exfalso
      have := h.state
      unfold finishLoop at this
      dsimp only [toEvent] at this
      rcases hC with ⟨h1, -⟩ | ⟨-, -, h3, -⟩
      · rw [if_neg (by rw [h1.state]; nofun)] at this
        dsimp only at this
        split at this <;> cases this
      · cases h3
    · exfalso
      have := h.state
      unfold finishLoop at this
      dsimp only [toEvent] at this
      rcases hC with ⟨h1, -⟩ | ⟨-, -, h3, -⟩
      · rw [if_neg (by rw [h1.state]; nofun)] at this
        dsimp only at this
        split at this <;> cases this
      · cases h3
    · exact h
  · rcases hC with ⟨h1, h2⟩ | ⟨h1, h2, h3, h4⟩
    · -- still running: `finishLoop` passes the state on
      have hfin : (finishLoop (toEvent (.ok o)) w').1 = w' := by
        unfold finishLoop
        cases o with
        | none =>
          dsimp only [toEvent]
          split
          · rename_i hq; cases hq
          · rfl
        | some ev =>
          dsimp only [toEvent]
          split
          · rename_i hq; rw [h1.state] at hq; cases hq
          · rfl
      rw [hfin]
      left
      refine ⟨h1, ?_⟩
      rcases hB with ⟨e, he⟩ | ⟨-, hb⟩ | ⟨hb, -⟩
      · cases he
      · exact hb
      · exact absurd hb h2
    · -- the line ended: READY is printed, the stack stays
      injection h3 with h3
      subst h3
      right; left
      have hfin : (finishLoop (toEvent (.ok (some .stopped))) w').1 = { w' with entryAddress := 0, printCol := 0 } := by
        unfold finishLoop readyPrompt
        dsimp only [toEvent]
        rw [h2, if_pos (by rw [h4]; exact hu0)]
      rw [hfin]
      refine ⟨⟨⟨h1.cont, h1.contPc, h1.vars, h1.functions, h1.program, h1.listing, h1.dirty, h1.tron, h1.prompt,
        h1.rand⟩, h2, rfl⟩, ?_⟩
      rcases hB with ⟨e, he⟩ | ⟨hb, -⟩ | ⟨-, hb⟩
      · cases he
      · exact absurd rfl hb
      · exact hb

theorem inspect_execute_stopped_stack (env : Env) (n : Nat) (u w : Runtime) (hw : AtPrompt u w) :
    (execute env w n).1.stack = w.stack := by
  by_cases he : w.entryAddress = 0
  · rw [execute_stopped env w n hw.state he]
  · rw [execute_stopped_prompt env w n hw.state he]

/-- `inspect_execList` for a balanced line: while it runs the stack is the one it found plus its
    own operands, and at the prompt afterwards the one it found -/
theorem inspect_execList_stack (env : Env) (qs : List Nat) (code : Array Opcode) (u w : Runtime)
    (hu : DirectHarmless u) (hd : HasDirect code u)
    (htr : u.tron = false) (hde : u.listing.directErrors = []) (hu0 : u.entryAddress ≠ 0)
    (hw : (InDirect u w ∧ StackInv code u w) ∨ (AtPrompt u w ∧ w.stack = u.stack)) :
    ((InDirect u (execList env qs w).1 ∧ StackInv code u (execList env qs w).1) ∨
      (AtPrompt u (execList env qs w).1 ∧ (execList env qs w).1.stack = u.stack)) ∨
    ∃ k, k ≤ qs.length ∧ Failed (execList env (qs.take k) w).1 := by
  induction qs generalizing w with
  | nil => exact .inl hw
  | cons q qs ih =>
    have step : ((InDirect u (execute env w q).1 ∧ StackInv code u (execute env w q).1) ∨
        (AtPrompt u (execute env w q).1 ∧ (execute env w q).1.stack = u.stack)) ∨ Failed (execute env w q).1 := by
      rcases hw with ⟨hw, hs⟩ | ⟨hw, hs⟩
      · rcases inspect_execute_running_stack env q code u w hu hd htr hde hu0 hw hs with h | h | h
        · exact .inl (.inl h)
        · exact .inl (.inr h)
        · exact .inr h
      · exact .inl (.inr ⟨inspect_execute_stopped env q u w hw,
          (inspect_execute_stopped_stack env q u w hw).trans hs⟩)
    rw [execList_cons]
    dsimp only
    rcases step with h | h
    · rcases ih (execute env w q).1 h with h' | ⟨k, hk, hf⟩
      · exact .inl h'
      · refine .inr ⟨k + 1, by simp only [List.length_cons]; omega, ?_⟩
        rw [List.take_succ_cons, execList_cons]
        exact hf
    · refine .inr ⟨1, by simp only [List.length_cons]; omega, ?_⟩
      rw [List.take_succ_cons, List.take_zero, execList_cons, execList_nil]
      exact h

/-- the inspection line starts at its first instruction, and its direct code is `code; End` -/
theorem inspect_start_direct (s : Runtime) (ea : Nat) (line : Line) (code : Array Opcode)
    (hp : Program.PlainLine line code)
    (hd : s.dirty = false) (hl : Program.Linked s.program)
    (hsize : s.program.directAddress + code.size + 2 ≤ Gen.stackMaxLen)
    (hdata : s.program.link.data.size ≤ Gen.stackMaxLen) :
    let u := enterDirect (broken s ea) line
    u.pc = u.entryAddress ∧ HasDirect code u := by
  intro u
  obtain ⟨P, hP0, hu⟩ := enterDirect_plain (broken s ea) line code hp hd hl hsize hdata
  have hP : Program.DirectOf s.program code P := hP0
  have hu' : u = _ := hu
  rw [hu']
  exact ⟨rfl, ⟨hP.direct, hP.end⟩⟩

end Runtime
end Basic
