import BasicModel.Model.Program
/-
  The compiler never reads or writes the DATA cursor (`Link.dataPos`): every function of
  `Link` / `Codegen` / `Program` used by a compile commutes with setting it.  Consequence:
  compiling a listing into a cleared program (`Program.clear` keeps the cursor) and into a fresh
  program give the same result up to the cursor.
-/
namespace Basic

def Link.withDP (l : Link) (d : Nat) : Link := { l with dataPos := d }
def Program.withDP (p : Program) (d : Nat) : Program := { p with link := p.link.withDP d }

namespace Link

theorem push_withDP (l : Link) (d : Nat) (op : Opcode) :
    (l.withDP d).push op = ((l.push op).1.withDP d, (l.push op).2) := rfl

theorem pushSymbol_withDP (l : Link) (d : Nat) (sym : Symbol) :
    (l.withDP d).pushSymbol sym = (l.pushSymbol sym).withDP d := rfl

theorem lineNumberFor_withDP (l : Link) (d : Nat) (a : Nat) :
    (l.withDP d).lineNumberFor a = l.lineNumberFor a := rfl

theorem setStartOfDirect_withDP (l : Link) (d : Nat) (a : Nat) :
    (l.withDP d).setStartOfDirect a = (l.setStartOfDirect a).withDP d := rfl

theorem append_withDP (l : Link) (d : Nat) (f : Link) :
    (l.withDP d).append f = ((l.append f).1.withDP d, (l.append f).2) := by
  unfold append
  by_cases h1 : (l.directSet && !f.data.isEmpty) = true
  · simp only [withDP, h1, if_true]
  · simp only [withDP, h1, Bool.false_eq_true, if_false]
    by_cases h2 : (l.ops ++ f.ops).size > Gen.stackMaxLen
    · simp only [h2, if_true]
    · simp only [h2, if_false]; rfl

theorem linkWhiles_go_withDP (l : Link) (d : Nat) :
    ∀ ws stack unl errs, linkWhiles.go (l.withDP d) ws stack unl errs = linkWhiles.go l ws stack unl errs := by
  intro ws
  induction ws with
  | nil => intro stack unl errs; rfl
  | cons w rest ih =>
    intro stack unl errs
    rcases w with ⟨k, c, a, s⟩
    cases k with
    | true => exact ih _ _ _
    | false =>
      cases stack with
      | nil => exact ih _ _ _
      | cons top st =>
        rcases top with ⟨wc, wa, ws'⟩
        exact ih _ _ _

theorem linkWhiles_withDP (l : Link) (d : Nat) :
    (l.withDP d).linkWhiles = ((l.linkWhiles).1.withDP d, (l.linkWhiles).2) := by
  unfold linkWhiles
  rw [show (l.withDP d).whiles = l.whiles from rfl, show (l.withDP d).unlinked = l.unlinked from rfl,
    linkWhiles_go_withDP]
  rfl

theorem linkOne_withDP (l : Link) (d : Nat) (a : Nat) (c : Col) (sym : Symbol) :
    (l.withDP d).linkOne a c sym = ((l.linkOne a c sym).1.withDP d, (l.linkOne a c sym).2) := by
  unfold linkOne
  rw [show (l.withDP d).symbols = l.symbols from rfl, show (l.withDP d).ops = l.ops from rfl]
  cases l.symbols.lookup sym with
  | none =>
    dsimp only
    split <;> rfl
  | some v =>
    rcases v with ⟨od, dd⟩
    dsimp only
    split <;> rfl

theorem foldl_withDP {X : Type} (d : Nat) (F : Link × List Error → X → Link × List Error)
    (hF : ∀ l errs x, F (l.withDP d, errs) x = ((F (l, errs) x).1.withDP d, (F (l, errs) x).2))
    (xs : List X) : ∀ (l : Link) (errs : List Error),
      xs.foldl F (l.withDP d, errs) = ((xs.foldl F (l, errs)).1.withDP d, (xs.foldl F (l, errs)).2) := by
  induction xs with
  | nil => intro l errs; rfl
  | cons x rest ih =>
    intro l errs
    simp only [List.foldl_cons]
    rw [hF, ih]

theorem link_withDP (l : Link) (d : Nat) :
    (l.withDP d).link = ((l.link).1.withDP d, (l.link).2) := by
  unfold link
  rw [linkWhiles_withDP]
  rcases l.linkWhiles with ⟨l1, errs1⟩
  dsimp only
  rw [show (l1.withDP d).unlinked = l1.unlinked from rfl,
    show ({ l1.withDP d with unlinked := [] } : Link) = ({ l1 with unlinked := [] } : Link).withDP d from rfl,
    foldl_withDP]
  · rfl
  · intro l errs x
    rcases x with ⟨a, c, s⟩
    dsimp only
    rw [linkOne_withDP]
    rcases linkOne l a c s with ⟨l', o⟩
    cases o <;> rfl

end Link

namespace Codegen

theorem appendAll_withDP (d : Nat) (frags : List (Col × Link)) :
    ∀ (l : Link) (errs : List Error),
      codegen.appendAll frags (l.withDP d) errs =
        ((codegen.appendAll frags l errs).1.withDP d, (codegen.appendAll frags l errs).2) := by
  induction frags with
  | nil => intro l errs; rfl
  | cons f rest ih =>
    intro l errs
    rcases f with ⟨c, f⟩
    unfold codegen.appendAll
    rw [Link.append_withDP]
    rcases l.append f with ⟨l', r⟩
    cases r with
    | error e => rfl
    | ok u => exact ih l' errs

theorem codegen_withDP (l : Link) (d : Nat) (ast : List Stmt) :
    codegen (l.withDP d) ast = ((codegen l ast).1.withDP d, (codegen l ast).2) := by
  unfold codegen
  exact appendAll_withDP d _ l _

end Codegen

namespace Program

/-- `linkProg`, stage 1: make sure the code ends with `End` -/
def pushEndP (p : Program) : Program :=
  let (l, r) := p.link.push .end
  match r with
  | .ok () => { p with link := l }
  | .error e => { p with link := l, errors := p.errors ++ [e] }

def ensureEnd (p : Program) : Program :=
  match p.link.ops.back? with
    | some .end => if p.link.hasLineAtEnd then pushEndP p else p
    | _ => pushEndP p

/-- stage 2: resolve the pending references -/
def resolve (p : Program) : Program :=
  let (l, linkErrs) := p.link.link
  let p := { p with link := l }
  if p.errors.isEmpty then { p with errors := linkErrs } else p

/-- stage 3: the first link after the indirect lines fixes the start of direct code -/
def markDirect (p : Program) : Program :=
  if p.directAddress = 0 then
    { p with indirectErrors := p.errors, errors := [], directAddress := p.link.ops.size,
             link := p.link.setStartOfDirect p.link.ops.size }
  else p

theorem linkProg_eq (p : Program) : p.linkProg = markDirect (resolve (ensureEnd p)) := rfl

theorem pushEndP_withDP (p : Program) (d : Nat) : pushEndP (p.withDP d) = (pushEndP p).withDP d := by
  unfold pushEndP
  rw [show (p.withDP d).link = p.link.withDP d from rfl, Link.push_withDP]
  dsimp only
  split <;> rfl

theorem ensureEnd_withDP (p : Program) (d : Nat) : ensureEnd (p.withDP d) = (ensureEnd p).withDP d := by
  unfold ensureEnd
  rw [show (p.withDP d).link.ops = p.link.ops from rfl,
    show (p.withDP d).link.hasLineAtEnd = p.link.hasLineAtEnd from rfl]
  split
  · split
    · exact pushEndP_withDP p d
    · rfl
  · exact pushEndP_withDP p d

theorem resolve_withDP (p : Program) (d : Nat) : resolve (p.withDP d) = (resolve p).withDP d := by
  unfold resolve
  rw [show (p.withDP d).link = p.link.withDP d from rfl, Link.link_withDP]
  dsimp only
  rw [show (p.withDP d).errors = p.errors from rfl]
  split <;> rfl

theorem markDirect_withDP (p : Program) (d : Nat) : markDirect (p.withDP d) = (markDirect p).withDP d := by
  unfold markDirect
  rw [show (p.withDP d).directAddress = p.directAddress from rfl]
  split <;> rfl

theorem linkProg_withDP (p : Program) (d : Nat) : (p.withDP d).linkProg = (p.linkProg).withDP d := by
  rw [linkProg_eq, linkProg_eq, ensureEnd_withDP, resolve_withDP, markDirect_withDP]

theorem codegenLine_withDP (p : Program) (d : Nat) (line : Line) :
    (p.withDP d).codegenLine line = (p.codegenLine line).withDP d := by
  unfold codegenLine
  -- stage 1: link first if the line is a direct one
  have h1 : (if line.number.isNone then (p.withDP d).linkProg else p.withDP d) =
      (if line.number.isNone then p.linkProg else p).withDP d := by
    split
    · exact linkProg_withDP p d
    · rfl
  rw [h1]
  generalize (if line.number.isNone then p.linkProg else p) = q
  cases hn : line.number with
  | some n =>
    dsimp only
    cases Parse.parse (some n) line.tokens with
    | error e => rfl
    | ok ast =>
      dsimp only
      rw [show (q.withDP d).link.pushSymbol n = (q.link.pushSymbol n).withDP d from rfl,
        Codegen.codegen_withDP]
      rfl
  | none =>
    dsimp only
    cases Parse.parse none line.tokens with
    | error e => rfl
    | ok ast =>
      dsimp only
      rw [show ({ (q.withDP d).link with ops := (q.withDP d).link.ops.extract 0 (q.withDP d).directAddress } : Link)
            = ({ q.link with ops := q.link.ops.extract 0 q.directAddress } : Link).withDP d from rfl,
        Codegen.codegen_withDP]
      generalize Codegen.codegen ({ q.link with ops := q.link.ops.extract 0 q.directAddress } : Link) ast = cg
      rcases cg with ⟨cl, ce⟩
      dsimp only
      rw [Link.push_withDP]
      dsimp only
      cases (cl.push Opcode.end).2 <;> rfl

theorem codegenLines_withDP (p : Program) (d : Nat) (lines : List Line) :
    (p.withDP d).codegenLines lines = (p.codegenLines lines).withDP d := by
  unfold codegenLines
  induction lines generalizing p with
  | nil => rfl
  | cons l ls ih => simp only [List.foldl_cons]; rw [codegenLine_withDP, ih]

/-- `Program.clear` keeps only the data cursor and the WHILE list of the old link -/
theorem clear_eq_withDP (p : Program) (hw : p.link.whiles = []) :
    p.clear = ({} : Program).withDP p.link.dataPos := by
  unfold clear Link.clear withDP Link.withDP
  rw [hw]

/-- compiling into a cleared program = compiling into a fresh one, up to the data cursor -/
theorem clear_codegenLines (p : Program) (hw : p.link.whiles = []) (lines : List Line) :
    (p.clear).codegenLines lines = (({} : Program).codegenLines lines).withDP p.link.dataPos := by
  rw [clear_eq_withDP p hw, codegenLines_withDP]

/-- a compile from scratch leaves the data cursor at 0 -/
theorem fresh_dataPos (lines : List Line) (line : Line) :
    (({} : Program).codegenLines lines).link.dataPos = 0 ∧
    ((({} : Program).codegenLines lines).codegenLine line).linkProg.link.dataPos = 0 := by
  have h1 := codegenLines_withDP {} 0 lines
  have h2 := codegenLine_withDP (({} : Program).codegenLines lines) 0 line
  have h3 := linkProg_withDP ((({} : Program).codegenLines lines).codegenLine line) 0
  rw [show ({} : Program).withDP 0 = {} from rfl] at h1
  rw [← h1] at h2
  rw [← h2] at h3
  exact ⟨by rw [h1]; rfl, by rw [h3]; rfl⟩

end Program

namespace Link

theorem linkOne_whiles (l : Link) (a : Nat) (c : Col) (sym : Symbol) :
    (l.linkOne a c sym).1.whiles = l.whiles := by
  unfold linkOne
  cases l.symbols.lookup sym with
  | none => dsimp only; split <;> rfl
  | some v => rcases v with ⟨od, dd⟩; dsimp only; split <;> rfl

theorem link_whiles (l : Link) : (l.link).1.whiles = [] := by
  unfold link
  have hw : (l.linkWhiles).1.whiles = [] := by
    unfold linkWhiles
    rfl
  generalize l.linkWhiles = lw at hw ⊢
  rcases lw with ⟨l1, errs1⟩
  dsimp only at hw ⊢
  have key : ∀ (pending : List (Nat × (Col × Symbol))) (le : Link × List Error),
      (pending.foldl (fun (x : Link × List Error) (y : Nat × (Col × Symbol)) =>
        match x, y with
        | (l, errs), (a, (c, s)) =>
          match linkOne l a c s with
          | (l, some e) => (l, errs ++ [e])
          | (l, none) => (l, errs)) le).1.whiles = le.1.whiles := by
    intro pending
    induction pending with
    | nil => intro le; rfl
    | cons y rest ih =>
      intro le
      rcases le with ⟨l, errs⟩
      rcases y with ⟨a, c, s⟩
      simp only [List.foldl_cons]
      rw [ih]
      have := linkOne_whiles l a c s
      generalize linkOne l a c s = lo at this ⊢
      rcases lo with ⟨l', o⟩
      cases o <;> exact this
  exact (key _ _).trans hw

end Link

namespace Program

/-- after `linkProg` no WHILE is pending: the hypothesis of `clear_codegenLines` holds for every
    program the runtime holds after `enterDirect` -/
theorem linkProg_whiles (p : Program) : (p.linkProg).link.whiles = [] := by
  rw [linkProg_eq]
  have h2 : (resolve (ensureEnd p)).link.whiles = [] := by
    unfold resolve
    have := Link.link_whiles (ensureEnd p).link
    generalize (ensureEnd p).link.link = ll at this ⊢
    rcases ll with ⟨l, es⟩
    dsimp only at this ⊢
    split <;> exact this
  unfold markDirect
  split
  · exact h2
  · exact h2

end Program
end Basic
