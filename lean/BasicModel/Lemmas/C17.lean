import BasicModel.Model.Runtime
/-
  Helper lemmas for C17 (INPUT replies):

  * `splitFields` — the local `split` of `Runtime.doInputReply` as a top-level definition, and
    `splitOutside`, an accumulator-free specification of "split at commas outside double quotes";
  * `run_*` — how the primitive `RM` actions (`pure`, `get`, `set`, `modify`, `throw`, `>>=`,
    `push`, `pop`) act on an explicit `Runtime`;
  * the `for … do push …` loop on a list when the stack has room;
  * the unwinding loop of `Runtime.execute`.
-/
namespace Basic
namespace Lemmas.C17
open Basic.Runtime

/-! ### the field splitter -/

/-- `Runtime.doInputReply.split`, restated at top level -/
def splitFields : Str → Bool → Str → List Str → List Str
  | [], _, cur, acc => acc ++ [cur.reverse]
  | c :: cs, inq, cur, acc =>
    if c = '"' then splitFields cs (!inq) (c :: cur) acc
    else if c = ',' && !inq then splitFields cs inq [] (acc ++ [cur.reverse])
    else splitFields cs inq (c :: cur) acc

theorem split_eq_splitFields : Runtime.doInputReply.split = splitFields := by
  funext r inq cur acc
  induction r generalizing inq cur acc with
  | nil => simp only [Runtime.doInputReply.split, splitFields]
  | cons c cs ih => simp only [Runtime.doInputReply.split, splitFields, ih]

/-- put a character in front of the first field -/
def consHead (c : Char) : List Str → List Str
  | [] => [[c]]
  | h :: t => (c :: h) :: t

/-- put a prefix in front of the first field -/
def appHead (p : Str) : List Str → List Str
  | [] => [p]
  | h :: t => (p ++ h) :: t

/-- Specification: the fields of a reply, split at the commas that are outside double quotes
    (`inq` = "currently inside quotes"); quotes are kept in the fields. -/
def splitOutside : Str → Bool → List Str
  | [], _ => [[]]
  | c :: cs, inq =>
    if c = '"' then consHead c (splitOutside cs (!inq))
    else if c = ',' && !inq then [] :: splitOutside cs inq
    else consHead c (splitOutside cs inq)

/-- number of commas outside double quotes -/
def commasOutside : Str → Bool → Nat
  | [], _ => 0
  | c :: cs, inq =>
    if c = '"' then commasOutside cs (!inq)
    else if c = ',' && !inq then 1 + commasOutside cs inq
    else commasOutside cs inq

theorem consHead_ne_nil (c : Char) (l : List Str) : consHead c l ≠ [] := by
  cases l <;> simp [consHead]

theorem splitOutside_ne_nil (r : Str) (inq : Bool) : splitOutside r inq ≠ [] := by
  cases r with
  | nil => simp [splitOutside]
  | cons c cs =>
    simp only [splitOutside]
    split
    · exact consHead_ne_nil _ _
    · split
      · simp
      · exact consHead_ne_nil _ _

theorem appHead_snoc (p : Str) (c : Char) (l : List Str) :
    appHead (p ++ [c]) l = appHead p (consHead c l) := by
  cases l <;> simp [appHead, consHead]

theorem appHead_nil {l : List Str} (h : l ≠ []) : appHead [] l = l := by
  cases l with
  | nil => exact absurd rfl h
  | cons a t => simp [appHead]

/-- the accumulator version in terms of the specification -/
theorem splitFields_eq (r : Str) (inq : Bool) (cur : Str) (acc : List Str) :
    splitFields r inq cur acc = acc ++ appHead cur.reverse (splitOutside r inq) := by
  induction r generalizing inq cur acc with
  | nil => simp [splitFields, splitOutside, appHead]
  | cons c cs ih =>
    simp only [splitFields, splitOutside]
    split
    · rw [ih, List.reverse_cons, appHead_snoc]
    · split
      · rw [ih, List.reverse_nil, appHead_nil (splitOutside_ne_nil _ _)]
        simp [appHead]
      · rw [ih, List.reverse_cons, appHead_snoc]

theorem splitFields_spec (r : Str) : splitFields r false [] [] = splitOutside r false := by
  rw [splitFields_eq, List.reverse_nil, appHead_nil (splitOutside_ne_nil _ _)]; rfl

/-- joining with single commas -/
def joinC : List Str → Str
  | [] => []
  | [a] => a
  | a :: b :: t => a ++ ',' :: joinC (b :: t)

theorem intercalate_eq_joinC (l : List Str) : List.intercalate [','] l = joinC l := by
  induction l with
  | nil => rfl
  | cons a t ih =>
    cases t with
    | nil => simp [List.intercalate, joinC]
    | cons b t' =>
      have : List.intercalate [','] (a :: b :: t') = a ++ ',' :: List.intercalate [','] (b :: t') := by
        simp [List.intercalate]
      rw [this, ih, joinC]

theorem joinC_consHead (c : Char) {l : List Str} (h : l ≠ []) : joinC (consHead c l) = c :: joinC l := by
  cases l with
  | nil => exact absurd rfl h
  | cons a t => cases t <;> simp [consHead, joinC]

theorem joinC_splitOutside (r : Str) (inq : Bool) : joinC (splitOutside r inq) = r := by
  induction r generalizing inq with
  | nil => rfl
  | cons c cs ih =>
    simp only [splitOutside]
    split
    · rw [joinC_consHead _ (splitOutside_ne_nil _ _), ih]
    · split
      · rename_i h
        have hc : c = ',' := by
          simp only [Bool.and_eq_true, decide_eq_true_eq] at h; exact h.1
        cases hs : splitOutside cs inq with
        | nil => exact absurd hs (splitOutside_ne_nil _ _)
        | cons a t => rw [joinC, ← hs, ih, hc]; rfl
      · rw [joinC_consHead _ (splitOutside_ne_nil _ _), ih]

theorem length_consHead (c : Char) {l : List Str} (h : l ≠ []) : (consHead c l).length = l.length := by
  cases l with
  | nil => exact absurd rfl h
  | cons a t => rfl

theorem length_splitOutside (r : Str) (inq : Bool) :
    (splitOutside r inq).length = 1 + commasOutside r inq := by
  induction r generalizing inq with
  | nil => rfl
  | cons c cs ih =>
    simp only [splitOutside, commasOutside]
    split
    · rw [length_consHead _ (splitOutside_ne_nil _ _), ih]
    · split
      · rw [List.length_cons, ih]; omega
      · rw [length_consHead _ (splitOutside_ne_nil _ _), ih]

theorem mem_consHead {c : Char} {l : List Str} {f : Str} (h : f ∈ consHead c l) :
    (∃ g, f = c :: g ∧ (g ∈ l ∨ (l = [] ∧ g = []))) ∨ f ∈ l := by
  cases l with
  | nil =>
    simp only [consHead, List.mem_singleton] at h
    exact .inl ⟨[], h, .inr ⟨rfl, rfl⟩⟩
  | cons a t =>
    simp only [consHead, List.mem_cons] at h
    rcases h with h | h
    · exact .inl ⟨a, h, .inl (List.mem_cons_self ..)⟩
    · exact .inr (List.mem_cons_of_mem _ h)

theorem splitOutside_no_quotes (r : Str) (hq : '"' ∉ r) :
    ∀ f ∈ splitOutside r false, ',' ∉ f := by
  induction r with
  | nil => intro f hf; simp [splitOutside] at hf; simp [hf]
  | cons c cs ih =>
    have hc : c ≠ '"' := fun h => hq (h ▸ List.mem_cons_self ..)
    have hcs : '"' ∉ cs := fun h => hq (List.mem_cons_of_mem _ h)
    have ih := ih hcs
    intro f hf
    simp only [splitOutside, hc, if_false, Bool.not_false, Bool.and_true, decide_eq_true_eq] at hf
    split at hf
    · rcases List.mem_cons.1 hf with h | h
      · simp [h]
      · exact ih f h
    · rename_i hcomma
      rcases mem_consHead hf with ⟨g, hfg, hg⟩ | h
      · rcases hg with hg | ⟨hnil, _⟩
        · intro hmem
          rw [hfg] at hmem
          rcases List.mem_cons.1 hmem with h | h
          · exact hcomma h.symm
          · exact ih g hg h
        · exact absurd hnil (splitOutside_ne_nil _ _)
      · exact ih f h

theorem commasOutside_no_quotes (r : Str) (hq : '"' ∉ r) : commasOutside r false = r.count ',' := by
  induction r with
  | nil => rfl
  | cons c cs ih =>
    have hc : c ≠ '"' := fun h => hq (h ▸ List.mem_cons_self ..)
    have hcs : '"' ∉ cs := fun h => hq (List.mem_cons_of_mem _ h)
    simp only [commasOutside, hc, if_false, Bool.not_false, Bool.and_true, decide_eq_true_eq, ih hcs,
      List.count_cons]
    by_cases h : c = ','
    · simp [h]; omega
    · simp [h]

theorem joinC_appHead (p : Str) {l : List Str} (h : l ≠ []) : joinC (appHead p l) = p ++ joinC l := by
  cases l with
  | nil => exact absurd rfl h
  | cons a t => cases t <;> simp [appHead, joinC]

/-- only the join of a non-empty tail matters -/
theorem joinC_append (acc : List Str) {l : List Str} (h : l ≠ []) :
    joinC (acc ++ l) = joinC (acc ++ [joinC l]) := by
  induction acc with
  | nil => simp [joinC]
  | cons a t ih =>
    cases hl : t ++ l with
    | nil => simp_all
    | cons b u =>
      cases hl' : t ++ [joinC l] with
      | nil => simp at hl'
      | cons b' u' =>
        rw [List.cons_append, List.cons_append, hl, hl', joinC, joinC, ← hl, ← hl', ih]

/-- generalised join law, over the accumulators -/
theorem joinC_splitFields (r : Str) (inq : Bool) (cur : Str) (acc : List Str) :
    joinC (splitFields r inq cur acc) = joinC (acc ++ [cur.reverse ++ r]) := by
  rw [splitFields_eq, joinC_append _ (by cases h : splitOutside r inq <;> simp [appHead]),
    joinC_appHead _ (splitOutside_ne_nil _ _), joinC_splitOutside]

/-! ### the `RM` monad on an explicit state -/

theorem run_bind {α β} (x : RM α) (f : α → RM β) (s : Runtime) :
    ((x >>= f).run).run s =
      match (x.run).run s with
      | (.ok a, s') => ((f a).run).run s'
      | (.error e, s') => (.error e, s') := by
  simp only [ExceptT.run_bind, StateT.run_bind]
  rcases (x.run).run s with ⟨r, s'⟩
  cases r <;> rfl

theorem run_pure {α} (a : α) (s : Runtime) : ((pure a : RM α).run).run s = (.ok a, s) := rfl
theorem run_get (s : Runtime) : ((get : RM Runtime).run).run s = (.ok s, s) := rfl
theorem run_set (s' s : Runtime) : ((set s' : RM PUnit).run).run s = (.ok ⟨⟩, s') := rfl
theorem run_modify (f : Runtime → Runtime) (s : Runtime) :
    ((modify f : RM PUnit).run).run s = (.ok ⟨⟩, f s) := rfl
theorem run_throw {α} (e : Error) (s : Runtime) : ((throw e : RM α).run).run s = (.error e, s) := rfl

theorem run_push (v : Val) (s : Runtime) :
    ((push v).run).run s =
      if s.stack.size + 1 > Gen.stackMaxLen then
        (.error stackOverflow, { s with stack := s.stack.push v })
      else (.ok (), { s with stack := s.stack.push v }) := by
  simp only [push, run_bind, run_modify, run_get, Array.size_push]
  split <;> rfl

theorem run_push_room (v : Val) (s : Runtime) (h : s.stack.size + 1 ≤ Gen.stackMaxLen) :
    ((push v).run).run s = (.ok (), { s with stack := s.stack.push v }) := by
  rw [run_push, if_neg (by omega)]

theorem run_pop_push (v : Val) (st : Array Val) (s : Runtime) (h : s.stack = st.push v) :
    ((pop).run).run s = (.ok v, { s with stack := st }) := by
  simp only [pop, run_bind, run_get, h, Array.back?_push, run_set, run_pure, Array.pop_push]

theorem run_pop_empty (s : Runtime) (h : s.stack = #[]) :
    ((pop).run).run s = (.error underflow, s) := by
  simp only [pop, run_bind, run_get, h, Array.back?_empty, run_throw]

/-- the `for a in l do push (g a)` loop, when everything fits: all values are pushed in order -/
theorem run_pushLoop {α} (g : α → Val) (l : List α) (s : Runtime)
    (h : s.stack.size + l.length ≤ Gen.stackMaxLen) :
    ((forIn l PUnit.unit (fun a _ => do push (g a); pure (ForInStep.yield PUnit.unit)) : RM PUnit).run).run s =
      (.ok ⟨⟩, { s with stack := s.stack ++ (l.map g).toArray }) := by
  induction l generalizing s with
  | nil => rw [List.forIn_nil, run_pure]; simp
  | cons a t ih =>
    simp only [List.length_cons] at h
    rw [List.forIn_cons, run_bind, run_bind, run_push_room _ _ (by omega)]
    simp only [run_pure]
    rw [ih _ (by simp only [Array.size_push]; omega)]
    simp

/-- the acceptance block of `doInputReply`: `ret pc`, then the fields last-to-first -/
theorem run_accept (s : Runtime) (fs : List Str)
    (hroom : s.stack.size + 1 + fs.length ≤ Gen.stackMaxLen) :
    (((do
        let st ← get
        push (.ret st.pc)
        for f in fs.reverse do
          push (.str f)
        modify fun s => { s with state := .inputRunning }) : RM Unit).run).run s =
      (.ok (), { s with stack := s.stack.push (.ret s.pc) ++ (fs.reverse.map Val.str).toArray,
                        state := .inputRunning }) := by
  simp only [run_bind, run_get]
  rw [run_push_room _ _ (by omega)]
  simp only []
  rw [run_pushLoop Val.str]
  · simp only [run_modify]
  · simp only [Array.size_push, List.length_reverse]; omega

/-! ### the unwinding loop of `execute` -/

theorem unwind_zero (st : Array Val) : Runtime.execute.unwind 0 st = (st, none) := by
  simp only [Runtime.execute.unwind]

theorem unwind_empty (k : Nat) : Runtime.execute.unwind k #[] = (#[], none) := by
  cases k <;> simp [Runtime.execute.unwind]

theorem unwind_push_ret (k : Nat) (st : Array Val) (a : Nat) :
    Runtime.execute.unwind (k + 1) (st.push (.ret a)) = (st, some a) := by
  simp [Runtime.execute.unwind]

theorem unwind_push_other (k : Nat) (st : Array Val) (v : Val) (hv : ∀ a, v ≠ .ret a) :
    Runtime.execute.unwind (k + 1) (st.push v) = Runtime.execute.unwind k st := by
  cases v <;> first | (exact absurd rfl (hv _)) | simp [Runtime.execute.unwind]

/-- values given top-first: unwinding pops them all and the `ret` below -/
theorem unwind_rev_to_ret (st : Array Val) (a : Nat) (ws : List Val)
    (hws : ∀ v ∈ ws, ∀ b, v ≠ .ret b) (k : Nat) (hk : ws.length + 1 ≤ k) :
    Runtime.execute.unwind k (st.push (.ret a) ++ ws.reverse.toArray) = (st, some a) := by
  induction ws generalizing k with
  | nil =>
    cases k with
    | zero => simp at hk
    | succ k => simpa using unwind_push_ret k st a
  | cons w ws ih =>
    cases k with
    | zero => simp at hk
    | succ k =>
      have : st.push (.ret a) ++ (w :: ws).reverse.toArray =
          (st.push (.ret a) ++ ws.reverse.toArray).push w := by simp
      rw [this, unwind_push_other _ _ _ (hws w (List.mem_cons_self ..))]
      exact ih (fun v hv => hws v (List.mem_cons_of_mem _ hv)) k
        (by simp only [List.length_cons] at hk; omega)

theorem unwind_rev_no_ret (ws : List Val) (hws : ∀ v ∈ ws, ∀ b, v ≠ .ret b) (k : Nat)
    (hk : ws.length ≤ k) :
    Runtime.execute.unwind k ws.reverse.toArray = (#[], none) := by
  induction ws generalizing k with
  | nil => simpa using unwind_empty k
  | cons w ws ih =>
    cases k with
    | zero => simp at hk
    | succ k =>
      have : (w :: ws).reverse.toArray = (ws.reverse.toArray).push w := by simp
      rw [this, unwind_push_other _ _ _ (hws w (List.mem_cons_self ..))]
      exact ih (fun v hv => hws v (List.mem_cons_of_mem _ hv)) k
        (by simp only [List.length_cons] at hk; omega)

end Lemmas.C17
end Basic
