import BasicModel.Lemmas.RenumRel
/-
  RENUM and the compiler, part 2: syntax trees related by a renumbering generate related fragments.

  `StmtRel φ st st'`: the same statement up to columns, every line-number operand renumbered by `φ`.
  `GR P m m' Q`: a relational Hoare triple for two runs of generator code (`GM`): from states related
  by `P` both runs succeed with results and states related by `Q`, or both fail with errors of the
  same kind (`ErrRel`) in related states.
-/
namespace Basic
namespace RenumRel
open Link Codegen

variable (φ : Nat → Nat)

/-! ### syntax trees equal up to columns -/

mutual
inductive VarRel : Variable → Variable → Prop
  | unary (c c' : Col) (i : TIdent) : VarRel (.unary c i) (.unary c' i)
  | array (c c' : Col) (i : TIdent) {es es' : List Expr} : ExprsRel es es' → VarRel (.array c i es) (.array c' i es')
inductive ExprRel : Expr → Expr → Prop
  | var {v v' : Variable} : VarRel v v' → ExprRel (.var v) (.var v')
  | single (c c' : Col) (b : UInt32) : ExprRel (.single c b) (.single c' b)
  | double (c c' : Col) (b : UInt64) : ExprRel (.double c b) (.double c' b)
  | integer (c c' : Col) (n : Int16) : ExprRel (.integer c n) (.integer c' n)
  | string (c c' : Col) (s : Str) : ExprRel (.string c s) (.string c' s)
  | neg (c c' : Col) {e e' : Expr} : ExprRel e e' → ExprRel (.neg c e) (.neg c' e')
  | not (c c' : Col) {e e' : Expr} : ExprRel e e' → ExprRel (.not c e) (.not c' e')
  | bin (op : BinOp) (c c' : Col) {l l' r r' : Expr} : ExprRel l l' → ExprRel r r' →
      ExprRel (.bin op c l r) (.bin op c' l' r')
inductive ExprsRel : List Expr → List Expr → Prop
  | nil : ExprsRel [] []
  | cons {e e' : Expr} {es es' : List Expr} : ExprRel e e' → ExprsRel es es' → ExprsRel (e :: es) (e' :: es')
end

/-- the value of a literal leaf -/
def litVal : Expr → Option Val
  | .single _ b => some (.sng b)
  | .double _ b => some (.dbl b)
  | .integer _ n => some (.int n)
  | .string _ s => some (.str s)
  | _ => none

/-- the column of a literal leaf -/
def leafCol : Expr → Col
  | .single c _ | .double c _ | .integer c _ | .string c _ => c
  | _ => (0, 0)

/-- a line-number operand (GOTO, GOSUB, THEN/ELSE n, ON lists, RESTORE n, RUN n): a literal whose line
    number `n` (as the generator reads it, `Val.toLineNumber`) has become `φ n`; or a literal that is
    no line number (the "no line" mark of a bare RESTORE / RUN, the file name of RUN "…"), unchanged -/
inductive OperandRel : Expr → Expr → Prop
  | line {e e' : Expr} {v v' : Val} {n : Nat} : litVal e = some v → litVal e' = some v' →
      v.toLineNumber = .ok (some n) → v'.toLineNumber = .ok (some (φ n)) → OperandRel e e'
  | other {e e' : Expr} {v : Val} : litVal e = some v → litVal e' = some v →
      (∀ n, v.toLineNumber ≠ .ok (some n)) → OperandRel e e'

/-- an operand of LIST / DELETE (the parser only produces valid line numbers here): renumbered, or a
    literal that stays as it is (the bounds 0 and 65529 which the parser supplies for an open range are
    not written in the source, so RENUM keeps them) -/
inductive RangeOperandRel : Expr → Expr → Prop
  | line {e e' : Expr} {v v' : Val} {n : Nat} : litVal e = some v → litVal e' = some v' →
      v.toLineNumber = .ok (some n) → v'.toLineNumber = .ok (some (φ n)) → RangeOperandRel e e'
  | kept {e e' : Expr} {v : Val} {n : Nat} : litVal e = some v → litVal e' = some v →
      v.toLineNumber = .ok (some n) → RangeOperandRel e e'

mutual
/-- the same statement up to columns, line-number operands renumbered -/
inductive StmtRel : Stmt → Stmt → Prop
  | clear (c c' : Col) : StmtRel (.clear c) (.clear c')
  | cls (c c' : Col) : StmtRel (.cls c) (.cls c')
  | cont (c c' : Col) : StmtRel (.cont c) (.cont c')
  | data (c c' : Col) {es es' : List Expr} : ExprsRel es es' → StmtRel (.data c es) (.data c' es')
  | «def» (c c' : Col) {v v' : Variable} {ps ps' : List Variable} {e e' : Expr} : VarRel v v' →
      All₂ VarRel ps ps' → ExprRel e e' → StmtRel (.def c v ps e) (.def c' v' ps' e')
  | defdbl (c c' : Col) {a a' b b' : Variable} : VarRel a a' → VarRel b b' → StmtRel (.defdbl c a b) (.defdbl c' a' b')
  | defint (c c' : Col) {a a' b b' : Variable} : VarRel a a' → VarRel b b' → StmtRel (.defint c a b) (.defint c' a' b')
  | defsng (c c' : Col) {a a' b b' : Variable} : VarRel a a' → VarRel b b' → StmtRel (.defsng c a b) (.defsng c' a' b')
  | defstr (c c' : Col) {a a' b b' : Variable} : VarRel a a' → VarRel b b' → StmtRel (.defstr c a b) (.defstr c' a' b')
  | delete (c c' : Col) {a a' b b' : Expr} : RangeOperandRel φ a a' → RangeOperandRel φ b b' →
      StmtRel (.delete c a b) (.delete c' a' b')
  | dim (c c' : Col) {vs vs' : List Variable} : All₂ VarRel vs vs' → StmtRel (.dim c vs) (.dim c' vs')
  | «end» (c c' : Col) : StmtRel (.end c) (.end c')
  | erase (c c' : Col) {vs vs' : List Variable} : All₂ VarRel vs vs' → StmtRel (.erase c vs) (.erase c' vs')
  | «for» (c c' : Col) {v v' : Variable} {a a' b b' s s' : Expr} : VarRel v v' → ExprRel a a' → ExprRel b b' →
      ExprRel s s' → StmtRel (.for c v a b s) (.for c' v' a' b' s')
  | gosub (c c' : Col) {e e' : Expr} : OperandRel φ e e' → StmtRel (.gosub c e) (.gosub c' e')
  | goto (c c' : Col) {e e' : Expr} : OperandRel φ e e' → StmtRel (.goto c e) (.goto c' e')
  | «if» (c c' : Col) {p p' : Expr} {th th' el el' : List Stmt} : ExprRel p p' → StmtsRel th th' →
      StmtsRel el el' → StmtRel (.if c p th el) (.if c' p' th' el')
  | input (c c' : Col) {e1 e1' e2 e2' : Expr} {vs vs' : List Variable} : ExprRel e1 e1' → ExprRel e2 e2' →
      All₂ VarRel vs vs' → StmtRel (.input c e1 e2 vs) (.input c' e1' e2' vs')
  | «let» (c c' : Col) {v v' : Variable} {e e' : Expr} : VarRel v v' → ExprRel e e' →
      StmtRel (.let c v e) (.let c' v' e')
  | list (c c' : Col) {a a' b b' : Expr} : RangeOperandRel φ a a' → RangeOperandRel φ b b' →
      StmtRel (.list c a b) (.list c' a' b')
  | load (c c' : Col) {e e' : Expr} : ExprRel e e' → StmtRel (.load c e) (.load c' e')
  | mid (c c' : Col) {v v' : Variable} {e1 e1' e2 e2' e3 e3' : Expr} : VarRel v v' → ExprRel e1 e1' →
      ExprRel e2 e2' → ExprRel e3 e3' → StmtRel (.mid c v e1 e2 e3) (.mid c' v' e1' e2' e3')
  | new (c c' : Col) : StmtRel (.new c) (.new c')
  | next (c c' : Col) {vs vs' : List Variable} : All₂ VarRel vs vs' → StmtRel (.next c vs) (.next c' vs')
  | onGoto (c c' : Col) {e e' : Expr} {ls ls' : List Expr} : ExprRel e e' → All₂ (OperandRel φ) ls ls' →
      StmtRel (.onGoto c e ls) (.onGoto c' e' ls')
  | onGosub (c c' : Col) {e e' : Expr} {ls ls' : List Expr} : ExprRel e e' → All₂ (OperandRel φ) ls ls' →
      StmtRel (.onGosub c e ls) (.onGosub c' e' ls')
  | print (c c' : Col) {es es' : List Expr} : ExprsRel es es' → StmtRel (.print c es) (.print c' es')
  | read (c c' : Col) {vs vs' : List Variable} : All₂ VarRel vs vs' → StmtRel (.read c vs) (.read c' vs')
  | renum (c c' : Col) {a a' b b' s s' : Expr} : ExprRel a a' → ExprRel b b' → ExprRel s s' →
      StmtRel (.renum c a b s) (.renum c' a' b' s')
  | restore (c c' : Col) {e e' : Expr} : OperandRel φ e e' → StmtRel (.restore c e) (.restore c' e')
  | «return» (c c' : Col) : StmtRel (.return c) (.return c')
  | run (c c' : Col) {e e' : Expr} : OperandRel φ e e' → StmtRel (.run c e) (.run c' e')
  | save (c c' : Col) {e e' : Expr} : ExprRel e e' → StmtRel (.save c e) (.save c' e')
  | stop (c c' : Col) : StmtRel (.stop c) (.stop c')
  | swap (c c' : Col) {a a' b b' : Variable} : VarRel a a' → VarRel b b' → StmtRel (.swap c a b) (.swap c' a' b')
  | troff (c c' : Col) : StmtRel (.troff c) (.troff c')
  | tron (c c' : Col) : StmtRel (.tron c) (.tron c')
  | wend (c c' : Col) : StmtRel (.wend c) (.wend c')
  | «while» (c c' : Col) {e e' : Expr} : ExprRel e e' → StmtRel (.while c e) (.while c' e')
inductive StmtsRel : List Stmt → List Stmt → Prop
  | nil : StmtsRel [] []
  | cons {st st' : Stmt} {sts sts' : List Stmt} : StmtRel st st' → StmtsRel sts sts' →
      StmtsRel (st :: sts) (st' :: sts')
end

variable {φ}

theorem ExprsRel.length_eq : ∀ {es es' : List Expr}, ExprsRel es es' → es'.length = es.length
  | _, _, .nil => rfl
  | _, _, .cons _ h => by simp only [List.length_cons, ExprsRel.length_eq h]

theorem StmtsRel.length_eq : ∀ {es es' : List Stmt}, StmtsRel φ es es' → es'.length = es.length
  | _, _, .nil => rfl
  | _, _, .cons _ h => by simp only [List.length_cons, StmtsRel.length_eq h]

/-! ### related generator states -/

/-- errors of the same kind: code and message; line and column are free -/
def ErrRel (e e' : Error) : Prop := e'.code = e.code ∧ e'.msg = e.msg

theorem ErrRel.refl (e : Error) : ErrRel e e := ⟨rfl, rfl⟩
theorem ErrRel.inCol {e e' : Error} (h : ErrRel e e') (a b a' b' : Nat) : ErrRel (e.inCol a b) (e'.inCol a' b') := h
theorem ErrRel.inLine {e e' : Error} (h : ErrRel e e') (a a' : Option Nat) : ErrRel (e.inLine a) (e'.inLine a') := h

variable (φ)

structure VarItemRel (v v' : VarItem) : Prop where
  name : v'.name = v.name
  argLen : v'.argLen = v.argLen
  link : FragRel φ v.link v'.link

abbrev EntryRel (x x' : Col × Link) : Prop := FragRel φ x.2 x'.2

/-- the three stacks entry by entry, and the fragment under construction -/
structure GRel (g g' : GState) : Prop where
  var : All₂ (VarItemRel φ) g.var.toList g'.var.toList
  expr : All₂ (EntryRel φ) g.expr.toList g'.expr.toList
  stmt : All₂ (EntryRel φ) g.stmt.toList g'.stmt.toList
  cur : FragRel φ g.cur g'.cur

variable {φ}

theorem GRel.empty : GRel φ {} {} := ⟨.nil, .nil, .nil, FragRel.empty⟩

theorem GRel.setCur {g g' : GState} (h : GRel φ g g') {l l' : Link} (hl : FragRel φ l l') :
    GRel φ { g with cur := l } { g' with cur := l' } := ⟨h.var, h.expr, h.stmt, hl⟩

/-! ### lists related element by element: more lemmas -/

theorem All₂.getLast? {α β : Type} {R : α → β → Prop} {xs : List α} {ys : List β} (h : All₂ R xs ys) :
    (xs.getLast? = none ∧ ys.getLast? = none) ∨ ∃ x y, xs.getLast? = some x ∧ ys.getLast? = some y ∧ R x y := by
  induction h with
  | nil => exact .inl ⟨rfl, rfl⟩
  | cons hab h0 ih =>
    cases h0 with
    | nil => exact .inr ⟨_, _, rfl, rfl, hab⟩
    | cons hab2 h2 =>
      simp only [List.getLast?_cons_cons]
      rcases ih with ⟨h1, _⟩ | h1
      · simp at h1
      · exact .inr h1

theorem All₂.dropLast {α β : Type} {R : α → β → Prop} {xs : List α} {ys : List β} (h : All₂ R xs ys) :
    All₂ R xs.dropLast ys.dropLast := by
  induction h with
  | nil => exact .nil
  | cons hab h0 ih =>
    cases h0 with
    | nil => exact .nil
    | cons hab2 h2 => simp only [List.dropLast_cons_cons]; exact .cons hab ih

theorem All₂.take {α β : Type} {R : α → β → Prop} {xs : List α} {ys : List β} (h : All₂ R xs ys) (n : Nat) :
    All₂ R (xs.take n) (ys.take n) := by
  induction h generalizing n with
  | nil => simp only [List.take_nil]; exact .nil
  | cons hab _ ih =>
    cases n with
    | zero => exact .nil
    | succ n => simp only [List.take_succ_cons]; exact .cons hab (ih n)

theorem All₂.drop {α β : Type} {R : α → β → Prop} {xs : List α} {ys : List β} (h : All₂ R xs ys) (n : Nat) :
    All₂ R (xs.drop n) (ys.drop n) := by
  induction h generalizing n with
  | nil => simp only [List.drop_nil]; exact .nil
  | cons hab h0 ih =>
    cases n with
    | zero => exact .cons hab h0
    | succ n => simp only [List.drop_succ_cons]; exact ih n

theorem All₂.push {α β : Type} {R : α → β → Prop} {xs : Array α} {ys : Array β} (h : All₂ R xs.toList ys.toList)
    {x : α} {y : β} (hxy : R x y) : All₂ R (xs.push x).toList (ys.push y).toList := by
  rw [Array.toList_push, Array.toList_push]
  exact h.append (.cons hxy .nil)

theorem All₂.size_eq {α β : Type} {R : α → β → Prop} {xs : Array α} {ys : Array β} (h : All₂ R xs.toList ys.toList) :
    ys.size = xs.size := by
  have := h.length_eq
  simpa only [Array.length_toList] using this

/-! ### relational triples -/

variable {α α' β β' : Type}

variable (φ) in
/-- the outcome of two runs -/
def Out (Q : α → α' → GState → GState → Prop) (r : Except Error α × GState) (r' : Except Error α' × GState) : Prop :=
  match r, r' with
  | (.ok a, g), (.ok a', g') => Q a a' g g'
  | (.error e, g), (.error e', g') => ErrRel e e' ∧ GRel φ g g'
  | _, _ => False

variable (φ) in
/-- `GR P m m' Q`: from `P`-related states, `m` and `m'` both succeed and `Q` relates results and
    states, or both fail with errors of the same kind and `GRel`-related states -/
structure GR (P : GState → GState → Prop) (m : GM α) (m' : GM α') (Q : α → α' → GState → GState → Prop) : Prop where
  run : ∀ g g', P g g' → Out φ Q (m.run.run g) (m'.run.run g')

variable (φ) in
/-- the usual postcondition: a relation on the results, and related states -/
def S (R : α → α' → Prop) : α → α' → GState → GState → Prop := fun a a' g g' => R a a' ∧ GRel φ g g'

variable (φ) in
/-- the usual triple -/
abbrev GRs (m : GM α) (m' : GM α') (R : α → α' → Prop) : Prop := GR φ (GRel φ) m m' (S φ R)

abbrev TT {α α' : Type} : α → α' → Prop := fun _ _ => True

theorem GR.ret {P : GState → GState → Prop} {Q : α → α' → GState → GState → Prop} {a : α} {a' : α'}
    (h : ∀ g g', P g g' → Q a a' g g') : GR φ P (pure a : GM α) (pure a' : GM α') Q :=
  ⟨fun g g' hp => h g g' hp⟩

theorem GRs.ret {R : α → α' → Prop} {a : α} {a' : α'} (h : R a a') : GRs φ (pure a : GM α) (pure a' : GM α') R :=
  GR.ret fun _ _ hg => ⟨h, hg⟩

theorem GR.thr {P : GState → GState → Prop} {Q : α → α' → GState → GState → Prop} {e e' : Error}
    (he : ErrRel e e') (h : ∀ g g', P g g' → GRel φ g g') : GR φ P (throw e : GM α) (throw e' : GM α') Q :=
  ⟨fun g g' hp => ⟨he, h g g' hp⟩⟩

theorem GRs.thr {R : α → α' → Prop} {e e' : Error} (he : ErrRel e e') :
    GRs φ (throw e : GM α) (throw e' : GM α') R := GR.thr he fun _ _ h => h

theorem GRs.lift {R : α → α → Prop} (hr : ∀ a, R a a) (r : Except Error α) : GRs φ (liftE r : GM α) (liftE r : GM α) R := by
  constructor
  intro g g' hg
  rw [g_liftE, g_liftE]
  cases r with
  | ok a => exact ⟨hr a, hg⟩
  | error e => exact ⟨ErrRel.refl e, hg⟩

theorem GR.conseq {P P' : GState → GState → Prop} {Q Q' : α → α' → GState → GState → Prop} {m : GM α} {m' : GM α'}
    (h : GR φ P m m' Q) (hp : ∀ g g', P' g g' → P g g') (hq : ∀ a a' g g', Q a a' g g' → Q' a a' g g') :
    GR φ P' m m' Q' := by
  constructor
  intro g g' hg
  have h1 := h.run g g' (hp g g' hg)
  unfold Out at h1 ⊢
  rcases hm : m.run.run g with ⟨r, g1⟩
  rcases hm' : m'.run.run g' with ⟨r', g1'⟩
  rw [hm, hm'] at h1
  cases r <;> cases r' <;> first | exact h1 | exact hq _ _ _ _ h1

theorem GRs.weaken {R R' : α → α' → Prop} {m : GM α} {m' : GM α'} (h : GRs φ m m' R) (hr : ∀ a a', R a a' → R' a a') :
    GRs φ m m' R' := h.conseq (fun _ _ h => h) fun a a' _ _ h => ⟨hr a a' h.1, h.2⟩

theorem GRs.any {R : α → α' → Prop} {m : GM α} {m' : GM α'} (h : GRs φ m m' R) : GRs φ m m' TT :=
  h.weaken fun _ _ _ => trivial

theorem GR.seq {P : GState → GState → Prop} {Q : α → α' → GState → GState → Prop}
    {Q' : β → β' → GState → GState → Prop} {m : GM α} {m' : GM α'} {f : α → GM β} {f' : α' → GM β'}
    (hm : GR φ P m m' Q) (hf : ∀ a a', GR φ (Q a a') (f a) (f' a') Q') : GR φ P (m >>= f) (m' >>= f') Q' := by
  constructor
  intro g g' hg
  have h1 := hm.run g g' hg
  rw [g_bind, g_bind]
  unfold Out at h1
  rcases h : m.run.run g with ⟨r, g1⟩
  rcases h' : m'.run.run g' with ⟨r', g1'⟩
  rw [h, h'] at h1
  cases r with
  | ok a =>
    cases r' with
    | ok a' => exact (hf a a').run g1 g1' h1
    | error e' => exact h1.elim
  | error e =>
    cases r' with
    | ok a' => exact h1.elim
    | error e' => exact h1

/-- a fact about the results can be taken out of the precondition -/
theorem GR.pre {R : Prop} {P : GState → GState → Prop} {Q : α → α' → GState → GState → Prop} {m : GM α} {m' : GM α'}
    (h : R → GR φ P m m' Q) : GR φ (fun g g' => R ∧ P g g') m m' Q :=
  ⟨fun g g' hp => (h hp.1).run g g' hp.2⟩

theorem GRs.seq {R : α → α' → Prop} {R' : β → β' → Prop} {m : GM α} {m' : GM α'} {f : α → GM β} {f' : α' → GM β'}
    (hm : GRs φ m m' R) (hf : ∀ a a', R a a' → GRs φ (f a) (f' a') R') : GRs φ (m >>= f) (m' >>= f') R' :=
  GR.seq hm fun a a' => GR.pre (hf a a')

theorem GRs.seq_any {R' : β → β' → Prop} {m : GM α} {m' : GM α'} {f : α → GM β} {f' : α' → GM β'}
    (hm : GRs φ m m' TT) (hf : ∀ a a', GRs φ (f a) (f' a') R') : GRs φ (m >>= f) (m' >>= f') R' :=
  GRs.seq hm fun a a' _ => hf a a'

theorem GRs.mod {f f' : GState → GState} (h : ∀ g g', GRel φ g g' → GRel φ (f g) (f' g')) :
    GRs φ (modify f : GM Unit) (modify f' : GM Unit) TT :=
  ⟨fun g g' hg => ⟨trivial, h g g' hg⟩⟩

/-- loops over lists related element by element; the loop variables are free -/
theorem GRs.forLoop {γ γ' : Type} {R : γ → γ' → Prop} {l : List γ} {l' : List γ'} (hl : All₂ R l l')
    (init : β) (init' : β') (f : γ → β → GM (ForInStep β)) (f' : γ' → β' → GM (ForInStep β'))
    (hf : ∀ a a' b b', R a a' → GRs φ (f a b) (f' a' b') (fun r r' => (∃ x x', r = .done x ∧ r' = .done x') ∨
      (∃ x x', r = .yield x ∧ r' = .yield x'))) :
    GRs φ (forIn l init f) (forIn l' init' f') TT := by
  induction hl generalizing init init' with
  | nil => exact GRs.ret trivial
  | cons hab _ ih =>
    rw [List.forIn_cons, List.forIn_cons]
    refine GRs.seq (hf _ _ init init' hab) ?_
    intro r r' hr
    rcases hr with ⟨x, x', rfl, rfl⟩ | ⟨x, x', rfl, rfl⟩
    · exact GRs.ret trivial
    · exact ih x x'

/-- the step relation of a loop body: both sides go on, or both stop -/
abbrev StepRel {β β' : Type} : ForInStep β → ForInStep β' → Prop := fun r r' =>
  (∃ x x', r = .done x ∧ r' = .done x') ∨ (∃ x x', r = .yield x ∧ r' = .yield x')

/-! ### the primitives -/

theorem back?_eq_getLast? {γ : Type} (a : Array γ) : a.back? = a.toList.getLast? := by
  rw [Array.back?_eq_getElem?, List.getLast?_eq_getElem?]
  simp

theorem gr_popExpr : GRs φ popExpr popExpr (EntryRel φ) := by
  constructor
  intro g g' hg
  simp only [popExpr, g_bind, g_get]
  rw [back?_eq_getLast?, back?_eq_getLast?]
  rcases hg.expr.getLast? with ⟨h1, h2⟩ | ⟨x, y, h1, h2, hxy⟩
  · rw [h1, h2]; exact ⟨ErrRel.refl _, hg⟩
  · rw [h1, h2]
    refine ⟨hxy, hg.var, ?_, hg.stmt, hg.cur⟩
    show All₂ _ g.expr.pop.toList g'.expr.pop.toList
    rw [Array.toList_pop, Array.toList_pop]
    exact hg.expr.dropLast

theorem gr_popVar : GRs φ popVar popVar (VarItemRel φ) := by
  constructor
  intro g g' hg
  simp only [popVar, g_bind, g_get]
  rw [back?_eq_getLast?, back?_eq_getLast?]
  rcases hg.var.getLast? with ⟨h1, h2⟩ | ⟨x, y, h1, h2, hxy⟩
  · rw [h1, h2]; exact ⟨ErrRel.refl _, hg⟩
  · rw [h1, h2]
    refine ⟨hxy, ?_, hg.expr, hg.stmt, hg.cur⟩
    show All₂ _ g.var.pop.toList g'.var.pop.toList
    rw [Array.toList_pop, Array.toList_pop]
    exact hg.var.dropLast

theorem all₂_extract {γ γ' : Type} {R : γ → γ' → Prop} {a : Array γ} {a' : Array γ'} (h : All₂ R a.toList a'.toList)
    (i j : Nat) : All₂ R (a.extract i j).toList (a'.extract i j).toList := by
  rw [Array.toList_extract, Array.toList_extract, List.extract_eq_take_drop, List.extract_eq_take_drop]
  exact (h.drop i).take (j - i)

theorem gr_popNExpr (n : Nat) : GRs φ (popNExpr n) (popNExpr n) (All₂ (EntryRel φ)) := by
  constructor
  intro g g' hg
  simp only [popNExpr, g_bind, g_get]
  rw [hg.expr.size_eq]
  split
  · exact ⟨ErrRel.refl _, hg⟩
  · exact ⟨all₂_extract hg.expr _ _, hg.var, all₂_extract hg.expr _ _, hg.stmt, hg.cur⟩

theorem gr_popNVar (n : Nat) : GRs φ (popNVar n) (popNVar n) (All₂ (VarItemRel φ)) := by
  constructor
  intro g g' hg
  simp only [popNVar, g_bind, g_get]
  rw [hg.var.size_eq]
  split
  · exact ⟨ErrRel.refl _, hg⟩
  · exact ⟨all₂_extract hg.var _ _, all₂_extract hg.var _ _, hg.expr, hg.stmt, hg.cur⟩

theorem gr_popNStmt (n : Nat) : GRs φ (popNStmt n) (popNStmt n) (All₂ (EntryRel φ)) := by
  constructor
  intro g g' hg
  simp only [popNStmt, g_bind, g_get]
  rw [hg.stmt.size_eq]
  split
  · exact ⟨ErrRel.refl _, hg⟩
  · exact ⟨all₂_extract hg.stmt _ _, hg.var, hg.expr, all₂_extract hg.stmt _ _, hg.cur⟩

theorem gr_lpush (op : Opcode) : GRs φ (lpush op) (lpush op) TT := by
  constructor
  intro g g' hg
  simp only [lpush, g_bind, g_get, g_set, g_liftE]
  have h := hg.cur.push op
  rw [h.2]
  cases (g.cur.push op).2 with
  | ok u => exact ⟨trivial, hg.setCur h.1⟩
  | error e => exact ⟨ErrRel.refl e, hg.setCur h.1⟩

theorem gr_lappend {f f' : Link} (hf : FragRel φ f f') : GRs φ (lappend f) (lappend f') TT := by
  constructor
  intro g g' hg
  simp only [lappend, g_bind, g_get, g_set, g_liftE]
  have h := hg.cur.append hf
  rw [h.2]
  cases (g.cur.append f).2 with
  | ok u => exact ⟨trivial, hg.setCur h.1⟩
  | error e => exact ⟨ErrRel.refl e, hg.setCur h.1⟩

theorem gr_lnextSymbol : GRs φ lnextSymbol lnextSymbol (fun s s' => s' = s ∧ s < 0) := by
  constructor
  intro g g' hg
  simp only [lnextSymbol, g_bind, g_get, g_set, g_pure]
  have h := hg.cur.nextSymbol
  exact ⟨⟨h.2.1, h.2.2⟩, hg.setCur h.1⟩

theorem gr_lpushSymbol (sym : Symbol) : GRs φ (lpushSymbol sym) (lpushSymbol sym) TT :=
  GRs.mod fun _ _ hg => hg.setCur (hg.cur.pushSymbol sym)

theorem gr_laddUnlinked (c c' : Col) {sym sym' : Symbol} (hs : sym' = symMap φ sym) :
    GRs φ (laddUnlinked c sym) (laddUnlinked c' sym') TT :=
  GRs.mod fun _ _ hg => hg.setCur (hg.cur.addUnlinked c c' hs)

theorem gr_laddUnlinked_neg (c c' : Col) {sym : Symbol} (hs : sym < 0) :
    GRs φ (laddUnlinked c sym) (laddUnlinked c' sym) TT := gr_laddUnlinked c c' (symMap_neg φ hs).symm

theorem gr_lenVal (n : Nat) : GRs φ (lenVal n) (lenVal n) Eq := GRs.lift (fun _ => rfl) _

theorem All₂.rfl_eq {γ : Type} : ∀ l : List γ, All₂ Eq l l
  | [] => .nil
  | _ :: l => .cons rfl (All₂.rfl_eq l)

/-! ### the walk through a `do` block (cf. `gh` of `Lemmas/GenNeg.lean`) -/

/-- lemmas for the actions met so far; extended by `macro_rules` -/
syntax "gr_known" : tactic
macro_rules | `(tactic| gr_known) => `(tactic| assumption)
macro_rules | `(tactic| gr_known) => `(tactic| with_reducible exact gr_lpush _)
macro_rules | `(tactic| gr_known) => `(tactic| with_reducible exact gr_lappend (by assumption))
macro_rules | `(tactic| gr_known) => `(tactic| with_reducible exact gr_lpushSymbol _)
macro_rules | `(tactic| gr_known) => `(tactic| with_reducible exact gr_laddUnlinked _ _ (by assumption))
macro_rules | `(tactic| gr_known) => `(tactic| with_reducible exact gr_laddUnlinked_neg _ _ (by assumption))
macro_rules | `(tactic| gr_known) => `(tactic| with_reducible exact GRs.any (gr_lenVal _))
macro_rules | `(tactic| gr_known) => `(tactic| with_reducible exact GRs.any gr_lnextSymbol)
macro_rules | `(tactic| gr_known) => `(tactic| with_reducible exact GRs.any gr_popExpr)
macro_rules | `(tactic| gr_known) => `(tactic| with_reducible exact GRs.any gr_popVar)
macro_rules | `(tactic| gr_known) => `(tactic| with_reducible exact GRs.any (gr_popNExpr _))
macro_rules | `(tactic| gr_known) => `(tactic| with_reducible exact GRs.any (gr_popNVar _))
macro_rules | `(tactic| gr_known) => `(tactic| with_reducible exact GRs.any (gr_popNStmt _))

/-- binds whose result is needed later: the relation of the results goes into the context -/
syntax "gr_post" : tactic
macro_rules
  | `(tactic| gr_post) =>
    `(tactic| (with_reducible refine GRs.seq gr_lnextSymbol ?_; rintro _ _ ⟨hs, _⟩; subst hs))
macro_rules
  | `(tactic| gr_post) =>
    `(tactic| (with_reducible refine GRs.seq (gr_lenVal _) ?_; rintro _ _ hs; subst hs))
macro_rules
  | `(tactic| gr_post) =>
    `(tactic| (with_reducible refine GRs.seq gr_popExpr ?_; rintro ⟨_, _⟩ ⟨_, _⟩ _))
macro_rules
  | `(tactic| gr_post) =>
    `(tactic| (with_reducible refine GRs.seq gr_popVar ?_
               rintro ⟨_, _, _, _⟩ ⟨_, _, _, _⟩ ⟨hn, ha, _⟩
               dsimp only at hn ha
               subst hn ha))
macro_rules | `(tactic| gr_post) => `(tactic| (with_reducible refine GRs.seq (gr_popNExpr _) ?_; intro _ _ _))
macro_rules | `(tactic| gr_post) => `(tactic| (with_reducible refine GRs.seq (gr_popNVar _) ?_; intro _ _ _))
macro_rules | `(tactic| gr_post) => `(tactic| (with_reducible refine GRs.seq (gr_popNStmt _) ?_; intro _ _ _))

macro "gr_step" : tactic =>
  `(tactic| first
    | split
    | intro _
    | gr_post
    | with_reducible apply GRs.seq_any
    | with_reducible exact GRs.ret trivial
    | with_reducible exact GRs.ret (Or.inr ⟨_, _, rfl, rfl⟩)
    | with_reducible exact GRs.ret (Or.inl ⟨_, _, rfl, rfl⟩)
    | with_reducible exact GRs.thr (ErrRel.refl _)
    | with_reducible exact GRs.thr (ErrRel.inCol (ErrRel.refl _) _ _ _ _)
    | with_reducible exact GRs.lift (fun _ => trivial) _
    | (with_reducible refine GRs.forLoop (by assumption) _ _ _ _ ?_
       rintro ⟨_, _, _, _⟩ ⟨_, _, _, _⟩ _ _ ⟨hn, ha, _⟩
       dsimp only at hn ha
       subst hn ha)
    | (with_reducible refine GRs.forLoop (by assumption) _ _ _ _ ?_; rintro ⟨_, _⟩ ⟨_, _⟩ _ _ _)
    | (with_reducible refine GRs.forLoop (All₂.rfl_eq _) _ _ _ _ ?_; rintro _ _ _ _ hs; subst hs)
    | gr_known)

macro "gr" : tactic => `(tactic| (try dsimp only
                                  repeat' gr_step))

/-! ### `Link::push_*` -/

theorem gr_pushJump (c c' : Col) {sym : Symbol} (hs : sym < 0) : GRs φ (pushJump c sym) (pushJump c' sym) TT := by
  unfold pushJump; gr
theorem gr_pushIfnot (c c' : Col) {sym : Symbol} (hs : sym < 0) : GRs φ (pushIfnot c sym) (pushIfnot c' sym) TT := by
  unfold pushIfnot; gr
theorem gr_pushReturnVal (c c' : Col) {sym : Symbol} (hs : sym < 0) :
    GRs φ (pushReturnVal c sym) (pushReturnVal c' sym) TT := by
  unfold pushReturnVal; gr
macro_rules | `(tactic| gr_known) => `(tactic| with_reducible exact gr_pushJump _ _ (by assumption))
macro_rules | `(tactic| gr_known) => `(tactic| with_reducible exact gr_pushIfnot _ _ (by assumption))
macro_rules | `(tactic| gr_known) => `(tactic| with_reducible exact gr_pushReturnVal _ _ (by assumption))

/-- how the line number of an operand changes: renumbered, or no line at all on both sides -/
inductive LnRel (φ : Nat → Nat) : Option Nat → Option Nat → Prop
  | line (n : Nat) : LnRel φ (some n) (some (φ n))
  | none : LnRel φ none none

theorem gr_symbolFor {ln ln' : Option Nat} (h : LnRel φ ln ln') :
    GRs φ (liftE (Link.symbolForLineNumber ln)) (liftE (Link.symbolForLineNumber ln')) (fun s s' => s' = symMap φ s) := by
  cases h with
  | line n =>
    constructor
    intro g g' hg
    rw [g_liftE, g_liftE]
    exact ⟨(symMap_nat φ n).symm, hg⟩
  | none =>
    constructor
    intro g g' hg
    rw [g_liftE, g_liftE]
    exact ⟨ErrRel.refl _, hg⟩
macro_rules
  | `(tactic| gr_post) =>
    `(tactic| (with_reducible refine GRs.seq (gr_symbolFor (by assumption)) ?_; intro _ _ _))

theorem gr_pushGoto (c c' : Col) {ln ln' : Option Nat} (h : LnRel φ ln ln') :
    GRs φ (pushGoto c ln) (pushGoto c' ln') TT := by
  unfold pushGoto; gr
theorem gr_pushGosub (c c' : Col) {ln ln' : Option Nat} (h : LnRel φ ln ln') :
    GRs φ (pushGosub c ln) (pushGosub c' ln') TT := by
  unfold pushGosub; gr
theorem gr_pushFor (c c' : Col) : GRs φ (pushFor c) (pushFor c') TT := by unfold pushFor; gr

theorem gr_pushRestore (c c' : Col) {ln ln' : Option Nat} (h : LnRel φ ln ln') :
    GRs φ (pushRestore c ln) (pushRestore c' ln') TT := by
  cases h with
  | line n =>
    have h := LnRel.line (φ := φ) n
    simp only [pushRestore, Option.isSome_some, ↓reduceIte]
    gr
  | none =>
    simp only [pushRestore, Option.isSome_none, Bool.false_eq_true, ↓reduceIte]
    gr

theorem gr_pushRun (c c' : Col) {ln ln' : Option Nat} (h : LnRel φ ln ln') :
    GRs φ (pushRun c ln) (pushRun c' ln') TT := by
  cases h with
  | line n =>
    have h := LnRel.line (φ := φ) n
    simp only [pushRun, Option.isSome_some, ↓reduceIte]
    gr
  | none =>
    simp only [pushRun, Option.isSome_none, Bool.false_eq_true, ↓reduceIte]
    gr

theorem FragRel.addWhile {l l' : Link} (h : FragRel φ l l') (k : Bool) (c c' : Col) {sym : Symbol} (hs : sym < 0) :
    FragRel φ { l with whiles := l.whiles ++ [(k, c, l.ops.size, sym)] }
      { l' with whiles := l'.whiles ++ [(k, c', l'.ops.size, sym)] } :=
  ⟨h.toLinkCore.addWhile k c c' hs, h.symbols⟩

theorem gr_addWhile (k : Bool) (c c' : Col) {sym : Symbol} (hs : sym < 0) :
    GRs φ (modify fun s => { s with cur := { s.cur with whiles := s.cur.whiles ++ [(k, c, s.cur.ops.size, sym)] } } : GM Unit)
      (modify fun s => { s with cur := { s.cur with whiles := s.cur.whiles ++ [(k, c', s.cur.ops.size, sym)] } } : GM Unit) TT :=
  GRs.mod fun _ _ hg => hg.setCur (hg.cur.addWhile k c c' hs)
macro_rules | `(tactic| gr_known) => `(tactic| with_reducible exact gr_addWhile _ _ _ (by assumption))

theorem gr_pushWend (c c' : Col) : GRs φ (pushWend c) (pushWend c') TT := by unfold pushWend; gr
theorem gr_pushWhile (c c' : Col) {e e' : Link} (he : FragRel φ e e') : GRs φ (pushWhile c e) (pushWhile c' e') TT := by
  unfold pushWhile; gr
theorem gr_pushDefFn (c c' : Col) (ident : Str) (vars : List Str) {e e' : Link} (he : FragRel φ e e') :
    GRs φ (pushDefFn c ident vars e) (pushDefFn c' ident vars e') TT := by unfold pushDefFn; gr

end RenumRel
end Basic
