import BasicModel.Lemmas.SpellingAlias
import BasicModel.Lemmas.LexIdent
/-
  C16: `PRINT` glued to a following letter (`PRINTX`).  The letters are crunched by the same call of
  `alphabetic()`; `PRINT` is found first (leftmost, and no other reserved word starts with `P`), and
  the rest is scanned exactly as it would be on its own.  The only difference to `?X` is the remark
  flag, which `next()` derives from the FIRST token of the queue.
-/
set_option linter.unusedSimpArgs false
set_option linter.unusedVariables false
namespace Basic
namespace Lex
open Lemmas.LexIdent

/-! ### `scan_alphabetic`: fuel and pending queue -/

theorem scanAlphaLoop_fuel (f : Nat) : ∀ (g : Nat) (v : List Token) (s : Str), s.length < f → s.length < g →
    scanAlphaLoop f v s = scanAlphaLoop g v s := by
  induction f with
  | zero => intro g v s h; omega
  | succ f ih =>
    intro g v s hf hg
    cases g with
    | zero => omega
    | succ g =>
      simp only [scanAlphaLoop]
      cases hb : bestMatch s keywords none with
      | none => rfl
      | some r =>
        obtain ⟨idx, len, token⟩ := r
        have hlen : 2 ≤ len := (bestMatch_len_pos s _ hb).1
        have hne : s ≠ [] := by intro e; rw [e, bestMatch_nil] at hb; cases hb
        have hpos : 0 < s.length := List.length_pos_iff.mpr hne
        simp only
        split
        · exact ih g _ _ (by simp only [List.length_drop]; omega) (by simp only [List.length_drop]; omega)
        · exact ih g _ _ (by simp only [List.length_drop]; omega) (by simp only [List.length_drop]; omega)

theorem scanAlphaLoop_pending (f : Nat) : ∀ (q v : List Token) (s : Str),
    scanAlphaLoop f (q ++ v) s = (q ++ (scanAlphaLoop f v s).1, (scanAlphaLoop f v s).2) := by
  induction f with
  | zero => intro q v s; rfl
  | succ f ih =>
    intro q v s
    simp only [scanAlphaLoop]
    cases hb : bestMatch s keywords none with
    | none => rfl
    | some r =>
      obtain ⟨idx, len, token⟩ := r
      simp only
      split
      · rw [List.append_assoc, ih]
      · rw [List.append_assoc, ih]

theorem scanAlphabetic_pending (q v : List Token) (s : Str) :
    scanAlphabetic (q ++ v) s = (q ++ (scanAlphabetic v s).1, (scanAlphabetic v s).2) :=
  scanAlphaLoop_pending _ q v s

/-! ### `PRINT` at the head of the text is found first -/

theorem bestMatch_zero_stable (s : Str) (kws : List (Str × Token)) (l : Nat) (t : Token) :
    bestMatch s kws (some (0, l, t)) = some (0, l, t) := by
  induction kws with
  | nil => rfl
  | cons kw kws ih =>
    obtain ⟨ts, tk⟩ := kw
    unfold bestMatch
    split
    · exact ih
    · simp only [Nat.not_lt_zero, if_false]; exact ih

theorem bestMatch_first_zero (s : Str) (pre : List (Str × Token)) :
    ∀ (best : Option (Nat × Nat × Token)) (k : Str × Token) (post : List (Str × Token)),
    (best = none ∨ ∃ bi bl bt, best = some (bi, bl, bt) ∧ 0 < bi) →
    (∀ e ∈ pre, findSub e.1 s ≠ some 0) → findSub k.1 s = some 0 →
    bestMatch s (pre ++ k :: post) best = some (0, k.1.length, k.2) := by
  induction pre with
  | nil =>
    intro best k post hb _ hk
    obtain ⟨ts, tk⟩ := k
    simp only [List.nil_append]
    unfold bestMatch
    simp only at hk
    rw [hk]
    rcases hb with rfl | ⟨bi, bl, bt, rfl, hpos⟩
    · exact bestMatch_zero_stable s post _ _
    · simp only [hpos, if_true]; exact bestMatch_zero_stable s post _ _
  | cons e pre ih =>
    intro best k post hb hpre hk
    obtain ⟨ts, tk⟩ := e
    have he := hpre (ts, tk) (by simp)
    simp only [List.cons_append]
    unfold bestMatch
    cases hf : findSub ts s with
    | none => exact ih best k post hb (fun x hx => hpre x (by simp [hx])) hk
    | some idx =>
      have hidx : 0 < idx := by
        cases idx with
        | zero => exact absurd hf he
        | succ n => omega
      simp only
      rcases hb with rfl | ⟨bi, bl, bt, rfl, hpos⟩
      · exact ih _ k post (Or.inr ⟨idx, _, _, rfl, hidx⟩) (fun x hx => hpre x (by simp [hx])) hk
      · simp only
        split
        · exact ih _ k post (Or.inr ⟨idx, _, _, rfl, hidx⟩) (fun x hx => hpre x (by simp [hx])) hk
        · exact ih _ k post (Or.inr ⟨bi, _, _, rfl, hpos⟩) (fun x hx => hpre x (by simp [hx])) hk

theorem findSub_zero (pat : Str) (c : Char) (cs : Str) (h : findSub pat (c :: cs) = some 0) :
    isPrefix pat (c :: cs) = true := by
  unfold findSub at h
  split at h
  · assumption
  · split at h <;> simp at h

theorem bestMatch_PRINT (s : Str) :
    bestMatch ('P' :: 'R' :: 'I' :: 'N' :: 'T' :: s) keywords none = some (0, 5, .word .print) := by
  have hsplit : keywords = keywords.take 11 ++ ("PRINT".toList, .word .print) :: keywords.drop 12 := by
    decide +kernel
  rw [hsplit]
  have := bestMatch_first_zero ('P' :: 'R' :: 'I' :: 'N' :: 'T' :: s) (keywords.take 11) none
    ("PRINT".toList, .word .print) (keywords.drop 12) (Or.inl rfl) ?_ ?_
  · simpa using this
  · intro e he h0
    have hp := findSub_zero _ _ _ h0
    have hhead : ∀ e ∈ keywords.take 11, e.1.head? ≠ some 'P' ∧ e.1 ≠ [] := by decide +kernel
    obtain ⟨h1, h2⟩ := hhead e he
    cases hh : e.1 with
    | nil => exact h2 hh
    | cons c cs =>
      rw [hh] at hp h1
      simp only [isPrefix, Bool.and_eq_true, decide_eq_true_eq] at hp
      exact h1 (by simp [hp.1])
  · rw [chars_PRINT]
    simp [findSub, isPrefix]

theorem scanAlphabetic_PRINT (v : List Token) (s : Str) :
    scanAlphabetic v ('P' :: 'R' :: 'I' :: 'N' :: 'T' :: s) = scanAlphabetic (v ++ [.word .print]) s := by
  unfold scanAlphabetic
  simp only [List.length_cons]
  rw [scanAlphaLoop, bestMatch_PRINT]
  simp only [if_true, List.drop_succ_cons, List.drop_zero]
  exact scanAlphaLoop_fuel _ _ _ _ (by omega) (by omega)

theorem alphaFinish_PRINT (p : List Token) (s : Str) (rest : List Char) :
    alphaFinish p ('P' :: 'R' :: 'I' :: 'N' :: 'T' :: s) rest = alphaFinish (p ++ [.word .print]) s rest := by
  unfold alphaFinish
  rw [scanAlphabetic_PRINT]

/-! ### `alphabetic()` with `PRINT` already read -/

theorem alphaLoop_PRINT (cs : List Char) : ∀ (s : Str) (p : List Token), cs ≠ [] →
    (∀ c ∈ cs.head?, isAlpha c = true) →
    alphaLoop cs ('P' :: 'R' :: 'I' :: 'N' :: 'T' :: s) false p = alphaLoop cs s false (p ++ [.word .print]) := by
  induction cs with
  | nil => intro s p h; contradiction
  | cons c tl ih =>
    intro s p _ hc
    have hca := hc c (by simp)
    obtain ⟨n1, n2, n3, n4⟩ := upper_not_suffix_of_isAlpha c hca
    have hd : isDigit (upper c) = false := by
      rw [isDigit_upper]; exact not_isDigit_of_isAlpha c hca
    rw [alphaLoop_cons, alphaLoop_cons]
    simp only [n1, n2, n3, n4, if_false, hd, Bool.or_false, Bool.false_eq_true, List.cons_append,
      alphaFinish_PRINT, scanAlphabetic_PRINT]
    cases tl with
    | nil => rfl
    | cons pk tl' =>
      simp only
      by_cases ha : isAlpha pk = true
      · simp only [ha, if_true]
        exact ih (s ++ [upper c]) p (by simp) (by intro x hx; simp at hx; subst hx; exact ha)
      · simp only [ha, Bool.false_eq_true, if_false]

theorem alphaFinish_pending (q p : List Token) (s : Str) (rest : List Char) :
    alphaFinish (q ++ p) s rest = (q ++ (alphaFinish p s rest).1, (alphaFinish p s rest).2) := by
  unfold alphaFinish
  rw [scanAlphabetic_pending]
  simp only
  split <;> simp

/-- tokens already in the queue are only appended to -/
theorem alphaLoop_pending (cs : List Char) : ∀ (s : Str) (d : Bool) (q p : List Token),
    alphaLoop cs s d (q ++ p) = (q ++ (alphaLoop cs s d p).1, (alphaLoop cs s d p).2) := by
  induction cs with
  | nil => intro s d q p; simp [alphaLoop]
  | cons c tl ih =>
    intro s d q p
    rw [alphaLoop_cons, alphaLoop_cons]
    by_cases h1 : upper c = '$'
    · simp [h1]
    by_cases h2 : upper c = '!'
    · simp [h1, h2]
    by_cases h3 : upper c = '#'
    · simp [h1, h2, h3]
    by_cases h4 : upper c = '%'
    · simp [h1, h2, h3, h4]
    simp only [h1, h2, h3, h4, if_false]
    cases tl with
    | nil => exact alphaFinish_pending q p _ _
    | cons pk tl' =>
      simp only
      by_cases ha : isAlpha pk = true
      · simp only [ha, if_true]
        by_cases hd : (d || isDigit (upper c)) = true
        · simp [hd]
        · simp only [hd, Bool.false_eq_true, if_false]; exact ih _ _ q p
      · simp only [ha, Bool.false_eq_true, if_false]
        by_cases hk : (isDigit pk || pk = '$' || pk = '!' || pk = '#' || pk = '%') = true
        · simp only [hk, if_true, scanAlphabetic_pending]
          by_cases he : (scanAlphabetic p (s ++ [upper c])).2.isEmpty = true
          · simp [he]
          · simp only [he, Bool.false_eq_true, if_false]; exact ih _ _ q _
        · simp only [hk, Bool.false_eq_true, if_false]; exact alphaFinish_pending q p _ _

/-- letters (any case) followed by another letter: the loop just goes on -/
theorem alphaLoop_letters_alpha (ls : List Char) (hls : ∀ c ∈ ls, isAlpha c = true)
    (k : Char) (tl : List Char) (hk : isAlpha k = true) (s : Str) (p : List Token) :
    alphaLoop (ls ++ k :: tl) s false p = alphaLoop (k :: tl) (s ++ ls.map upper) false p := by
  induction ls generalizing s with
  | nil => simp
  | cons c ls ih =>
    have hc := hls c (by simp)
    obtain ⟨n1, n2, n3, n4⟩ := upper_not_suffix_of_isAlpha c hc
    have hd : isDigit (upper c) = false := by
      rw [isDigit_upper]; exact not_isDigit_of_isAlpha c hc
    rw [List.cons_append, alphaLoop_cons]
    simp only [n1, n2, n3, n4, if_false, hd, Bool.or_false, Bool.false_eq_true]
    have hnext : ∃ pk tl', ls ++ k :: tl = pk :: tl' ∧ isAlpha pk = true := by
      cases ls with
      | nil => exact ⟨k, tl, rfl, hk⟩
      | cons c' ls' => exact ⟨c', ls' ++ k :: tl, rfl, hls c' (by simp)⟩
    obtain ⟨pk, tl', e, hpk⟩ := hnext
    rw [e]
    simp only [hpk, if_true]
    rw [← e, ih (fun x hx => hls x (by simp [hx]))]
    simp

/-- `PRINT` glued to a letter: the queue is `PRINT` followed by the queue of the rest on its own -/
theorem alphabetic_PRINT_glued (k : Char) (tl : List Char) (hk : isAlpha k = true) :
    alphabetic ('P' :: 'R' :: 'I' :: 'N' :: 'T' :: k :: tl) =
      (.word .print :: (alphabetic (k :: tl)).1, (alphabetic (k :: tl)).2) := by
  have h1 := alphaLoop_letters_alpha ['P', 'R', 'I', 'N', 'T'] (by decide) k tl hk [] []
  have h2 := alphaLoop_PRINT (k :: tl) [] [] (by simp) (by intro x hx; simp at hx; subst hx; exact hk)
  have h3 := alphaLoop_pending (k :: tl) [] false [.word .print] []
  simp only [List.cons_append, List.nil_append, List.map_cons, List.map_nil,
    (by decide : upper 'P' = 'P'), (by decide : upper 'R' = 'R'), (by decide : upper 'I' = 'I'),
    (by decide : upper 'N' = 'N'), (by decide : upper 'T' = 'T'), List.append_nil] at h1 h2 h3
  unfold alphabetic
  rw [h1, h2, h3]

/-- `?` ≡ `PRINT` glued to a letter, provided the first token the letters give is not `REM` -/
theorem print_alias_glued_raw (pre : Str) (k : Char) (tl : List Char) (A : List Token)
    (hq : Cut pre A '?') (hp : Cut pre A 'P') (hk : isAlpha k = true)
    (hfirst : ∃ t ts, (alphabetic (k :: tl)).1 = t :: ts ∧ t ≠ .word .rem1) :
    lexFrom (pre ++ '?' :: k :: tl) false = lexFrom (pre ++ ("PRINT".toList ++ k :: tl)) false := by
  obtain ⟨t, ts, e, ht⟩ := hfirst
  have hflag : (t == Token.word Word.rem1) = false := by simp [ht]
  have hpost : lexFrom (k :: tl) false = t :: ts ++ lexFrom (alphabetic (k :: tl)).2 false := by
    rw [lexFrom_alpha k tl hk t ts _ (Prod.ext e rfl), hflag]
  have hg : lexFrom ('P' :: 'R' :: 'I' :: 'N' :: 'T' :: k :: tl) false =
      .word .print :: (t :: ts ++ lexFrom (alphabetic (k :: tl)).2 false) := by
    rw [lexFrom_alpha 'P' _ (by decide) (.word .print) (t :: ts) _
      (by rw [alphabetic_PRINT_glued k tl hk, e])]
    rfl
  rw [hq _, lexFrom_minutia '?' _ _ rfl, chars_PRINT]
  simp only [List.cons_append, List.nil_append]
  rw [hp _, hg, show ((Token.word Word.print == Token.word Word.rem2)) = false from by decide, hpost]

theorem print_alias_glued (pre : Str) (k : Char) (tl : List Char) (A : List Token)
    (hq : Cut (lineBody pre) A '?') (hp : Cut (lineBody pre) A 'P') (hk : isAlpha k = true)
    (hfirst : ∃ t ts, (alphabetic (k :: tl)).1 = t :: ts ∧ t ≠ .word .rem1) :
    lex (pre ++ '?' :: k :: tl) = lex (pre ++ ("PRINT".toList ++ k :: tl)) := by
  have := print_alias_glued_raw (lineBody pre) k tl A hq hp hk hfirst
  rw [chars_PRINT] at this ⊢
  simp only [List.cons_append, List.nil_append] at this ⊢
  rw [lex_ctx pre '?' _ (by decide) (by decide), lex_ctx pre 'P' _ (by decide) (by decide), this]

end Lex
end Basic
