import BasicModel.Model.Runtime
/-
  Helper lemmas about the runtime model (`Model/Runtime.lean`).

  * "run lemmas": what an `RM` action computes, as an equation on `(m.run).run s`;
  * `step` split into its trace part (`traceOf`) and its instruction part (`execOp`, a verbatim
    copy of the `match op with` of the model; `step_eq` proves the copy faithful, by `rfl`).

  The frame calculus built on top is in `Lemmas/Frame.lean`, the per-instruction facts in
  `Lemmas/Step.lean` and `Lemmas/StepAll.lean`, slices in `Lemmas/Slice.lean`, `execute` in
  `Lemmas/Execute.lean`, `enter` in `Lemmas/Enter.lean`, the compiler in `Lemmas/Program.lean`.
-/
namespace Basic
namespace Runtime
variable {α β : Type}

/-! ### run lemmas for the monad operations -/

theorem run_bind (m : RM α) (f : α → RM β) (s : Runtime) :
    (m >>= f).run.run s =
      match m.run.run s with
      | (.ok a, s') => (f a).run.run s'
      | (.error e, s') => (.error e, s') := by
  simp only [bind, ExceptT.bind, ExceptT.mk, ExceptT.bindCont, StateT.bind, ExceptT.run, StateT.run]
  generalize m s = x
  rcases x with ⟨r, s'⟩
  cases r <;> rfl

theorem run_bind_ok {m : RM α} {f : α → RM β} {s s' : Runtime} {a : α}
    (h : m.run.run s = (.ok a, s')) : (m >>= f).run.run s = (f a).run.run s' := by
  rw [run_bind, h]

theorem run_bind_error {m : RM α} {f : α → RM β} {s s' : Runtime} {e : Error}
    (h : m.run.run s = (.error e, s')) : (m >>= f).run.run s = (.error e, s') := by
  rw [run_bind, h]

theorem run_pure (a : α) (s : Runtime) : (pure a : RM α).run.run s = (.ok a, s) := rfl
theorem run_throw (e : Error) (s : Runtime) : (throw e : RM α).run.run s = (.error e, s) := rfl
theorem run_get (s : Runtime) : (get : RM Runtime).run.run s = (.ok s, s) := rfl
theorem run_set (t s : Runtime) : (set t : RM Unit).run.run s = (.ok (), t) := rfl
theorem run_modify (f : Runtime → Runtime) (s : Runtime) :
    (modify f : RM Unit).run.run s = (.ok (), f s) := rfl
theorem run_liftE (r : Except Error α) (s : Runtime) : (liftE r : RM α).run.run s = (r, s) := by
  cases r <;> rfl

/-! ### run lemmas for the stack primitives -/

theorem run_push (v : Val) (s : Runtime) :
    (push v).run.run s =
      (if s.stack.size + 1 > Gen.stackMaxLen then .error stackOverflow else .ok (),
       { s with stack := s.stack.push v }) := by
  simp only [push, run_bind, run_modify, run_get, Array.size_push]
  split <;> rfl

theorem run_pop (s : Runtime) :
    pop.run.run s =
      match s.stack.back? with
      | some v => (.ok v, { s with stack := s.stack.pop })
      | none => (.error underflow, s) := by
  simp only [pop, run_bind, run_get]
  cases s.stack.back? <;> rfl

theorem run_popN (n : Nat) (s : Runtime) :
    (popN n).run.run s =
      if n > s.stack.size then (.error underflow, s)
      else (.ok (s.stack.extract (s.stack.size - n) s.stack.size).toList,
            { s with stack := s.stack.extract 0 (s.stack.size - n) }) := by
  simp only [popN, run_bind, run_get]
  split <;> rfl

theorem run_doCont (s : Runtime) :
    doCont.run.run s =
      if s.cont = .stopped then (.error (Error.mk' Code.cantContinue), s)
      else if s.state = .running then
        (.ok (s.cont != .running), { s with state := s.cont, cont := .stopped, pc := s.contPc })
      else (.error (Error.mk' Code.cantContinue), s) := by
  simp only [doCont, run_bind, run_get]
  by_cases h1 : s.cont = .stopped
  · simp only [h1, if_true]; rfl
  · simp only [h1, if_false]
    by_cases h2 : s.state = .running
    · simp only [h2, if_true]; rfl
    · simp only [h2, if_false]; rfl

/-! ### `step` = trace part, then instruction part -/

/-- the trace part of `step` -/
def traceOf (s : Runtime) : RM (Option Step) := do
    if s.tron then
      let tr := s.program.link.lineNumberFor s.pc
      if tr ≠ s.tr then
        set { s with tr := tr }
        match tr with
        | some num =>
          let text := '[' :: RStd.natDigits num ++ [']']
          modify fun s => { s with printCol := s.printCol + text.length }
          pure (some (Step.event (.print text)))
        | none => pure none
      else pure none
    else pure none

/-- the instruction part of `step`: the `match op with` of the model, verbatim -/
def execOp (env : Env) (hasIndirectErrors : Bool) (op : Opcode) : RM Step :=
    match op with
    | .literal v => do push v; pure .continue
    | .pop name => do
      let v ← pop
      let s ← get
      let vars ← liftE (s.vars.store name v)
      set { s with vars := vars }
      pure .continue
    | .push name => do
      let s ← get
      push (← liftE (s.vars.fetch name))
      pure .continue
    | .popArr name => do
      let vec ← popVec
      let v ← pop
      let s ← get
      let (vars, r) := s.vars.storeArray name vec v
      set { s with vars := vars }
      liftE r
      pure .continue
    | .pushArr name => do
      let vec ← popVec
      let s ← get
      let (vars, r) := s.vars.fetchArray name vec
      set { s with vars := vars }
      push (← liftE r)
      pure .continue
    | .dimArr name => do
      let vec ← popVec
      let s ← get
      let vars ← liftE (s.vars.dimensionArray name vec)
      set { s with vars := vars }
      pure .continue
    | .eraseArr name => do
      let s ← get
      let vars ← liftE (s.vars.eraseArray name)
      set { s with vars := vars }
      pure .continue
    | .ifNot addr => do
      let isZero ← (do
        match ← pop with
        | .int n => pure (n == 0)
        | .sng b => pure (F.f32 b == 0)
        | .dbl b => pure (F.f64 b == 0)
        | _ => throw (Error.mk' Code.typeMismatch))
      if isZero then modify fun s => { s with pc := addr }
      pure .continue
    | .jump addr => do
      modify fun s => { s with pc := addr }
      let s ← get
      if hasIndirectErrors && s.pc < s.entryAddress then
        set { s with state := .stopped, cont := .stopped }
        pure (.event (.errors s.listing.indirectErrors))
      else pure .continue
    | .clear => do modify (doClear env); pure .continue
    | .cls => pure (.event .cls)
    | .cont => do
      if ← doCont then pure (.event .running) else pure .continue
    | .def name => do doDef name; pure .continue
    | .defdbl => do doDefType Var.defdbl; pure .continue
    | .defint => do doDefType Var.defint; pure .continue
    | .defsng => do doDefType Var.defsng; pure .continue
    | .defstr => do doDefType Var.defstr; pure .continue
    | .delete => do pure (.event (← doDelete))
    | .end => do modify doEnd; pure (.event .stopped)
    | .fn name => do doFn name; pure .continue
    | .input name => do
      if ← doInput name then pure (.event .running) else pure .continue
    | .letMid => do doLetMid; pure .continue
    | .list => do doList; pure (.event .running)
    | .load => do pure (.event (← fileOp .load true))
    | .loadRun => do pure (.event (← fileOp .run false))
    | .new => do modify (doNew env); pure (.event .stopped)
    | .on => do doOn; pure .continue
    | .next name => do doNext name; pure .continue
    | .print => do pure (.event (← doPrint))
    | .read => do doRead; pure .continue
    | .renum => do pure (.event (← doRenum env))
    | .restore addr => do
      modify fun s => { s with program := { s.program with link := s.program.link.restoreData addr } }
      pure .continue
    | .return => do doReturn; pure .continue
    | .save => do pure (.event (← fileOp .save true))
    | .stop => throw (Error.mk' Code.break)
    | .swap => do doSwap; pure .continue
    | .troff => do modify fun s => { s with tron := false }; pure .continue
    | .tron => do
      modify fun s => { s with tron := true, tr := s.program.link.lineNumberFor (s.pc - 1) }
      pure .continue
    | .neg => do pop1Push Ops.negate; pure .continue
    | .pow => do pop2Push Ops.power; pure .continue
    | .mul => do pop2Push Ops.multiply; pure .continue
    | .div => do pop2Push Ops.divide; pure .continue
    | .divInt => do pop2Push Ops.divint; pure .continue
    | .mod => do pop2Push Ops.remainder; pure .continue
    | .add => do pop2Push Ops.sum; pure .continue
    | .sub => do pop2Push Ops.subtract; pure .continue
    | .eq => do pop2Push Ops.equal; pure .continue
    | .notEq => do pop2Push Ops.notEqual; pure .continue
    | .lt => do pop2Push Ops.less; pure .continue
    | .ltEq => do pop2Push Ops.lessEqual; pure .continue
    | .gt => do pop2Push Ops.greater; pure .continue
    | .gtEq => do pop2Push Ops.greaterEqual; pure .continue
    | .not => do pop1Push Ops.not; pure .continue
    | .and => do pop2Push Ops.and; pure .continue
    | .or => do pop2Push Ops.or; pure .continue
    | .xor => do pop2Push Ops.xor; pure .continue
    | .imp => do pop2Push Ops.imp; pure .continue
    | .eqv => do pop2Push Ops.eqv; pure .continue
    | .abs => do pop1Push Func.abs; pure .continue
    | .asc => do pop1Push Func.asc; pure .continue
    | .atn => do pop1Push Func.atn; pure .continue
    | .cdbl => do pop1Push Func.cdbl; pure .continue
    | .chr => do pop1Push Func.chr; pure .continue
    | .cint => do pop1Push Func.cint; pure .continue
    | .cos => do pop1Push Func.cos; pure .continue
    | .csng => do pop1Push Func.csng; pure .continue
    | .date => do push (.str "01-01-2000".toList); pure .continue
    | .exp => do pop1Push Func.exp; pure .continue
    | .fix => do pop1Push Func.fix; pure .continue
    | .hex => do pop1Push Func.hex; pure .continue
    | .inkey => do
      modify fun s => { s with state := .inkey }
      pure (.event .inkey)
    | .instr => do
      let vec ← popVec
      push (← liftE (Func.instr vec))
      pure .continue
    | .int => do pop1Push Func.int; pure .continue
    | .left => do pop2Push Func.left; pure .continue
    | .len => do pop1Push Func.len; pure .continue
    | .log => do pop1Push Func.log; pure .continue
    | .mid => do
      let vec ← popVec
      push (← liftE (Func.mid vec))
      pure .continue
    | .oct => do pop1Push Func.oct; pure .continue
    | .pos => do
      let _ ← popVec
      let s ← get
      push (← liftE (Func.pos s.printCol))
      pure .continue
    | .right => do pop2Push Func.right; pure .continue
    | .rnd => do
      let vec ← popVec
      let s ← get
      let (st, v) ← liftE (Func.rnd s.rand vec)
      set { s with rand := st }
      push v
      pure .continue
    | .spc => do pop1Push Func.spc; pure .continue
    | .sgn => do pop1Push Func.sgn; pure .continue
    | .sin => do pop1Push Func.sin; pure .continue
    | .sqr => do pop1Push Func.sqr; pure .continue
    | .str => do pop1Push Func.str; pure .continue
    | .string => do pop2Push Func.string; pure .continue
    | .tab => do
      let v ← pop
      let s ← get
      push (← liftE (Func.tab s.printCol v))
      pure .continue
    | .tan => do pop1Push Func.tan; pure .continue
    | .time => do push (.str "00:00:00".toList); pure .continue
    | .val => do pop1Push Func.val; pure .continue

/-- fetch, advance `pc`, execute -/
def fetchExec (env : Env) (h : Bool) : RM Step := do
  let s ← get
  match s.program.link.ops[s.pc]? with
  | none => throw ((Error.mk' Code.internalError).withMsg "INVALID PC ADDRESS")
  | some op =>
    set { s with pc := s.pc + 1 }
    execOp env h op

theorem step_eq (env : Env) (h : Bool) :
    step env h = (do
      let s ← get
      match ← traceOf s with
      | some r => pure r
      | none => fetchExec env h) := by
  rfl

end Runtime
end Basic
