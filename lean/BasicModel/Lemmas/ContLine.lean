import BasicModel.Lemmas.ContParse
/-
  The direct line `CONT`, compiled onto a program in memory.

  `enterDirect s contLine` with `s.dirty = false` links the program once more (a no-op on a linked
  program: nothing is pending), cuts the code at `directAddress`, appends `Cont` (the code of the
  statement CONT) and `End`, and links again.  Everything below `directAddress` — the compiled
  program —, the DATA segment and its cursor, the line-number table and the diagnostics of the
  program lines survive; there are no direct-mode diagnostics.

  This is proved for every *plain* direct line (`PlainLine line code`: it parses and compiles,
  without diagnostics, to fragments that are nothing but code — no DATA, no pending references, no
  WHILE/WEND): `codegenLine_plain`, `plain_program`, `DirectOf`, `enterDirect_plain`.  `CONT` is the
  instance `code = #[Cont]` (`plainLine_cont`, `ContOf`, `enterDirect_contLine`); PRINT lines are
  others (`plainLine_of_check` reduces `PlainLine` to the parse and three decidable checks).

  The lexer is a separate model: `Env.lex "CONT" = contLine` is a hypothesis wherever `enter` is
  used (`LexCont`).
-/
namespace Basic

namespace Link

/-- a fragment that is nothing but code: no data, symbols, pending references, WHILEs -/
structure PlainCode (f : Link) : Prop where
  data : f.data = #[]
  symbols : f.symbols = []
  unlinked : f.unlinked = []
  whiles : f.whiles = []
  currentSymbol : f.currentSymbol = 0

theorem plainCode_ops (ops : Array Opcode) : PlainCode ({ ops := ops } : Link) := ⟨rfl, rfl, rfl, rfl, rfl⟩

/-- appending plain code only extends the code segment -/
theorem append_plain (l f : Link) (hf : PlainCode f)
    (ho : (l.ops ++ f.ops).size ≤ Gen.stackMaxLen) (hd : l.data.size ≤ Gen.stackMaxLen) :
    l.append f = ({ l with ops := l.ops ++ f.ops }, .ok ()) := by
  unfold append
  have h1 : (l.directSet && !f.data.isEmpty) = false := by rw [hf.data]; simp
  rw [h1]
  simp only [Bool.false_eq_true, if_false, hf.symbols, hf.unlinked, hf.whiles, hf.currentSymbol, hf.data,
    List.foldl_nil, List.foldr_nil, List.map_nil, List.append_nil, Int.add_zero, Array.append_empty]
  rw [if_neg (by omega), if_neg (by omega)]

/-- `link` when nothing is pending: only the fragment-local (negative) symbols go -/
theorem link_clean (l : Link) (hu : l.unlinked = []) (hw : l.whiles = []) :
    l.link = ({ l with symbols := l.symbols.filter (fun p => p.1 ≥ 0), currentSymbol := 0 }, []) := by
  cases l
  dsimp only at hu hw
  subst hu hw
  rfl

/-- the line-number table ignores the fragment-local symbols -/
theorem lineNumberFor_filter (l : Link) (ops : Array Opcode) (cs : Symbol) (a : Nat) :
    ({ l with symbols := l.symbols.filter (fun p => p.1 ≥ 0), currentSymbol := cs, ops := ops } : Link).lineNumberFor a =
      l.lineNumberFor a := by
  unfold lineNumberFor
  simp only [List.filter_filter, Bool.and_self]

end Link

namespace Program

/-- a linked program: nothing pending, direct code marked -/
structure Linked (p : Program) : Prop where
  unlinked : p.link.unlinked = []
  whiles : p.link.whiles = []
  direct : p.directAddress ≠ 0
  inside : p.directAddress ≤ p.link.ops.size

theorem resolve_clean (p : Program) (hu : p.link.unlinked = []) (hw : p.link.whiles = []) :
    resolve p = { p with link := { p.link with symbols := p.link.symbols.filter (fun q => q.1 ≥ 0),
                                               currentSymbol := 0 } } := by
  unfold resolve
  rw [Link.link_clean p.link hu hw]
  dsimp only
  split
  · rename_i h
    cases p
    dsimp only at h ⊢
    rw [List.isEmpty_iff] at h
    subst h
    rfl
  · rfl

theorem resolve_markDirect_clean (q : Program) (hu : q.link.unlinked = []) (hw : q.link.whiles = [])
    (hd : q.directAddress ≠ 0) :
    markDirect (resolve q) =
      { q with link := { q.link with symbols := q.link.symbols.filter (fun r => r.1 ≥ 0), currentSymbol := 0 } } := by
  rw [resolve_clean q hu hw]
  unfold markDirect
  rw [if_neg hd]

/-- what `ensureEnd` may do: nothing, or push one `End` (with a diagnostic on overflow) -/
theorem ensureEnd_cases (p : Program) :
    ensureEnd p = p ∨
    ensureEnd p = { p with link := { p.link with ops := p.link.ops.push .end },
                           errors := if p.link.ops.size + 1 > Gen.stackMaxLen
                                     then p.errors ++ [Link.opsOverflow] else p.errors } := by
  have hp : pushEndP p =
      { p with link := { p.link with ops := p.link.ops.push .end },
               errors := if p.link.ops.size + 1 > Gen.stackMaxLen
                         then p.errors ++ [Link.opsOverflow] else p.errors } := by
    unfold pushEndP Link.push
    dsimp only
    rw [Array.size_push]
    split
    · rename_i h
      split at h
      · cases h
      · rename_i h'; rw [if_neg h']
    · rename_i e h
      split at h
      · rename_i h'; rw [if_pos h']; cases h; rfl
      · cases h
  unfold ensureEnd
  split
  · split
    · exact .inr hp
    · exact .inl rfl
  · exact .inr hp

/-- linking a linked program again changes nothing below `directAddress`, nor the data, the
    diagnostics of the program lines, the line-number table -/
theorem linkProg_linked (p : Program) (h : Linked p) :
    ∃ ops errs, ops.extract 0 p.directAddress = p.link.ops.extract 0 p.directAddress ∧
      p.linkProg = { p with errors := errs,
                            link := { p.link with ops := ops, currentSymbol := 0,
                                                  symbols := p.link.symbols.filter (fun q => q.1 ≥ 0) } } := by
  rw [linkProg_eq]
  rcases ensureEnd_cases p with he | he
  · rw [he, resolve_markDirect_clean p h.unlinked h.whiles h.direct]
    exact ⟨p.link.ops, p.errors, rfl, rfl⟩
  · rw [he, resolve_markDirect_clean]
    · refine ⟨p.link.ops.push .end, _, ?_, rfl⟩
      rw [Array.extract_push, if_pos h.inside]
    · exact h.unlinked
    · exact h.whiles
    · exact h.direct

/-- the code of a list of fragments, concatenated -/
def fragOps : List (Col × Link) → Array Opcode
  | [] => #[]
  | f :: rest => f.2.ops ++ fragOps rest

/-- appending fragments that are nothing but code only extends the code segment -/
theorem appendAll_plain (frags : List (Col × Link)) : ∀ (l : Link) (errs : List Error),
    (∀ f ∈ frags, Link.PlainCode f.2) → l.ops.size + (fragOps frags).size ≤ Gen.stackMaxLen →
    l.data.size ≤ Gen.stackMaxLen →
    Codegen.codegen.appendAll frags l errs = ({ l with ops := l.ops ++ fragOps frags }, errs) := by
  induction frags with
  | nil =>
    intro l errs _ _ _
    unfold Codegen.codegen.appendAll fragOps
    rw [Array.append_empty]
  | cons f rest ih =>
    intro l errs hp hs hd
    rcases f with ⟨c, f⟩
    have hsz : (fragOps ((c, f) :: rest)).size = f.ops.size + (fragOps rest).size := by
      show (f.ops ++ fragOps rest).size = _
      rw [Array.size_append]
    rw [hsz] at hs
    unfold Codegen.codegen.appendAll
    rw [Link.append_plain l f (hp (c, f) (List.mem_cons_self ..)) (by rw [Array.size_append]; omega) hd]
    dsimp only
    rw [ih]
    · show _ = (({ l with ops := l.ops ++ (f.ops ++ fragOps rest) } : Link), errs)
      rw [Array.append_assoc]
    · exact fun g hg => hp g (List.mem_cons_of_mem _ hg)
    · show (l.ops ++ f.ops).size + _ ≤ _
      rw [Array.size_append]; omega
    · exact hd

/-- a direct line that compiles, without diagnostics, to fragments that are nothing but code
    (no DATA, no pending references, no WHILE/WEND): `code` is what it compiles to -/
structure PlainLine (line : Line) (code : Array Opcode) : Prop where
  number : line.number = none
  compiles : ∃ ast, Parse.parse none line.tokens = .ok ast ∧
    (Codegen.acceptStmts ast {}).errors = [] ∧
    (∀ f ∈ (Codegen.acceptStmts ast {}).g.stmt.toList, Link.PlainCode f.2) ∧
    fragOps (Codegen.acceptStmts ast {}).g.stmt.toList = code

/-- a decidable check that fragments are nothing but code -/
def plainFrags (frags : List (Col × Link)) : Bool :=
  frags.all fun f => f.2.data.isEmpty && f.2.symbols.isEmpty && f.2.unlinked.isEmpty && f.2.whiles.isEmpty &&
    decide (f.2.currentSymbol = 0)

theorem plainFrags_spec (frags : List (Col × Link)) (h : plainFrags frags = true) :
    ∀ f ∈ frags, Link.PlainCode f.2 := by
  intro f hf
  have := List.all_eq_true.1 h f hf
  simp only [Bool.and_eq_true, decide_eq_true_eq] at this
  obtain ⟨⟨⟨⟨h1, h2⟩, h3⟩, h4⟩, h5⟩ := this
  exact ⟨Array.isEmpty_iff.1 h1, List.isEmpty_iff.1 h2, List.isEmpty_iff.1 h3, List.isEmpty_iff.1 h4, h5⟩

/-- `PlainLine` from its parse and three decidable checks of the generated fragments -/
theorem plainLine_of_check (line : Line) (code : Array Opcode) (ast : List Stmt)
    (hn : line.number = none) (hparse : Parse.parse none line.tokens = .ok ast)
    (herr : (Codegen.acceptStmts ast {}).errors = [])
    (hplain : plainFrags (Codegen.acceptStmts ast {}).g.stmt.toList = true)
    (hcode : fragOps (Codegen.acceptStmts ast {}).g.stmt.toList = code) : PlainLine line code :=
  ⟨hn, ast, hparse, herr, plainFrags_spec _ hplain, hcode⟩

/-- the line `CONT` is plain; its code is `Cont` -/
theorem plainLine_cont : PlainLine contLine #[.cont] := by
  refine ⟨rfl, _, parse_contLine, acceptStmts_cont.2, ?_, ?_⟩
  · rw [acceptStmts_cont.1]
    intro f hf
    rw [List.mem_singleton] at hf
    subst hf
    exact Link.plainCode_ops _
  · rw [acceptStmts_cont.1]; rfl

/-- a plain direct line compiled onto a linked program, before the final link: the code below
    `directAddress`, the new code, `End` -/
theorem codegenLine_plain (p : Program) (h : Linked p) (line : Line) (code : Array Opcode)
    (hl : PlainLine line code)
    (hsize : p.directAddress + code.size + 2 ≤ Gen.stackMaxLen) (hdata : p.link.data.size ≤ Gen.stackMaxLen) :
    p.codegenLine line =
        { errors := [], indirectErrors := p.indirectErrors, directAddress := p.directAddress,
          lineNumber := none,
          link := { p.link with
            ops := (p.link.ops.extract 0 p.directAddress ++ code).push Opcode.end,
            currentSymbol := 0,
            symbols := p.link.symbols.filter (fun q => q.1 ≥ 0) } } := by
  obtain ⟨ops1, errs1, hops1, hl1⟩ := linkProg_linked p h
  obtain ⟨hnum, ast, hparse, herrs, hplain, hcode⟩ := hl
  have hbase : (p.link.ops.extract 0 p.directAddress).size = p.directAddress := by
    rw [Array.size_extract]; have := h.inside; omega
  unfold codegenLine
  simp only [hnum, Option.isNone_none, if_true, hparse]
  rw [hl1]
  dsimp only
  rw [hops1]
  unfold Codegen.codegen
  dsimp only
  rw [herrs, appendAll_plain _ _ _ hplain, hcode]
  case a =>
    show (p.link.ops.extract 0 p.directAddress).size + _ ≤ _
    rw [hbase, hcode]; omega
  case a => exact hdata
  dsimp only [List.map_nil, List.append_nil]
  have hsz : ((p.link.ops.extract 0 p.directAddress ++ code).push Opcode.end).size =
      p.directAddress + code.size + 1 := by
    rw [Array.size_push, Array.size_append, hbase]
  unfold Link.push
  dsimp only
  rw [if_neg (by rw [hsz]; omega)]
  rfl

/-- the program after compiling a plain direct line onto a linked program `p`: `tail` is empty
    unless a program line starts exactly at the end of the new code (then `linkProg` adds an `End`) -/
theorem plain_program (p : Program) (h : Linked p) (line : Line) (code : Array Opcode)
    (hl : PlainLine line code)
    (hsize : p.directAddress + code.size + 2 ≤ Gen.stackMaxLen) (hdata : p.link.data.size ≤ Gen.stackMaxLen) :
    ∃ tail, (tail = #[] ∨ tail = #[Opcode.end]) ∧
      (p.codegenLine line).linkProg =
        { errors := [], indirectErrors := p.indirectErrors, directAddress := p.directAddress,
          lineNumber := none,
          link := { p.link with
            ops := (p.link.ops.extract 0 p.directAddress ++ code).push Opcode.end ++ tail,
            currentSymbol := 0,
            symbols := p.link.symbols.filter (fun q => q.1 ≥ 0) } } := by
  have hbase : (p.link.ops.extract 0 p.directAddress).size = p.directAddress := by
    rw [Array.size_extract]; have := h.inside; omega
  have hsz : ((p.link.ops.extract 0 p.directAddress ++ code).push Opcode.end).size =
      p.directAddress + code.size + 1 := by
    rw [Array.size_push, Array.size_append, hbase]
  rw [codegenLine_plain p h line code hl hsize hdata, linkProg_eq]
  have hfilt : ∀ (l : List (Symbol × (Nat × Nat))),
      (l.filter (fun q => q.1 ≥ 0)).filter (fun q => q.1 ≥ 0) = l.filter (fun q => q.1 ≥ 0) := by
    intro l; simp only [List.filter_filter, Bool.and_self]
  rcases ensureEnd_cases
      ({ errors := [], indirectErrors := p.indirectErrors, directAddress := p.directAddress, lineNumber := none,
         link := { p.link with
            ops := (p.link.ops.extract 0 p.directAddress ++ code).push Opcode.end,
            currentSymbol := 0,
            symbols := p.link.symbols.filter (fun q => q.1 ≥ 0) } } : Program) with he | he
  · refine ⟨#[], .inl rfl, ?_⟩
    rw [he, resolve_markDirect_clean]
    · dsimp only
      rw [hfilt, Array.append_empty]
    · exact h.unlinked
    · exact h.whiles
    · exact h.direct
  · refine ⟨#[Opcode.end], .inr rfl, ?_⟩
    rw [he, resolve_markDirect_clean]
    · dsimp only
      rw [hfilt, hsz, if_neg (by omega)]
      rfl
    · exact h.unlinked
    · exact h.whiles
    · exact h.direct

/-- `P` is `p` with the direct code replaced by `code; End`: what `enterDirect` makes of a plain
    direct line typed at a program `p` in memory -/
structure DirectOf (p : Program) (code : Array Opcode) (P : Program) : Prop where
  below : ∀ i, i < p.directAddress → P.link.ops[i]? = p.link.ops[i]?
  direct : ∀ i, i < code.size → P.link.ops[p.directAddress + i]? = code[i]?
  «end» : P.link.ops[p.directAddress + code.size]? = some .end
  beyond : ∀ i op, p.directAddress + code.size < i → P.link.ops[i]? = some op → op = .end
  errors : P.errors = []
  indirectErrors : P.indirectErrors = p.indirectErrors
  directAddress : P.directAddress = p.directAddress
  data : P.link.data = p.link.data
  dataPos : P.link.dataPos = p.link.dataPos
  symbols : P.link.symbols = p.link.symbols.filter (fun q => q.1 ≥ 0)
  lineNumberFor : ∀ a, P.link.lineNumberFor a = p.link.lineNumberFor a
  linked : Linked P

theorem directOf_codegenLine (p : Program) (h : Linked p) (line : Line) (code : Array Opcode)
    (hl : PlainLine line code)
    (hsize : p.directAddress + code.size + 2 ≤ Gen.stackMaxLen) (hdata : p.link.data.size ≤ Gen.stackMaxLen) :
    DirectOf p code (p.codegenLine line).linkProg := by
  obtain ⟨tail, htail, hP⟩ := plain_program p h line code hl hsize hdata
  have hbase : (p.link.ops.extract 0 p.directAddress).size = p.directAddress := by
    rw [Array.size_extract]; have := h.inside; omega
  have hsz1 : (p.link.ops.extract 0 p.directAddress ++ code).size = p.directAddress + code.size := by
    rw [Array.size_append, hbase]
  have hsz : ((p.link.ops.extract 0 p.directAddress ++ code).push Opcode.end).size =
      p.directAddress + code.size + 1 := by
    rw [Array.size_push, hsz1]
  rw [hP]
  refine ⟨?_, ?_, ?_, ?_, rfl, rfl, rfl, rfl, rfl, rfl, ?_, ⟨h.unlinked, h.whiles, h.direct, ?_⟩⟩
  · intro i hi
    show ((p.link.ops.extract 0 p.directAddress ++ code).push Opcode.end ++ tail)[i]? = _
    rw [Array.getElem?_append, hsz, if_pos (by omega),
      Array.getElem?_push, hsz1, if_neg (by omega),
      Array.getElem?_append, hbase, if_pos hi, Array.getElem?_extract, if_pos (by have := h.inside; omega),
      Nat.zero_add]
  rotate_left
  · show ((p.link.ops.extract 0 p.directAddress ++ code).push Opcode.end ++ tail)[p.directAddress + code.size]? = _
    rw [Array.getElem?_append, hsz, if_pos (by omega), Array.getElem?_push, hsz1, if_pos rfl]
  · intro i op hi hop
    have hop' : ((p.link.ops.extract 0 p.directAddress ++ code).push Opcode.end ++ tail)[i]? = some op := hop
    rw [Array.getElem?_append, hsz, if_neg (by omega)] at hop'
    rcases htail with ht | ht
    · rw [ht] at hop'; simp at hop'
    · rw [ht] at hop'
      cases hk : i - (p.directAddress + code.size + 1) with
      | zero => rw [hk] at hop'; injection hop' with h1; exact h1.symm
      | succ k => rw [hk] at hop'; simp at hop'
  · intro a
    exact Link.lineNumberFor_filter p.link _ 0 a
  · show p.directAddress ≤ ((p.link.ops.extract 0 p.directAddress ++ code).push Opcode.end ++ tail).size
    rw [Array.size_append, hsz]
    omega
  · intro i hi
    show ((p.link.ops.extract 0 p.directAddress ++ code).push Opcode.end ++ tail)[p.directAddress + i]? = _
    rw [Array.getElem?_append, hsz, if_pos (by omega),
      Array.getElem?_push, hsz1, if_neg (by omega),
      Array.getElem?_append, hbase, if_neg (by omega), Nat.add_sub_cancel_left]

/-- the case of the line `CONT` -/
structure ContOf (p P : Program) : Prop where
  below : ∀ i, i < p.directAddress → P.link.ops[i]? = p.link.ops[i]?
  cont : P.link.ops[p.directAddress]? = some .cont
  «end» : P.link.ops[p.directAddress + 1]? = some .end
  errors : P.errors = []
  indirectErrors : P.indirectErrors = p.indirectErrors
  directAddress : P.directAddress = p.directAddress
  data : P.link.data = p.link.data
  dataPos : P.link.dataPos = p.link.dataPos
  symbols : P.link.symbols = p.link.symbols.filter (fun q => q.1 ≥ 0)
  lineNumberFor : ∀ a, P.link.lineNumberFor a = p.link.lineNumberFor a
  linked : Linked P

theorem contOf_codegenLine (p : Program) (h : Linked p)
    (hsize : p.directAddress + 3 ≤ Gen.stackMaxLen) (hdata : p.link.data.size ≤ Gen.stackMaxLen) :
    ContOf p (p.codegenLine contLine).linkProg := by
  have hd := directOf_codegenLine p h contLine #[.cont] plainLine_cont hsize hdata
  exact ⟨hd.below, hd.direct 0 (by decide), hd.end, hd.errors, hd.indirectErrors, hd.directAddress, hd.data,
    hd.dataPos, hd.symbols, hd.lineNumberFor, hd.linked⟩

/-- no compile step reads or moves the DATA cursor -/
theorem codegenLine_dataPos (p : Program) (line : Line) :
    (p.codegenLine line).link.dataPos = p.link.dataPos := by
  have := codegenLine_withDP p p.link.dataPos line
  rw [show p.withDP p.link.dataPos = p from rfl] at this
  rw [this]; rfl

theorem linkProg_dataPos (p : Program) : (p.linkProg).link.dataPos = p.link.dataPos := by
  have := linkProg_withDP p p.link.dataPos
  rw [show p.withDP p.link.dataPos = p from rfl] at this
  rw [this]; rfl

theorem codegenLines_dataPos (p : Program) (lines : List Line) :
    (p.codegenLines lines).link.dataPos = p.link.dataPos := by
  have := codegenLines_withDP p p.link.dataPos lines
  rw [show p.withDP p.link.dataPos = p from rfl] at this
  rw [this]; rfl

end Program

namespace Runtime

/-- a direct line never moves the DATA cursor, whatever it compiles to (and whether or not the
    program is recompiled first) -/
theorem enterDirect_dataPos (s : Runtime) (line : Line) :
    (enterDirect s line).program.link.dataPos = s.program.link.dataPos := by
  unfold enterDirect
  dsimp only
  rw [Program.linkProg_dataPos, Program.codegenLine_dataPos]
  split
  · exact Program.codegenLines_dataPos _ _
  · rfl

/-- `enterDirect` in closed form when nothing was edited -/
theorem enterDirect_clean_eq (s : Runtime) (line : Line) (hd : s.dirty = false) :
    enterDirect s line =
      { s with program := (s.program.codegenLine line).linkProg,
               pc := (s.program.codegenLine line).linkProg.directAddress, tr := none,
               entryAddress := (s.program.codegenLine line).linkProg.directAddress,
               listing := { s.listing with
                 indirectErrors := (s.program.codegenLine line).linkProg.indirectErrors,
                 directErrors := (s.program.codegenLine line).linkProg.errors },
               state := .running } := by
  unfold enterDirect
  simp only [hd, Bool.false_eq_true, if_false]

/-- the line `CONT` through `enter`: the lexer hypothesis, then `enterDirect` -/
theorem enter_cont (env : Env) (hlex : LexCont env) (s : Runtime)
    (hs : s.state ≠ .input) (hk : s.state ≠ .inkey) :
    enter env s "CONT".toList = enterDirect s contLine := by
  unfold enter
  split
  · rename_i h; exact absurd h hs
  · rename_i h; exact absurd h hk
  · rw [if_neg (by decide)]
    dsimp only
    rw [hlex]
    rfl

/-- a plain direct line typed at a linked program that was not edited: the new program `P` has
    the same code below `directAddress`, the same data, cursor, line-number table and program
    diagnostics, `code; End` as direct code and no direct-mode diagnostics (`DirectOf`);
    execution starts at the direct code. -/
theorem enterDirect_plain (s : Runtime) (line : Line) (code : Array Opcode)
    (hp : Program.PlainLine line code) (hd : s.dirty = false) (hl : Program.Linked s.program)
    (hsize : s.program.directAddress + code.size + 2 ≤ Gen.stackMaxLen)
    (hdata : s.program.link.data.size ≤ Gen.stackMaxLen) :
    ∃ P, Program.DirectOf s.program code P ∧
      enterDirect s line =
        { s with program := P, pc := s.program.directAddress, tr := none,
                 entryAddress := s.program.directAddress,
                 listing := { s.listing with indirectErrors := s.program.indirectErrors, directErrors := [] },
                 state := .running } := by
  have hc := Program.directOf_codegenLine s.program hl line code hp hsize hdata
  refine ⟨_, hc, ?_⟩
  rw [enterDirect_clean_eq s line hd, hc.directAddress, hc.indirectErrors, hc.errors]

/-- item 1: the line `CONT` typed at a linked program that was not edited.  The new program `P`
    has the same code below `directAddress`, the same data, cursor, line-number table and program
    diagnostics, `Cont; End` as direct code and no direct-mode diagnostics (`ContOf`); execution
    starts at the `Cont`. -/
theorem enterDirect_contLine (s : Runtime) (hd : s.dirty = false) (hl : Program.Linked s.program)
    (hsize : s.program.directAddress + 3 ≤ Gen.stackMaxLen)
    (hdata : s.program.link.data.size ≤ Gen.stackMaxLen) :
    ∃ P, Program.ContOf s.program P ∧
      enterDirect s contLine =
        { s with program := P, pc := s.program.directAddress, tr := none,
                 entryAddress := s.program.directAddress,
                 listing := { s.listing with indirectErrors := s.program.indirectErrors, directErrors := [] },
                 state := .running } := by
  have hc := Program.contOf_codegenLine s.program hl hsize hdata
  refine ⟨_, hc, ?_⟩
  rw [enterDirect_clean_eq s contLine hd, hc.directAddress, hc.indirectErrors, hc.errors]

end Runtime
end Basic
