import BasicModel.Lemmas.SpellingPack
import BasicModel.Lemmas.RangeForms
/-
  C16, parser part.

  * `nextLoop_sig`: the only reader of the parser's token list, `BasicParser::next` (`nextLoop`),
    hands out the same token, leaves the same significant tokens and the same remark flag whether or
    not the blank runs are there (only the recorded columns differ);
  * `parse_remark_line`: a line whose first significant token is `REM` or `'` parses to no statement
    at all, whichever marker it is and whatever follows;
  * `let_optional`: `LET v = e` and `v = e` are the same statement up to the recorded column of
    the statement itself (the column of `LET` resp. of the variable).
-/
set_option linter.unusedSimpArgs false
set_option linter.unusedVariables false
namespace Basic
namespace Lemmas.Spelling
open Parse Lex Lemmas.C19 Lemmas.RangeForms

/-! ### `BasicParser::next` skips the blank runs -/

theorem nextLoop_sig (ts : List Token) : ∀ (rem : Bool) (cs ce cs' ce' : Nat),
    (nextLoop ts rem cs ce).1 = (nextLoop (sig ts) rem cs' ce').1 ∧
    sig (nextLoop ts rem cs ce).2.1 = (nextLoop (sig ts) rem cs' ce').2.1 ∧
    (nextLoop ts rem cs ce).2.2.1 = (nextLoop (sig ts) rem cs' ce').2.2.1 := by
  induction ts with
  | nil => intro rem cs ce cs' ce'; simp [nextLoop, sig]
  | cons t ts ih =>
    intro rem cs ce cs' ce'
    cases hb : isBlank t with
    | true =>
      obtain ⟨n, rfl⟩ : ∃ n, t = .whitespace n := by
        cases t <;> simp [isBlank] at hb; exact ⟨_, rfl⟩
      rw [sig_cons_blank]
      cases rem with
      | true => simpa [nextLoop, isRem] using ih true ce ce cs' ce'
      | false => simpa [nextLoop, isRem] using ih false ce _ cs' ce'
    | false =>
      rw [sig_cons_solid t ts hb]
      cases hr : (rem || isRem t) with
      | true =>
        have := ih true ce ce ce' ce'
        simpa [nextLoop, hr] using this
      | false =>
        cases t with
        | whitespace n => simp [isBlank] at hb
        | _ => simp [nextLoop, hr]

/-! ### remark lines -/

/-- a line whose first significant token is a remark marker parses to no statement, whichever
    marker it is and whatever follows it -/
theorem parseTokens_remark (W : List Token) (r : Token) (Y : List Token) (hW : AllWs W)
    (hr : isRem r = true) : parseTokens (W ++ r :: Y) = .ok [] := by
  have hn : nextLoop (W ++ r :: Y) false 0 0 = (none, [], true, 0 + width W, 0 + width W) := by
    rw [nextLoop_ws_append W _ hW, nextLoop_rem_head r Y false _ _ hr]
  have hp : peek.run (st0 (W ++ r :: Y) 0 0) =
      .ok (none, { toks := [], peeked := none, rem := true, cs := 0 + width W, ce := 0 + width W }) := by
    rw [peek_st0]; simp [peekTok, afterPeek, hn]
  have hp2 : peek.run ({ toks := [], peeked := none, rem := true, cs := 0 + width W, ce := 0 + width W } : PState) =
      .ok (none, { toks := [], peeked := none, rem := true, cs := 0 + width W, ce := 0 + width W }) := by
    rw [peek_run_none _ rfl]; simp [peekTok, afterPeek, nextLoop]
  unfold parseTokens
  have e0 : ({ toks := W ++ r :: Y } : PState) = st0 (W ++ r :: Y) 0 0 := rfl
  have hf : fuelFor (W ++ r :: Y) = (6 * (W ++ r :: Y).length + 19) + 1 := by unfold fuelFor; omega
  simp only [e0, StateT.run_bind, hp, ok_bind]
  rw [hf, statements_end _ _ _ _ _ hp2]
  rfl

theorem parse_remark_line (ln : Option Nat) (W : List Token) (r : Token) (Y : List Token) (hW : AllWs W)
    (hr : isRem r = true) : parse ln (W ++ r :: Y) = .ok [] := by
  unfold parse; rw [parseTokens_remark W r Y hW hr]

/-! ### optional LET -/

/-- replace the recorded column of an assignment statement -/
def reCol (c : Col) : Stmt → Stmt
  | .let _ v e => .let c v e
  | .mid _ v p l e => .mid c v p l e
  | s => s

/-- `Statement::r#let` after `let c ← col; let t ← peek` -/
def letTail (fuel : Nat) (isShortcut : Bool) (c : Col) (t : Option Token) : PM Stmt := do
  let isMid : Bool := match t with
    | some (.ident (.string s)) => s == "MID$".toList
    | _ => false
  if isMid then
    let _ ← next
    expect .lparen
    let v ← expectVar fuel
    expect .comma
    let pos ← expression fuel
    let len ← (do
      if ← maybe .comma then expression fuel
      else let c2 ← col; pure (Expr.integer (c2.1, c2.1) 32767))
    expect .rparen
    expect (.operator .equal)
    let e ← expression fuel
    pure (.mid c v pos len e)
  else
    let v ← expectVar fuel
    match ← next with
    | some (.operator .equal) => do
      let e ← expression fuel
      pure (.let c v e)
    | _ =>
      if isShortcut then fail Code.syntaxError c "UNKNOWN STATEMENT"
      else failHere Code.syntaxError "EXPECTED EQUALS SIGN"

theorem letStmt_eq (fuel : Nat) (b : Bool) :
    letStmt fuel b = (do let c ← col; let t ← peek; letTail fuel b c t) := by
  rw [letStmt]; rfl

/-- every successful run of `x` is a successful run of `y` with the same result up to the column
    of the statement -/
def Rc (c' : Col) (x y : PM Stmt) : Prop :=
  ∀ st r, x.run st = .ok r → y.run st = .ok (reCol c' r.1, r.2)

theorem Rc.bind {α} {c' : Col} (x : PM α) {k k' : α → PM Stmt} (h : ∀ a, Rc c' (k a) (k' a)) :
    Rc c' (x >>= k) (x >>= k') := by
  intro st r hr
  simp only [StateT.run_bind] at hr ⊢
  cases hx : x.run st with
  | error e => rw [hx] at hr; cases hr
  | ok p =>
    rw [hx] at hr
    exact h p.1 p.2 r hr

theorem Rc.of_error {c' : Col} (x y : PM Stmt) (hx : ∀ st, ∃ e, x.run st = .error e) : Rc c' x y := by
  intro st r hr
  obtain ⟨e, he⟩ := hx st
  rw [he] at hr; cases hr

theorem letTail_rc (fuel : Nat) (b b' : Bool) (c c' : Col) (t : Option Token) :
    Rc c' (letTail fuel b c t) (letTail fuel b' c' t) := by
  unfold letTail
  simp only
  split
  · split
    · refine Rc.bind _ (fun _ => Rc.bind _ (fun _ => Rc.bind _ (fun v => Rc.bind _ (fun _ =>
        Rc.bind _ (fun pos => Rc.bind _ (fun len => Rc.bind _ (fun _ => Rc.bind _ (fun _ =>
        Rc.bind _ (fun e => ?_)))))))))
      intro st r hr
      cases hr; rfl
    · refine Rc.bind _ (fun v => Rc.bind _ (fun t' => ?_))
      split
      · refine Rc.bind _ (fun e => ?_)
        intro st r hr
        cases hr; rfl
      · apply Rc.of_error
        intro st
        cases b
        · exact ⟨_, failHere_run _ _ st⟩
        · exact ⟨_, fail_run _ _ _ st⟩
  · simp only [Bool.false_eq_true, if_false]
    refine Rc.bind _ (fun v => Rc.bind _ (fun t' => ?_))
    split
    · refine Rc.bind _ (fun e => ?_)
      intro st r hr
      cases hr; rfl
    · apply Rc.of_error
      intro st
      cases b
      · exact ⟨_, failHere_run _ _ st⟩
      · exact ⟨_, fail_run _ _ _ st⟩

theorem statement_let_step (fuel : Nat) (ts : List Token) (cs ce : Nat) :
    (statement (fuel + 1)).run (st0 (.word .let :: ts) cs ce) =
      (letStmt fuel false).run (st0 ts ce (ce + 3)) := by
  have hp := peek_solid [] (.word .let) ts AllWs.nil ⟨fun n => by simp, rfl⟩ cs ce
  simp only [List.nil_append, width, printTokens, List.flatMap_nil, List.length_nil, Nat.add_zero] at hp
  rw [statement]
  simp only [StateT.run_bind, hp, ok_bind, next_stPeeked]
  rfl

theorem statement_ident_step (fuel : Nat) (st st1 : PState) (i : TIdent)
    (hp : peek.run st = .ok (some (.ident i), st1)) :
    (statement (fuel + 1)).run st = (letStmt fuel true).run st1 := by
  rw [statement]
  simp only [StateT.run_bind, hp, ok_bind]

/-- C16, optional LET: if the assignment `ts` (first significant token: a name) parses as the
    statement `r` when read from the column where `LET` ends, then `LET ts` parses as the same
    statement — same variable, same expression trees with the same columns, same parser state
    afterwards — except that the statement's own column is that of the word `LET` -/
theorem let_optional (fuel : Nat) (ts : List Token) (cs ce x : Nat) (i : TIdent) (st1 : PState)
    (hp : peek.run (st0 ts x (ce + 3)) = .ok (some (.ident i), st1))
    (r : Stmt) (st' : PState) (hbare : (statement (fuel + 1)).run (st0 ts x (ce + 3)) = .ok (r, st')) :
    (statement (fuel + 1)).run (st0 (.word .let :: ts) cs ce) = .ok (reCol (ce, ce + 3) r, st') := by
  have hst1 : st1 = afterPeek ts false x (ce + 3) ∧ peekTok ts false x (ce + 3) = some (.ident i) := by
    rw [peek_st0] at hp
    have h1 := Prod.mk.inj (Except.ok.inj hp)
    exact ⟨h1.2.symm, h1.1⟩
  have hpp : peek.run st1 = .ok (some (.ident i), st1) := by
    rw [hst1.1, peek_afterPeek, hst1.2]
  have hp' : peek.run (st0 ts ce (ce + 3)) = .ok (some (.ident i), st1) := by
    rw [peek_st0, hst1.1, ← hst1.2]
    simp only [peekTok, afterPeek, nextLoop_cs ts false ce x]
  rw [statement_ident_step fuel _ _ i hp, letStmt_eq] at hbare
  simp only [StateT.run_bind, col_run, ok_bind, hpp] at hbare
  rw [statement_let_step, letStmt_eq]
  simp only [StateT.run_bind, col_run, ok_bind, hp']
  exact letTail_rc fuel true false _ (ce, ce + 3) _ st1 (r, st') hbare

end Lemmas.Spelling
end Basic
