import BasicModel.Model.Parse
import BasicModel.Spec.PrecSpec
/-
  Lemmas about the expression parser (`Parse.descend` / `Parse.binLoop`) used by `Thm/C02.lean`:
  the token stream seen through the one-token look-ahead (`view`), one-step equations of the two
  mutually recursive functions, and the induction of DESIGN Appendix A (`G`, `C_of_G`, `G_all`).

  Fuel: instead of proving monotonicity in the fuel, "succeeds" is taken as *for all sufficiently
  large fuel* (`Descends`, `Loops`); such statements compose by taking maxima, and they give the
  plain `∃ fuel` at the end.
-/
namespace Basic
namespace Lemmas.ParseExpr
open Parse

/-- a token that `nextLoop` hands out as it is: not whitespace, not a remark word -/
def Plain (t : Token) : Prop := (∀ n, t ≠ .whitespace n) ∧ isRem t = false

/-- parser states in which no remark has been seen and no whitespace / remark token is ahead -/
structure Good (st : PState) : Prop where
  rem : st.rem = false
  plain : ∀ t ∈ st.toks, Plain t

/-- the tokens still to be read, the look-ahead included -/
def view (st : PState) : List Token :=
  match st.peeked with
  | some t => t :: st.toks
  | none => st.toks

theorem nextLoop_plain (t : Token) (ts : List Token) (cs ce : Nat) (h : Plain t) :
    nextLoop (t :: ts) false cs ce = (some t, ts, false, ce, ce + t.text.length) := by
  obtain ⟨h1, h2⟩ := h
  cases t <;> simp_all [nextLoop]

theorem next_cons {st : PState} {t : Token} {ts : List Token} (hg : Good st)
    (hv : view st = t :: ts) :
    ∃ st1, next.run st = .ok (some t, st1) ∧ Good st1 ∧ view st1 = ts ∧ st1.peeked = none := by
  obtain ⟨toks, peeked, rem, cs, ce⟩ := st
  obtain ⟨hr, hp⟩ := hg
  simp only at hr hp
  subst hr
  cases peeked with
  | some t0 =>
    simp only [view, List.cons.injEq] at hv
    obtain ⟨rfl, rfl⟩ := hv
    exact ⟨{ toks := toks, peeked := none, rem := false, cs := cs, ce := ce }, rfl, ⟨rfl, hp⟩, rfl, rfl⟩
  | none =>
    simp only [view] at hv
    subst hv
    have hpl : Plain t := hp t (by simp)
    refine ⟨{ toks := ts, peeked := none, rem := false, cs := ce, ce := ce + t.text.length }, ?_,
      ⟨rfl, fun t' h' => hp t' (by simp [h'])⟩, rfl, rfl⟩
    simp [next, nextLoop_plain t ts cs ce hpl, StateT.run, bind, StateT.bind, get, getThe,
      MonadStateOf.get, StateT.get, set, StateT.set, pure, StateT.pure, Except.bind, Except.pure]

theorem next_nil {st : PState} (hg : Good st) (hv : view st = []) :
    ∃ st1, next.run st = .ok (none, st1) ∧ Good st1 ∧ view st1 = [] ∧ st1.peeked = none := by
  obtain ⟨toks, peeked, rem, cs, ce⟩ := st
  obtain ⟨hr, hp⟩ := hg
  simp only at hr hp
  subst hr
  cases peeked with
  | some t0 => simp [view] at hv
  | none =>
    simp only [view] at hv
    subst hv
    refine ⟨{ toks := [], peeked := none, rem := false, cs := ce, ce := ce }, ?_,
      ⟨rfl, by simp⟩, rfl, rfl⟩
    simp [next, nextLoop, StateT.run, bind, StateT.bind, get, getThe,
      MonadStateOf.get, StateT.get, set, StateT.set, pure, StateT.pure, Except.bind, Except.pure]

theorem peek_cons {st : PState} {t : Token} {ts : List Token} (hg : Good st)
    (hv : view st = t :: ts) :
    ∃ st1, peek.run st = .ok (some t, st1) ∧ Good st1 ∧ view st1 = t :: ts := by
  cases hpk : st.peeked with
  | some t0 =>
    have : t0 = t := by simp [view, hpk] at hv; exact hv.1
    subst this
    refine ⟨st, ?_, hg, hv⟩
    simp [peek, hpk, StateT.run, bind, StateT.bind, get, getThe,
      MonadStateOf.get, StateT.get, pure, StateT.pure, Except.bind, Except.pure]
  | none =>
    obtain ⟨st1, h1, hg1, hv1, hp1⟩ := next_cons hg hv
    refine ⟨{ st1 with peeked := some t }, ?_, ⟨hg1.rem, hg1.plain⟩, ?_⟩
    · have h1' : next st = .ok (some t, st1) := h1
      simp [peek, hpk, h1', StateT.run, bind, StateT.bind, get, getThe,
        MonadStateOf.get, StateT.get, pure, StateT.pure, Except.bind, Except.pure, modify,
        modifyGet, MonadStateOf.modifyGet, StateT.modifyGet]
    · simp [view, hp1] at hv1 ⊢
      exact hv1

theorem peek_nil {st : PState} (hg : Good st) (hv : view st = []) :
    ∃ st1, peek.run st = .ok (none, st1) ∧ Good st1 ∧ view st1 = [] := by
  cases hpk : st.peeked with
  | some t0 => simp [view, hpk] at hv
  | none =>
    obtain ⟨st1, h1, hg1, hv1, hp1⟩ := next_nil hg hv
    refine ⟨{ st1 with peeked := none }, ?_, ⟨hg1.rem, hg1.plain⟩, ?_⟩
    · have h1' : next st = .ok (none, st1) := h1
      simp [peek, hpk, h1', StateT.run, bind, StateT.bind, get, getThe,
        MonadStateOf.get, StateT.get, pure, StateT.pure, Except.bind, Except.pure, modify,
        modifyGet, MonadStateOf.modifyGet, StateT.modifyGet]
    · simp [view, hp1] at hv1 ⊢
      exact hv1

theorem col_run (st : PState) : col.run st = .ok ((st.cs, st.ce), st) := rfl

/-! ### the generated precedence tables are the documented ones -/

theorem binaryPrec_documented : ∀ op, Gen.binaryPrec op = Spec.documentedPrec op := by
  intro op; cases op <;> rfl

theorem unaryPrec_documented : ∀ op, Gen.unaryPrec op = Spec.documentedUnaryPrec op := by
  intro op; cases op <;> rfl

theorem ofOperator_operatorOf (b : BinOp) : BinOp.ofOperator (Spec.operatorOf b) = some b := by
  cases b <;> rfl

/-! ### success for all sufficiently large fuel -/

def Descends (vm : VarMap) (p : Nat) (st : PState) (res : Expr × PState) : Prop :=
  ∃ N, ∀ f, N ≤ f → (descend f vm p).run st = .ok res

def Loops (vm : VarMap) (p : Nat) (lhs : Expr) (st : PState) (res : Expr × PState) : Prop :=
  ∃ N, ∀ f, N ≤ f → (binLoop f vm p lhs).run st = .ok res

theorem ok_bind {ε α β} (a : α) (f : α → Except ε β) : (Except.ok a >>= f) = f a := rfl

/-! ### one step of `descend` / `binLoop` / `expect` -/

theorem descends_lit {vm : VarMap} {p : Nat} {st : PState} {s : Str} {n : Int16} {ts : List Token}
    (hg : Good st) (hv : view st = .literal (.integer s) :: ts)
    (hs : Fmt.parseI16 (numText s) = some n) :
    ∃ c st1, Good st1 ∧ view st1 = ts ∧
      ∀ res, Loops vm p (.integer c n) st1 res → Descends vm p st res := by
  obtain ⟨st1, h1, hg1, hv1, _⟩ := next_cons hg hv
  refine ⟨(st1.cs, st1.ce), st1, hg1, hv1, ?_⟩
  rintro res ⟨N, hN⟩
  refine ⟨N + 1, fun f hf => ?_⟩
  obtain ⟨f, rfl⟩ : ∃ f', f = f' + 1 := ⟨f - 1, by omega⟩
  rw [descend]
  simp only [StateT.run_bind, h1, ok_bind, col_run, literal, hs, StateT.run_pure, pure_bind]
  exact hN f (by omega)

theorem descends_neg {vm : VarMap} {p : Nat} {st : PState} {ts : List Token}
    (hg : Good st) (hv : view st = .operator .minus :: ts) :
    ∃ c st1, Good st1 ∧ view st1 = ts ∧
      ∀ x st2 res, Descends vm (Spec.documentedUnaryPrec .minus) st1 (x, st2) →
        Loops vm p (.neg c x) st2 res → Descends vm p st res := by
  obtain ⟨st1, h1, hg1, hv1, _⟩ := next_cons hg hv
  refine ⟨(st1.cs, st1.ce), st1, hg1, hv1, ?_⟩
  rintro x st2 res ⟨N1, hN1⟩ ⟨N2, hN2⟩
  refine ⟨max N1 N2 + 1, fun f hf => ?_⟩
  obtain ⟨f, rfl⟩ : ∃ f', f = f' + 1 := ⟨f - 1, by omega⟩
  rw [descend]
  simp only [StateT.run_bind, h1, ok_bind, col_run, unaryPrec_documented, hN1 f (by omega),
    StateT.run_pure, pure_bind]
  exact hN2 f (by omega)

theorem descends_not {vm : VarMap} {p : Nat} {st : PState} {ts : List Token}
    (hg : Good st) (hv : view st = .operator .not :: ts) :
    ∃ c st1, Good st1 ∧ view st1 = ts ∧
      ∀ x st2 res, Descends vm (Spec.documentedUnaryPrec .not) st1 (x, st2) →
        Loops vm p (.not c x) st2 res → Descends vm p st res := by
  obtain ⟨st1, h1, hg1, hv1, _⟩ := next_cons hg hv
  refine ⟨(st1.cs, st1.ce), st1, hg1, hv1, ?_⟩
  rintro x st2 res ⟨N1, hN1⟩ ⟨N2, hN2⟩
  refine ⟨max N1 N2 + 1, fun f hf => ?_⟩
  obtain ⟨f, rfl⟩ : ∃ f', f = f' + 1 := ⟨f - 1, by omega⟩
  rw [descend]
  simp only [StateT.run_bind, h1, ok_bind, col_run, unaryPrec_documented, hN1 f (by omega),
    StateT.run_pure, pure_bind]
  exact hN2 f (by omega)

/-- unary plus builds no node -/
theorem descends_plus {vm : VarMap} {p : Nat} {st : PState} {ts : List Token}
    (hg : Good st) (hv : view st = .operator .plus :: ts) :
    ∃ st1, Good st1 ∧ view st1 = ts ∧
      ∀ x st2 res, Descends vm (Spec.documentedUnaryPrec .plus) st1 (x, st2) →
        Loops vm p x st2 res → Descends vm p st res := by
  obtain ⟨st1, h1, hg1, hv1, _⟩ := next_cons hg hv
  refine ⟨st1, hg1, hv1, ?_⟩
  rintro x st2 res ⟨N1, hN1⟩ ⟨N2, hN2⟩
  refine ⟨max N1 N2 + 1, fun f hf => ?_⟩
  obtain ⟨f, rfl⟩ : ∃ f', f = f' + 1 := ⟨f - 1, by omega⟩
  rw [descend]
  simp only [StateT.run_bind, h1, ok_bind, unaryPrec_documented, hN1 f (by omega)]
  exact hN2 f (by omega)

theorem descends_paren {vm : VarMap} {p : Nat} {st : PState} {ts : List Token}
    (hg : Good st) (hv : view st = .lparen :: ts) :
    ∃ st1, Good st1 ∧ view st1 = ts ∧
      ∀ x st2 st3 res, Descends vm 0 st1 (x, st2) → (expect .rparen).run st2 = .ok ((), st3) →
        Loops vm p x st3 res → Descends vm p st res := by
  obtain ⟨st1, h1, hg1, hv1, _⟩ := next_cons hg hv
  refine ⟨st1, hg1, hv1, ?_⟩
  rintro x st2 st3 res ⟨N1, hN1⟩ he ⟨N2, hN2⟩
  refine ⟨max N1 N2 + 1, fun f hf => ?_⟩
  obtain ⟨f, rfl⟩ : ∃ f', f = f' + 1 := ⟨f - 1, by omega⟩
  rw [descend]
  simp only [StateT.run_bind, h1, ok_bind, hN1 f (by omega), he, StateT.run_pure, pure_bind]
  exact hN2 f (by omega)

theorem expect_cons {st : PState} {t : Token} {ts : List Token} (hg : Good st)
    (hv : view st = t :: ts) :
    ∃ st1, (expect t).run st = .ok ((), st1) ∧ Good st1 ∧ view st1 = ts := by
  obtain ⟨st1, h1, hg1, hv1, _⟩ := next_cons hg hv
  refine ⟨st1, ?_, hg1, hv1⟩
  simp only [expect, StateT.run_bind, h1, ok_bind, if_true, StateT.run_pure]
  rfl

/-- the loop continues over an operator of higher precedence than `p` -/
theorem loops_step {vm : VarMap} {p : Nat} {lhs : Expr} {st : PState} {op : Operator} {b : BinOp}
    {ts : List Token}
    (hg : Good st) (hv : view st = .operator op :: ts) (hp : p < Spec.documentedPrec op)
    (hb : BinOp.ofOperator op = some b) :
    ∃ c st1, Good st1 ∧ view st1 = ts ∧
      ∀ r st2 res, Descends vm (Spec.documentedPrec op) st1 (r, st2) →
        Loops vm p (.bin b c lhs r) st2 res → Loops vm p lhs st res := by
  obtain ⟨st0, h0, hg0, hv0⟩ := peek_cons hg hv
  obtain ⟨st1, h1, hg1, hv1, _⟩ := next_cons hg0 hv0
  refine ⟨(st1.cs, st1.ce), st1, hg1, hv1, ?_⟩
  rintro r st2 res ⟨N1, hN1⟩ ⟨N2, hN2⟩
  refine ⟨max N1 N2 + 1, fun f hf => ?_⟩
  obtain ⟨f, rfl⟩ : ∃ f', f = f' + 1 := ⟨f - 1, by omega⟩
  rw [binLoop]
  simp only [StateT.run_bind, h0, ok_bind, binaryPrec_documented, if_neg (Nat.not_le.2 hp), h1,
    col_run, hN1 f (by omega), hb]
  exact hN2 f (by omega)

/-- the next token is not a binary operator of (documented) precedence above `q` -/
def stops (q : Nat) : List Token → Prop
  | .operator op :: _ => Spec.documentedPrec op ≤ q
  | _ => True

theorem stops_mono {q q' : Nat} {ts : List Token} (h : stops q ts) (hq : q ≤ q') : stops q' ts := by
  match ts, h with
  | .operator op :: _, h => exact Nat.le_trans h hq
  | [], _ => trivial
  | .unknown _ :: _, _ | .whitespace _ :: _, _ | .literal _ :: _, _ | .word _ :: _, _
  | .ident _ :: _, _ | .lparen :: _, _ | .rparen :: _, _ | .comma :: _, _ | .colon :: _, _
  | .semicolon :: _, _ => trivial

/-- the loop stops (and returns its left operand) there -/
theorem loops_stop {vm : VarMap} {p : Nat} {lhs : Expr} {st : PState}
    (hg : Good st) (hs : stops p (view st)) :
    ∃ st1, Good st1 ∧ view st1 = view st ∧ Loops vm p lhs st (lhs, st1) := by
  cases hv : view st with
  | nil =>
    obtain ⟨st0, h0, hg0, hv0⟩ := peek_nil hg hv
    refine ⟨st0, hg0, hv0, 1, fun f hf => ?_⟩
    obtain ⟨f, rfl⟩ : ∃ f', f = f' + 1 := ⟨f - 1, by omega⟩
    rw [binLoop]
    simp only [StateT.run_bind, h0, ok_bind, StateT.run_pure]
    rfl
  | cons t ts =>
    obtain ⟨st0, h0, hg0, hv0⟩ := peek_cons hg hv
    refine ⟨st0, hg0, hv0, 1, fun f hf => ?_⟩
    obtain ⟨f, rfl⟩ : ∃ f', f = f' + 1 := ⟨f - 1, by omega⟩
    rw [binLoop]
    simp only [StateT.run_bind, h0, ok_bind]
    rw [hv] at hs
    cases t with
    | operator op =>
      simp only [stops] at hs
      simp only [binaryPrec_documented, if_pos hs, StateT.run_pure]
      rfl
    | _ => rfl

/-! ### the induction of Appendix A -/

open Spec in
theorem precOf_pos (b : BinOp) : 1 ≤ precOf b := by cases b <;> decide

open Spec in
theorem plevel_pos (e : Expr) : 0 < plevel e := by
  cases e <;> simp [plevel]
  exact precOf_pos _

open Spec in
theorem level_le_plevel (e : Expr) : level e ≤ plevel e := by
  cases e <;> simp [level, plevel]

/-- what parsing the rendering of `e` (followed by `t'`) at precedence `p` from `st` achieves: it is
    as if the operator loop stood after a tree `e'` of the same shape with `t'` still to read -/
def Post (vm : VarMap) (p : Nat) (e : Expr) (t' : List Token) (st : PState) : Prop :=
  ∃ e' st', e'.shape = e.shape ∧ Good st' ∧ view st' = t' ∧
    ∀ res, Loops vm p e' st' res → Descends vm p st res

open Spec in
/-- the invariant carried through the induction on `e` -/
def G (vm : VarMap) (lit : Int16 → Str) (e : Expr) : Prop :=
  ∀ (p : Nat) (st : PState) (t' : List Token), Good st → view st = render lit e ++ t' →
    p < plevel e → stops (level e) t' → Post vm p e t' st

open Spec in
/-- an operand, parenthesised or not -/
theorem C_of_G {vm : VarMap} {lit : Int16 → Str} {e : Expr} (hG : G vm lit e)
    (q : Nat) (strict : Bool) (p : Nat) (st : PState) (t' : List Token) (hg : Good st)
    (hv : view st = child lit q strict e ++ t') (hp : if strict then p ≤ q else p < q)
    (hs : stops q t') : Post vm p e t' st := by
  unfold child at hv
  cases hn : needsParens q strict e with
  | true =>
    rw [hn, if_pos rfl] at hv
    have hv' : view st = .lparen :: (render lit e ++ (.rparen :: t')) := by
      rw [hv]; simp
    obtain ⟨st1, hg1, hv1, hD⟩ := descends_paren (vm := vm) (p := p) hg hv'
    obtain ⟨e', st2, hsh, hg2, hv2, hD2⟩ := hG 0 st1 (.rparen :: t') hg1 hv1 (plevel_pos e) trivial
    obtain ⟨st2', hg2', hv2', hL⟩ := loops_stop (vm := vm) (p := 0) (lhs := e') hg2
      (by rw [hv2]; trivial)
    rw [hv2] at hv2'
    obtain ⟨st3, he, hg3, hv3⟩ := expect_cons hg2' hv2'
    exact ⟨e', st3, hsh, hg3, hv3, fun res h => hD e' st2' st3 res (hD2 _ hL) he h⟩
  | false =>
    rw [hn] at hv
    simp only [Bool.false_eq_true, if_false] at hv
    have hlev : p < level e ∧ q ≤ level e := by
      unfold needsParens at hn
      cases strict with
      | true => simp at hn hp; omega
      | false => simp at hn hp; omega
    exact hG p st t' hg hv (Nat.lt_of_lt_of_le hlev.1 (level_le_plevel e)) (stops_mono hs hlev.2)

open Spec in
theorem G_all (vm : VarMap) (lit : Int16 → Str) {e : Expr}
    (hf : Frag (fun n => Fmt.parseI16 (numText (lit n)) = some n) e) : G vm lit e := by
  induction hf with
  | int c n hn =>
    intro p st t' hg hv _ _
    obtain ⟨c1, st1, hg1, hv1, hD⟩ := descends_lit (vm := vm) (p := p) hg hv hn
    exact ⟨.integer c1 n, st1, rfl, hg1, hv1, hD⟩
  | neg c x _ ih =>
    intro p st t' hg hv _ hs
    have hv' : view st = .operator .minus :: (child lit 12 true x ++ t') := by
      rw [hv]; simp [render, child]
    obtain ⟨c1, st1, hg1, hv1, hD⟩ := descends_neg (vm := vm) (p := p) hg hv'
    obtain ⟨x', st2, hsh, hg2, hv2, hD2⟩ := C_of_G ih 12 true 12 st1 t' hg1 hv1 (Nat.le_refl _) hs
    obtain ⟨st2', hg2', hv2', hL⟩ := loops_stop (vm := vm) (p := 12) (lhs := x') hg2
      (by rw [hv2]; exact hs)
    refine ⟨.neg c1 x', st2', ?_, hg2', hv2'.trans hv2, fun res h => hD x' st2' res (hD2 _ hL) h⟩
    simp [Expr.shape, hsh]
  | not c x _ ih =>
    intro p st t' hg hv _ hs
    have hv' : view st = .operator .not :: (child lit 6 true x ++ t') := by
      rw [hv]; simp [render, child]
    obtain ⟨c1, st1, hg1, hv1, hD⟩ := descends_not (vm := vm) (p := p) hg hv'
    obtain ⟨x', st2, hsh, hg2, hv2, hD2⟩ := C_of_G ih 6 true 6 st1 t' hg1 hv1 (Nat.le_refl _) hs
    obtain ⟨st2', hg2', hv2', hL⟩ := loops_stop (vm := vm) (p := 6) (lhs := x') hg2
      (by rw [hv2]; exact hs)
    refine ⟨.not c1 x', st2', ?_, hg2', hv2'.trans hv2, fun res h => hD x' st2' res (hD2 _ hL) h⟩
    simp [Expr.shape, hsh]
  | bin op c l r _ _ ihl ihr =>
    intro p st t' hg hv hp hs
    have hp' : p < precOf op := hp
    have hs' : stops (precOf op) t' := hs
    have hv' : view st = child lit (precOf op) false l ++
        (.operator (operatorOf op) :: (child lit (precOf op) true r ++ t')) := by
      rw [hv]; simp [render, child]
    obtain ⟨l', st1, hshl, hg1, hv1, hD1⟩ :=
      C_of_G ihl (precOf op) false p st _ hg hv' hp' (Nat.le_refl _)
    obtain ⟨c1, st2, hg2, hv2, hL⟩ := loops_step (vm := vm) (lhs := l') hg1 hv1 hp'
      (ofOperator_operatorOf op)
    obtain ⟨r', st3, hshr, hg3, hv3, hD2⟩ :=
      C_of_G ihr (precOf op) true (precOf op) st2 t' hg2 hv2 (Nat.le_refl _) hs'
    obtain ⟨st3', hg3', hv3', hL3⟩ := loops_stop (vm := vm) (p := precOf op) (lhs := r') hg3
      (by rw [hv3]; exact hs')
    refine ⟨.bin op c1 l' r', st3', ?_, hg3', hv3'.trans hv3,
      fun res h => hD1 res (hL r' st3' res (hD2 _ hL3) h)⟩
    simp [Expr.shape, hshl, hshr]

open Spec in
theorem level_le_100 (e : Expr) : level e ≤ 100 := by
  cases e <;> simp [level]
  rename_i op _ _ _
  cases op <;> decide

/-! ### any legal parenthesisation (`Spec.Renders`) -/

open Spec in
theorem renders_levels {lit : Int16 → Str} {ok : Int16 → Prop} {e : Expr} {ts : List Token}
    {lv plv : Nat} (h : Renders lit ok e ts lv plv) : lv ≤ plv ∧ 0 < plv := by
  induction h with
  | int => exact ⟨Nat.le_refl _, by decide⟩
  | paren => exact ⟨Nat.le_refl _, by decide⟩
  | neg => exact ⟨by decide, by decide⟩
  | not => exact ⟨by decide, by decide⟩
  | bin op => exact ⟨Nat.le_refl _, precOf_pos op⟩

open Spec in
/-- the invariant `G` for every legal listing of `e`, by one induction on the derivation -/
theorem G_renders (vm : VarMap) (lit : Int16 → Str) {e : Expr} {ts : List Token} {lv plv : Nat}
    (hr : Renders lit (fun n => Fmt.parseI16 (numText (lit n)) = some n) e ts lv plv) :
    ∀ (p : Nat) (st : PState) (t' : List Token), Good st → view st = ts ++ t' →
      p < plv → stops lv t' → Post vm p e t' st := by
  induction hr with
  | int c n hn =>
    intro p st t' hg hv _ _
    obtain ⟨c1, st1, hg1, hv1, hD⟩ := descends_lit (vm := vm) (p := p) hg hv hn
    exact ⟨.integer c1 n, st1, rfl, hg1, hv1, hD⟩
  | @paren e ts lv plv hr ih =>
    intro p st t' hg hv _ _
    have hv' : view st = .lparen :: (ts ++ (.rparen :: t')) := by rw [hv]; simp
    obtain ⟨st1, hg1, hv1, hD⟩ := descends_paren (vm := vm) (p := p) hg hv'
    obtain ⟨e', st2, hsh, hg2, hv2, hD2⟩ :=
      ih 0 st1 (.rparen :: t') hg1 hv1 (renders_levels hr).2 trivial
    obtain ⟨st2', hg2', hv2', hL⟩ := loops_stop (vm := vm) (p := 0) (lhs := e') hg2
      (by rw [hv2]; trivial)
    rw [hv2] at hv2'
    obtain ⟨st3, he, hg3, hv3⟩ := expect_cons hg2' hv2'
    exact ⟨e', st3, hsh, hg3, hv3, fun res h => hD e' st2' st3 res (hD2 _ hL) he h⟩
  | @neg c x ts lv plv hr hlv ih =>
    intro p st t' hg hv _ hs
    have hv' : view st = .operator .minus :: (ts ++ t') := by rw [hv]; rfl
    obtain ⟨c1, st1, hg1, hv1, hD⟩ := descends_neg (vm := vm) (p := p) hg hv'
    obtain ⟨x', st2, hsh, hg2, hv2, hD2⟩ := ih 12 st1 t' hg1 hv1
      (Nat.lt_of_lt_of_le hlv (renders_levels hr).1) (stops_mono hs (Nat.le_of_lt hlv))
    obtain ⟨st2', hg2', hv2', hL⟩ := loops_stop (vm := vm) (p := 12) (lhs := x') hg2
      (by rw [hv2]; exact hs)
    refine ⟨.neg c1 x', st2', ?_, hg2', hv2'.trans hv2, fun res h => hD x' st2' res (hD2 _ hL) h⟩
    simp [Expr.shape, hsh]
  | @not c x ts lv plv hr hlv ih =>
    intro p st t' hg hv _ hs
    have hv' : view st = .operator .not :: (ts ++ t') := by rw [hv]; rfl
    obtain ⟨c1, st1, hg1, hv1, hD⟩ := descends_not (vm := vm) (p := p) hg hv'
    obtain ⟨x', st2, hsh, hg2, hv2, hD2⟩ := ih 6 st1 t' hg1 hv1
      (Nat.lt_of_lt_of_le hlv (renders_levels hr).1) (stops_mono hs (Nat.le_of_lt hlv))
    obtain ⟨st2', hg2', hv2', hL⟩ := loops_stop (vm := vm) (p := 6) (lhs := x') hg2
      (by rw [hv2]; exact hs)
    refine ⟨.not c1 x', st2', ?_, hg2', hv2'.trans hv2, fun res h => hD x' st2' res (hD2 _ hL) h⟩
    simp [Expr.shape, hsh]
  | @bin op c l r tl tr lvl plvl lvr plvr hl hr hll hlr ihl ihr =>
    intro p st t' hg hv hp hs
    have hv' : view st = tl ++ (.operator (operatorOf op) :: (tr ++ t')) := by rw [hv]; simp
    obtain ⟨l', st1, hshl, hg1, hv1, hD1⟩ := ihl p st _ hg hv'
      (Nat.lt_of_lt_of_le hp (Nat.le_trans hll (renders_levels hl).1))
      (show stops lvl (.operator (operatorOf op) :: (tr ++ t')) from hll)
    obtain ⟨c1, st2, hg2, hv2, hL⟩ := loops_step (vm := vm) (lhs := l') hg1 hv1
      (show p < documentedPrec (operatorOf op) from hp) (ofOperator_operatorOf op)
    obtain ⟨r', st3, hshr, hg3, hv3, hD2⟩ := ihr (precOf op) st2 t' hg2 hv2
      (Nat.lt_of_lt_of_le hlr (renders_levels hr).1) (stops_mono hs (Nat.le_of_lt hlr))
    obtain ⟨st3', hg3', hv3', hL3⟩ := loops_stop (vm := vm) (p := precOf op) (lhs := r') hg3
      (by rw [hv3]; exact hs)
    refine ⟨.bin op c1 l' r', st3', ?_, hg3', hv3'.trans hv3,
      fun res h => hD1 res (hL r' st3' res (hD2 _ hL3) h)⟩
    simp [Expr.shape, hshl, hshr]

open Spec in
/-- `Spec.render` is one of the legal listings (the one with the fewest parentheses) -/
theorem render_renders (lit : Int16 → Str) {ok : Int16 → Prop} {e : Expr} (hf : Frag ok e) :
    Renders lit ok e (render lit e) (level e) (plevel e) := by
  have operand : ∀ (q : Nat) (strict : Bool) (x : Expr), q < 100 →
      Renders lit ok x (render lit x) (level x) (plevel x) →
      ∃ lv plv, Renders lit ok x (child lit q strict x) lv plv ∧
        (if strict then q < lv else q ≤ lv) := by
    intro q strict x hq hx
    unfold child
    cases hn : needsParens q strict x with
    | true =>
      refine ⟨100, 100, by simpa using Renders.paren hx, ?_⟩
      have : q < 100 ∧ q ≤ 100 := ⟨hq, Nat.le_of_lt hq⟩
      cases strict <;> simp [this.1, this.2]
    | false =>
      refine ⟨level x, plevel x, by simpa using hx, ?_⟩
      unfold needsParens at hn
      cases strict <;> simp at hn ⊢ <;> omega
  induction hf with
  | int c n hn => exact .int c n hn
  | neg c x _ ih =>
    obtain ⟨lv, plv, h, hlv⟩ := operand 12 true x (by decide) ih
    exact .neg c h (by simpa using hlv)
  | not c x _ ih =>
    obtain ⟨lv, plv, h, hlv⟩ := operand 6 true x (by decide) ih
    exact .not c h (by simpa using hlv)
  | bin op c l r _ _ ihl ihr =>
    have hq : precOf op < 100 := by cases op <;> decide
    obtain ⟨lvl, plvl, hl, hll⟩ := operand (precOf op) false l hq ihl
    obtain ⟨lvr, plvr, hr, hlr⟩ := operand (precOf op) true r hq ihr
    exact .bin op c hl hr (by simpa using hll) (by simpa using hlr)

end Lemmas.ParseExpr
end Basic
