import BasicModel.Model.Var
/-
  Finite-map laws of the association lists used for `vars` and `dims` (`Basic.AL`).
-/
namespace Basic
namespace AL
variable {κ : Type} {α : Type} [DecidableEq κ]

/-- keys are pairwise distinct (the list is a map, its length is the number of keys) -/
def NoDup (l : List (κ × α)) : Prop := (l.map (·.1)).Nodup

theorem get_nil (k : κ) : get k ([] : List (κ × α)) = none := rfl

theorem get_cons (k k' : κ) (v : α) (l : List (κ × α)) :
    get k ((k', v) :: l) = if k' = k then some v else get k l := rfl

theorem mem_of_get {k : κ} {x : α} : ∀ {l : List (κ × α)}, get k l = some x → (k, x) ∈ l
  | [], h => by simp [get] at h
  | (k', v) :: r, h => by
    rw [get_cons] at h
    by_cases hk : k' = k
    · rw [if_pos hk] at h
      cases h; subst hk; exact List.mem_cons_self
    · rw [if_neg hk] at h
      exact List.mem_cons_of_mem _ (mem_of_get h)

theorem get_none_iff {k : κ} : ∀ {l : List (κ × α)}, get k l = none ↔ ∀ p ∈ l, p.1 ≠ k
  | [] => by simp [get]
  | (k', v) :: r => by
    rw [get_cons]
    by_cases hk : k' = k
    · simp [hk]
    · simp only [if_neg hk, List.mem_cons, forall_eq_or_imp]
      rw [get_none_iff (l := r)]
      exact ⟨fun h => ⟨hk, h⟩, fun h => h.2⟩

theorem get_of_mem {k : κ} {x : α} : ∀ {l : List (κ × α)}, NoDup l → (k, x) ∈ l → get k l = some x
  | [], _, h => by cases h
  | (k', v) :: r, hd, h => by
    rw [get_cons]
    have hd' : k' ∉ r.map (·.1) ∧ NoDup r := by
      simpa [NoDup, List.nodup_cons] using hd
    rcases List.mem_cons.1 h with h | h
    · cases h; simp
    · have : k' ≠ k := by
        intro e; subst e
        exact hd'.1 (List.mem_map.2 ⟨_, h, rfl⟩)
      rw [if_neg this]
      exact get_of_mem hd'.2 h

theorem mem_erase {k : κ} {p : κ × α} {l : List (κ × α)} : p ∈ erase k l ↔ p ∈ l ∧ p.1 ≠ k := by
  simp [erase, List.mem_filter]

theorem get_erase_self (k : κ) (l : List (κ × α)) : get k (erase k l) = none := by
  rw [get_none_iff]
  intro p hp
  exact (mem_erase.1 hp).2

theorem get_erase_ne {k k' : κ} (h : k' ≠ k) : ∀ (l : List (κ × α)), get k' (erase k l) = get k' l
  | [] => rfl
  | (a, v) :: r => by
    by_cases ha : a = k
    · have : erase k ((a, v) :: r) = erase k r := by simp [erase, ha]
      rw [this, get_erase_ne h r, get_cons, if_neg]
      intro e; exact h (e ▸ ha)
    · have : erase k ((a, v) :: r) = (a, v) :: erase k r := by simp [erase, ha]
      rw [this, get_cons, get_cons, get_erase_ne h r]

theorem erase_of_get_none {k : κ} {l : List (κ × α)} (h : get k l = none) : erase k l = l := by
  rw [get_none_iff] at h
  simp only [erase]
  rw [List.filter_eq_self]
  intro p hp
  simpa using h p hp

theorem set_eq (k : κ) (v : α) (l : List (κ × α)) : set k v l = (k, v) :: erase k l := by
  unfold set
  split
  · rfl
  · rename_i h
    have : get k l = none := by
      cases hh : get k l with
      | none => rfl
      | some _ => simp [hh] at h
    rw [erase_of_get_none this]

theorem get_set_self (k : κ) (v : α) (l : List (κ × α)) : get k (set k v l) = some v := by
  rw [set_eq, get_cons, if_pos rfl]

theorem get_set_ne {k k' : κ} (h : k' ≠ k) (v : α) (l : List (κ × α)) :
    get k' (set k v l) = get k' l := by
  rw [set_eq, get_cons, if_neg (fun e => h e.symm), get_erase_ne h]

theorem mem_set {k : κ} {v : α} {p : κ × α} {l : List (κ × α)} :
    p ∈ set k v l ↔ p = (k, v) ∨ (p ∈ l ∧ p.1 ≠ k) := by
  rw [set_eq, List.mem_cons, mem_erase]

theorem length_erase_le (k : κ) (l : List (κ × α)) : (erase k l).length ≤ l.length :=
  List.length_filter_le _ _

theorem length_set_le (k : κ) (v : α) (l : List (κ × α)) : (set k v l).length ≤ l.length + 1 := by
  rw [set_eq, List.length_cons]
  exact Nat.succ_le_succ (length_erase_le k l)

/-- removing a key that is present frees at least one entry -/
theorem length_erase_lt_of_contains {k : κ} {l : List (κ × α)} (h : contains k l = true) :
    (erase k l).length + 1 ≤ l.length := by
  induction l with
  | nil => simp [contains, get] at h
  | cons p r ih =>
    obtain ⟨k', v⟩ := p
    by_cases hk : k' = k
    · subst hk
      have : (erase k' ((k', v) :: r)) = erase k' r := by simp [erase, List.filter_cons]
      rw [this, List.length_cons]
      exact Nat.succ_le_succ (length_erase_le k' r)
    · have hc : contains k r = true := by simpa [contains, get, hk] using h
      have : (erase k ((k', v) :: r)) = (k', v) :: erase k r := by simp [erase, List.filter_cons, hk]
      rw [this, List.length_cons, List.length_cons]
      exact Nat.succ_le_succ (ih hc)

/-- writing under a key that is present does not grow the list -/
theorem length_set_le_of_contains {k : κ} (v : α) {l : List (κ × α)} (h : contains k l = true) :
    (set k v l).length ≤ l.length := by
  rw [set_eq, List.length_cons]
  exact length_erase_lt_of_contains h

omit [DecidableEq κ] in
theorem noDup_filter {l : List (κ × α)} (p : κ × α → Bool) (h : NoDup l) : NoDup (l.filter p) := by
  unfold NoDup at *
  exact List.Nodup.sublist (List.Sublist.map _ List.filter_sublist) h

theorem noDup_erase {l : List (κ × α)} (k : κ) (h : NoDup l) : NoDup (erase k l) :=
  noDup_filter _ h

theorem noDup_set {l : List (κ × α)} (k : κ) (v : α) (h : NoDup l) : NoDup (set k v l) := by
  rw [set_eq]
  unfold NoDup
  rw [List.map_cons, List.nodup_cons]
  refine ⟨?_, noDup_erase k h⟩
  intro hm
  obtain ⟨p, hp, hk⟩ := List.mem_map.1 hm
  exact (mem_erase.1 hp).2 hk

omit [DecidableEq κ] in
theorem noDup_nil : NoDup ([] : List (κ × α)) := by simp [NoDup]

/-- `contains` is `get ≠ none` -/
theorem contains_iff {k : κ} {l : List (κ × α)} : contains k l = true ↔ ∃ x, get k l = some x := by
  unfold contains
  cases get k l <;> simp

/-- lookup in a filtered map whose keys are distinct -/
theorem get_filter {l : List (κ × α)} (hd : NoDup l) (p : κ × α → Bool) (k : κ) :
    get k (l.filter p) = match get k l with
      | some x => if p (k, x) then some x else none
      | none => none := by
  cases h : get k l with
  | none =>
    rw [get_none_iff] at h ⊢
    intro q hq
    exact h q (List.mem_filter.1 hq).1
  | some x =>
    have hm := mem_of_get h
    by_cases hp : p (k, x) = true
    · simp only [hp, if_true]
      exact get_of_mem (noDup_filter p hd) (List.mem_filter.2 ⟨hm, hp⟩)
    · have hp' : p (k, x) = false := by simpa using hp
      simp only [hp', Bool.false_eq_true, if_false]
      rw [get_none_iff]
      intro q hq hk
      have hq' := List.mem_filter.1 hq
      have : get k l = some q.2 := get_of_mem hd (by rw [← hk]; exact hq'.1)
      rw [h] at this
      cases this
      apply hp
      have : q = (k, q.2) := by rw [← hk]
      rw [← this]; exact hq'.2

end AL
end Basic
