import BasicModel.Lemmas.StepNoFault
import BasicModel.Lemmas.ProgramNames
import BasicModel.Lemmas.Inv
import BasicModel.Lemmas.LexIdent
import BasicModel.Model.Renum
/-
  The session-level invariant behind "the modelled panic sites are unreachable":

  * `ListingOk`: every stored line has fine identifier tokens; `EnvOk env`: the lexer and the RENUM
    rewriter of the environment only produce such lines;
  * `NoFaultSt`: neither `state` nor `cont` holds a fault as `runtimeError`;
  * `Fine env`: the frame relation "what every instruction preserves" (listing fine, no fault
    recorded), through `step`, a slice, `execute`;
  * `step_no_fault`, `sliceRun_no_fault`: a step, a slice never faults.
-/
namespace Basic
open Lemmas.ParseNames Program

/-! ### fine listings -/

def ListingOk (l : Listing) : Prop := ∀ p ∈ l.source, LineOk p.2

/-- the lexer and the RENUM rewriter only produce lines whose identifiers start with a letter -/
structure EnvOk (env : Env) : Prop where
  lex : ∀ src, LineOk (env.lex src)
  renum : ∀ ch l, LineOk l → LineOk (env.lineRenum ch l)

namespace Listing

theorem listingOk_lines {l : Listing} (h : ListingOk l) : ∀ x ∈ l.lines, LineOk x := by
  intro x hx
  unfold Listing.lines at hx
  obtain ⟨p, hp, rfl⟩ := List.mem_map.1 hx
  exact h p hp

theorem insertSorted_ok (n : Nat) (line : Line) (hl : LineOk line) :
    ∀ src : List (Nat × Line), (∀ p ∈ src, LineOk p.2) → ∀ p ∈ insertSorted n line src, LineOk p.2 := by
  intro src
  induction src with
  | nil =>
    intro _ p hp
    simp only [insertSorted, List.mem_singleton] at hp
    subst hp; exact hl
  | cons q r ih =>
    intro h p hp
    obtain ⟨k, x⟩ := q
    unfold insertSorted at hp
    split at hp
    · rcases List.mem_cons.1 hp with rfl | hp
      · exact hl
      · exact h p hp
    · split at hp
      · rcases List.mem_cons.1 hp with rfl | hp
        · exact hl
        · exact h p (List.mem_cons_of_mem _ hp)
      · rcases List.mem_cons.1 hp with rfl | hp
        · exact h _ List.mem_cons_self
        · exact ih (fun p hp => h p (List.mem_cons_of_mem _ hp)) p hp

theorem ListingOk.empty : ListingOk {} := fun _ h => nomatch h
theorem ListingOk.clear (l : Listing) : ListingOk l.clear := fun _ h => nomatch h

theorem ListingOk.insert {l : Listing} (h : ListingOk l) {line : Line} (hl : LineOk line) :
    ListingOk (l.insert line) := by
  unfold Listing.insert
  split
  · exact insertSorted_ok _ _ hl _ h
  · exact h

theorem ListingOk.remove {l : Listing} (h : ListingOk l) (n : Option Nat) : ListingOk (l.remove n).1 := by
  unfold Listing.remove
  split
  · exact h
  · exact fun p hp => h p ((List.mem_filter.1 hp).1)

theorem ListingOk.removeRange {l : Listing} (h : ListingOk l) (lo hi : Option Nat) :
    ListingOk (l.removeRange lo hi).1 := by
  unfold Listing.removeRange
  split
  · exact fun p hp => h p ((List.mem_filter.1 hp).1)
  · exact h

theorem rebuild_ok (ls : List Line) (hl : ∀ x ∈ ls, LineOk x) : ∀ p ∈ rebuild ls, LineOk p.2 := by
  unfold rebuild
  have key : ∀ (ls : List Line) (acc : List (Nat × Line)), (∀ x ∈ ls, LineOk x) → (∀ p ∈ acc, LineOk p.2) →
      ∀ p ∈ ls.foldl (fun acc line => match line.number with
        | some n => insertSorted n line acc
        | none => acc) acc, LineOk p.2 := by
    intro ls
    induction ls with
    | nil => intro acc _ h; exact h
    | cons x r ih =>
      intro acc hx hacc
      rw [List.foldl_cons]
      apply ih _ (fun y hy => hx y (List.mem_cons_of_mem _ hy))
      split
      · exact insertSorted_ok _ _ (hx x List.mem_cons_self) _ hacc
      · exact hacc
  exact key ls [] hl (fun _ h => nomatch h)

theorem ListingOk.renum {l l' : Listing} (h : ListingOk l) (f : List (Nat × Nat) → Line → Line)
    (hf : ∀ ch x, LineOk x → LineOk (f ch x)) (a b c : Nat) (he : l.renum f a b c = .ok l') : ListingOk l' := by
  unfold Listing.renum at he
  cases hp : renumPlan (l.source.map (·.1)) a b c with
  | error e => rw [hp] at he; cases he
  | ok changes =>
    rw [hp] at he
    cases he
    refine rebuild_ok _ ?_
    intro x hx
    obtain ⟨y, hy, rfl⟩ := List.mem_map.1 hx
    exact hf _ _ (listingOk_lines h y hy)

end Listing
open Listing

/-! ### the model's own lexer and rewriter are fine -/

theorem lineOk_lineNew (src : Str) : LineOk (Lex.lineNew src) :=
  fun i hi => Lemmas.LexIdent.lineNew_ident_letter1 src i hi

theorem lineOk_lineRenum (ch : List (Nat × Nat)) (l : Line) (h : LineOk l) : LineOk (Lex.lineRenum ch l) := by
  unfold Lex.lineRenum
  dsimp only
  split
  · exact h
  · split
    · exact h
    · exact fun i hi => Lemmas.LexIdent.lex_ident_letter1 _ i hi

/-- the environment with the model's lexer and RENUM rewriter -/
theorem envOk_model (env : Env) (h1 : env.lex = Lex.lineNew) (h2 : env.lineRenum = Lex.lineRenum) : EnvOk env :=
  ⟨fun src => h1 ▸ lineOk_lineNew src, fun ch l hl => h2 ▸ lineOk_lineRenum ch l hl⟩

namespace Runtime
variable {α β : Type}

/-! ### no fault recorded -/

def RStateOk : RState → Prop
  | .runtimeError e => e.isFault = false
  | _ => True

def NoFaultSt (s : Runtime) : Prop := RStateOk s.state ∧ RStateOk s.cont

/-! ### one step, a slice -/

/-- **one step of the VM never faults**, from any state -/
theorem step_no_fault (env : Env) (h : Bool) (s : Runtime) (e : Error)
    (he : ((step env h).run.run s).1 = .error e) : e.isFault = false := by
  rcases step_cases env h s with ⟨text, tr, col, hc⟩ | ⟨tr, hc⟩
  · rw [hc] at he; cases he
  · rw [hc, run_fetchExec] at he
    have he' : (match s.program.link.ops[s.pc]? with
      | none => ((.error ((Error.mk' Code.internalError).withMsg "INVALID PC ADDRESS"), { s with tr := tr }) :
          Except Error Step × Runtime)
      | some op => (execOp env h op).run.run { s with tr := tr, pc := s.pc + 1 }).1 = .error e := he
    cases hq : s.program.link.ops[s.pc]? with
    | none => rw [hq] at he'; cases he'; rfl
    | some op =>
      rw [hq] at he'
      exact execOp_no_fault env h op { s with tr := tr, pc := s.pc + 1 } e he'

theorem sliceRun_no_fault (env : Env) (h : Bool) (n : Nat) (s : Runtime) (e : Error)
    (he : (sliceRun env h n s).1 = .error e) : e.isFault = false := by
  induction n generalizing s with
  | zero => cases he
  | succ k ih =>
    rw [sliceRun_succ] at he
    have hstep := step_no_fault env h s
    rcases hr : (step env h).run.run s with ⟨r, s'⟩
    rw [hr] at he hstep
    rcases r with e' | st
    · cases he; exact hstep e rfl
    · cases st with
      | «continue» => exact ih s' he
      | event ev => cases he

/-- a slice of `n` instructions never faults -/
theorem executeLoop_no_fault (env : Env) (n : Nat) (s : Runtime) (e : Error)
    (he : ((executeLoop env n).run.run s).1 = .error e) : e.isFault = false := by
  rw [executeLoop_run] at he
  unfold slice at he
  cases hr : (sliceRun env (hasIndirectErrors s) n s).1 with
  | error e' =>
    rw [hr] at he
    cases he
    exact sliceRun_no_fault env _ n s e hr
  | ok o => rw [hr] at he; cases o <;> cases he

end Runtime
end Basic
