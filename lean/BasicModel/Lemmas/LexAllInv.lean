import BasicModel.Lemmas.LexAllRaw
/-
  C05 for ALL strings, part 6: `rawOK_all` — the raw token list of every text is a `Chain`.
-/
set_option linter.unusedSimpArgs false
set_option linter.unusedVariables false
namespace Basic
namespace Lex

theorem rawOK_step (pk : Char) (cs0 : List Char) (t : Token) (cs' : List Char)
    (hlex : lexFrom (pk :: cs0) false = t :: lexFrom cs' false) (ht : Tok t) (h1 : t ≠ .word .rem1)
    (h2 : t ≠ .word .rem2) (hstop : StopOK t cs') (hfc : fc t = some (pmap pk))
    (hw : t.isWord = wordStart pk) (ih : RawOK cs') : RawOK (pk :: cs0) := by
  rw [RawOK, hlex]
  refine ⟨chain_cons t _ ht h2 (adj_of_stop t cs' hstop ih.2) (Or.inr ih.1), ?_⟩
  intro c hc
  simp at hc; subst hc
  exact ⟨t, rfl, hfc, hw⟩

/-! ### tokens of `alphabetic()` -/

theorem kwTok_facts (t : Token) (h : isKwTok t = true) :
    Tok t ∧ t ≠ .word .rem2 ∧ t.isWord = true ∧ (∀ c, BndC t c ↔ isAlpha c = false) ∧
      (∀ i, t ≠ .ident i) := by
  cases t with
  | word w =>
    refine ⟨trivial, ?_, rfl, ?_, by intro i; simp⟩
    · intro e; cases e; exact absurd h (by decide)
    · intro c; cases w <;> first | exact Iff.rfl | exact absurd h (by decide)
  | operator o =>
    refine ⟨trivial, by simp, h, ?_, by intro i; simp⟩
    intro c
    have ho : o.isWord = true := h
    simp only [BndC, ho, forall_const]
  | _ => exact absurd h (by simp [isKwTok])

theorem printable_ident_text (i : TIdent) (h : Printable (.ident i)) :
    ∃ c r, i.name = c :: r ∧ isAlpha c = true ∧ upper c = c := by
  obtain ⟨nm, hw, htk, hu⟩ := h
  have htx : (Token.ident i).text = nm.base ++ nm.sfx.toList := by rw [← htk, nm.token_text hw]
  obtain ⟨h1, h2, -, -, -⟩ := hw
  cases hl : nm.letters with
  | nil => exact absurd hl h2
  | cons c r =>
    refine ⟨c, r.map upper ++ nm.digits ++ nm.sfx.toList, ?_, h1 c (by simp [hl]), ?_⟩
    · have : (Token.ident i).text = i.name := rfl
      rw [← this, htx, Name.base, hl]
      rw [hl] at hu
      simp at hu
      simp [hu.1]
    · rw [hl] at hu; simp at hu; exact hu.1

theorem alphaTok_facts (t : Token) (h : AlphaTok t) :
    Tok t ∧ t ≠ .word .rem2 ∧ t.isWord = true ∧ Bnd t (some ' ') := by
  rcases h with h | ⟨i, rfl, hp⟩
  · obtain ⟨a, b, c, d, -⟩ := kwTok_facts t h
    exact ⟨a, b, c, (d ' ').2 (by decide)⟩
  · refine ⟨hp, by simp, rfl, ?_⟩
    cases i <;> first | trivial | exact ⟨by decide, by decide, by decide⟩

theorem alphaStop_stopOK (q : List Token) (t : Token) (cs' : List Char) (hl : q.getLast? = some t)
    (ht : AlphaTok t) (hs : AlphaStop q cs') : StopOK t cs' := by
  intro c hc
  obtain ⟨h1, h2, h3, h4⟩ := alphaTok_facts t ht
  rw [h3, Bool.true_and]
  split
  · exact h4
  · rename_i hws
    have hws' : wordStart c = false := by simpa using hws
    obtain ⟨hd, hdot, ha, -, -, hq, -⟩ := not_wordStart c hws'
    rcases pmap_not_wordStart c hws' with ⟨-, e⟩ | ⟨hnw, e⟩
    · rw [e]; exact h4
    · rw [e]
      rcases ht with hk | ⟨i, rfl, hp⟩
      · exact ((kwTok_facts t hk).2.2.2.1 c).2 ha
      · cases i with
        | plain s =>
          obtain ⟨x, y⟩ := (hs c hc).2 ha s hl
          exact ⟨ha, x, y⟩
        | _ => trivial

/-- a queue of `alphabetic()` in front of a chain -/
theorem chain_queue (q : List Token) (hq : ∀ t ∈ q, AlphaTok t) (L : List Token) (hL : Chain L)
    (hne : q ≠ []) (hadj : ∀ t, q.getLast? = some t → ∀ b ∈ L.head?, Adj t b) : Chain (q ++ L) := by
  induction q with
  | nil => contradiction
  | cons a q ih =>
    obtain ⟨h1, h2, h3, h4⟩ := alphaTok_facts a (hq a (by simp))
    cases q with
    | nil =>
      exact chain_cons a L h1 h2 (hadj a rfl) (Or.inr hL)
    | cons b q' =>
      have hb := alphaTok_facts b (hq b (by simp))
      refine Or.inr ⟨h2, h1, ?_, Or.inr ?_⟩
      · unfold Adj; rw [h3, hb.2.2.1]; exact h4
      · exact ih (fun t ht => hq t (by simp [ht])) (by simp)
          (fun t ht => hadj t (by rw [List.getLast?_cons_cons]; exact ht))

theorem dropWhile_head_not {α} (p : α → Bool) (l : List α) : ∀ c ∈ (l.dropWhile p).head?, p c = false := by
  induction l with
  | nil => intro c hc; simp at hc
  | cons a l ih =>
    intro c hc
    rw [List.dropWhile_cons] at hc
    split at hc
    · exact ih c hc
    · rename_i h; simp at hc; subst hc; simpa using h

theorem ite_both {p : Prop} [Decidable p] {A B : Prop} (a : A) (b : B) : if p then A else B := by
  split <;> assumption

theorem lexFrom_true (cs : List Char) : lexFrom cs true = if cs = [] then [] else [.unknown cs] := by
  cases cs with
  | nil => rfl
  | cons c r => rw [lexFrom_remark _ (by simp)]; simp

theorem numTok_facts (t : Token) (u : Str) (h : numTok t u) :
    t.isWord = true ∧ t.text = u ∧ t ≠ .word .rem1 ∧ t ≠ .word .rem2 ∧
      (∀ c, BndC t c = NumBnd u (some c)) ∧ (Tok t = NumRe t u) := by
  rcases h with h | h | h <;> subst h <;> exact ⟨rfl, rfl, by simp, by simp, fun _ => rfl, rfl⟩

theorem minutia_tok_facts (pk : Char) (t : Token) (h : matchMinutia [pk] = some t) :
    Tok t ∧ t ≠ .word .rem1 ∧ fc t = some (pmap pk) ∧ t.isWord = wordStart pk ∧
      (t ≠ .word .rem2 → ∀ c, (isAlpha c = false → BndC t c)) := by
  unfold matchMinutia at h
  split at h
  all_goals first
    | (rename_i heq
       have e1 := (List.cons.inj heq).1
       subst e1
       have e2 := (Option.some.inj h).symm
       subst e2
       refine ⟨trivial, by simp, by decide, by decide, ?_⟩
       intro hne c hc
       first | trivial | exact hc | (intro hh; exact absurd hh (by decide)) | exact absurd rfl hne)
    | cases h

theorem rawOK_all (n : Nat) : ∀ cs : List Char, cs.length ≤ n → RawOK cs := by
  induction n with
  | zero =>
    intro cs h
    have : cs = [] := by cases cs <;> simp_all
    subst this
    exact ⟨trivial, by intro c hc; simp at hc⟩
  | succ n ih =>
    intro cs hlen
    cases cs with
    | nil => exact ⟨trivial, by intro c hc; simp at hc⟩
    | cons pk cs0 =>
      simp only [List.length_cons] at hlen
      by_cases hws : isWs pk = true
      · -- blanks
        have hsh := whitespace_shortens pk cs0
        simp only [List.length_cons] at hsh
        refine rawOK_step pk cs0 _ _ (lexFrom_ws pk cs0 hws) ?_ (by simp [whitespace]) (by simp [whitespace])
          ?_ ?_ ?_ (ih _ (by omega))
        · simp only [whitespace, Tok]; omega
        · intro c hc
          have hnw : isWs c = false := by
            simp only [whitespace] at hc
            exact dropWhile_head_not isWs cs0 c hc
          simp only [whitespace, Token.isWord, Bool.false_and, Bool.false_eq_true, if_false]
          exact isWs_pmap c hnw
        · simp [whitespace, fc, Token.text, List.replicate_succ, pmap_ws pk hws, Nat.add_comm 1]
        · simp [whitespace, Token.isWord, wordStart_ws pk hws]
      have hws' : isWs pk = false := by simpa using hws
      by_cases hnum : (isDigit pk || pk = '.') = true
      · -- numerals
        have hsh := number_shortens pk cs0 hnum
        simp only [List.length_cons] at hsh
        obtain ⟨u, hu1, hu2, hu3, hu4, hu5⟩ := number_rerun pk cs0 hnum (number (pk :: cs0)).1
          (number (pk :: cs0)).2 rfl
        obtain ⟨f1, f2, f3, f4, f5, f6⟩ := numTok_facts _ u hu3
        have hne : ∃ c r, u = c :: r := by
          cases u with
          | nil => exact absurd rfl hu1
          | cons c r => exact ⟨c, r, rfl⟩
        obtain ⟨c1, r1, hu⟩ := hne
        have hc1 : c1 = pk := by rw [hu] at hu2; simpa using hu2
        refine rawOK_step pk cs0 _ _ (lexFrom_number pk cs0 hnum) ?_ f3 f4 ?_ ?_ ?_ (ih _ (by omega))
        · rw [f6]
          exact ⟨c1, r1, hu, by rw [hc1]; exact hnum, hu5⟩
        · intro c hc
          obtain ⟨hED, hstop⟩ := hu4 c hc
          rw [f1, Bool.true_and]
          have hblank : NumBnd u (some ' ') := Or.inr ⟨by decide, hED⟩
          split
          · show BndC _ _; rw [f5]; exact hblank
          · rename_i hwsn
            have hwsn' : wordStart c = false := by simpa using hwsn
            obtain ⟨hd, hdot, ha, -, -, hq, -⟩ := not_wordStart c hwsn'
            show BndC _ _
            rw [f5]
            rcases pmap_not_wordStart c hwsn' with ⟨-, e⟩ | ⟨hnw, e⟩
            · rw [e]; exact hblank
            · rw [e]
              rcases hstop with hsfx | hal | ⟨-, hns⟩
              · exact Or.inl hsfx
              · rw [ha] at hal; cases hal
              · refine Or.inr ⟨?_, hED⟩
                have hE : c ≠ 'E' ∧ c ≠ 'e' ∧ c ≠ 'D' ∧ c ≠ 'd' := by
                  refine ⟨?_, ?_, ?_, ?_⟩ <;> (intro e; subst e; revert ha; decide)
                simp only [isNumSuffix, Bool.or_eq_false_iff, decide_eq_false_iff_not] at hns
                simp [numCont, hd, hdot, hE.1, hE.2.1, hE.2.2.1, hE.2.2.2, hns.1.1, hns.1.2, hns.2]
        · rw [fc, f2, hu, hc1]
          have hq : pk ≠ '?' := by
            intro e; subst e; revert hnum; decide
          have ha : isAlpha pk = false := by
            simp only [Bool.or_eq_true, decide_eq_true_eq] at hnum
            rcases hnum with h | h
            · exact not_isAlpha_of_isDigit pk h
            · subst h; decide
          simp [pmap_plain pk hws' hq ha]
        · rw [f1]; simp only [wordStart]; rw [Bool.or_eq_true] at hnum
          rcases hnum with h | h <;> simp [h]
      have hnum' : isDigit pk = false ∧ pk ≠ '.' := by
        simp only [Bool.or_eq_true, decide_eq_true_eq, not_or] at hnum
        exact ⟨by simpa using hnum.1, hnum.2⟩
      by_cases hal : isAlpha pk = true
      · -- words and names
        have hsh := alphabetic_shortens pk cs0
        simp only [List.length_cons] at hsh
        obtain ⟨hres, w, hw1, hw2⟩ := alphabetic_spec pk cs0 hal
        obtain ⟨t, ts, hq⟩ : ∃ t ts, (alphabetic (pk :: cs0)).1 = t :: ts := by
          cases hh : (alphabetic (pk :: cs0)).1 with
          | nil => exact absurd hh hres.ne
          | cons t ts => exact ⟨t, ts, rfl⟩
        have hlex := lexFrom_alpha pk cs0 hal t ts (alphabetic (pk :: cs0)).2 (by rw [← hq])
        have hihr := ih (alphabetic (pk :: cs0)).2 (by omega)
        have htoks := hres.toks
        rw [hq] at htoks
        have hhead := hres.head
        rw [hq] at hhead
        simp only [List.head?_cons, Option.bind_some] at hhead
        have ht := alphaTok_facts t (htoks t (by simp))
        refine ⟨?_, ?_⟩
        · rw [hlex]
          by_cases hrem : t = .word .rem1
          · subst hrem
            simp only [beq_self_eq_true]
            cases ts with
            | nil =>
              rw [lexFrom_true]
              split
              · exact trivial
              · rename_i hne
                refine Or.inl ⟨Or.inl rfl, rfl, _, rfl, hne, ?_⟩
                intro _ c hc
                cases hac : isAlpha c with
                | false => rfl
                | true =>
                  obtain ⟨i, hi⟩ := (hres.stop c hc).1 hac
                  rw [hq] at hi; simp at hi
            | cons x ts' =>
              have hx := alphaTok_facts x (htoks x (by simp))
              refine Or.inr ⟨by simp, trivial, ?_, Or.inl rfl⟩
              unfold Adj
              rw [hx.2.2.1]
              simp only [Token.isWord, Bool.and_self, if_true]
              show isAlpha ' ' = false
              decide
          · have hf : (t == Token.word Word.rem1) = false := by simp [hrem]
            rw [hf]
            have := chain_queue (t :: ts) htoks (lexFrom (alphabetic (pk :: cs0)).2 false) hihr.1 (by simp) ?_
            · simpa using this
            · intro l hl
              have hl' : (alphabetic (pk :: cs0)).1.getLast? = some l := by rw [hq]; exact hl
              have hlt : AlphaTok l := htoks l (List.mem_of_getLast? hl)
              exact adj_of_stop l _ (alphaStop_stopOK _ l _ hl' hlt hres.stop) hihr.2
        · rw [hlex]
          intro c hc
          simp at hc; subst hc
          refine ⟨t, rfl, ?_, ?_⟩
          · rw [hhead, pmap_alpha pk hal]
          · rw [ht.2.2.1]; simp [wordStart, hal]
      have hal' : isAlpha pk = false := by simpa using hal
      by_cases hstr : pk = '"'
      · -- string literals
        subst hstr
        have hsh := string_shortens '"' cs0
        simp only [List.length_cons] at hsh
        refine rawOK_step '"' cs0 _ _ (lexFrom_string cs0) ?_ (by simp [string]) (by simp [string])
          ?_ ?_ ?_ (ih _ (by omega))
        · simp only [string, Tok]; exact stringBody_noquote _
        · intro c hc
          exact ite_both trivial trivial
        · simp [string, fc, Token.text, Literal.text, pmap, isWs, upper]
        · simp [string, Token.isWord, wordStart]
      by_cases hamp : pk = '&'
      · -- radix literals
        subst hamp
        have hsh := radix_shortens '&' cs0
        simp only [List.length_cons] at hsh
        have hkey : ∃ (isHex : Bool) (ds : List Char) (cs' : List Char),
            radix ('&' :: cs0) = (if isHex then .literal (.hex ds) else .literal (.octal ds), cs') ∧
            (∀ c ∈ ds, isRadixDigit isHex c = true) ∧
            (cs' = [] ∨ ∃ x r, cs' = upper x :: r ∧ isRadixDigit isHex (upper x) = false) ∧
            (isHex = false → ds = [] → ∀ x r, cs' = x :: r → x ≠ 'H' ∧ x ≠ 'h') := by
          unfold radix
          simp only [List.tail_cons]
          split
          · exact ⟨true, _, _, rfl, (radixDigits_spec true _).1, (radixDigits_spec true _).2,
              by intro h; cases h⟩
          · exact ⟨true, _, _, rfl, (radixDigits_spec true _).1, (radixDigits_spec true _).2,
              by intro h; cases h⟩
          · rename_i r hH hh
            refine ⟨false, _, _, rfl, (radixDigits_spec false cs0).1, (radixDigits_spec false cs0).2, ?_⟩
            intro _ hds x r' hcs'
            cases cs0 with
            | nil => simp [radixDigits] at hcs'
            | cons y ys =>
              rw [radixDigits_cons] at hds hcs'
              by_cases hyd : isRadixDigit false (upper y) = true
              · rw [if_pos hyd] at hds; simp at hds
              · rw [if_neg hyd] at hcs'
                simp only at hcs'
                obtain ⟨e1, e2⟩ := List.cons.inj hcs'
                subst e1
                constructor
                · intro e
                  rcases (upper_eq_H y).1 e with h | h
                  · exact hH ys (by rw [h])
                  · exact hh ys (by rw [h])
                · exact upper_ne_h y
        obtain ⟨isHex, ds, cs', hr, hds, hcs', hH⟩ := hkey
        have hlex := lexFrom_radix cs0
        rw [hr] at hlex hsh
        simp only at hlex hsh
        refine rawOK_step '&' cs0 _ cs' hlex ?_ (by split <;> simp) (by split <;> simp) ?_ ?_ ?_ (ih _ (by omega))
        · cases isHex <;> exact hds
        · intro c hc
          have hcu : ∃ x r, cs' = upper x :: r ∧ isRadixDigit isHex (upper x) = false ∧ c = upper x := by
            rcases hcs' with h | ⟨x, r, h, hx⟩
            · rw [h] at hc; simp at hc
            · rw [h] at hc; simp at hc; exact ⟨x, r, h, hx, hc.symm⟩
          obtain ⟨x, r, hcs'', hx, rfl⟩ := hcu
          have hw : (if isHex = true then Token.literal (Literal.hex ds) else Token.literal (Literal.octal ds)).isWord
              = true := by split <;> rfl
          rw [hw, Bool.true_and]
          split
          · cases isHex
            · exact ⟨by decide, by decide, fun _ => by decide⟩
            · exact ⟨by decide, by decide⟩
          · rename_i hwsn
            have hwsn' : wordStart (upper x) = false := by simpa using hwsn
            obtain ⟨-, -, ha, -, -, -, -⟩ := not_wordStart _ hwsn'
            rcases pmap_not_wordStart _ hwsn' with ⟨-, e⟩ | ⟨hnw, e⟩
            · rw [e]
              cases isHex
              · exact ⟨by decide, by decide, fun _ => by decide⟩
              · exact ⟨by decide, by decide⟩
            · rw [e]
              cases isHex
              · refine ⟨by rw [upper_upper]; exact hx, upper_upper x, ?_⟩
                intro hd
                exact hH rfl hd _ _ hcs''
              · exact ⟨by rw [upper_upper]; exact hx, upper_upper x⟩
        · cases isHex <;> simp [fc, Token.text, Literal.text, pmap, isWs, upper] <;> decide
        · cases isHex <;> simp [Token.isWord, wordStart]
      -- everything else goes to `minutia()`
      have hstart : isMinStart pk = true := by
        simp [isMinStart, hws', hnum'.1, hnum'.2, hal', hstr, hamp]
      have hsh := minutia_shortens pk cs0
      simp only [List.length_cons] at hsh
      have hlex0 : lexFrom (pk :: cs0) false = (minutia (pk :: cs0)).1 ::
          lexFrom (minutia (pk :: cs0)).2 ((minutia (pk :: cs0)).1 == .word .rem2) := by
        rw [lexFrom_cons]
        simp [hws', hnum'.1, hnum'.2, hal', hstr, hamp]
      rcases minutia_spec pk cs0 hstart with ⟨t, hm, hmin⟩ | ⟨hm, u, cs', hmin, hu, hcat, huh, hstop⟩
      · rw [hmin] at hlex0 hsh
        simp only at hlex0 hsh
        obtain ⟨g1, g2, g3, g4, g5⟩ := minutia_tok_facts pk t hm
        by_cases hrem : t = .word .rem2
        · subst hrem
          refine ⟨?_, ?_⟩
          · rw [hlex0]
            simp only [beq_self_eq_true]
            rw [lexFrom_true]
            split
            · exact trivial
            · rename_i hne
              exact Or.inl ⟨Or.inr rfl, rfl, _, rfl, hne, by intro h; cases h⟩
          · rw [hlex0]
            intro c hc; simp at hc; subst hc
            exact ⟨_, rfl, g3, g4⟩
        · have hf : (t == Token.word Word.rem2) = false := by simp [hrem]
          rw [hf] at hlex0
          refine rawOK_step pk cs0 t cs0 hlex0 g1 g2 hrem ?_ g3 g4 (ih _ (by omega))
          intro c hc
          split
          · exact g5 hrem ' ' (by decide)
          · rename_i hwsn
            have hwsn' : t.isWord = false ∨ wordStart c = false := by
              cases h1 : t.isWord <;> cases h2 : wordStart c <;> simp_all
            rcases hwsn' with h | h
            · -- not a word: any follower
              have : ∀ x, BndC t x := by
                intro x
                unfold matchMinutia at hm
                split at hm
                all_goals first
                  | (have e2 := (Option.some.inj hm).symm
                     subst e2
                     first | trivial | (intro hh; exact absurd hh (by decide)) | exact absurd h (by decide))
                  | cases hm
              exact this _
            · obtain ⟨-, -, ha, -, -, -, -⟩ := not_wordStart c h
              rcases pmap_not_wordStart c h with ⟨-, e⟩ | ⟨-, e⟩
              · rw [e]; exact g5 hrem ' ' (by decide)
              · rw [e]; exact g5 hrem c ha
      · rw [hmin] at hlex0 hsh
        simp only at hlex0 hsh
        have hf : (Token.unknown u == Token.word Word.rem2) = false := by simp
        rw [hf] at hlex0
        have hq : pk ≠ '?' ∧ pk ≠ '\'' := by
          constructor <;> (intro e; subst e; revert hm; decide)
        refine rawOK_step pk cs0 _ cs' hlex0 hu (by simp) (by simp) ?_ ?_ ?_ (ih _ (by omega))
        · intro c hc
          simp only [Token.isWord, Bool.false_and, Bool.false_eq_true, if_false]
          have hadw := hstop c hc
          show isADW (pmap c) = true
          simp only [isADW, Bool.or_eq_true] at hadw ⊢
          rcases hadw with (h | h) | h
          · left; left; rw [pmap_alpha c h, isAlpha_upper]; exact h
          · left; right
            have h1 := not_isWs_of_isDigit c h
            have h2 : c ≠ '?' := ne_of_isDigit c _ h (by decide)
            rw [pmap_plain c h1 h2 (not_isAlpha_of_isDigit c h)]; exact h
          · right; rw [pmap_ws c h]; decide
        · rw [fc]; simp only [Token.text]; rw [huh, pmap_plain pk hws' hq.1 hal']
        · simp [Token.isWord, wordStart, hnum'.1, hnum'.2, hal', hstr, hamp, hq.1, hq.2]

/-- THE OUTPUT INVARIANT OF THE TOKEN ITERATOR, for every text -/
theorem rawTokens_chain (cs : List Char) : Chain (rawTokens cs) := (rawOK_all cs.length cs (Nat.le_refl _)).1

end Lex
end Basic
