import BasicModel.Lemmas.SpellingScan
/-
  C16: the aliases in arbitrary contexts — `?`/PRINT, `'`/REM, `GO TO`/GOTO, `GO SUB`/GOSUB and the
  respelled comparison operators, each between a junction `Cut pre A c` on the left and an arbitrary
  rest of the line on the right.
-/
set_option linter.unusedSimpArgs false
set_option linter.unusedVariables false
namespace Basic
namespace Lex

/-! ### helpers -/

theorem tripleMatch_first_none (t y z : Token) (h : isRawCmp t = false) (h' : isGoHead t = false) :
    tripleMatch t y z = none :=
  tripleMatch_none_of_ends t y z (by simp [h]) (by simp [h'])

theorem dblRec_cons_of_not_raw (t : Token) (X : List Token) (h : isRawCmp t = false) :
    dblRec (t :: X) = t :: dblRec X := by
  cases X with
  | nil => rfl
  | cons x X =>
    have : doubleMatch t x = none := by
      cases hm : doubleMatch t x with
      | none => rfl
      | some r => have := (doubleMatch_raw t x r hm).1; rw [h] at this; cases this
    simp only [dblRec, this]

theorem G_cons_inert (t : Token) (X : List Token) (h : isInert t = true) : G (t :: X) = t :: G X := by
  have := G_split_inert [] t X h
  simpa [G_nil] using this

/-- a blank run in front of a character that is not a blank -/
theorem lexFrom_blanks_solid (sep : List Char) (h : ∀ c ∈ sep, isWs c = true) (hne : sep ≠ [])
    (d : Char) (post : List Char) (hd : isWs d = false) :
    ∃ k, lexFrom (sep ++ d :: post) false = .whitespace k :: lexFrom (d :: post) false := by
  cases sep with
  | nil => contradiction
  | cons c sep =>
    refine ⟨1 + (List.takeWhile isWs (sep ++ d :: post)).length, ?_⟩
    rw [List.cons_append, lexFrom_ws c _ (h c (by simp))]
    simp only [whitespace]
    rw [dropWhile_isWs_append sep _ (fun x hx => h x (by simp [hx]))]
    simp [List.dropWhile_cons, hd]

/-- what follows a blank run, seen through `sig` after the passes, is what follows without it -/
theorem sig_tail_blanks (sep post : List Char) (h : ∀ c ∈ sep, isWs c = true) :
    sig (G (trimEnd (lexFrom (sep ++ post) false))) = sig (G (trimEnd (lexFrom post false))) := by
  by_cases hne : sep = []
  · subst hne; rfl
  · obtain ⟨k, V, e, hv⟩ := lexFrom_blanks sep h hne post
    rw [e, sig_G_trimEnd_blank]
    rcases hv with hv | ⟨j, hv⟩
    · rw [hv]
    · rw [hv, sig_G_trimEnd_blank]

/-- the significant tokens of a line split at an inert, solid token -/
theorem sig_postPasses_split (A : List Token) (t : Token) (V : List Token) (hi : isInert t = true)
    (hs : isSolid t = true) :
    sig (postPasses (A ++ t :: V)) = sig (G A) ++ t :: sig (G (trimEnd V)) := by
  have hb : isBlank t = false := by
    simp only [isInert, Bool.and_eq_true, Bool.not_eq_true'] at hi; exact hi.1.1.1
  rw [sig_postPasses, trimEnd_append_solid A t V hs, G_split_inert A t _ hi, sig_append,
    sig_cons_solid t _ hb]

theorem postPasses_split (A : List Token) (t : Token) (V : List Token) (hi : isInert t = true)
    (hs : isSolid t = true) :
    postPasses (A ++ t :: V) = sepRec (G A ++ t :: G (trimEnd V)) := by
  rw [postPasses_eq, trimEnd_append_solid A t V hs, G_split_inert A t _ hi]

theorem chars_PRINT : "PRINT".toList = ['P', 'R', 'I', 'N', 'T'] := by decide
theorem chars_REM : "REM".toList = ['R', 'E', 'M'] := by decide
theorem chars_GO : "GO".toList = ['G', 'O'] := by decide
theorem chars_TO : "TO".toList = ['T', 'O'] := by decide
theorem chars_SUB : "SUB".toList = ['S', 'U', 'B'] := by decide
theorem chars_GOTO : "GOTO".toList = ['G', 'O', 'T', 'O'] := by decide
theorem chars_GOSUB : "GOSUB".toList = ['G', 'O', 'S', 'U', 'B'] := by decide

/-! ### `?` is PRINT, in any context -/

/-- what may follow `PRINT` when no blank separates them: anything but a letter (a letter would be
    crunched together with the word: `PRINTREM` does not start a remark, `?REM` does) -/
def PrintSep (sep post : Str) : Prop :=
  (∀ c ∈ sep, isWs c = true) ∧ (sep = [] → ∀ c ∈ post.head?, isAlpha c = false)

theorem print_alias_raw (pre post sep : Str) (A : List Token) (hq : Cut pre A '?') (hp : Cut pre A 'P')
    (hs : PrintSep sep post) :
    sig (postPasses (lexFrom (pre ++ '?' :: post) false)) =
      sig (postPasses (lexFrom (pre ++ ("PRINT".toList ++ (sep ++ post))) false)) := by
  obtain ⟨hsep, hpost⟩ := hs
  have h1 : lexFrom (pre ++ '?' :: post) false = A ++ .word .print :: lexFrom post false := by
    rw [hq post, lexFrom_minutia '?' post _ rfl]; rfl
  have hhead : ∀ c ∈ (sep ++ post).head?, isAlpha c = false := by
    cases sep with
    | nil => exact hpost rfl
    | cons d sep' =>
      intro c hc
      have hcd : d = c := by simpa using hc
      rw [← hcd]
      cases ha : isAlpha d with
      | false => rfl
      | true => have := not_isWs_of_isAlpha d ha; rw [hsep d (by simp)] at this; cases this
  have h2 : lexFrom (pre ++ ("PRINT".toList ++ (sep ++ post))) false =
      A ++ .word .print :: lexFrom (sep ++ post) false := by
    have := hp ("RINT".toList ++ (sep ++ post))
    rw [chars_PRINT]
    simp only [List.cons_append, List.nil_append] at this ⊢
    rw [show "RINT".toList = ['R', 'I', 'N', 'T'] from by decide] at this
    simp only [List.cons_append, List.nil_append] at this
    rw [this]
    have hk := lexFrom_keyword' ("PRINT".toList, .word .print) (by decide) (sep ++ post) hhead
    rw [chars_PRINT] at hk
    simp only [List.cons_append, List.nil_append] at hk
    rw [hk]; rfl
  rw [h1, h2, sig_postPasses_split A _ _ (by decide) (by decide),
    sig_postPasses_split A _ _ (by decide) (by decide), sig_tail_blanks sep post hsep]

/-- `?` ≡ `PRINT`: same line number, same significant tokens -/
theorem print_alias (pre post sep : Str) (A : List Token) (hq : Cut (lineBody pre) A '?')
    (hp : Cut (lineBody pre) A 'P') (hs : PrintSep sep post) :
    (lex (pre ++ '?' :: post)).1 = (lex (pre ++ ("PRINT".toList ++ (sep ++ post)))).1 ∧
    sig (lex (pre ++ '?' :: post)).2 = sig (lex (pre ++ ("PRINT".toList ++ (sep ++ post)))).2 := by
  have e : pre ++ ("PRINT".toList ++ (sep ++ post)) = pre ++ 'P' :: ("RINT".toList ++ (sep ++ post)) := by
    rw [chars_PRINT, show "RINT".toList = ['R', 'I', 'N', 'T'] from by decide]; rfl
  have := print_alias_raw (lineBody pre) post sep A hq hp hs
  rw [chars_PRINT] at this
  rw [e, lex_ctx pre '?' post (by decide) (by decide), lex_ctx pre 'P' _ (by decide) (by decide)]
  refine ⟨rfl, ?_⟩
  simp only [List.cons_append, List.nil_append] at this ⊢
  rw [show "RINT".toList = ['R', 'I', 'N', 'T'] from by decide]
  exact this

/-! ### `'` is REM, in any context -/

theorem sepRec_mid (Y : List Token) (t t' : Token) (U : List Token) (h : t.isWord = t'.isWord)
    (hU : ∀ u ∈ U.head?, u.isWord = false) :
    ∃ X, sepRec (Y ++ t :: U) = X ++ t :: sepRec U ∧ sepRec (Y ++ t' :: U) = X ++ t' :: sepRec U := by
  induction Y with
  | nil =>
    refine ⟨[], ?_, ?_⟩
    · cases U with
      | nil => rfl
      | cons u U' => simp [sepRec, hU u (by simp)]
    · cases U with
      | nil => rfl
      | cons u U' => simp [sepRec, hU u (by simp)]
  | cons a Y ih =>
    obtain ⟨X, e1, e2⟩ := ih
    cases Y with
    | nil =>
      simp only [List.nil_append] at e1 e2
      cases hc : (a.isWord && t.isWord) with
      | true =>
        refine ⟨a :: .whitespace 1 :: X, ?_, ?_⟩
        · simp only [List.cons_append, List.nil_append, sepRec, hc, if_true, e1]
        · rw [h] at hc
          simp only [List.cons_append, List.nil_append, sepRec, hc, if_true, e2]
      | false =>
        refine ⟨a :: X, ?_, ?_⟩
        · simp only [List.cons_append, List.nil_append, sepRec, hc, Bool.false_eq_true, if_false, e1]
        · rw [h] at hc
          simp only [List.cons_append, List.nil_append, sepRec, hc, Bool.false_eq_true, if_false, e2]
    | cons b Y' =>
      simp only [List.cons_append] at e1 e2
      cases hc : (a.isWord && b.isWord) with
      | true =>
        exact ⟨a :: .whitespace 1 :: X, by simp only [List.cons_append, sepRec, hc, if_true, e1],
          by simp only [List.cons_append, sepRec, hc, if_true, e2]⟩
      | false =>
        exact ⟨a :: X, by simp only [List.cons_append, sepRec, hc, Bool.false_eq_true, if_false, e1],
          by simp only [List.cons_append, sepRec, hc, Bool.false_eq_true, if_false, e2]⟩

/-- the remark text as it is kept: trailing white space trimmed, nothing at all if nothing is left -/
def remarkTail (post : Str) : List Token :=
  if (trimEndStr post).isEmpty then [] else [.unknown (trimEndStr post)]

theorem trimEnd_remark (post : Str) : trimEnd (lexFrom post true) = remarkTail post := by
  cases post with
  | nil => simp [remarkTail, trimEnd, trimEndRev, trimEndStr]
  | cons c cs =>
    rw [lexFrom_remark _ (by simp)]
    simp only [trimEnd, List.reverse_cons, List.reverse_nil, List.nil_append, trimEndRev, remarkTail]
    split <;> simp

theorem rem_alias_raw (pre post : Str) (A : List Token) (hq : Cut pre A '\'') (hr : Cut pre A 'R')
    (hb : ∀ c ∈ post.head?, isAlpha c = false) :
    ∃ X, postPasses (lexFrom (pre ++ '\'' :: post) false) = X ++ .word .rem2 :: remarkTail post ∧
      postPasses (lexFrom (pre ++ ("REM".toList ++ post)) false) = X ++ .word .rem1 :: remarkTail post := by
  have h1 : lexFrom (pre ++ '\'' :: post) false = A ++ .word .rem2 :: lexFrom post true := by
    rw [hq post, lexFrom_minutia '\'' post _ rfl]; rfl
  have h2 : lexFrom (pre ++ ("REM".toList ++ post)) false = A ++ .word .rem1 :: lexFrom post true := by
    have := hr ("EM".toList ++ post)
    rw [chars_REM]
    rw [show "EM".toList = ['E', 'M'] from by decide] at this
    simp only [List.cons_append, List.nil_append] at this ⊢
    rw [this]
    have hk := lexFrom_keyword' ("REM".toList, .word .rem1) (by decide) post hb
    rw [chars_REM] at hk
    simp only [List.cons_append, List.nil_append] at hk
    rw [hk]; rfl
  have hU : ∀ u ∈ (remarkTail post).head?, u.isWord = false := by
    intro u hu
    simp only [remarkTail] at hu
    split at hu
    · simp at hu
    · simp at hu; subst hu; rfl
  have hG : G (remarkTail post) = remarkTail post := by
    simp only [remarkTail]; split <;> rfl
  have hS : sepRec (remarkTail post) = remarkTail post := by
    simp only [remarkTail]; split <;> rfl
  obtain ⟨X, e1, e2⟩ := sepRec_mid (G A) (.word .rem2) (.word .rem1) (remarkTail post) rfl hU
  refine ⟨X, ?_, ?_⟩
  · rw [h1, postPasses_split A _ _ (by decide) (by decide), trimEnd_remark, hG, e1, hS]
  · rw [h2, postPasses_split A _ _ (by decide) (by decide), trimEnd_remark, hG, e2, hS]

/-- `'` ≡ `REM`: same line number, same tokens before the marker, the marker that was typed, the
    same remark text -/
theorem rem_alias (pre post : Str) (A : List Token) (hq : Cut (lineBody pre) A '\'')
    (hr : Cut (lineBody pre) A 'R') (hb : ∀ c ∈ post.head?, isAlpha c = false) :
    (lex (pre ++ '\'' :: post)).1 = (lex (pre ++ ("REM".toList ++ post))).1 ∧
    ∃ X, (lex (pre ++ '\'' :: post)).2 = X ++ .word .rem2 :: remarkTail post ∧
      (lex (pre ++ ("REM".toList ++ post))).2 = X ++ .word .rem1 :: remarkTail post := by
  have e : pre ++ ("REM".toList ++ post) = pre ++ 'R' :: ("EM".toList ++ post) := by
    rw [chars_REM, show "EM".toList = ['E', 'M'] from by decide]; rfl
  obtain ⟨X, e1, e2⟩ := rem_alias_raw (lineBody pre) post A hq hr hb
  rw [e, lex_ctx pre '\'' post (by decide) (by decide), lex_ctx pre 'R' _ (by decide) (by decide)]
  refine ⟨rfl, X, e1, ?_⟩
  rw [chars_REM] at e2
  rw [show "EM".toList = ['E', 'M'] from by decide]
  exact e2

/-! ### `GO TO` is GOTO and `GO SUB` is GOSUB, in any context -/

theorem lexFrom_GO (rest : List Char) (hb : AlphaBoundary rest) :
    lexFrom ('G' :: 'O' :: rest) false = .ident (.plain ['G', 'O']) :: lexFrom rest false := by
  have := lexFrom_name ⟨['G', 'O'], [], none⟩
    ⟨by decide, by decide, by decide, by decide, by decide +kernel⟩ rest (fun _ => hb)
  simpa [Name.text, Name.token, Name.base, (by decide : upper 'G' = 'G'), (by decide : upper 'O' = 'O')]
    using this

theorem lexFrom_SUB (rest : List Char) (hb : AlphaBoundary rest) :
    lexFrom ('S' :: 'U' :: 'B' :: rest) false = .ident (.plain ['S', 'U', 'B']) :: lexFrom rest false := by
  have := lexFrom_name ⟨['S', 'U', 'B'], [], none⟩
    ⟨by decide, by decide, by decide, by decide, by decide +kernel⟩ rest (fun _ => hb)
  simpa [Name.text, Name.token, Name.base, (by decide : upper 'S' = 'S'), (by decide : upper 'U' = 'U'),
    (by decide : upper 'B' = 'B')] using this

theorem alphaBoundary_of_blank (c : Char) (r : List Char) (h : isWs c = true) : AlphaBoundary (c :: r) := by
  intro x hx
  simp at hx; subst hx
  rw [isWs_iff] at h
  refine ⟨?_, ?_, ?_⟩
  · rw [Bool.eq_false_iff, Ne, isAlpha_iff]; omega
  · rw [Bool.eq_false_iff, Ne, isDigit_iff]; omega
  · rw [Bool.eq_false_iff, Ne, isSuffixChar_iff, char_eq_iff, char_eq_iff, char_eq_iff, char_eq_iff]
    have e1 : ('$' : Char).toNat = 36 := rfl
    have e2 : ('!' : Char).toNat = 33 := rfl
    have e3 : ('#' : Char).toNat = 35 := rfl
    have e4 : ('%' : Char).toNat = 37 := rfl
    omega

/-- the shape of the two collapse passes on `GO <blank> X` when the triple fires -/
theorem G_go_triple (A V : List Token) (n : Nat) (x t : Token)
    (hm : tripleMatch (.ident (.plain ['G', 'O'])) (.whitespace n) x = some t)
    (hx1 : isRawCmp x = false) (hx2 : isGoHead x = false) (ht : isInert t = true) :
    G (A ++ .ident (.plain ['G', 'O']) :: .whitespace n :: x :: V) = G (A ++ t :: V) := by
  rw [G_append A _ (Seam.of_right A _ _ (by decide) (by decide) (by decide)), G_split_inert A t V ht]
  congr 1
  unfold G
  rw [triRec, hm]
  simp only
  rw [triRec_cons_of_none x V (fun y z _ _ => tripleMatch_first_none x y z hx1 hx2)]
  simp only [List.tail_cons]
  have hr : isRawCmp t = false := by
    simp only [isInert, Bool.and_eq_true, Bool.not_eq_true'] at ht; exact ht.1.1.2
  rw [dblRec_cons_of_not_raw t _ hr]

theorem goto_alias_raw (pre post blanks : Str) (A : List Token) (hg : Cut pre A 'G')
    (hbl : ∀ c ∈ blanks, isWs c = true) (hne : blanks ≠ [])
    (hpost : ∀ c ∈ post.head?, isAlpha c = false) :
    postPasses (lexFrom (pre ++ ("GO".toList ++ (blanks ++ ("TO".toList ++ post)))) false) =
      postPasses (lexFrom (pre ++ ("GOTO".toList ++ post)) false) := by
  obtain ⟨b, bs, rfl⟩ : ∃ b bs, blanks = b :: bs := by
    cases blanks with
    | nil => contradiction
    | cons b bs => exact ⟨b, bs, rfl⟩
  obtain ⟨k, hk⟩ := lexFrom_blanks_solid (b :: bs) hbl (by simp) 'T' ('O' :: post) (by decide)
  have hto : lexFrom ('T' :: 'O' :: post) false = .word .to :: lexFrom post false := by
    have := lexFrom_keyword' ("TO".toList, .word .to) (by decide) post hpost
    rw [chars_TO, show ((Token.word Word.to == Token.word Word.rem1)) = false from by decide] at this
    simpa using this
  have hgoto : lexFrom ('G' :: 'O' :: 'T' :: 'O' :: post) false = .word .goto :: lexFrom post false := by
    have := lexFrom_keyword' ("GOTO".toList, .word .goto) (by decide) post hpost
    rw [chars_GOTO, show ((Token.word Word.goto == Token.word Word.rem1)) = false from by decide] at this
    simpa using this
  have h1 : lexFrom (pre ++ ("GO".toList ++ (b :: bs ++ ("TO".toList ++ post)))) false =
      A ++ .ident (.plain ['G', 'O']) :: .whitespace k :: .word .to :: lexFrom post false := by
    rw [chars_GO, chars_TO]
    simp only [List.cons_append, List.nil_append]
    rw [hg _, lexFrom_GO _ (alphaBoundary_of_blank b _ (hbl b (by simp)))]
    have := hk
    simp only [List.cons_append] at this
    rw [this, hto]
  have h2 : lexFrom (pre ++ ("GOTO".toList ++ post)) false = A ++ .word .goto :: lexFrom post false := by
    rw [chars_GOTO]
    simp only [List.cons_append, List.nil_append]
    rw [hg _, hgoto]
  rw [h1, h2, postPasses_eq, postPasses_eq,
    trimEnd_append_solid A _ _ (by decide),
    show (Token.whitespace k :: Token.word Word.to :: lexFrom post false) =
      [Token.whitespace k] ++ Token.word Word.to :: lexFrom post false from rfl,
    trimEnd_append_solid [_] (.word .to) _ (by decide), trimEnd_append_solid A (.word .goto) _ (by decide)]
  simp only [List.cons_append, List.nil_append]
  rw [G_go_triple A _ k (.word .to) (.word .goto) (by simp [tripleMatch]) (by decide) (by decide) (by decide)]

theorem gosub_alias_raw (pre post blanks : Str) (A : List Token) (hg : Cut pre A 'G')
    (hbl : ∀ c ∈ blanks, isWs c = true) (hne : blanks ≠ []) (hpost : AlphaBoundary post) :
    postPasses (lexFrom (pre ++ ("GO".toList ++ (blanks ++ ("SUB".toList ++ post)))) false) =
      postPasses (lexFrom (pre ++ ("GOSUB".toList ++ post)) false) := by
  obtain ⟨b, bs, rfl⟩ : ∃ b bs, blanks = b :: bs := by
    cases blanks with
    | nil => contradiction
    | cons b bs => exact ⟨b, bs, rfl⟩
  obtain ⟨k, hk⟩ := lexFrom_blanks_solid (b :: bs) hbl (by simp) 'S' ('U' :: 'B' :: post) (by decide)
  have hgosub : lexFrom ('G' :: 'O' :: 'S' :: 'U' :: 'B' :: post) false = .word .gosub :: lexFrom post false := by
    have := lexFrom_keyword ("GOSUB".toList, .word .gosub) (by decide) post hpost
    rw [chars_GOSUB, show ((Token.word Word.gosub == Token.word Word.rem1)) = false from by decide] at this
    simpa using this
  have h1 : lexFrom (pre ++ ("GO".toList ++ (b :: bs ++ ("SUB".toList ++ post)))) false =
      A ++ .ident (.plain ['G', 'O']) :: .whitespace k :: .ident (.plain ['S', 'U', 'B']) ::
        lexFrom post false := by
    rw [chars_GO, chars_SUB]
    simp only [List.cons_append, List.nil_append]
    rw [hg _, lexFrom_GO _ (alphaBoundary_of_blank b _ (hbl b (by simp)))]
    have := hk
    simp only [List.cons_append] at this
    rw [this, lexFrom_SUB post hpost]
  have h2 : lexFrom (pre ++ ("GOSUB".toList ++ post)) false = A ++ .word .gosub :: lexFrom post false := by
    rw [chars_GOSUB]
    simp only [List.cons_append, List.nil_append]
    rw [hg _, hgosub]
  rw [h1, h2, postPasses_eq, postPasses_eq,
    trimEnd_append_solid A _ _ (by decide),
    show (Token.whitespace k :: Token.ident (.plain ['S', 'U', 'B']) :: lexFrom post false) =
      [Token.whitespace k] ++ Token.ident (.plain ['S', 'U', 'B']) :: lexFrom post false from rfl,
    trimEnd_append_solid [_] (.ident (.plain ['S', 'U', 'B'])) _ (by decide),
    trimEnd_append_solid A (.word .gosub) _ (by decide)]
  simp only [List.cons_append, List.nil_append]
  rw [G_go_triple A _ k (.ident (.plain ['S', 'U', 'B'])) (.word .gosub) (by simp [tripleMatch])
    (by decide) (by decide) (by decide)]

/-- `GO TO` ≡ `GOTO`: the very same line -/
theorem goto_alias (pre post blanks : Str) (A : List Token) (hg : Cut (lineBody pre) A 'G')
    (hbl : ∀ c ∈ blanks, isWs c = true) (hne : blanks ≠ [])
    (hpost : ∀ c ∈ post.head?, isAlpha c = false) :
    lex (pre ++ ("GO".toList ++ (blanks ++ ("TO".toList ++ post)))) = lex (pre ++ ("GOTO".toList ++ post)) := by
  have := goto_alias_raw (lineBody pre) post blanks A hg hbl hne hpost
  rw [chars_GO, chars_GOTO] at this ⊢
  simp only [List.cons_append, List.nil_append] at this ⊢
  rw [lex_ctx pre 'G' _ (by decide) (by decide), lex_ctx pre 'G' _ (by decide) (by decide), this]

/-- `GO SUB` ≡ `GOSUB`: the very same line -/
theorem gosub_alias (pre post blanks : Str) (A : List Token) (hg : Cut (lineBody pre) A 'G')
    (hbl : ∀ c ∈ blanks, isWs c = true) (hne : blanks ≠ []) (hpost : AlphaBoundary post) :
    lex (pre ++ ("GO".toList ++ (blanks ++ ("SUB".toList ++ post)))) = lex (pre ++ ("GOSUB".toList ++ post)) := by
  have := gosub_alias_raw (lineBody pre) post blanks A hg hbl hne hpost
  rw [chars_GO, chars_GOSUB] at this ⊢
  simp only [List.cons_append, List.nil_append] at this ⊢
  rw [lex_ctx pre 'G' _ (by decide) (by decide), lex_ctx pre 'G' _ (by decide) (by decide), this]

end Lex
end Basic
