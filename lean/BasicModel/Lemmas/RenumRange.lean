import BasicModel.Lemmas.RenumOperand
/-
  RENUM and the compiler, part 6: LIST / DELETE and ON … GOTO / GOSUB.
-/
namespace Basic
namespace RenumRel
open Link Codegen

variable {φ : Nat → Nat} {α α' β β' : Type}

theorem lpush_run_room (op : Opcode) (g : GState) (h : g.cur.ops.size + 1 ≤ Gen.stackMaxLen) :
    (lpush op).run.run g = (.ok (), { g with cur := { g.cur with ops := g.cur.ops.push op } }) := by
  simp only [lpush, g_bind, g_get, g_set, g_liftE, Link.push, Array.size_push]
  rw [if_neg (by omega)]

/-- `exprPopLineNumber` on a range operand: it never fails -/
theorem gr_exprPopLineNumber_range (k : Nat) (xs xs' : List (Col × Link)) {x x' : Col × Link} (h : RangeFrag φ x x') :
    GR φ (Top φ k (xs ++ [x]) (xs' ++ [x'])) exprPopLineNumber exprPopLineNumber
      (fun r r' g g' => (∃ n n', r.2 = some n ∧ r'.2 = some n' ∧ RangeImg φ n n') ∧ Top φ k xs xs' g g') := by
  unfold exprPopLineNumber
  refine GR.seq_exact (P' := Top φ k xs xs') (gr_popExpr_top k xs xs' x x') ?_
  cases h with
  | mk c c' hv hv' hi =>
    dsimp only
    rw [lineNumberOfLink_litFrag, lineNumberOfLink_litFrag, hv, hv']
    exact GR.ret fun g g' hg => ⟨⟨_, _, rfl, rfl, hi⟩, hg⟩

theorem gr_rangeStmt (op : Opcode) (hop : op = .list ∨ op = .delete) (c c' : Col) {xa xa' xb xb' : Col × Link}
    (ha : RangeFrag φ xa xa') (hb : RangeFrag φ xb xb') :
    GR φ (Top φ 3 [xa, xb] [xa', xb']) (rangeStmt op c) (rangeStmt op c') (S φ TT) := by
  unfold rangeStmt
  refine GR.seq (gr_exprPopLineNumber_range 3 [xa] [xa'] hb) ?_
  rintro ⟨cTo, lnTo⟩ ⟨cTo', lnTo'⟩
  refine GR.pre ?_
  rintro ⟨m, m', h1, h2, hm⟩
  dsimp only at h1 h2 ⊢
  subst h1 h2
  refine GR.seq (gr_exprPopLineNumber_range 3 [] [] ha) ?_
  rintro ⟨cFr, lnFr⟩ ⟨cFr', lnFr'⟩
  refine GR.pre ?_
  rintro ⟨n, n', h1, h2, hn⟩
  dsimp only at h1 h2 ⊢
  subst h1 h2
  constructor
  intro g g' hg
  have hroom := hg.room
  have hgr := hg.grel
  simp only [g_bind, g_liftE, Val.ofLineNumber]
  rw [lpush_run_room _ _ (by omega), lpush_run_room _ _ (by omega)]
  dsimp only
  rw [lpush_run_room _ _ (by simp only [Array.size_push]; omega),
    lpush_run_room _ _ (by simp only [Array.size_push]; omega)]
  dsimp only
  rw [lpush_run_room _ _ (by simp only [Array.size_push]; omega),
    lpush_run_room _ _ (by simp only [Array.size_push]; omega)]
  simp only [g_pure]
  refine ⟨trivial, hgr.var, hgr.expr, hgr.stmt, ⟨⟨hgr.cur.cur, hgr.cur.curNeg, ?_, hgr.cur.data, hgr.cur.dataPos,
    hgr.cur.directSet, hgr.cur.unlinked, hgr.cur.whiles⟩, hgr.cur.symbols⟩⟩
  show OpsRel φ (((g.cur.ops.push _).push _).push op).toList (((g'.cur.ops.push _).push _).push op).toList
  simp only [Array.toList_push, List.append_assoc, List.cons_append, List.nil_append]
  exact hgr.cur.ops.append (.range n n' m m' op hn hm hop .nil)

/-- the loop of `genOn` over the operand fragments -/
theorem gr_onBody {x x' : Col × Link} (h : OpFrag φ x x') (A : Type) (f : Col × Link → A) (f' : Col × Link → A) :
    GRs φ
      (match lineNumberOfLink x.snd with
        | Except.ok ln => do
          pushGoto x.fst ln
          pure (ForInStep.yield (f x))
        | Except.error e => do
          throw (e.inCol x.fst.fst x.fst.snd)
          pure (ForInStep.yield (f x)) : GM (ForInStep A))
      (match lineNumberOfLink x'.snd with
        | Except.ok ln => do
          pushGoto x'.fst ln
          pure (ForInStep.yield (f' x'))
        | Except.error e => do
          throw (e.inCol x'.fst.fst x'.fst.snd)
          pure (ForInStep.yield (f' x')) : GM (ForInStep A)) StepRel := by
  cases h with
  | @line c1 c1' v v' n hv hv' =>
    dsimp only
    rw [lineNumberOfLink_litFrag, lineNumberOfLink_litFrag, hv, hv']
    have hl := LnRel.line (φ := φ) n
    dsimp only
    gr
  | @other c1 c1' v hv =>
    dsimp only
    obtain ⟨er, he⟩ := toLineNumber_other hv
    rw [lineNumberOfLink_litFrag, he]
    dsimp only
    gr

theorem gr_genOn (k : Nat) (c c' : Col) (isGosub : Bool) {xs xs' : List (Col × Link)} (hxs : All₂ (OpFrag φ) xs xs')
    (n : Nat) (hn : xs.length = n) :
    GR φ (Top φ k xs xs') (genOn c n isGosub) (genOn c' n isGosub) (S φ TT) := by
  have hn' : xs'.length = n := by rw [hxs.length_eq, hn]
  unfold genOn
  refine GR.seq_exact (P' := GRel φ) ((gr_popNExpr_top k xs xs' n hn hn').conseq (fun _ _ h => h)
    (fun _ _ _ _ h => ⟨h.1, h.2.1, h.2.2.1⟩)) ?_
  gr_post
  gr_post
  dsimp only
  gr_post
  cases isGosub
  · simp only [Bool.false_eq_true, ↓reduceIte]
    refine GRs.seq_any (gr_lpush _) ?_; intro _ _
    refine GRs.seq_any (gr_lappend (by assumption)) ?_; intro _ _
    refine GRs.seq_any (gr_lpush _) ?_; intro _ _
    refine GRs.seq_any ?_ (fun _ _ => GRs.ret trivial)
    refine GRs.forLoop hxs _ _ _ _ ?_
    intro a a' _ _ hop
    exact gr_onBody hop Nat (fun x => x.fst.snd) (fun x => x.fst.snd)
  · simp only [↓reduceIte]
    refine GRs.seq_any (gr_pushReturnVal _ _ (by assumption)) ?_; intro _ _
    refine GRs.seq_any (gr_lpush _) ?_; intro _ _
    refine GRs.seq_any (gr_lappend (by assumption)) ?_; intro _ _
    refine GRs.seq_any (gr_lpush _) ?_; intro _ _
    refine GRs.seq_any ?_ (fun _ _ => by gr)
    refine GRs.forLoop hxs _ _ _ _ ?_
    intro a a' _ _ hop
    exact gr_onBody hop Nat (fun x => x.fst.snd) (fun x => x.fst.snd)

end RenumRel
end Basic
