import BasicModel.Lemmas.GenNeg
import BasicModel.Lemmas.Link
/-
  Symbol addresses of generated fragments lie within the fragment's code.

  `SymBounded l`: every entry of `l.symbols` has a code address `≤ l.ops.size`.  Every statement
  fragment the generator builds satisfies it (`fragments_symBounded`); expression and variable
  fragments define no symbols at all (`SF`).  With the D20 rule of `linkProg` ("a symbol at the
  very end of the code forces a closing `End`") this gives: every address a reference can be
  resolved to lies strictly below `directAddress` (`Lemmas/Layout.lean`).

  The proof is the Hoare calculus of `Lemmas/GenNeg.lean` once more, with the invariant of the
  fragment under construction as a parameter `C`: `SF` while an expression or variable is
  generated, `SymBounded` while a statement is.
-/
namespace Basic
namespace Link

/-- a fragment without symbols (expressions, variables) -/
def SF (l : Link) : Prop := l.symbols = []

/-- every symbol's code address lies within the code, the end included -/
def SymBounded (l : Link) : Prop := ∀ p ∈ l.symbols, p.2.1 ≤ l.ops.size

theorem SF.empty : SF {} := rfl
theorem SymBounded.empty : SymBounded {} := fun _ h => nomatch h
theorem SF.bounded {l : Link} (h : SF l) : SymBounded l := by
  intro p hp; rw [h] at hp; cases hp

/-- the symbol table after `append`, whether or not it overflowed (also in `Lemmas/Layout.lean`) -/
theorem append_shape (a b : Link) :
    ((a.append b).1.symbols = a.symbols ∧ (a.append b).1.ops = a.ops) ∨
    ((a.append b).1.symbols = appendSymbols a b ∧ (a.append b).1.ops = a.ops ++ b.ops) := by
  rcases append_cases a b with ⟨_, _, e⟩ | ⟨_, e⟩ | ⟨_, _, e⟩ | ⟨_, _, e⟩
  · rw [e]; exact .inl ⟨rfl, rfl⟩
  · rw [e]; exact .inr ⟨rfl, rfl⟩
  · rw [e]; exact .inr ⟨rfl, rfl⟩
  · rw [e]; exact .inr ⟨rfl, rfl⟩

theorem SF.append {a b : Link} (ha : SF a) (hb : SF b) : SF (a.append b).1 := by
  rcases append_shape a b with ⟨e, -⟩ | ⟨e, -⟩
  · exact e.trans ha
  · unfold SF
    rw [e]
    unfold appendSymbols
    rw [hb]
    exact ha

theorem SymBounded.append {a b : Link} (ha : SymBounded a) (hb : SymBounded b) : SymBounded (a.append b).1 := by
  rcases append_shape a b with ⟨e, eo⟩ | ⟨e, eo⟩
  · intro p hp
    rw [e] at hp
    rw [eo]
    exact ha p hp
  · intro p hp
    rw [e] at hp
    rw [eo, Array.size_append]
    rcases mem_appendSymbols hp with h | ⟨q, hq, rfl⟩
    · have := ha p h; omega
    · have := hb q hq
      show q.2.1 + a.ops.size ≤ _
      omega

theorem SymBounded.push {l : Link} (h : SymBounded l) (op : Opcode) : SymBounded (l.push op).1 := by
  intro p hp
  show p.2.1 ≤ (l.ops.push op).size
  rw [Array.size_push]
  exact Nat.le_succ_of_le (h p hp)

theorem SymBounded.pushSymbol {l : Link} (h : SymBounded l) (sym : Symbol) : SymBounded (l.pushSymbol sym) := by
  intro p hp
  rcases mem_symInsert hp with e | hp
  · rw [e]; exact Nat.le_refl _
  · exact h p hp

/-- the invariants of the fragment under construction that the label-free primitives keep -/
structure CurOk (C : Link → Prop) : Prop where
  empty : C {}
  push : ∀ l op, C l → C (l.push op).1
  addUnlinked : ∀ l c s, C l → C (l.addUnlinked c s)
  setWhiles : ∀ (l : Link) w, C l → C { l with whiles := w }
  append : ∀ a b, C a → SF b → C (a.append b).1

theorem curOk_sf : CurOk SF :=
  ⟨SF.empty, fun _ _ h => h, fun _ _ _ h => h, fun _ _ h => h, fun _ _ ha hb => ha.append hb⟩

theorem curOk_bounded : CurOk SymBounded :=
  ⟨SymBounded.empty, fun _ op h => h.push op, fun _ _ _ h => h, fun _ _ h => h,
   fun _ _ ha hb => ha.append hb.bounded⟩

end Link

namespace Codegen
open Link
variable {α β : Type} {C : Link → Prop}

/-- the fragment under construction satisfies `C`; variable and expression fragments on the stacks
    have no symbols, statement fragments have bounded ones -/
structure BGood (C : Link → Prop) (g : GState) : Prop where
  cur : C g.cur
  var : ∀ v ∈ g.var.toList, v.link.SF
  expr : ∀ x ∈ g.expr.toList, x.2.SF
  stmt : ∀ x ∈ g.stmt.toList, x.2.SymBounded

theorem BGood.setCur {g : GState} (h : BGood C g) {l : Link} (hl : C l) : BGood C { g with cur := l } :=
  ⟨hl, h.var, h.expr, h.stmt⟩

/-- `BH C m Q`: `m` keeps the generator state good, and its successful results satisfy `Q` -/
structure BH (C : Link → Prop) (m : GM α) (Q : α → Prop) : Prop where
  run : ∀ g, BGood C g → BGood C (m.run.run g).2 ∧ ∀ a, (m.run.run g).1 = .ok a → Q a

theorem BH.ret {Q : α → Prop} {a : α} (h : Q a) : BH C (pure a : GM α) Q :=
  ⟨fun _ hg => ⟨hg, fun b hb => by cases hb; exact h⟩⟩

theorem BH.thr {Q : α → Prop} (e : Error) : BH C (throw e : GM α) Q :=
  ⟨fun _ hg => ⟨hg, fun b hb => by cases hb⟩⟩

theorem BH.lift (r : Except Error α) : BH C (liftE r : GM α) T :=
  ⟨fun g hg => by rw [g_liftE]; exact ⟨hg, fun _ _ => trivial⟩⟩

theorem BH.mod {f : GState → GState} (h : ∀ g, BGood C g → BGood C (f g)) : BH C (modify f : GM Unit) T :=
  ⟨fun g hg => ⟨h g hg, fun _ _ => trivial⟩⟩

theorem BH.weaken {Q Q' : α → Prop} {m : GM α} (h : BH C m Q) (hq : ∀ a, Q a → Q' a) : BH C m Q' :=
  ⟨fun g hg => ⟨(h.run g hg).1, fun a ha => hq a ((h.run g hg).2 a ha)⟩⟩

theorem BH.any {Q : α → Prop} {m : GM α} (h : BH C m Q) : BH C m T := h.weaken fun _ _ => trivial

theorem BH.seq {Q : α → Prop} {Q' : β → Prop} {m : GM α} {f : α → GM β}
    (hm : BH C m Q) (hf : ∀ a, Q a → BH C (f a) Q') : BH C (m >>= f) Q' := by
  constructor
  intro g hg
  have h1 := hm.run g hg
  rw [g_bind]
  rcases h : m.run.run g with ⟨r, g'⟩
  rw [h] at h1
  cases r with
  | ok a => exact (hf a (h1.2 a rfl)).run g' h1.1
  | error e => exact ⟨h1.1, fun b hb => by cases hb⟩

theorem BH.seq_any {Q' : β → Prop} {m : GM α} {f : α → GM β}
    (hm : BH C m T) (hf : ∀ a, BH C (f a) Q') : BH C (m >>= f) Q' :=
  BH.seq hm fun a _ => hf a

theorem BH.forLoop {γ : Type} {P : γ → Prop} (l : List γ) (init : β) (f : γ → β → GM (ForInStep β))
    (hl : ∀ a ∈ l, P a) (hf : ∀ a b, P a → BH C (f a b) T) : BH C (forIn l init f) T := by
  induction l generalizing init with
  | nil => exact BH.ret trivial
  | cons a as ih =>
    rw [List.forIn_cons]
    refine BH.seq_any (hf a init (hl a List.mem_cons_self)) ?_
    intro r
    cases r with
    | done b => exact BH.ret trivial
    | yield b => exact ih b (fun x hx => hl x (List.mem_cons_of_mem _ hx))

/-! ### the primitives -/

theorem bh_popExpr : BH C popExpr (fun x => x.2.SF) := by
  constructor
  intro g hg
  simp only [popExpr, g_bind, g_get]
  cases hb : g.expr.back? with
  | none => exact ⟨hg, fun a ha => by cases ha⟩
  | some x =>
    refine ⟨⟨hg.cur, hg.var, fun y hy => hg.expr y (mem_of_mem_pop hy), hg.stmt⟩, ?_⟩
    intro a ha
    cases ha
    exact hg.expr x (mem_of_back? hb)

theorem bh_popVar : BH C popVar (fun v => v.link.SF) := by
  constructor
  intro g hg
  simp only [popVar, g_bind, g_get]
  cases hb : g.var.back? with
  | none => exact ⟨hg, fun a ha => by cases ha⟩
  | some x =>
    refine ⟨⟨hg.cur, fun y hy => hg.var y (mem_of_mem_pop hy), hg.expr, hg.stmt⟩, ?_⟩
    intro a ha
    cases ha
    exact hg.var x (mem_of_back? hb)

theorem bh_popNExpr (n : Nat) : BH C (popNExpr n) (fun l => ∀ x ∈ l, x.2.SF) := by
  constructor
  intro g hg
  simp only [popNExpr, g_bind, g_get]
  split
  · exact ⟨hg, fun a ha => by cases ha⟩
  · refine ⟨⟨hg.cur, hg.var, fun y hy => hg.expr y (mem_of_mem_extract hy), hg.stmt⟩, ?_⟩
    intro a ha
    cases ha
    exact fun y hy => hg.expr y (mem_of_mem_extract hy)

theorem bh_popNVar (n : Nat) : BH C (popNVar n) (fun l => ∀ x ∈ l, x.link.SF) := by
  constructor
  intro g hg
  simp only [popNVar, g_bind, g_get]
  split
  · exact ⟨hg, fun a ha => by cases ha⟩
  · refine ⟨⟨hg.cur, fun y hy => hg.var y (mem_of_mem_extract hy), hg.expr, hg.stmt⟩, ?_⟩
    intro a ha
    cases ha
    exact fun y hy => hg.var y (mem_of_mem_extract hy)

theorem bh_popNStmt (n : Nat) : BH C (popNStmt n) (fun l => ∀ x ∈ l, x.2.SymBounded) := by
  constructor
  intro g hg
  simp only [popNStmt, g_bind, g_get]
  split
  · exact ⟨hg, fun a ha => by cases ha⟩
  · refine ⟨⟨hg.cur, hg.var, hg.expr, fun y hy => hg.stmt y (mem_of_mem_extract hy)⟩, ?_⟩
    intro a ha
    cases ha
    exact fun y hy => hg.stmt y (mem_of_mem_extract hy)

theorem bh_lpush (hC : CurOk C) (op : Opcode) : BH C (lpush op) T := by
  constructor
  intro g hg
  simp only [lpush, g_bind, g_get, g_set, g_liftE]
  exact ⟨hg.setCur (hC.push _ op hg.cur), fun _ _ => trivial⟩

theorem bh_lappend (hC : CurOk C) (f : Link) (hf : f.SF) : BH C (lappend f) T := by
  constructor
  intro g hg
  simp only [lappend, g_bind, g_get, g_set, g_liftE]
  exact ⟨hg.setCur (hC.append _ f hg.cur hf), fun _ _ => trivial⟩

/-- appending a statement fragment (the branches of IF) -/
theorem bh_lappendB (f : Link) (hf : f.SymBounded) : BH SymBounded (lappend f) T := by
  constructor
  intro g hg
  simp only [lappend, g_bind, g_get, g_set, g_liftE]
  exact ⟨hg.setCur (hg.cur.append hf), fun _ _ => trivial⟩

theorem bh_lnextSymbol : BH SymBounded lnextSymbol T := by
  constructor
  intro g hg
  simp only [lnextSymbol, g_bind, g_get, g_set, g_pure]
  exact ⟨hg.setCur (l := g.cur.nextSymbol.1) hg.cur, fun _ _ => trivial⟩

theorem bh_lpushSymbol (sym : Symbol) : BH SymBounded (lpushSymbol sym) T :=
  BH.mod fun _ hg => hg.setCur (hg.cur.pushSymbol sym)

theorem bh_laddUnlinked (hC : CurOk C) (c : Col) (sym : Symbol) : BH C (laddUnlinked c sym) T :=
  BH.mod fun _ hg => hg.setCur (hC.addUnlinked _ c sym hg.cur)

theorem bh_lenVal (n : Nat) : BH C (lenVal n) T := BH.lift _

/-! ### the walk through a `do` block -/

syntax "bh_known" : tactic
macro_rules | `(tactic| bh_known) => `(tactic| assumption)
macro_rules | `(tactic| bh_known) => `(tactic| with_reducible exact bh_lpush (by assumption) _)
macro_rules | `(tactic| bh_known) => `(tactic| with_reducible exact bh_lappend (by assumption) _ (by assumption))
macro_rules | `(tactic| bh_known) => `(tactic| with_reducible exact bh_lappendB _ (by assumption))
macro_rules | `(tactic| bh_known) => `(tactic| with_reducible exact bh_lpushSymbol _)
macro_rules | `(tactic| bh_known) => `(tactic| with_reducible exact bh_laddUnlinked (by assumption) _ _)
macro_rules | `(tactic| bh_known) => `(tactic| with_reducible exact bh_lenVal _)
macro_rules | `(tactic| bh_known) => `(tactic| with_reducible exact bh_lnextSymbol)
macro_rules | `(tactic| bh_known) => `(tactic| with_reducible exact BH.any bh_popExpr)
macro_rules | `(tactic| bh_known) => `(tactic| with_reducible exact BH.any bh_popVar)
macro_rules | `(tactic| bh_known) => `(tactic| with_reducible exact BH.any (bh_popNExpr _))
macro_rules | `(tactic| bh_known) => `(tactic| with_reducible exact BH.any (bh_popNVar _))
macro_rules | `(tactic| bh_known) => `(tactic| with_reducible exact BH.any (bh_popNStmt _))

syntax "bh_post" : tactic
macro_rules | `(tactic| bh_post) => `(tactic| (with_reducible refine BH.seq bh_popExpr ?_; intro _ _))
macro_rules | `(tactic| bh_post) => `(tactic| (with_reducible refine BH.seq bh_popVar ?_; intro _ _))
macro_rules | `(tactic| bh_post) => `(tactic| (with_reducible refine BH.seq (bh_popNExpr _) ?_; intro _ _))
macro_rules | `(tactic| bh_post) => `(tactic| (with_reducible refine BH.seq (bh_popNVar _) ?_; intro _ _))
macro_rules | `(tactic| bh_post) => `(tactic| (with_reducible refine BH.seq (bh_popNStmt _) ?_; intro _ _))

macro "bh_step" : tactic =>
  `(tactic| first
    | with_reducible exact BH.ret trivial
    | with_reducible exact BH.thr _
    | with_reducible exact BH.lift _
    | bh_known
    | bh_post
    | (with_reducible refine BH.forLoop _ _ _ (by assumption) ?_; intro _ _ _)
    | (with_reducible refine BH.forLoop (P := T) _ _ _ (fun _ _ => trivial) ?_; intro _ _ _)
    | with_reducible apply BH.seq_any
    | intro _
    | split)

macro "bh" : tactic => `(tactic| (try dsimp only
                                  repeat' bh_step))

/-! ### `Link::push_*` -/

theorem bh_pushJump (hC : CurOk C) (c : Col) (sym : Symbol) : BH C (pushJump c sym) T := by unfold pushJump; bh
theorem bh_pushIfnot (hC : CurOk C) (c : Col) (sym : Symbol) : BH C (pushIfnot c sym) T := by unfold pushIfnot; bh
theorem bh_pushReturnVal (hC : CurOk C) (c : Col) (sym : Symbol) : BH C (pushReturnVal c sym) T := by
  unfold pushReturnVal; bh
macro_rules | `(tactic| bh_known) => `(tactic| with_reducible exact bh_pushJump (by assumption) _ _)
macro_rules | `(tactic| bh_known) => `(tactic| with_reducible exact bh_pushIfnot (by assumption) _ _)
macro_rules | `(tactic| bh_known) => `(tactic| with_reducible exact bh_pushReturnVal (by assumption) _ _)

theorem bh_pushGoto (hC : CurOk C) (c : Col) (ln : Option Nat) : BH C (pushGoto c ln) T := by unfold pushGoto; bh
theorem bh_pushGosub (c : Col) (ln : Option Nat) : BH SymBounded (pushGosub c ln) T := by
  have hC := curOk_bounded; unfold pushGosub; bh
theorem bh_pushFor (c : Col) : BH SymBounded (pushFor c) T := by have hC := curOk_bounded; unfold pushFor; bh
theorem bh_pushRestore (hC : CurOk C) (c : Col) (ln : Option Nat) : BH C (pushRestore c ln) T := by
  unfold pushRestore; bh
theorem bh_pushRun (hC : CurOk C) (c : Col) (ln : Option Nat) : BH C (pushRun c ln) T := by unfold pushRun; bh
macro_rules | `(tactic| bh_known) => `(tactic| with_reducible exact bh_pushGoto (by assumption) _ _)
macro_rules | `(tactic| bh_known) => `(tactic| with_reducible exact bh_pushGosub _ _)
macro_rules | `(tactic| bh_known) => `(tactic| with_reducible exact bh_pushFor _)
macro_rules | `(tactic| bh_known) => `(tactic| with_reducible exact bh_pushRestore (by assumption) _ _)
macro_rules | `(tactic| bh_known) => `(tactic| with_reducible exact bh_pushRun (by assumption) _ _)

theorem bh_setWhiles (hC : CurOk C) (w : GState → List (Bool × Col × Nat × Symbol)) :
    BH C (modify fun s => { s with cur := { s.cur with whiles := w s } } : GM Unit) T :=
  BH.mod fun g hg => hg.setCur (hC.setWhiles _ (w g) hg.cur)
macro_rules | `(tactic| bh_known) => `(tactic| with_reducible exact bh_setWhiles (by assumption) _)

theorem bh_pushWend (c : Col) : BH SymBounded (pushWend c) T := by have hC := curOk_bounded; unfold pushWend; bh
theorem bh_pushWhile (c : Col) (e : Link) (he : e.SF) : BH SymBounded (pushWhile c e) T := by
  have hC := curOk_bounded; unfold pushWhile; bh
theorem bh_pushDefFn (c : Col) (ident : Str) (vars : List Str) (e : Link) (he : e.SF) :
    BH SymBounded (pushDefFn c ident vars e) T := by have hC := curOk_bounded; unfold pushDefFn; bh
macro_rules | `(tactic| bh_known) => `(tactic| with_reducible exact bh_pushWend _)
macro_rules | `(tactic| bh_known) => `(tactic| with_reducible exact bh_pushWhile _ _ (by assumption))
macro_rules | `(tactic| bh_known) => `(tactic| with_reducible exact bh_pushDefFn _ _ _ _ (by assumption))

/-! ### `VarItem` -/

theorem bh_pushAsDim (hC : CurOk C) (v : VarItem) (hv : v.link.SF) : BH C (pushAsDim v) T := by
  unfold pushAsDim; bh
theorem bh_pushAsPopUnary (hC : CurOk C) (v : VarItem) : BH C (pushAsPopUnary v) T := by unfold pushAsPopUnary; bh
theorem bh_pushAsPop (hC : CurOk C) (v : VarItem) (hv : v.link.SF) : BH C (pushAsPop v) T := by
  unfold pushAsPop; bh
theorem bh_pushAsExpression (hC : CurOk C) (v : VarItem) (hv : v.link.SF) : BH C (pushAsExpression v) T := by
  unfold pushAsExpression; bh
macro_rules | `(tactic| bh_known) => `(tactic| with_reducible exact bh_pushAsDim (by assumption) _ (by assumption))
macro_rules | `(tactic| bh_known) => `(tactic| with_reducible exact bh_pushAsPopUnary (by assumption) _)
macro_rules | `(tactic| bh_known) => `(tactic| with_reducible exact bh_pushAsPop (by assumption) _ (by assumption))
macro_rules | `(tactic| bh_known) => `(tactic| with_reducible exact bh_pushAsExpression (by assumption) _ (by assumption))

/-! ### `Generator` -/

theorem bh_exprPopLineNumber : BH C exprPopLineNumber T := by unfold exprPopLineNumber; bh
macro_rules | `(tactic| bh_known) => `(tactic| with_reducible exact bh_exprPopLineNumber)

theorem bh_genVariable (hC : CurOk C) (v : Variable) : BH C (genVariable v) T := by
  cases v <;> (simp only [genVariable]; bh)

theorem bh_unaryExpr (hC : CurOk C) (op : Opcode) (c : Col) : BH C (unaryExpr op c) T := by unfold unaryExpr; bh
theorem bh_binaryExpr (hC : CurOk C) (op : Opcode) : BH C (binaryExpr op) T := by unfold binaryExpr; bh
macro_rules | `(tactic| bh_known) => `(tactic| with_reducible exact bh_unaryExpr (by assumption) _ _)
macro_rules | `(tactic| bh_known) => `(tactic| with_reducible exact bh_binaryExpr (by assumption) _)

theorem bh_genExpression (hC : CurOk C) (e : Expr) : BH C (genExpression e) T := by
  cases e <;> (simp only [genExpression]; bh)

theorem bh_defType (hC : CurOk C) (op : Opcode) (c : Col) : BH C (defType op c) T := by unfold defType; bh
theorem bh_rangeStmt (hC : CurOk C) (op : Opcode) (c : Col) : BH C (rangeStmt op c) T := by unfold rangeStmt; bh
theorem bh_genOn (c : Col) (len : Nat) (b : Bool) : BH SymBounded (genOn c len b) T := by
  have hC := curOk_bounded; unfold genOn; bh
macro_rules | `(tactic| bh_known) => `(tactic| with_reducible exact bh_defType (by assumption) _ _)
macro_rules | `(tactic| bh_known) => `(tactic| with_reducible exact bh_rangeStmt (by assumption) _ _)
macro_rules | `(tactic| bh_known) => `(tactic| with_reducible exact bh_genOn _ _ _)

theorem sf_transformToData {l : Link} (h : l.SF) (c : Col) : (transformToData l c).1.SF := by
  unfold transformToData
  dsimp only
  repeat' split
  all_goals exact h

theorem sf_of_transformToData {l l' : Link} {c : Col} {r : Except Error Unit} (h : l.SF)
    (e : transformToData l c = (l', r)) : l'.SF := by
  have := sf_transformToData h c
  rw [e] at this
  exact this
macro_rules | `(tactic| bh_known) => `(tactic| with_reducible exact bh_lappend (by assumption) _ (sf_of_transformToData (by assumption) (by assumption)))
macro_rules | `(tactic| bh_known) => `(tactic| with_reducible exact bh_lappend (by assumption) _ (sf_transformToData (by assumption) _))

theorem bh_gs_clear : ∀ c, BH SymBounded (genStatement (.clear c)) T := by
  intros; have hC := curOk_bounded; simp only [genStatement]; bh

theorem bh_gs_cls : ∀ c, BH SymBounded (genStatement (.cls c)) T := by
  intros; have hC := curOk_bounded; simp only [genStatement]; bh

theorem bh_gs_cont : ∀ c, BH SymBounded (genStatement (.cont c)) T := by
  intros; have hC := curOk_bounded; simp only [genStatement]; bh

theorem bh_gs_data : ∀ c es, BH SymBounded (genStatement (.data c es)) T := by
  intros; have hC := curOk_bounded; simp only [genStatement]; bh

theorem bh_gs_def : ∀ c v ps e, BH SymBounded (genStatement (.«def» c v ps e)) T := by
  intros; have hC := curOk_bounded; simp only [genStatement]; bh

theorem bh_gs_defdbl : ∀ c a b, BH SymBounded (genStatement (.defdbl c a b)) T := by
  intros; have hC := curOk_bounded; simp only [genStatement]; bh

theorem bh_gs_defint : ∀ c a b, BH SymBounded (genStatement (.defint c a b)) T := by
  intros; have hC := curOk_bounded; simp only [genStatement]; bh

theorem bh_gs_defsng : ∀ c a b, BH SymBounded (genStatement (.defsng c a b)) T := by
  intros; have hC := curOk_bounded; simp only [genStatement]; bh

theorem bh_gs_defstr : ∀ c a b, BH SymBounded (genStatement (.defstr c a b)) T := by
  intros; have hC := curOk_bounded; simp only [genStatement]; bh

theorem bh_gs_delete : ∀ c a b, BH SymBounded (genStatement (.delete c a b)) T := by
  intros; have hC := curOk_bounded; simp only [genStatement]; bh

theorem bh_gs_dim : ∀ c vs, BH SymBounded (genStatement (.dim c vs)) T := by
  intros; have hC := curOk_bounded; simp only [genStatement]; bh

theorem bh_gs_end : ∀ c, BH SymBounded (genStatement (.«end» c)) T := by
  intros; have hC := curOk_bounded; simp only [genStatement]; bh

theorem bh_gs_erase : ∀ c vs, BH SymBounded (genStatement (.erase c vs)) T := by
  intros; have hC := curOk_bounded; simp only [genStatement]; bh

theorem bh_gs_for : ∀ c v a b s, BH SymBounded (genStatement (.«for» c v a b s)) T := by
  intros; have hC := curOk_bounded; simp only [genStatement]; bh

theorem bh_gs_gosub : ∀ c e, BH SymBounded (genStatement (.gosub c e)) T := by
  intros; have hC := curOk_bounded; simp only [genStatement]; bh

theorem bh_gs_goto : ∀ c e, BH SymBounded (genStatement (.goto c e)) T := by
  intros; have hC := curOk_bounded; simp only [genStatement]; bh

theorem bh_gs_if : ∀ c p th el, BH SymBounded (genStatement (.«if» c p th el)) T := by
  intros; have hC := curOk_bounded; simp only [genStatement]; bh

theorem bh_gs_input : ∀ c caps prompt vs, BH SymBounded (genStatement (.input c caps prompt vs)) T := by
  intros; have hC := curOk_bounded; simp only [genStatement]; bh

theorem bh_gs_let : ∀ c v e, BH SymBounded (genStatement (.«let» c v e)) T := by
  intros; have hC := curOk_bounded; simp only [genStatement]; bh

theorem bh_gs_list : ∀ c a b, BH SymBounded (genStatement (.list c a b)) T := by
  intros; have hC := curOk_bounded; simp only [genStatement]; bh

theorem bh_gs_load : ∀ c e, BH SymBounded (genStatement (.load c e)) T := by
  intros; have hC := curOk_bounded; simp only [genStatement]; bh

theorem bh_gs_mid : ∀ c v pos len e, BH SymBounded (genStatement (.mid c v pos len e)) T := by
  intros; have hC := curOk_bounded; simp only [genStatement]; bh

theorem bh_gs_new : ∀ c, BH SymBounded (genStatement (.new c)) T := by
  intros; have hC := curOk_bounded; simp only [genStatement]; bh

theorem bh_gs_next : ∀ c vs, BH SymBounded (genStatement (.next c vs)) T := by
  intros; have hC := curOk_bounded; simp only [genStatement]; bh

theorem bh_gs_onGoto : ∀ c e ls, BH SymBounded (genStatement (.onGoto c e ls)) T := by
  intros; have hC := curOk_bounded; simp only [genStatement]; bh

theorem bh_gs_onGosub : ∀ c e ls, BH SymBounded (genStatement (.onGosub c e ls)) T := by
  intros; have hC := curOk_bounded; simp only [genStatement]; bh

theorem bh_gs_print : ∀ c es, BH SymBounded (genStatement (.print c es)) T := by
  intros; have hC := curOk_bounded; simp only [genStatement]; bh

theorem bh_gs_read : ∀ c vs, BH SymBounded (genStatement (.read c vs)) T := by
  intros; have hC := curOk_bounded; simp only [genStatement]; bh

theorem bh_gs_renum : ∀ c a b s, BH SymBounded (genStatement (.renum c a b s)) T := by
  intros; have hC := curOk_bounded; simp only [genStatement]; bh

theorem bh_gs_restore : ∀ c e, BH SymBounded (genStatement (.restore c e)) T := by
  intros; have hC := curOk_bounded; simp only [genStatement]; bh

theorem bh_gs_return : ∀ c, BH SymBounded (genStatement (.«return» c)) T := by
  intros; have hC := curOk_bounded; simp only [genStatement]; bh

theorem bh_gs_run : ∀ c e, BH SymBounded (genStatement (.run c e)) T := by
  intros; have hC := curOk_bounded; simp only [genStatement]; bh

theorem bh_gs_save : ∀ c e, BH SymBounded (genStatement (.save c e)) T := by
  intros; have hC := curOk_bounded; simp only [genStatement]; bh

theorem bh_gs_stop : ∀ c, BH SymBounded (genStatement (.stop c)) T := by
  intros; have hC := curOk_bounded; simp only [genStatement]; bh

theorem bh_gs_swap : ∀ c a b, BH SymBounded (genStatement (.swap c a b)) T := by
  intros; have hC := curOk_bounded; simp only [genStatement]; bh

theorem bh_gs_troff : ∀ c, BH SymBounded (genStatement (.troff c)) T := by
  intros; have hC := curOk_bounded; simp only [genStatement]; bh

theorem bh_gs_tron : ∀ c, BH SymBounded (genStatement (.tron c)) T := by
  intros; have hC := curOk_bounded; simp only [genStatement]; bh

theorem bh_gs_wend : ∀ c, BH SymBounded (genStatement (.wend c)) T := by
  intros; have hC := curOk_bounded; simp only [genStatement]; bh

theorem bh_gs_while : ∀ c e, BH SymBounded (genStatement (.«while» c e)) T := by
  intros; have hC := curOk_bounded; simp only [genStatement]; bh

theorem bh_genStatement (st : Stmt) : BH SymBounded (genStatement st) T := by
  cases st with
  | clear c => exact bh_gs_clear _
  | cls c => exact bh_gs_cls _
  | cont c => exact bh_gs_cont _
  | data c es => exact bh_gs_data _ _
  | «def» c v ps e => exact bh_gs_def _ _ _ _
  | defdbl c a b => exact bh_gs_defdbl _ _ _
  | defint c a b => exact bh_gs_defint _ _ _
  | defsng c a b => exact bh_gs_defsng _ _ _
  | defstr c a b => exact bh_gs_defstr _ _ _
  | delete c a b => exact bh_gs_delete _ _ _
  | dim c vs => exact bh_gs_dim _ _
  | «end» c => exact bh_gs_end _
  | erase c vs => exact bh_gs_erase _ _
  | «for» c v a b s => exact bh_gs_for _ _ _ _ _
  | gosub c e => exact bh_gs_gosub _ _
  | goto c e => exact bh_gs_goto _ _
  | «if» c p th el => exact bh_gs_if _ _ _ _
  | input c caps prompt vs => exact bh_gs_input _ _ _ _
  | «let» c v e => exact bh_gs_let _ _ _
  | list c a b => exact bh_gs_list _ _ _
  | load c e => exact bh_gs_load _ _
  | mid c v pos len e => exact bh_gs_mid _ _ _ _ _
  | new c => exact bh_gs_new _
  | next c vs => exact bh_gs_next _ _
  | onGoto c e ls => exact bh_gs_onGoto _ _ _
  | onGosub c e ls => exact bh_gs_onGosub _ _ _
  | print c es => exact bh_gs_print _ _
  | read c vs => exact bh_gs_read _ _
  | renum c a b s => exact bh_gs_renum _ _ _ _
  | restore c e => exact bh_gs_restore _ _
  | «return» c => exact bh_gs_return _
  | run c e => exact bh_gs_run _ _
  | save c e => exact bh_gs_save _ _
  | stop c => exact bh_gs_stop _
  | swap c a b => exact bh_gs_swap _ _ _
  | troff c => exact bh_gs_troff _
  | tron c => exact bh_gs_tron _
  | wend c => exact bh_gs_wend _
  | «while» c e => exact bh_gs_while _ _


/-! ### the visitor -/

/-- the three stacks between two visits (the fragment under construction is reset by `runFresh`) -/
structure VGood (g : GState) : Prop where
  var : ∀ v ∈ g.var.toList, v.link.SF
  expr : ∀ x ∈ g.expr.toList, x.2.SF
  stmt : ∀ x ∈ g.stmt.toList, x.2.SymBounded

theorem VGood.empty : VGood {} := ⟨fun _ h => (nomatch h), fun _ h => (nomatch h), fun _ h => (nomatch h)⟩

theorem runFresh_vgood {m : GM α} {Q : α → Prop} (hC : CurOk C) (hm : BH C m Q) (g : GState) (hg : VGood g) :
    C (runFresh m g).2.1 ∧ VGood (runFresh m g).2.2 := by
  have h := (hm.run { g with cur := {} } ⟨hC.empty, hg.var, hg.expr, hg.stmt⟩).1
  unfold runFresh
  exact ⟨h.cur, ⟨h.var, h.expr, h.stmt⟩⟩

theorem visitVariable_vgood (v : Variable) (s : VState) (h : VGood s.g) : VGood (visitVariable v s).g := by
  have hr := runFresh_vgood curOk_sf (bh_genVariable curOk_sf v) s.g h
  unfold visitVariable
  generalize runFresh (genVariable v) s.g = x at hr
  rcases x with ⟨r, link, g⟩
  cases r <;>
    exact ⟨fun y hy => (mem_push_toList hy).elim (hr.2.var y) (fun e => e ▸ hr.1), hr.2.expr, hr.2.stmt⟩

theorem visitExpression_vgood (e : Expr) (s : VState) (h : VGood s.g) : VGood (visitExpression e s).g := by
  have hr := runFresh_vgood curOk_sf (bh_genExpression curOk_sf e) s.g h
  unfold visitExpression
  generalize runFresh (genExpression e) s.g = x at hr
  rcases x with ⟨r, link, g⟩
  cases r <;>
    exact ⟨hr.2.var, fun y hy => (mem_push_toList hy).elim (hr.2.expr y) (fun e => e ▸ hr.1), hr.2.stmt⟩

theorem visitStatement_vgood (st : Stmt) (s : VState) (h : VGood s.g) : VGood (visitStatement st s).g := by
  have hr := runFresh_vgood curOk_bounded (bh_genStatement st) s.g h
  unfold visitStatement
  generalize runFresh (genStatement st) s.g = x at hr
  rcases x with ⟨r, link, g⟩
  cases r <;>
    exact ⟨hr.2.var, hr.2.expr, fun y hy => (mem_push_toList hy).elim (hr.2.stmt y) (fun e => e ▸ hr.1)⟩

mutual
theorem acceptVar_vgood : ∀ (v : Variable) (s : VState), VGood s.g → VGood (acceptVar v s).g
  | .unary c i, s, h => by rw [acceptVar]; exact visitVariable_vgood _ _ h
  | .array c i es, s, h => by rw [acceptVar]; exact visitVariable_vgood _ _ (acceptExprs_vgood es s h)
theorem acceptExpr_vgood : ∀ (e : Expr) (s : VState), VGood s.g → VGood (acceptExpr e s).g
  | .var v, s, h => by rw [acceptExpr]; exact visitExpression_vgood _ _ (acceptVar_vgood v s h)
  | .neg c e, s, h => by rw [acceptExpr]; exact visitExpression_vgood _ _ (acceptExpr_vgood e s h)
  | .not c e, s, h => by rw [acceptExpr]; exact visitExpression_vgood _ _ (acceptExpr_vgood e s h)
  | .bin op c l r, s, h => by
    rw [acceptExpr]; exact visitExpression_vgood _ _ (acceptExpr_vgood r _ (acceptExpr_vgood l s h))
  | .single c b, s, h => by rw [acceptExpr] <;> first | exact visitExpression_vgood _ _ h | nofun
  | .double c b, s, h => by rw [acceptExpr] <;> first | exact visitExpression_vgood _ _ h | nofun
  | .integer c b, s, h => by rw [acceptExpr] <;> first | exact visitExpression_vgood _ _ h | nofun
  | .string c b, s, h => by rw [acceptExpr] <;> first | exact visitExpression_vgood _ _ h | nofun
theorem acceptExprs_vgood : ∀ (es : List Expr) (s : VState), VGood s.g → VGood (acceptExprs es s).g
  | [], s, h => by rw [acceptExprs]; exact h
  | e :: es, s, h => by rw [acceptExprs]; exact acceptExprs_vgood es _ (acceptExpr_vgood e s h)
end

theorem acceptVars_vgood (vs : List Variable) (s : VState) (h : VGood s.g) : VGood (acceptVars vs s).g := by
  unfold acceptVars
  induction vs generalizing s with
  | nil => exact h
  | cons v vs ih => rw [List.foldl_cons]; exact ih _ (acceptVar_vgood v s h)

mutual
theorem acceptStmt_vgood : ∀ (st : Stmt) (s : VState), VGood s.g → VGood (acceptStmt st s).g
  | .data c es, s, h => by rw [acceptStmt]; exact visitStatement_vgood _ _ (acceptExprs_vgood es s h)
  | .print c es, s, h => by rw [acceptStmt]; exact visitStatement_vgood _ _ (acceptExprs_vgood es s h)
  | .def c v ps e, s, h => by
    rw [acceptStmt]
    exact visitStatement_vgood _ _ (acceptExpr_vgood e _ (acceptVars_vgood ps _ (acceptVar_vgood v s h)))
  | .defdbl c a b, s, h => by
    rw [acceptStmt]; exact visitStatement_vgood _ _ (acceptVar_vgood b _ (acceptVar_vgood a s h))
  | .defint c a b, s, h => by
    rw [acceptStmt]; exact visitStatement_vgood _ _ (acceptVar_vgood b _ (acceptVar_vgood a s h))
  | .defsng c a b, s, h => by
    rw [acceptStmt]; exact visitStatement_vgood _ _ (acceptVar_vgood b _ (acceptVar_vgood a s h))
  | .defstr c a b, s, h => by
    rw [acceptStmt]; exact visitStatement_vgood _ _ (acceptVar_vgood b _ (acceptVar_vgood a s h))
  | .swap c a b, s, h => by
    rw [acceptStmt]; exact visitStatement_vgood _ _ (acceptVar_vgood b _ (acceptVar_vgood a s h))
  | .mid c v e1 e2 e3, s, h => by
    rw [acceptStmt]
    exact visitStatement_vgood _ _
      (acceptExpr_vgood e3 _ (acceptExpr_vgood e2 _ (acceptExpr_vgood e1 _ (acceptVar_vgood v s h))))
  | .for c v e1 e2 e3, s, h => by
    rw [acceptStmt]
    exact visitStatement_vgood _ _
      (acceptExpr_vgood e3 _ (acceptExpr_vgood e2 _ (acceptExpr_vgood e1 _ (acceptVar_vgood v s h))))
  | .gosub c e, s, h => by rw [acceptStmt]; exact visitStatement_vgood _ _ (acceptExpr_vgood e s h)
  | .goto c e, s, h => by rw [acceptStmt]; exact visitStatement_vgood _ _ (acceptExpr_vgood e s h)
  | .load c e, s, h => by rw [acceptStmt]; exact visitStatement_vgood _ _ (acceptExpr_vgood e s h)
  | .restore c e, s, h => by rw [acceptStmt]; exact visitStatement_vgood _ _ (acceptExpr_vgood e s h)
  | .run c e, s, h => by rw [acceptStmt]; exact visitStatement_vgood _ _ (acceptExpr_vgood e s h)
  | .save c e, s, h => by rw [acceptStmt]; exact visitStatement_vgood _ _ (acceptExpr_vgood e s h)
  | .while c e, s, h => by rw [acceptStmt]; exact visitStatement_vgood _ _ (acceptExpr_vgood e s h)
  | .if c p th el, s, h => by
    rw [acceptStmt]
    exact visitStatement_vgood _ _ (acceptStmts_vgood el _ (acceptStmts_vgood th _ (acceptExpr_vgood p s h)))
  | .let c v e, s, h => by
    rw [acceptStmt]; exact visitStatement_vgood _ _ (acceptExpr_vgood e _ (acceptVar_vgood v s h))
  | .delete c a b, s, h => by
    rw [acceptStmt]; exact visitStatement_vgood _ _ (acceptExpr_vgood b _ (acceptExpr_vgood a s h))
  | .list c a b, s, h => by
    rw [acceptStmt]; exact visitStatement_vgood _ _ (acceptExpr_vgood b _ (acceptExpr_vgood a s h))
  | .input c e1 e2 vs, s, h => by
    rw [acceptStmt]
    exact visitStatement_vgood _ _ (acceptVars_vgood vs _ (acceptExpr_vgood e2 _ (acceptExpr_vgood e1 s h)))
  | .onGoto c e ls, s, h => by
    rw [acceptStmt]; exact visitStatement_vgood _ _ (acceptExprs_vgood ls _ (acceptExpr_vgood e s h))
  | .onGosub c e ls, s, h => by
    rw [acceptStmt]; exact visitStatement_vgood _ _ (acceptExprs_vgood ls _ (acceptExpr_vgood e s h))
  | .renum c a b st, s, h => by
    rw [acceptStmt]
    exact visitStatement_vgood _ _ (acceptExpr_vgood st _ (acceptExpr_vgood b _ (acceptExpr_vgood a s h)))
  | .dim c vs, s, h => by rw [acceptStmt]; exact visitStatement_vgood _ _ (acceptVars_vgood vs s h)
  | .erase c vs, s, h => by rw [acceptStmt]; exact visitStatement_vgood _ _ (acceptVars_vgood vs s h)
  | .next c vs, s, h => by rw [acceptStmt]; exact visitStatement_vgood _ _ (acceptVars_vgood vs s h)
  | .read c vs, s, h => by rw [acceptStmt]; exact visitStatement_vgood _ _ (acceptVars_vgood vs s h)
  | .clear c, s, h => by rw [acceptStmt] <;> first | exact visitStatement_vgood _ _ h | nofun
  | .cls c, s, h => by rw [acceptStmt] <;> first | exact visitStatement_vgood _ _ h | nofun
  | .cont c, s, h => by rw [acceptStmt] <;> first | exact visitStatement_vgood _ _ h | nofun
  | .end c, s, h => by rw [acceptStmt] <;> first | exact visitStatement_vgood _ _ h | nofun
  | .new c, s, h => by rw [acceptStmt] <;> first | exact visitStatement_vgood _ _ h | nofun
  | .return c, s, h => by rw [acceptStmt] <;> first | exact visitStatement_vgood _ _ h | nofun
  | .stop c, s, h => by rw [acceptStmt] <;> first | exact visitStatement_vgood _ _ h | nofun
  | .troff c, s, h => by rw [acceptStmt] <;> first | exact visitStatement_vgood _ _ h | nofun
  | .tron c, s, h => by rw [acceptStmt] <;> first | exact visitStatement_vgood _ _ h | nofun
  | .wend c, s, h => by rw [acceptStmt] <;> first | exact visitStatement_vgood _ _ h | nofun
theorem acceptStmts_vgood : ∀ (sts : List Stmt) (s : VState), VGood s.g → VGood (acceptStmts sts s).g
  | [], s, h => by rw [acceptStmts]; exact h
  | st :: sts, s, h => by rw [acceptStmts]; exact acceptStmts_vgood sts _ (acceptStmt_vgood st s h)
end

/-- every statement fragment the generator hands to `codegen` keeps its symbols within its code -/
theorem fragments_symBounded (ast : List Stmt) :
    ∀ x ∈ (acceptStmts ast {}).g.stmt.toList, x.2.SymBounded :=
  (acceptStmts_vgood ast {} VGood.empty).stmt

end Codegen
end Basic
