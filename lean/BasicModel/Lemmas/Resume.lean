import BasicModel.Lemmas.ContLine
import BasicModel.Lemmas.Sim
/-
  C13 at the session API: the pieces between an interrupt (or STOP, or END) and the resumed
  program.

  * `execList`: the driver's calls of `execute`, one per quantum, with the events they report;
  * the break report (`report_interrupt`, `report_runtimeError`), the calls at the prompt
    (`execList_to_prompt`, `execList_at_prompt`), the line `CONT` entered at the prompt
    (`enter_cont_stopped`) and the slice that executes the instruction `Cont` (`execute_cont_one`);
  * `cont_resumes`: together they lead to `resumed s`: the interrupted state itself, but for the
    print column (0), the spent continuation, the trace marker and the recompiled direct code;
  * `resumed_sim`: `resumed s ≈ s` (`Sim`, `Lemmas/Sim.lean`); `cont_from_brokenLike`: CONT from
    any state at the prompt that still holds the continuation of `s` (`BrokenLike`) — e.g. after
    direct-mode lines that kept it, `Lemmas/Inspect.lean` — resumes in a state `≈ s`;
  * `step_end_inside`, `end_saves`: END in the middle of a program.
-/
namespace Basic
namespace Runtime

/-- the driver calls `execute` once per quantum of the list; the state reached and the events
    reported, in order -/
def execList (env : Env) : List Nat → Runtime → Runtime × List Event
  | [], s => (s, [])
  | q :: qs, s => ((execList env qs (execute env s q).1).1, (execute env s q).2 :: (execList env qs (execute env s q).1).2)

theorem execList_nil (env : Env) (s : Runtime) : execList env [] s = (s, []) := rfl

theorem execList_cons (env : Env) (q : Nat) (qs : List Nat) (s : Runtime) :
    execList env (q :: qs) s =
      ((execList env qs (execute env s q).1).1, (execute env s q).2 :: (execList env qs (execute env s q).1).2) := rfl

/-- the quanta of the calls that report a break: two if a line break is due, else one -/
def reportQuanta (s : Runtime) (q₁ q₂ : Nat) : List Nat := if s.printCol > 0 then [q₁, q₂] else [q₂]

/-- the report of an error state: optional line break, then the error; `stopped`, column 0 -/
theorem report_runtimeError (env : Env) (q₁ q₂ : Nat) (s : Runtime) (e : Error)
    (hs : s.state = .runtimeError e) :
    execList env (reportQuanta s q₁ q₂) s =
      ({ s with state := .stopped, printCol := 0 },
       (if s.printCol > 0 then [.print ['\n']] else []) ++ [.errors [e]]) := by
  unfold reportQuanta
  by_cases hc : s.printCol > 0
  · rw [if_pos hc, if_pos hc, execList_cons, execList_cons, execList_nil,
      execute_runtimeError_col env s q₁ e hs hc]
    dsimp only
    rw [execute_runtimeError_nocol env { s with printCol := 0 } q₂ e hs rfl]
    rfl
  · have h0 : s.printCol = 0 := by omega
    rw [if_neg hc, if_neg hc, execList_cons, execList_nil, execute_runtimeError_nocol env s q₂ e hs h0]
    cases s; dsimp only at h0; subst h0; rfl

/-- the report of an interrupt: optional line break, then `?BREAK IN line` -/
theorem report_interrupt (env : Env) (q₁ q₂ : Nat) (s : Runtime) (hs : s.state = .interrupt) :
    execList env (reportQuanta s q₁ q₂) s =
      ({ s with state := .stopped, printCol := 0 },
       (if s.printCol > 0 then [.print ['\n']] else []) ++ [.errors [breakError s]]) := by
  unfold reportQuanta
  by_cases hc : s.printCol > 0
  · rw [if_pos hc, if_pos hc, execList_cons, execList_cons, execList_nil,
      execute_interrupt_col env s q₁ hs hc]
    dsimp only
    rw [execute_runtimeError_nocol env { s with state := .runtimeError (breakError s), printCol := 0 } q₂
      (breakError s) rfl rfl]
    rfl
  · have h0 : s.printCol = 0 := by omega
    rw [if_neg hc, if_neg hc, execList_cons, execList_nil, execute_interrupt_nocol env s q₂ hs h0]
    cases s; dsimp only at h0; subst h0; rfl

/-- at the prompt nothing happens, however often the driver calls -/
theorem execList_at_prompt (env : Env) (qs : List Nat) (s : Runtime)
    (hs : s.state = .stopped) (he : s.entryAddress = 0) :
    execList env qs s = (s, List.replicate qs.length .stopped) := by
  induction qs with
  | nil => rfl
  | cons q qs ih => rw [execList_cons, execute_stopped env s q hs he]; dsimp only; rw [ih]; rfl

/-- the text of the READY prompt at column 0 -/
def promptLine (s : Runtime) : Str := if s.prompt.isEmpty then [] else s.prompt ++ ['\n']

/-- `stopped` at column 0 before READY was printed: the first call prints it, the others report
    `stopped`; only `entryAddress` changes (to 0) -/
theorem execList_to_prompt (env : Env) (qs : List Nat) (s : Runtime)
    (hs : s.state = .stopped) (he : s.entryAddress ≠ 0) (hc : s.printCol = 0) :
    execList env qs s =
      (match qs with
       | [] => (s, [])
       | _ :: rest => ({ s with entryAddress := 0 }, .print (promptLine s) :: List.replicate rest.length .stopped)) := by
  cases qs with
  | nil => rfl
  | cons q rest =>
    rw [execList_cons, execute_stopped_prompt env s q hs he]
    dsimp only
    rw [execList_at_prompt env rest { s with entryAddress := 0, printCol := 0 } hs rfl]
    dsimp only
    rw [if_neg (by omega)]
    cases s; dsimp only at hc; subst hc; rfl


theorem finishLoop_ok_running (s : Runtime) : finishLoop (.ok .running) s = (s, .running) := by
  unfold finishLoop
  dsimp only
  split
  · rename_i h; cases h
  · rfl

/-- the slice that executes the instruction `Cont` with a `running` continuation: one step, the
    slice goes on -/
theorem step_cont_running (env : Env) (h : Bool) (v : Runtime) (htr : v.tron = false)
    (hop : v.program.link.ops[v.pc]? = some .cont) (hs : v.state = .running) (hc : v.cont = .running) :
    (step env h).run.run v = (.ok .continue, { v with cont := .stopped, pc := v.contPc }) := by
  rw [step_troff env h v htr, run_fetchExec, hop]
  dsimp only
  rw [execOp_cont_run]
  dsimp only
  rw [if_neg (by rw [hc]; nofun), if_pos hs, if_pos hc, hc]
  cases v; dsimp only at hs; subst hs; rfl

/-- `execute` with quantum 1 at the instruction `Cont`: exactly that instruction -/
theorem execute_cont_one (env : Env) (v : Runtime) (htr : v.tron = false)
    (hd : v.listing.directErrors = [])
    (hop : v.program.link.ops[v.pc]? = some .cont) (hs : v.state = .running) (hc : v.cont = .running) :
    execute env v 1 = ({ v with cont := .stopped, pc := v.contPc }, .running) := by
  rw [execute_running env v 1 hs hd, executeLoop_run]
  unfold slice
  rw [sliceRun_succ, step_cont_running env _ v htr hop hs hc]
  dsimp only [sliceRun, toEvent]
  exact finishLoop_ok_running _

/-- … and with a larger quantum the slice simply goes on in the resumed program -/
theorem execute_cont_succ (env : Env) (v : Runtime) (m : Nat) (htr : v.tron = false)
    (hd : v.listing.directErrors = [])
    (hop : v.program.link.ops[v.pc]? = some .cont) (hs : v.state = .running) (hc : v.cont = .running) :
    execute env v (m + 1) = execute env { v with cont := .stopped, pc := v.contPc } m := by
  rw [execute_running env v (m + 1) hs hd,
    execute_running env { v with cont := .stopped, pc := v.contPc } m hs hd, executeLoop_run, executeLoop_run]
  unfold slice
  rw [sliceRun_succ, step_cont_running env _ v htr hop hs hc]
  rfl

/-- the program after the direct line `CONT` was compiled onto `p` -/
def contProgram (p : Program) : Program := (p.codegenLine contLine).linkProg

theorem contOf_contProgram (p : Program) (h : Program.Linked p)
    (hsize : p.directAddress + 3 ≤ Gen.stackMaxLen) (hdata : p.link.data.size ≤ Gen.stackMaxLen) :
    Program.ContOf p (contProgram p) := Program.contOf_codegenLine p h hsize hdata

/-- the line `CONT` entered at the prompt -/
theorem enter_cont_stopped (env : Env) (hlex : LexCont env) (w : Runtime)
    (hs : w.state = .stopped) (hd : w.dirty = false) (hl : Program.Linked w.program)
    (hsize : w.program.directAddress + 3 ≤ Gen.stackMaxLen)
    (hdata : w.program.link.data.size ≤ Gen.stackMaxLen) :
    enter env w "CONT".toList =
      { w with program := contProgram w.program, pc := w.program.directAddress, tr := none,
               entryAddress := w.program.directAddress,
               listing := { w.listing with indirectErrors := w.program.indirectErrors, directErrors := [] },
               state := .running } := by
  have hc := contOf_contProgram w.program hl hsize hdata
  rw [enter_cont env hlex w (by rw [hs]; nofun) (by rw [hs]; nofun), enterDirect_clean_eq w contLine hd]
  unfold contProgram at hc ⊢
  rw [hc.directAddress, hc.indirectErrors, hc.errors]

/-- the state in which the program goes on after CONT: `s` itself but for the print column (0),
    the spent continuation, the trace marker, and the recompiled direct code -/
def resumed (s : Runtime) : Runtime :=
  { s with cont := .stopped, contPc := s.pc, printCol := 0, tr := none, program := contProgram s.program }

/-- the state after the break report: `s` stopped at column 0 with the continuation
    `(running, s.pc)`; `ea` is `s.entryAddress` before READY is printed and 0 after -/
def broken (s : Runtime) (ea : Nat) : Runtime :=
  { s with state := .stopped, cont := .running, contPc := s.pc, printCol := 0, entryAddress := ea }

/-- the state right after the line `CONT` was entered at the prompt -/
def contEntered (s : Runtime) : Runtime :=
  { s with cont := .running, contPc := s.pc, printCol := 0, program := contProgram s.program,
           pc := s.program.directAddress, tr := none, entryAddress := s.program.directAddress,
           listing := { s.listing with indirectErrors := s.program.indirectErrors, directErrors := [] } }

/-- the line CONT entered after the report — whether or not READY was printed (`ea`) -/
theorem enter_cont_after_report (env : Env) (hlex : LexCont env) (s : Runtime) (ea : Nat)
    (hdirty : s.dirty = false) (hl : Program.Linked s.program)
    (hsize : s.program.directAddress + 3 ≤ Gen.stackMaxLen)
    (hdata : s.program.link.data.size ≤ Gen.stackMaxLen)
    (hrun : s.state = .running) :
    enter env (broken s ea) "CONT".toList = contEntered s := by
  rw [enter_cont_stopped env hlex (broken s ea) rfl hdirty hl hsize hdata]
  unfold contEntered broken
  cases s; dsimp only at hrun; subst hrun; rfl

/-- executing `Cont` in `contEntered s` gives `resumed s` -/
theorem contEntered_resumed (s : Runtime)
    (hentry : s.entryAddress = s.program.directAddress)
    (hde : s.listing.directErrors = []) (hie : s.listing.indirectErrors = s.program.indirectErrors) :
    { contEntered s with cont := .stopped, pc := (contEntered s).contPc } = resumed s := by
  unfold resumed contEntered
  obtain ⟨prompt, listing, dirty, program, pc, tr, tron, ea, stack, vars, state, cont, contPc, printCol,
    rand, functions⟩ := s
  obtain ⟨source, ie, de, rooted⟩ := listing
  dsimp only at hentry hde hie ⊢
  subst hentry hde hie
  rfl

/-- the line CONT and the instruction `Cont`: from the state after the report to the resumed
    program; with a larger quantum `execute` goes on from there -/
theorem cont_resumes (env : Env) (hlex : LexCont env) (s : Runtime) (ea : Nat)
    (hentry : s.entryAddress = s.program.directAddress)
    (hdirty : s.dirty = false) (htron : s.tron = false)
    (hde : s.listing.directErrors = []) (hie : s.listing.indirectErrors = s.program.indirectErrors)
    (hl : Program.Linked s.program)
    (hsize : s.program.directAddress + 3 ≤ Gen.stackMaxLen)
    (hdata : s.program.link.data.size ≤ Gen.stackMaxLen)
    (hrun : s.state = .running) :
    execute env (enter env (broken s ea) "CONT".toList) 1 = (resumed s, .running) ∧
    ∀ m, execute env (enter env (broken s ea) "CONT".toList) (m + 1) = execute env (resumed s) m := by
  have hc := contOf_contProgram s.program hl hsize hdata
  rw [enter_cont_after_report env hlex s ea hdirty hl hsize hdata hrun]
  have hop : (contEntered s).program.link.ops[(contEntered s).pc]? = some .cont := hc.cont
  constructor
  · rw [execute_cont_one env (contEntered s) htron rfl hop hrun rfl, contEntered_resumed s hentry hde hie]
  · intro m
    rw [execute_cont_succ env (contEntered s) m htron rfl hop hrun rfl, contEntered_resumed s hentry hde hie]

/-- the calls at the prompt after a break report: READY once, then `stopped`; only
    `entryAddress` changes, zeroed by the first call -/
theorem prompt_after_report (env : Env) (s : Runtime) (qs : List Nat) (he : s.entryAddress ≠ 0) :
    execList env qs (broken s s.entryAddress) =
      (broken s (if qs.isEmpty then s.entryAddress else 0),
       match qs with
       | [] => []
       | _ :: rest => .print (promptLine s) :: List.replicate rest.length .stopped) := by
  rw [execList_to_prompt env qs (broken s s.entryAddress) rfl he rfl]
  cases qs <;> rfl

/-! ### the resumed state simulates the interrupted one -/

/-- `P` runs like `p` below `directAddress`: what `Sim` needs of two programs -/
structure SameBelow (p P : Program) : Prop where
  below : ∀ i, i < p.directAddress → P.link.ops[i]? = p.link.ops[i]?
  indirectErrors : P.indirectErrors = p.indirectErrors
  directAddress : P.directAddress = p.directAddress
  data : P.link.data = p.link.data
  dataPos : P.link.dataPos = p.link.dataPos
  lineNumberFor : ∀ a, P.link.lineNumberFor a = p.link.lineNumberFor a

theorem SameBelow.refl (p : Program) : SameBelow p p := ⟨fun _ _ => rfl, rfl, rfl, rfl, rfl, fun _ => rfl⟩

theorem SameBelow.trans {p q r : Program} (h1 : SameBelow p q) (h2 : SameBelow q r) : SameBelow p r :=
  ⟨fun i hi => (h2.below i (by rw [h1.directAddress]; exact hi)).trans (h1.below i hi),
   h2.indirectErrors.trans h1.indirectErrors, h2.directAddress.trans h1.directAddress,
   h2.data.trans h1.data, h2.dataPos.trans h1.dataPos,
   fun a => (h2.lineNumberFor a).trans (h1.lineNumberFor a)⟩

theorem SameBelow.of_contOf {p P : Program} (h : Program.ContOf p P) : SameBelow p P :=
  ⟨h.below, h.indirectErrors, h.directAddress, h.data, h.dataPos, h.lineNumberFor⟩

theorem SameBelow.of_directOf {p P : Program} {code : Array Opcode} (h : Program.DirectOf p code P) :
    SameBelow p P :=
  ⟨h.below, h.indirectErrors, h.directAddress, h.data, h.dataPos, h.lineNumberFor⟩

/-- `resumed s ≈ s`; the print columns agree (`col`) if the program was stopped at column 0 -/
theorem resumed_sim (s : Runtime) (col : Bool) (hcol : col = true → s.printCol = 0)
    (htron : s.tron = false) (hc : Program.ContOf s.program (contProgram s.program)) :
    Sim col s (resumed s) :=
  ⟨rfl, rfl, rfl, rfl, rfl, (fun h => by rw [htron] at h; cases h), rfl, rfl, rfl, rfl, rfl, rfl,
   fun h => (hcol h).symm, hc.indirectErrors, hc.directAddress, hc.data, hc.dataPos, hc.lineNumberFor,
   hc.below⟩

/-- `w` is at the prompt and holds the continuation of the running state `s`: the state after a
    break report, possibly after direct-mode lines that kept all of this -/
structure BrokenLike (s w : Runtime) : Prop where
  state : w.state = .stopped
  cont : w.cont = .running
  contPc : w.contPc = s.pc
  stack : w.stack = s.stack
  vars : w.vars = s.vars
  functions : w.functions = s.functions
  rand : w.rand = s.rand
  prompt : w.prompt = s.prompt
  dirty : w.dirty = false
  tron : w.tron = false
  listing : w.listing = s.listing
  printCol : w.printCol = 0
  program : SameBelow s.program w.program
  linked : Program.Linked w.program

theorem brokenLike_broken (s : Runtime) (ea : Nat) (hd : s.dirty = false)
    (ht : s.tron = false) (hl : Program.Linked s.program) : BrokenLike s (broken s ea) :=
  ⟨rfl, rfl, rfl, rfl, rfl, rfl, rfl, rfl, hd, ht, rfl, rfl, SameBelow.refl _, hl⟩

/-- CONT from any state that holds the continuation of `s`: the program goes on in a state
    `t ≈ s` -/
theorem cont_from_brokenLike (env : Env) (hlex : LexCont env) (s w : Runtime) (col : Bool)
    (hcol : col = true → s.printCol = 0)
    (hentry : s.entryAddress = s.program.directAddress)
    (hde : s.listing.directErrors = []) (hie : s.listing.indirectErrors = s.program.indirectErrors)
    (hsize : s.program.directAddress + 3 ≤ Gen.stackMaxLen)
    (hdata : s.program.link.data.size ≤ Gen.stackMaxLen)
    (hrun : s.state = .running) (htron : s.tron = false) (hdirty : s.dirty = false)
    (hw : BrokenLike s w) :
    ∃ t, execute env (enter env w "CONT".toList) 1 = (t, .running) ∧
      (∀ m, execute env (enter env w "CONT".toList) (m + 1) = execute env t m) ∧
      Sim col s t := by
  have hsz : w.program.directAddress + 3 ≤ Gen.stackMaxLen := by rw [hw.program.directAddress]; exact hsize
  have hdt : w.program.link.data.size ≤ Gen.stackMaxLen := by rw [hw.program.data]; exact hdata
  have hc := contOf_contProgram w.program hw.linked hsz hdt
  have hsb := hw.program.trans (SameBelow.of_contOf hc)
  rw [enter_cont_stopped env hlex w hw.state hw.dirty hw.linked hsz hdt]
  refine ⟨_, execute_cont_one env _ hw.tron rfl hc.cont rfl hw.cont,
    fun m => execute_cont_succ env _ m hw.tron rfl hc.cont rfl hw.cont, ?_⟩
  refine ⟨hw.prompt, ?_, hw.dirty.trans hdirty.symm, hw.contPc, hw.tron.trans htron.symm,
    (fun h => by rw [htron] at h; cases h), ?_, hw.stack, hw.vars, hrun.symm, hw.rand, hw.functions,
    fun h => hw.printCol.trans (hcol h).symm, hsb.indirectErrors, hsb.directAddress, hsb.data, hsb.dataPos,
    hsb.lineNumberFor, hsb.below⟩
  · -- the listing
    show ({ w.listing with indirectErrors := w.program.indirectErrors, directErrors := [] } : Listing) = s.listing
    rw [hw.listing, hw.program.indirectErrors, ← hie, ← hde]
  · -- the entry address
    show w.program.directAddress = s.entryAddress
    rw [hw.program.directAddress, hentry]

/-- the instruction `End` inside the program: the continuation is the next instruction -/
theorem step_end_inside (env : Env) (h : Bool) (s : Runtime) (htr : s.tron = false)
    (hop : s.program.link.ops[s.pc]? = some .end) (hpc : s.pc + 1 < s.entryAddress) :
    (step env h).run.run s =
      (.ok (.event .stopped),
       { s with pc := s.pc + 1, cont := s.state, contPc := s.pc + 1, state := .stopped }) := by
  rw [step_troff env h s htr, run_fetchExec, hop]
  show ((Except.ok (Step.event Event.stopped) : Except Error Step), doEnd { s with pc := s.pc + 1 }) = _
  simp only [doEnd, hpc, if_true, Nat.ne_of_lt hpc, if_false]

/-- END in the middle of a running program, as the next instruction of a slice: the program
    stops, READY is printed at once (after a line break if the column is not 0), and the
    continuation `(running, pc + 1)` is recorded -/
theorem end_saves (env : Env) (n : Nat) (s : Runtime)
    (hs : s.state = .running) (hd : s.listing.directErrors = []) (htr : s.tron = false)
    (hop : s.program.link.ops[s.pc]? = some .end) (hpc : s.pc + 1 < s.entryAddress) :
    execute env s (n + 1) =
      ({ s with pc := s.pc + 1, cont := .running, contPc := s.pc + 1, state := .stopped,
                entryAddress := 0, printCol := 0 },
       .print ((if s.printCol > 0 then ['\n'] else []) ++ promptLine s)) := by
  rw [execute_running env s (n + 1) hs hd, executeLoop_run]
  unfold slice
  rw [sliceRun_succ, step_end_inside env _ s htr hop hpc]
  dsimp only [toEvent]
  unfold finishLoop readyPrompt
  dsimp only
  rw [if_pos (by omega), hs]
  rfl

end Runtime
end Basic