import BasicModel.Lemmas.Runtime
/-
  Every VM helper, and `step` itself, keeps the stack bound (`Good`): the stack only grows through
  `push`, which fails beyond 65 535.
-/
namespace Basic
namespace Runtime

theorem Bnd_of_stack_eq {s s' : Runtime} (h : Bnd s) (e : s'.stack = s.stack) : Bnd s' := by
  unfold Bnd at *; rw [e]; exact h

theorem Bnd_of_stack_empty {s' : Runtime} (e : s'.stack = #[]) : Bnd s' := by
  unfold Bnd; rw [e]; exact Nat.zero_le _

theorem doEnd_stack (s : Runtime) : (doEnd s).stack = s.stack := by
  unfold doEnd
  simp only
  split <;> split <;> rfl

theorem doClear_stack (env : Env) (s : Runtime) : (doClear env s).stack = #[] := rfl
theorem doNew_stack (env : Env) (s : Runtime) : (doNew env s).stack = #[] := rfl

syntax "good_step" : tactic
macro_rules
  | `(tactic| good_step) => `(tactic| with_reducible first
    | exact Good.pure _
    | exact Good.throw _
    | exact Good.liftE _
    | exact Good.push _
    | exact Good.pop
    | exact Good.pop2
    | exact Good.popVec
    | exact Good.popN _
    | exact Good.pop1Push _
    | exact Good.pop2Push _
    | exact Good.get
    | assumption
    | (apply Good.set; first | assumption | (apply Bnd_of_stack_eq (by assumption); rfl) | (apply Bnd_of_stack_empty; rfl))
    | (apply Good.modify; intro _ hB;
        first | exact hB | exact Bnd_of_stack_eq hB rfl | exact Bnd_of_stack_eq hB (doEnd_stack _)
              | exact Bnd_of_stack_empty rfl)
    | (apply Good.get_bind; intro _ _)
    | (apply Good.forIn_list; intro _ _)
    | apply Good.bind
    | intro _
    | split
    | dsimp only)

/-- discharge a `Good` goal by structural descent through the `do` block -/
macro "good" : tactic => `(tactic| repeat good_step)

theorem Good.doDef (name : Str) : Good (doDef name) := by unfold Runtime.doDef; good
theorem Good.doDefType (f : Var → Val → Val → Res Var) : Good (doDefType f) := by unfold Runtime.doDefType; good
theorem Good.doFn (name : Str) : Good (doFn name) := by unfold Runtime.doFn; good
theorem Good.doOn : Good doOn := by unfold Runtime.doOn; good
theorem Good.doPrint : Good doPrint := by unfold Runtime.doPrint; good
theorem Good.doRead : Good doRead := by unfold Runtime.doRead; good
theorem Good.doSwap : Good doSwap := by unfold Runtime.doSwap; good
theorem Good.doInput (n : Str) : Good (doInput n) := by unfold Runtime.doInput; good
theorem Good.doLetMid : Good doLetMid := by unfold Runtime.doLetMid; good
theorem Good.doList : Good doList := by unfold Runtime.doList; good
theorem Good.doCont : Good doCont := by unfold Runtime.doCont; good
theorem Good.doRenum (env : Env) : Good (doRenum env) := by unfold Runtime.doRenum; good
theorem Good.doDelete : Good doDelete := by unfold Runtime.doDelete; good
theorem Good.fileOp (mk : Str → Event) (b : Bool) : Good (fileOp mk b) := by unfold Runtime.fileOp; good

theorem Good.doNext_loop (name : Str) (fuel : Nat) : Good (doNext.loop name fuel) := by
  induction fuel with
  | zero => unfold doNext.loop; good
  | succ n ih => unfold doNext.loop; good

theorem Good.doNext (name : Str) : Good (doNext name) := by
  unfold Runtime.doNext
  apply Good.get_bind; intro s0 _
  exact Good.doNext_loop name _

theorem Good.doReturn_loop (fuel : Nat) (rv : Option Val) (first : Bool) : Good (doReturn.loop fuel rv first) := by
  induction fuel generalizing rv first with
  | zero => unfold doReturn.loop; good
  | succ n ih =>
    unfold doReturn.loop
    repeat (first | exact ih _ _ | good_step)

theorem Good.doReturn : Good doReturn := by
  unfold Runtime.doReturn
  apply Good.get_bind; intro s0 _
  exact Good.doReturn_loop _ _ _

syntax "good_op" : tactic
macro_rules
  | `(tactic| good_op) => `(tactic| with_reducible first
    | exact Good.doDef _ | exact Good.doDefType _ | exact Good.doFn _ | exact Good.doOn | exact Good.doPrint
    | exact Good.doRead | exact Good.doSwap | exact Good.doInput _ | exact Good.doLetMid | exact Good.doList
    | exact Good.doCont | exact Good.doRenum _ | exact Good.doDelete | exact Good.fileOp _ _
    | exact Good.doNext _ | exact Good.doReturn
    | (apply Good.modify; intro _ _; first | exact Bnd_of_stack_empty (doClear_stack _ _) | exact Bnd_of_stack_empty (doNew_stack _ _))
    | good_step)

/-- one VM instruction keeps the stack bound -/
theorem Good.step (env : Env) (hie : Bool) : Good (step env hie) := by
  unfold Runtime.step
  apply Good.get_bind; intro s0 h0
  apply Good.bind
  · good
  · intro traced
    split
    · exact Good.pure _
    · apply Good.get_bind; intro s1 h1
      split
      · exact Good.throw _
      · rename_i op _
        apply Good.bind
        · apply Good.set; exact Bnd_of_stack_eq h1 rfl
        · intro _
          cases op <;> dsimp only <;> repeat good_op

end Runtime
end Basic
