import BasicModel.Lemmas.FnCall
/-
  READ, compiled and run (C09; chain 1).

  * `read_codegen_shape`: `READ v₁,…,vₖ` (scalar targets) compiles to one fragment whose code is
    `read; pop v₁; …; read; pop vₖ` — one `read` and one store per target, left to right;
  * `readSpec` / `read_run`: the run of that code from a state whose cursor is `p`.
-/
namespace Basic
namespace Lemmas.ReadRun
open Basic.Spec Basic.Codegen Basic.Link Basic.Runtime
open Basic.Lemmas.ExprCompile Basic.Lemmas.FnCall

/-- the code of `READ v₁,…,vₖ` with scalar targets -/
def readCode (names : List Str) : List Opcode := names.flatMap fun n => [Opcode.read, Opcode.pop n]

theorem readCode_length (names : List Str) : (readCode names).length = 2 * names.length := by
  induction names with
  | nil => rfl
  | cons n ns ih =>
    show ([Opcode.read, Opcode.pop n] ++ readCode ns).length = _
    rw [List.length_append, ih]; simp; omega

/-! ### code shape -/

/-- the loop of the READ generator over scalar items -/
theorem forIn_read_run (f : VarItem → PUnit → GM (ForInStep PUnit))
    (hf : ∀ (p : Col × TIdent) (r : PUnit) (v : Array VarItem) (ex st : Array (Col × Link)) (xs : Array Opcode),
      isZeroArg p.2.name = false → xs.size + 2 ≤ Gen.stackMaxLen →
      ((f (scalarItem p) r).run).run ⟨v, ex, st, plain xs⟩ =
        (.ok (.yield ⟨⟩), ⟨v, ex, st, plain ((xs.push .read).push (.pop p.2.name))⟩)) :
    ∀ (pis : List (Col × TIdent)), (∀ p ∈ pis, isZeroArg p.2.name = false) →
      ∀ (v : Array VarItem) (ex st : Array (Col × Link)) (xs : Array Opcode),
        xs.size + 2 * pis.length ≤ Gen.stackMaxLen →
        ((forIn (pis.map scalarItem) PUnit.unit f).run).run ⟨v, ex, st, plain xs⟩ =
          (.ok ⟨⟩, ⟨v, ex, st, plain (xs ++ (readCode (pis.map (·.2.name))).toArray)⟩)
  | [], _, v, ex, st, xs, _ => by
    simp only [List.map_nil, List.forIn_nil, grun_pure, readCode, List.flatMap_nil]
    rw [show xs ++ ([] : List Opcode).toArray = xs by simp]
  | p :: pis, hz, v, ex, st, xs, hb => by
    simp only [List.length_cons] at hb
    rw [List.map_cons, List.forIn_cons, grun_bind,
      hf p ⟨⟩ v ex st xs (hz p List.mem_cons_self) (by omega)]
    simp only
    rw [forIn_read_run f hf pis (fun q hq => hz q (List.mem_cons_of_mem _ hq)) v ex st _
      (by simp only [Array.size_push]; omega)]
    congr 3
    apply Array.ext'
    simp [readCode]

/-- **Codegen shape of READ** with scalar targets that are not zero-argument built-ins: exactly one
    statement fragment, nothing reported, code `read; pop v₁; …; read; pop vₖ`, no data, no symbols,
    no pending references -/
theorem read_codegen_shape (c : Col) (pis : List (Col × TIdent)) (hz : ∀ p ∈ pis, isZeroArg p.2.name = false)
    (s : VState) (hlen : 2 * pis.length ≤ Gen.stackMaxLen) :
    acceptStmt (.read c (pis.map fun p => Variable.unary p.1 p.2)) s =
      { s with g := { s.g with stmt := s.g.stmt.push (c, plain (readCode (pis.map (·.2.name))).toArray) } } := by
  obtain ⟨⟨v, ex, st, cur⟩, errs⟩ := s
  simp only [acceptStmt]
  rw [acceptVars_unary_mk]
  have hg : ((genStatement (.read c (pis.map fun p => Variable.unary p.1 p.2))).run).run
      ⟨v ++ (pis.map scalarItem).toArray, ex, st, {}⟩ =
      (.ok c, ⟨v, ex, st, plain (readCode (pis.map (·.2.name))).toArray⟩) := by
    simp only [genStatement]
    have hl : (pis.map fun p => Variable.unary p.1 p.2).length = (pis.map scalarItem).length := by simp
    rw [hl, grun_bind, popNVar_run _ v (pis.map scalarItem) rfl]; dsimp only
    show StateT.run (ExceptT.run _) (⟨v, ex, st, plain #[]⟩ : GState) = _
    rw [grun_bind, forIn_read_run _ _ pis hz v ex st #[] (by simpa using hlen)]
    · rw [Array.empty_append]; rfl
    · intro p r v ex st xs hzp hb
      simp only [grun_bind]
      rw [lpush_mk _ _ _ _ _ (by omega)]; dsimp only
      rw [show scalarItem p = ⟨p.1, p.2.name, {}, none⟩ from rfl,
        pushAsPop_scalar_run _ _ _ hzp _ _ _ _ (by simp only [Array.size_push]; omega)]
      rfl
  rw [visitStatement_mk _ errs _ _ st cur _ _ hg]

/-! ### the run -/

/-- `READ v₁,…,vₖ` on the data segment `data`, from variables `vars` and cursor `p`.  Result: the
    error that stopped the list (if any), the variables, the cursor and the number of instructions
    executed.  A target is assigned before the next constant is fetched; a constant that cannot be
    stored (type mismatch, overflow) **has been consumed**. -/
def readSpec (data : Array Val) : List Str → Var → Nat → Option Error × Var × Nat × Nat
  | [], vars, p => (none, vars, p, 0)
  | n :: ns, vars, p =>
    match data[p]? with
    | none => (some (Error.mk' Code.outOfData), vars, p, 1)
    | some v =>
      match vars.store n v with
      | .ok vars' =>
        let r := readSpec data ns vars' (p + 1)
        (r.1, r.2.1, r.2.2.1, r.2.2.2 + 2)
      | .error e => (some e, vars, p + 1, 2)

/-- the state after a READ list: `pc`, variables and cursor moved; stack, code, data as before -/
def afterRead (s : Runtime) (r : Option Error × Var × Nat × Nat) : Runtime :=
  { s with pc := s.pc + r.2.2.2, vars := r.2.1,
           program := { s.program with link := { s.program.link with dataPos := r.2.2.1 } } }

/-- the outcome of a READ list as a step result -/
def readResult (s : Runtime) (r : Option Error × Var × Nat × Nat) : Except Error Step × Runtime :=
  match r.1 with
  | none => (.ok .continue, afterRead s r)
  | some e => (.error e, afterRead s r)

theorem doRead_ok (s : Runtime) (v : Val) (h : s.program.link.data[s.program.link.dataPos]? = some v)
    (hb : s.stack.size + 1 ≤ Gen.stackMaxLen) :
    (doRead.run).run s =
      (.ok (), { s with
        program := { s.program with link := { s.program.link with dataPos := s.program.link.dataPos + 1 } },
        stack := s.stack.push v }) := by
  unfold doRead
  have h1 : ¬ (s.stack.size + 1 > Gen.stackMaxLen) := by omega
  simp only [Runtime.run_bind, Runtime.run_get, Link.readData, h, Runtime.run_set, Runtime.run_liftE,
    Runtime.run_push, h1, if_false]

theorem doRead_none (s : Runtime) (h : s.program.link.data[s.program.link.dataPos]? = none) :
    (doRead.run).run s = (.error (Error.mk' Code.outOfData), s) := by
  unfold doRead
  simp only [Runtime.run_bind, Runtime.run_get, Link.readData, h, Runtime.run_set, Runtime.run_liftE]

/-- **the run of a READ list.**  From a state with tracing off and room for one value on the stack,
    the code `read; pop v₁; …` runs exactly as `readSpec` says: on success `pc` is past the code, every
    target holds its constant (converted by `Var.store`), the cursor has advanced by `k`; on an error
    the run stops there with the earlier targets assigned.  The stack is as it was found. -/
theorem read_run (env : Env) (hie : Bool) : ∀ (names : List Str) (s : Runtime),
    CodeAt s.program.link.ops s.pc (readCode names) → s.tron = false → s.stack.size + 1 ≤ Gen.stackMaxLen →
    runOps env hie (readCode names) s =
      readResult s (readSpec s.program.link.data names s.vars s.program.link.dataPos)
  | [], s, _, _, _ => by
    show (_, s) = _
    simp only [readSpec, readResult, afterRead]
    rfl
  | n :: ns, s, hcode, htr, hroom => by
    have hc : CodeAt s.program.link.ops s.pc ([Opcode.read, Opcode.pop n] ++ readCode ns) := hcode
    have hlen : (readCode (n :: ns)).length = 1 + (1 + (readCode ns).length) := by
      show ([Opcode.read, Opcode.pop n] ++ readCode ns).length = _
      simp; omega
    unfold runOps
    rw [hlen]
    have h1 := run_step_read env hie s htr hc.head
    cases hd : s.program.link.data[s.program.link.dataPos]? with
    | none =>
      rw [doRead_none { s with pc := s.pc + 1 } hd] at h1
      rw [runSteps_error_le (a := 1) (by rw [runSteps_one]; exact h1) (by omega)]
      simp only [readSpec, hd, readResult, afterRead]
    | some v =>
      rw [doRead_ok { s with pc := s.pc + 1 } v hd hroom] at h1
      rw [runSteps_ok_add (by rw [runSteps_one]; exact h1)]
      have hpop : s.program.link.ops[s.pc + 1]? = some (Opcode.pop n) := by
        have := hc 1 (by simp)
        simpa using this
      have h2 := run_step_pop env hie
        { s with pc := s.pc + 1, program := { s.program with link := { s.program.link with dataPos := s.program.link.dataPos + 1 } },
                 stack := s.stack.push v } n s.stack v htr hpop rfl
      cases hs : s.vars.store n v with
      | error e =>
        rw [hs] at h2
        rw [runSteps_error_le (a := 1) (by rw [runSteps_one]; exact h2) (by omega)]
        simp only [readSpec, hd, hs, readResult, afterRead]
      | ok vars' =>
        rw [hs] at h2
        rw [runSteps_ok_add (by rw [runSteps_one]; exact h2)]
        have hc' : CodeAt s.program.link.ops (s.pc + 1 + 1) (readCode ns) := by
          have := hc.right
          simpa [Nat.add_assoc] using this
        have ih := read_run env hie ns
          { s with pc := s.pc + 1 + 1,
                   program := { s.program with link := { s.program.link with dataPos := s.program.link.dataPos + 1 } },
                   stack := s.stack, vars := vars' } hc' htr hroom
        unfold runOps at ih
        rw [ih]
        simp only [readSpec, hd, hs, readResult, afterRead]
        split <;> (simp only [Nat.add_assoc]; congr 2; omega)

/-! ### the three outcomes of a READ list -/

/-- a READ list whose first part succeeds continues with the rest from where the first part ended -/
theorem readSpec_append (data : Array Val) : ∀ (pre rest : List Str) (vars vars1 : Var) (p p1 c1 : Nat),
    readSpec data pre vars p = (none, vars1, p1, c1) →
    readSpec data (pre ++ rest) vars p =
      ((readSpec data rest vars1 p1).1, (readSpec data rest vars1 p1).2.1, (readSpec data rest vars1 p1).2.2.1,
       (readSpec data rest vars1 p1).2.2.2 + c1)
  | [], rest, vars, vars1, p, p1, c1, h => by
    simp only [readSpec] at h
    cases h
    rfl
  | n :: pre, rest, vars, vars1, p, p1, c1, h => by
    simp only [readSpec, List.cons_append] at h ⊢
    cases hd : data[p]? with
    | none => (try rw [hd] at h); cases h
    | some v =>
      try rw [hd] at h
      try rw [hd]
      dsimp only at h ⊢
      cases hs : vars.store n v with
      | error e => (try rw [hs] at h); cases h
      | ok vars' =>
        try rw [hs] at h
        try rw [hs]
        dsimp only at h ⊢
        rcases hr : readSpec data pre vars' (p + 1) with ⟨r1, r2, r3, r4⟩
        rw [hr] at h
        simp only [Prod.mk.injEq] at h
        obtain ⟨h1, h2, h3, h4⟩ := h
        subst h1 h2 h3 h4
        rw [readSpec_append data pre rest vars' r2 (p + 1) r3 r4 hr]
        simp only [Nat.add_assoc]

/-- **enough constants, every store accepted**: target `i` receives `data[p+i]` through `Var.store`
    (`bindParams`: first target first, each in the variables left by the previous one), the cursor
    ends at `p + k`, `2k` instructions were executed -/
theorem readSpec_ok (data : Array Val) : ∀ (names : List Str) (vars vars' : Var) (p : Nat),
    p + names.length ≤ data.size →
    bindParams vars names ((data.toList.drop p).take names.length) = .ok vars' →
    readSpec data names vars p = (none, vars', p + names.length, 2 * names.length)
  | [], vars, vars', p, _, h => by
    simp only [bindParams] at h
    cases h
    rfl
  | n :: ns, vars, vars', p, hp, h => by
    simp only [List.length_cons] at hp
    have hlt : p < data.toList.length := by simp; omega
    have hd : data[p]? = some data.toList[p] := by
      rw [← Array.getElem?_toList, List.getElem?_eq_getElem hlt]
    rw [List.drop_eq_getElem_cons hlt, List.length_cons, List.take_succ_cons] at h
    simp only [bindParams] at h
    cases hs : vars.store n data.toList[p] with
    | error e => rw [hs] at h; cases h
    | ok vars1 =>
      rw [hs] at h
      have ih := readSpec_ok data ns vars1 vars' (p + 1) (by omega) h
      simp only [readSpec, hd, hs, ih, List.length_cons]
      refine Prod.ext rfl (Prod.ext rfl (Prod.ext ?_ ?_)) <;> (simp only; omega)

/-- **a constant that cannot be stored**: the first `i` targets are assigned, the error is the store's
    (TYPE MISMATCH, OVERFLOW, …), and the cursor is `p + i + 1` — the offending constant is consumed -/
theorem readSpec_store_error (data : Array Val) (pre : List Str) (n : Str) (post : List Str) (vars vars1 : Var)
    (p : Nat) (v : Val) (e : Error) (hp : p + pre.length ≤ data.size)
    (hpre : bindParams vars pre ((data.toList.drop p).take pre.length) = .ok vars1)
    (hv : data[p + pre.length]? = some v) (hs : vars1.store n v = .error e) :
    readSpec data (pre ++ n :: post) vars p = (some e, vars1, p + pre.length + 1, 2 * pre.length + 2) := by
  rw [readSpec_append data pre (n :: post) vars vars1 p _ _ (readSpec_ok data pre vars vars1 p hp hpre)]
  simp only [readSpec, hv, hs]
  refine Prod.ext rfl (Prod.ext rfl (Prod.ext rfl ?_))
  simp only; omega

/-- **fewer constants than targets**: the first `data.size - p` targets are assigned, then OUT OF DATA;
    the cursor stays at the end of the data -/
theorem readSpec_out_of_data (data : Array Val) (pre : List Str) (n : Str) (post : List Str) (vars vars1 : Var)
    (p : Nat) (hp : p + pre.length = data.size)
    (hpre : bindParams vars pre ((data.toList.drop p).take pre.length) = .ok vars1) :
    readSpec data (pre ++ n :: post) vars p =
      (some (Error.mk' Code.outOfData), vars1, data.size, 2 * pre.length + 1) := by
  rw [readSpec_append data pre (n :: post) vars vars1 p _ _ (readSpec_ok data pre vars vars1 p (by omega) hpre)]
  have hnone : data[p + pre.length]? = none := by rw [hp]; simp
  simp only [readSpec, hnone]
  refine Prod.ext rfl (Prod.ext rfl (Prod.ext ?_ ?_)) <;> (simp only; omega)

end Lemmas.ReadRun
end Basic
