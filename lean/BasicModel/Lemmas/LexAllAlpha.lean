import BasicModel.Lemmas.LexAllTok
import BasicModel.Lemmas.LexIdent
/-
  C05 for ALL strings, part 3: what `alphabetic()` returns for an arbitrary text — a non-empty queue of
  reserved words and identifiers that are scanned back from their own text, the first of which starts
  with the (upper-cased) first character, and a remainder the last of them does not absorb.
-/
set_option linter.unusedSimpArgs false
set_option linter.unusedVariables false
namespace Basic
namespace Lex
open Lemmas.LexIdent

/-- the first character of the printed text -/
def fc (t : Token) : Option Char := t.text.head?

/-- tokens of the reserved-word table -/
def isKwTok : Token → Bool
  | .word w => w != .rem2
  | .operator o => o.isWord
  | _ => false

theorem keywords_tok : ∀ kw ∈ keywords, isKwTok kw.2 = true ∧ kw.2.text = kw.1 ∧ kw.2.isWord = true := by
  decide +kernel

/-- what `alphabetic()` queues: reserved words and identifiers that scan back -/
def AlphaTok (t : Token) : Prop := isKwTok t = true ∨ ∃ i, t = .ident i ∧ Printable (.ident i)

/-! ### `find` and `min_by_key` -/

theorem findSub_append (pat a b : Str) (hp : pat ≠ []) (j : Nat) (h : findSub pat a = some j) :
    ∃ i, i ≤ j ∧ j < a.length ∧ findSub pat (a ++ b) = some i := by
  induction a generalizing j with
  | nil =>
    cases pat with
    | nil => contradiction
    | cons p ps => simp [findSub] at h
  | cons c cs ih =>
    simp only [findSub] at h
    split at h
    · rename_i hpre
      cases h
      refine ⟨0, Nat.le_refl _, by simp, ?_⟩
      have := isPrefix_append pat (c :: cs) b hpre
      simp only [List.cons_append] at this ⊢
      simp [findSub, this]
    · split at h
      · rename_i i hi
        cases h
        obtain ⟨i', h1, h2, h3⟩ := ih i hi
        simp only [List.cons_append, findSub]
        split
        · exact ⟨0, Nat.zero_le _, by simp only [List.length_cons]; omega, rfl⟩
        · exact ⟨i' + 1, by omega, by simp; omega, by simp [h3]⟩
      · cases h

theorem bestMatch_spec (s : Str) (kws : List (Str × Token)) :
    ∀ (best : Option (Nat × Nat × Token)) (r : Nat × Nat × Token), bestMatch s kws best = some r →
      (best = some r ∨ ∃ kw ∈ kws, findSub kw.1 s = some r.1 ∧ r.2.1 = kw.1.length ∧ r.2.2 = kw.2) ∧
      (∀ b, best = some b → r.1 ≤ b.1) ∧ (∀ kw ∈ kws, ∀ j, findSub kw.1 s = some j → r.1 ≤ j) := by
  induction kws with
  | nil =>
    intro best r h
    simp only [bestMatch] at h
    subst h
    exact ⟨Or.inl rfl, by intro b hb; cases hb; exact Nat.le_refl _, by intro kw hkw; simp at hkw⟩
  | cons kw kws ih =>
    obtain ⟨ts, tk⟩ := kw
    intro best r h
    unfold bestMatch at h
    split at h
    · rename_i hnone
      obtain ⟨h1, h2, h3⟩ := ih _ _ h
      refine ⟨?_, h2, ?_⟩
      · rcases h1 with h1 | ⟨kw, hkw, e⟩
        · exact Or.inl h1
        · exact Or.inr ⟨kw, List.mem_cons_of_mem _ hkw, e⟩
      · intro kw hkw j hj
        rcases List.mem_cons.mp hkw with e | hkw
        · subst e; simp only at hj; rw [hnone] at hj; cases hj
        · exact h3 kw hkw j hj
    · rename_i idx hsome
      split at h
      · obtain ⟨h1, h2, h3⟩ := ih _ _ h
        have hle := h2 _ rfl
        refine ⟨?_, (by intro b hb; cases hb), ?_⟩
        · rcases h1 with h1 | ⟨kw, hkw, e⟩
          · right; refine ⟨(ts, tk), by simp, ?_⟩
            cases h1; exact ⟨hsome, rfl, rfl⟩
          · exact Or.inr ⟨kw, List.mem_cons_of_mem _ hkw, e⟩
        · intro kw hkw j hj
          rcases List.mem_cons.mp hkw with e | hkw
          · subst e; simp only at hj; rw [hsome] at hj; cases hj; exact hle
          · exact h3 kw hkw j hj
      · rename_i bi bl bt
        split at h
        · rename_i hlt
          obtain ⟨h1, h2, h3⟩ := ih _ _ h
          have hle := h2 _ rfl
          simp only at hle
          refine ⟨?_, by intro b hb; cases hb; simp only; omega, ?_⟩
          · rcases h1 with h1 | ⟨kw, hkw, e⟩
            · right; refine ⟨(ts, tk), by simp, ?_⟩
              cases h1; exact ⟨hsome, rfl, rfl⟩
            · exact Or.inr ⟨kw, List.mem_cons_of_mem _ hkw, e⟩
          · intro kw hkw j hj
            rcases List.mem_cons.mp hkw with e | hkw
            · subst e; simp only at hj; rw [hsome] at hj; cases hj; exact hle
            · exact h3 kw hkw j hj
        · rename_i hge
          obtain ⟨h1, h2, h3⟩ := ih _ _ h
          have hle := h2 _ rfl
          simp only at hle
          refine ⟨?_, by intro b hb; cases hb; exact hle, ?_⟩
          · rcases h1 with h1 | ⟨kw, hkw, e⟩
            · exact Or.inl h1
            · exact Or.inr ⟨kw, List.mem_cons_of_mem _ hkw, e⟩
          · intro kw hkw j hj
            rcases List.mem_cons.mp hkw with e | hkw
            · subst e; simp only at hj; rw [hsome] at hj; cases hj; omega
            · exact h3 kw hkw j hj

/-- the text before the leftmost reserved word holds no reserved word -/
theorem noKeyword_take (s : Str) (r : Nat × Nat × Token) (h : bestMatch s keywords none = some r) :
    NoKeyword (s.take r.1) := by
  obtain ⟨-, -, hmin⟩ := bestMatch_spec s keywords none r h
  unfold NoKeyword
  rw [bestMatch_none_iff]
  intro kw hkw
  cases hf : findSub kw.1 (s.take r.1) with
  | none => rfl
  | some j =>
    exfalso
    have hne : kw.1 ≠ [] := by
      intro e; have := (keywords_shape kw hkw).1; rw [e] at this; simp at this
    obtain ⟨i, h1, h2, h3⟩ := findSub_append kw.1 (s.take r.1) (s.drop r.1) hne j hf
    rw [List.take_append_drop] at h3
    have := hmin kw hkw i h3
    have hl : (s.take r.1).length ≤ r.1 := by simp [List.length_take]; omega
    omega

theorem isPrefix_take (pat s : Str) (h : isPrefix pat s = true) : s.take pat.length = pat := by
  induction pat generalizing s with
  | nil => simp
  | cons p ps ih =>
    cases s with
    | nil => simp [isPrefix] at h
    | cons c cs =>
      simp only [isPrefix, Bool.and_eq_true, decide_eq_true_eq] at h
      simp [h.1, ih cs h.2]

theorem findSub_zero_pre (pat s : Str) (h : findSub pat s = some 0) : isPrefix pat s = true := by
  cases s with
  | nil =>
    simp only [findSub] at h
    split at h
    · rename_i he; cases pat <;> simp_all [isPrefix]
    · cases h
  | cons c cs =>
    simp only [findSub] at h
    split at h
    · assumption
    · split at h <;> cases h

/-! ### identifiers that scan back -/

theorem map_upper_allUp (ls : Str) (h : AllUp ls) : ls.map upper = ls := by
  induction ls with
  | nil => rfl
  | cons c ls ih =>
    simp only [List.map_cons]
    rw [upper_of_isUpperAlpha c (h c (by simp)), ih (fun x hx => h x (by simp [hx]))]

theorem printable_plain (ls ds : Str) (h1 : AllUp ls) (h2 : ls ≠ []) (h3 : ∀ c ∈ ds, isDigit c = true)
    (h4 : NoKeyword (ls ++ ds)) : Printable (.ident (.plain (ls ++ ds))) := by
  have hu := map_upper_allUp ls h1
  refine ⟨⟨ls, ds, none⟩, ⟨fun c hc => isAlpha_of_isUpperAlpha c (h1 c hc), h2, h3, (by intro c hc; cases hc), ?_⟩,
    ?_, hu⟩
  · simp only [Name.base, hu]; exact h4
  · simp only [Name.token, Name.base, hu]

theorem printable_sfx (ls ds : Str) (c : Char) (hc : isSuffixChar c = true) (h1 : AllUp ls) (h2 : ls ≠ [])
    (h3 : ∀ c ∈ ds, isDigit c = true) (h4 : NoKeyword (ls ++ ds)) :
    Printable (.ident (suffixIdent c (ls ++ ds ++ [c]))) := by
  have hu := map_upper_allUp ls h1
  refine ⟨⟨ls, ds, some c⟩, ⟨fun c hc => isAlpha_of_isUpperAlpha c (h1 c hc), h2, h3,
    (by intro x hx; cases hx; exact hc), ?_⟩, ?_, hu⟩
  · simp only [Name.base, hu]; exact h4
  · simp only [Name.token, Name.base, hu]

/-! ### `scan_alphabetic` on upper-case letters -/

theorem getLast?_append_cons {α} (l : List α) (a : α) (m : List α) :
    (l ++ a :: m).getLast? = (a :: m).getLast? := by
  rw [List.getLast?_append]
  cases h : (a :: m).getLast? with
  | none => simp at h
  | some x => simp

theorem scanAlphaLoop_spec (fuel : Nat) : ∀ (v : List Token) (s : Str), AllUp s → s.length < fuel →
    ∃ new, (scanAlphaLoop fuel v s).1 = v ++ new ∧ (∀ t ∈ new, AlphaTok t) ∧
      AllUp (scanAlphaLoop fuel v s).2 ∧ NoKeyword (scanAlphaLoop fuel v s).2 ∧
      (new = [] → (scanAlphaLoop fuel v s).2 = s) ∧
      (new ≠ [] → new.head?.bind fc = s.head? ∧ ∃ t, new.getLast? = some t ∧ isKwTok t = true) := by
  induction fuel with
  | zero => intro v s _ h; omega
  | succ fuel ih =>
    intro v s hs hf
    unfold scanAlphaLoop
    split
    · rename_i hb
      exact ⟨[], by simp, by intro t ht; simp at ht, hs, hb, fun _ => rfl, fun h => absurd rfl h⟩
    · rename_i idx len token hb
      obtain ⟨hkw, -, -⟩ := bestMatch_spec s keywords none _ hb
      have hnk := noKeyword_take s _ hb
      simp only at hnk
      rcases hkw with hkw | ⟨kw, hkw, hfind, hlen, htok⟩
      · cases hkw
      simp only at hfind hlen htok
      obtain ⟨hk1, hk2, hk3⟩ := keywords_tok kw hkw
      have hshape := keywords_shape kw hkw
      have hne : s ≠ [] := by
        intro e; rw [e, bestMatch_nil] at hb; cases hb
      have hpos : 0 < s.length := List.length_pos_iff.mpr hne
      have hlen2 : 2 ≤ len := by rw [hlen]; exact hshape.1
      split
      · rename_i hidx
        subst hidx
        obtain ⟨new', e1, e2, e3, e4, e5, e6⟩ := ih (v ++ [token]) (s.drop len) (allUp_drop _ hs)
          (by simp only [List.length_drop]; omega)
        have hpre : isPrefix kw.1 s = true := findSub_zero_pre _ _ hfind
        have hfc : fc token = s.head? := by
          rw [htok, fc, hk2]
          have := isPrefix_take kw.1 s hpre
          have hk : kw.1 ≠ [] := by intro e; rw [e] at hshape; simp at hshape
          cases hh : kw.1 with
          | nil => exact absurd hh hk
          | cons a as =>
            rw [hh] at this
            cases s with
            | nil => contradiction
            | cons c cs => simp at this; simp [this.1]
        refine ⟨token :: new', by rw [e1]; simp, ?_, e3, e4, (by intro h; cases h), ?_⟩
        · intro t ht
          rcases List.mem_cons.mp ht with h | h
          · rw [h, htok]; exact Or.inl hk1
          · exact e2 t h
        · intro _
          refine ⟨by simpa using hfc, ?_⟩
          cases new' with
          | nil => exact ⟨token, rfl, by rw [htok]; exact hk1⟩
          | cons a m =>
            obtain ⟨-, t, ht, hkt⟩ := e6 (by simp)
            exact ⟨t, by rw [List.getLast?_cons_cons]; exact ht, hkt⟩
      · rename_i hidx
        obtain ⟨new', e1, e2, e3, e4, e5, e6⟩ := ih (v ++ [.ident (.plain (s.take idx)), token])
          (s.drop (idx + len)) (allUp_drop _ hs) (by simp only [List.length_drop]; omega)
        have htake : s.take idx ≠ [] := by
          cases s with
          | nil => contradiction
          | cons c cs =>
            cases idx with
            | zero => contradiction
            | succ n => simp
        have hid : Printable (.ident (.plain (s.take idx))) := by
          have := printable_plain (s.take idx) [] (allUp_take _ hs) htake (by intro c hc; simp at hc)
            (by simpa using hnk)
          simpa using this
        refine ⟨.ident (.plain (s.take idx)) :: token :: new', by rw [e1]; simp, ?_, e3, e4,
          (by intro h; cases h), ?_⟩
        · intro t ht
          rcases List.mem_cons.mp ht with h | h
          · rw [h]; exact Or.inr ⟨_, rfl, hid⟩
          · rcases List.mem_cons.mp h with h | h
            · rw [h, htok]; exact Or.inl hk1
            · exact e2 t h
        · intro _
          constructor
          · simp only [List.head?_cons, Option.bind_some, fc, Token.text, TIdent.name]
            cases s with
            | nil => contradiction
            | cons c cs =>
              cases idx with
              | zero => contradiction
              | succ n => simp
          · cases new' with
            | nil => exact ⟨token, rfl, by rw [htok]; exact hk1⟩
            | cons a m =>
              obtain ⟨-, t, ht, hkt⟩ := e6 (by simp)
              exact ⟨t, by rw [List.getLast?_cons_cons, List.getLast?_cons_cons]; exact ht, hkt⟩

theorem scanAlphabetic_spec (v : List Token) (s : Str) (hs : AllUp s) :
    ∃ new, (scanAlphabetic v s).1 = v ++ new ∧ (∀ t ∈ new, AlphaTok t) ∧
      AllUp (scanAlphabetic v s).2 ∧ NoKeyword (scanAlphabetic v s).2 ∧
      (new = [] → (scanAlphabetic v s).2 = s) ∧
      (new ≠ [] → new.head?.bind fc = s.head? ∧ ∃ t, new.getLast? = some t ∧ isKwTok t = true) :=
  scanAlphaLoop_spec (s.length + 1) v s hs (Nat.lt_succ_self _)

/-! ### the loop of `alphabetic()` -/

/-- letters (upper case, at least one) followed by digits, without a reserved word inside -/
def LD (s : Str) : Prop :=
  ∃ ls ds, s = ls ++ ds ∧ AllUp ls ∧ ls ≠ [] ∧ (∀ c ∈ ds, isDigit c = true) ∧ NoKeyword s

theorem LD.printable {s : Str} (h : LD s) : Printable (.ident (.plain s)) := by
  obtain ⟨ls, ds, rfl, h1, h2, h3, h4⟩ := h
  exact printable_plain ls ds h1 h2 h3 h4

theorem LD.ne_nil {s : Str} (h : LD s) : s ≠ [] := by
  obtain ⟨ls, ds, rfl, h1, h2, h3, h4⟩ := h
  simp [h2]

theorem scan_ok (p : List Token) (s : Str) (h : AllUp s ∨ LD s) :
    ∃ new, (scanAlphabetic p s).1 = p ++ new ∧ (∀ t ∈ new, AlphaTok t) ∧
      (new = [] → (scanAlphabetic p s).2 = s) ∧
      (new ≠ [] → new.head?.bind fc = s.head? ∧ ∃ t, new.getLast? = some t ∧ isKwTok t = true) ∧
      ((scanAlphabetic p s).2 ≠ [] → LD (scanAlphabetic p s).2) := by
  rcases h with h | h
  · obtain ⟨new, e1, e2, e3, e4, e5, e6⟩ := scanAlphabetic_spec p s h
    refine ⟨new, e1, e2, e5, e6, ?_⟩
    intro hne
    exact ⟨_, [], by simp, e3, hne, by intro c hc; simp at hc, e4⟩
  · obtain ⟨ls, ds, e, h1, h2, h3, h4⟩ := h
    rw [scanAlphabetic_noKeyword p s h4]
    exact ⟨[], by simp, by intro t ht; simp at ht, fun _ => rfl, fun hh => absurd rfl hh,
      fun _ => ⟨ls, ds, e, h1, h2, h3, h4⟩⟩

/-- the last queued token does not absorb the character the scanner stopped at; the scanner stops
    before a letter only after an identifier (that ends in a digit or a type suffix) -/
def AlphaStop (q : List Token) (cs' : List Char) : Prop :=
  ∀ c ∈ cs'.head?, (isAlpha c = true → ∃ i, q.getLast? = some (.ident i)) ∧
    (isAlpha c = false → ∀ s, q.getLast? = some (.ident (.plain s)) →
      isDigit c = false ∧ isSuffixChar c = false)

structure AlphaRes (c0 : Char) (q : List Token) (cs' : List Char) : Prop where
  ne : q ≠ []
  toks : ∀ t ∈ q, AlphaTok t
  head : q.head?.bind fc = some c0
  stop : AlphaStop q cs'

theorem head_append_ne {α} (p q : List α) (h : p ≠ []) : (p ++ q).head? = p.head? := by
  cases p with
  | nil => contradiction
  | cons a l => rfl

/-- the exits that push one identifier -/
theorem alphaRes_ident (c0 : Char) (p : List Token) (i : TIdent) (rest : List Char)
    (hp : ∀ t ∈ p, AlphaTok t) (h1 : p ≠ [] → p.head?.bind fc = some c0)
    (h2 : p = [] → i.name.head? = some c0) (hi : Printable (.ident i))
    (hstop : ∀ s, i = .plain s → ∀ c ∈ rest.head?, isAlpha c = false → isDigit c = false ∧ isSuffixChar c = false) :
    AlphaRes c0 (p ++ [.ident i]) rest := by
  refine ⟨by simp, ?_, ?_, ?_⟩
  · intro t ht
    rcases List.mem_append.mp ht with h | h
    · exact hp t h
    · simp at h; rw [h]; exact Or.inr ⟨i, rfl, hi⟩
  · cases p with
    | nil => simpa [fc, Token.text] using h2 rfl
    | cons a l => simpa using h1 (by simp)
  · intro c hc
    constructor
    · intro _
      exact ⟨i, by rw [List.getLast?_append]; simp⟩
    · intro ha s hs
      rw [List.getLast?_append] at hs
      simp at hs
      exact hstop s hs c hc ha

/-- the common exit `alphaFinish` -/
theorem alphaRes_finish (c0 : Char) (p : List Token) (s : Str) (rest : List Char)
    (hp : ∀ t ∈ p, AlphaTok t) (h1 : p ≠ [] → p.head?.bind fc = some c0)
    (h2 : p = [] → s.head? = some c0) (hs : AllUp s ∨ LD s) (hne : s ≠ [])
    (hstop : ∀ c ∈ rest.head?, isAlpha c = false ∧ isDigit c = false ∧ isSuffixChar c = false) :
    AlphaRes c0 (alphaFinish p s rest).1 (alphaFinish p s rest).2 ∧ (alphaFinish p s rest).2 = rest := by
  obtain ⟨new, e1, e2, e3, e4, e5⟩ := scan_ok p s hs
  have hpn : ∀ t ∈ p ++ new, AlphaTok t := by
    intro t ht
    rcases List.mem_append.mp ht with h | h
    · exact hp t h
    · exact e2 t h
  have hhead : p ++ new ≠ [] → (p ++ new).head?.bind fc = some c0 := by
    intro hne'
    cases p with
    | nil =>
      simp only [List.nil_append] at hne' ⊢
      rw [(e4 hne').1]; exact h2 rfl
    | cons a l => simpa using h1 (by simp)
  unfold alphaFinish
  split
  · rename_i hemp
    refine ⟨?_, rfl⟩
    have hr : (scanAlphabetic p s).2 = [] := by simpa using hemp
    have hnew : new ≠ [] := by
      intro e; rw [e3 e] at hr; exact hne hr
    simp only [e1]
    refine ⟨by simp [hnew], hpn, hhead (by simp [hnew]), ?_⟩
    intro c hc
    constructor
    · intro ha; rw [(hstop c hc).1] at ha; cases ha
    · intro ha s' hs'
      obtain ⟨-, t, ht, hk⟩ := e4 hnew
      rw [List.getLast?_append, ht] at hs'
      simp at hs'
      rw [hs'] at hk; cases hk
  · rename_i hemp
    refine ⟨?_, rfl⟩
    have hr : (scanAlphabetic p s).2 ≠ [] := by simpa using hemp
    simp only [e1]
    refine alphaRes_ident c0 (p ++ new) (.plain (scanAlphabetic p s).2) rest hpn hhead ?_ (e5 hr).printable ?_
    · intro hnil
      have hp' : p = [] := by cases p <;> simp_all
      have hn' : new = [] := by cases new <;> simp_all
      simp only [TIdent.name]
      rw [e3 hn']; exact h2 hp'
    · intro s' _ c hc ha
      exact (hstop c hc).2

/-- the state of the loop: still in the letters, or past a scan that left a remainder -/
def AState (cs : List Char) (s : Str) (digit : Bool) : Prop :=
  ((∀ c ∈ cs.head?, isAlpha c = true) ∧ digit = false ∧ AllUp s) ∨
  ((∀ c ∈ cs.head?, (isDigit c || isSuffixChar c) = true) ∧ LD s)

end Lex
end Basic
