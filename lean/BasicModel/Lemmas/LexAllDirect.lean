import BasicModel.Lemmas.LexAllFix
/-
  C05 for ALL strings, part 12: direct lines (no line number).  The line-number prefix
  `[ \t]*[0-9]*` of a text can be read off its token list (`numPrefix_tokDigits`), and the post-passes
  do not change it; so the listing of a line without number is again a line without number.
-/
set_option linter.unusedSimpArgs false
set_option linter.unusedVariables false
namespace Basic
namespace Lex

/-! ### the prefix scan -/

/-- the digits that `BasicLexer::lex` hands to `parse::<u16>` -/
def numPrefix (x : Str) : Str := (x.take (prefixLen x false)).dropWhile isWs

theorem take_prefixLen_true (x : Str) : x.take (prefixLen x true) = x.takeWhile isDigit := by
  induction x with
  | nil => rfl
  | cons c cs ih =>
    simp only [prefixLen, Bool.true_and]
    by_cases hw : isWs c = true
    · have hd : isDigit c = false := by
        cases h : isDigit c with
        | false => rfl
        | true => rw [not_isWs_of_isDigit c h] at hw; cases hw
      simp [hw, List.takeWhile_cons, hd]
    · by_cases hd : isDigit c = true
      · simp [hw, hd, List.takeWhile_cons, Nat.add_comm 1, ih]
      · simp [hw, hd, List.takeWhile_cons]

theorem numPrefix_eq (x : Str) : numPrefix x = (x.dropWhile isWs).takeWhile isDigit := by
  unfold numPrefix
  induction x with
  | nil => rfl
  | cons c cs ih =>
    simp only [prefixLen, Bool.false_and, Bool.false_eq_true, if_false]
    by_cases hd : isDigit c = true
    · have hw := not_isWs_of_isDigit c hd
      simp [hd, hw, Nat.add_comm 1, List.dropWhile_cons, List.takeWhile_cons, take_prefixLen_true]
    · by_cases hw : isWs c = true
      · simp only [hd, hw, Bool.false_eq_true, if_false, Bool.not_true, Nat.add_comm 1, List.take_succ_cons,
          List.dropWhile_cons, if_true]
        exact ih
      · simp [hd, hw, List.dropWhile_cons, List.takeWhile_cons]

theorem splitLineNumber_congr (x y : Str) (h : numPrefix x = numPrefix y)
    (hx : (splitLineNumber x).1 = none) : splitLineNumber y = (none, y) := by
  unfold splitLineNumber at hx ⊢
  have ex : (x.take (prefixLen x false)).dropWhile isWs = numPrefix x := rfl
  have ey : (y.take (prefixLen y false)).dropWhile isWs = numPrefix y := rfl
  simp only [ex] at hx
  simp only [ey, ← h]
  cases hp : Fmt.parseU16 (numPrefix x) with
  | none => rfl
  | some num =>
    rw [hp] at hx
    simp only at hx ⊢
    by_cases hn : num ≤ maxLineNumber
    · rw [if_pos hn] at hx
      split at hx <;> cases hx
    · rw [if_neg hn]

/-! ### reading the prefix off the tokens -/

def litDigits : Token → Str
  | .literal (.single s) => s.takeWhile isDigit
  | .literal (.double s) => s.takeWhile isDigit
  | .literal (.integer s) => s.takeWhile isDigit
  | _ => []

def headDigits : List Token → Str
  | [] => []
  | t :: _ => litDigits t

def tokDigits : List Token → Str
  | [] => []
  | t :: rest => if isBlank t then headDigits rest else litDigits t

theorem tokDigits_nonblank (l : List Token) (h : ∀ t ∈ l.head?, isBlank t = false) :
    tokDigits l = headDigits l := by
  cases l with
  | nil => rfl
  | cons t rest => simp [tokDigits, headDigits, h t (by simp)]

theorem takeWhile_take {α} (p : α → Bool) (k : Nat) (l : List α)
    (h : ∀ c ∈ (l.drop k).head?, p c = true → ∃ x ∈ l.take k, p x = false) :
    (l.take k).takeWhile p = l.takeWhile p := by
  induction k generalizing l with
  | zero =>
    cases l with
    | nil => rfl
    | cons a l' =>
      have : p a = false := by
        cases hp : p a with
        | false => rfl
        | true => obtain ⟨x, hx, -⟩ := h a (by simp) hp; simp at hx
      simp [List.takeWhile_cons, this]
  | succ k ih =>
    cases l with
    | nil => rfl
    | cons a l' =>
      simp only [List.take_succ_cons, List.takeWhile_cons]
      cases hp : p a with
      | false => rfl
      | true =>
        simp only [if_true]
        rw [ih l']
        intro c hc hpc
        obtain ⟨x, hx, hxp⟩ := h c (by simpa using hc) hpc
        simp only [List.take_succ_cons, List.mem_cons] at hx
        rcases hx with e | hx
        · rw [e, hp] at hxp; cases hxp
        · exact ⟨x, hx, hxp⟩

theorem takeWhile_map_foldED (l : List Char) : (l.map foldED).takeWhile isDigit = l.takeWhile isDigit := by
  induction l with
  | nil => rfl
  | cons c l ih =>
    simp only [List.map_cons, List.takeWhile_cons, isDigit_foldED]
    cases hd : isDigit c with
    | false => rfl
    | true =>
      have := plain_of_isDigit c hd
      simp [foldED, this.1, this.2.1, ih]

theorem litDigits_numTok (t : Token) (u : Str) (h : numTok t u) : litDigits t = u.takeWhile isDigit := by
  rcases h with h | h | h <;> subst h <;> rfl

theorem matchMinutia_plain (s : Str) (t : Token) (h : matchMinutia s = some t) :
    litDigits t = [] ∧ isBlank t = false := by
  unfold matchMinutia at h
  split at h
  all_goals first
    | (cases h; exact ⟨rfl, rfl⟩)
    | cases h

/-- the first token of a text that does not start with a blank carries the leading digits -/
theorem headDigits_lexFrom (y : Str) (hy : ∀ c ∈ y.head?, isWs c = false) :
    headDigits (lexFrom y false) = y.takeWhile isDigit ∧ ∀ t ∈ (lexFrom y false).head?, isBlank t = false := by
  cases y with
  | nil => exact ⟨rfl, by intro t ht; simp at ht⟩
  | cons d r =>
    have hws : isWs d = false := hy d (by simp)
    by_cases hnum : (isDigit d || d = '.') = true
    · rw [lexFrom_number d r hnum]
      have hpb : ¬ PB (d :: r) := by
        rintro ⟨e, x, r', he, hE, -⟩
        obtain ⟨rfl, -⟩ := List.cons.inj he
        have hf : foldED d = d := by
          simp only [Bool.or_eq_true, decide_eq_true_eq] at hnum
          rcases hnum with h | h
          · have := plain_of_isDigit d h
            simp [foldED, this.1, this.2.1]
          · subst h; decide
        rw [hf] at hE
        simp only [Bool.or_eq_true, decide_eq_true_eq] at hnum
        rcases hE with e' | e' <;> rw [e'] at hnum <;> revert hnum <;> decide
      obtain ⟨k, hk, h1, h2, h3⟩ := numberLoop_consumed (d :: r) [] 0 false false (by simp) hpb
      have hlit : ∃ l, (number (d :: r)).1 = .literal l := by
        rcases h1 with h | h | h <;> exact ⟨_, h⟩
      refine ⟨?_, ?_⟩
      · simp only [headDigits]
        rw [show (number (d :: r)).1 = (numberLoop (d :: r) [] 0 false false).1 from rfl,
          litDigits_numTok _ _ h1, List.nil_append, takeWhile_map_foldED]
        exact takeWhile_take isDigit k (d :: r) h3
      · intro t ht
        simp at ht
        obtain ⟨l, hl⟩ := hlit
        rw [← ht, hl]; rfl
    · have hnum' : isDigit d = false ∧ d ≠ '.' := by
        simp only [Bool.or_eq_true, decide_eq_true_eq, not_or] at hnum
        exact ⟨by simpa using hnum.1, hnum.2⟩
      have htw : (d :: r).takeWhile isDigit = [] := by simp [List.takeWhile_cons, hnum'.1]
      rw [htw]
      -- the first token is neither a numeral nor a blank run
      have key : ∀ t ∈ (lexFrom (d :: r) false).head?, litDigits t = [] ∧ isBlank t = false := by
        intro t ht
        rw [lexFrom_cons] at ht
        simp only [Bool.false_eq_true, if_false, hws, hnum'.1, hnum'.2, decide_false, Bool.or_false] at ht
        by_cases hal : isAlpha d = true
        · simp only [hal, if_true] at ht
          obtain ⟨hres, -⟩ := alphabetic_spec d r hal
          cases hq : (alphabetic (d :: r)).1 with
          | nil => exact absurd hq hres.ne
          | cons t' ts =>
            rw [hq] at ht
            simp at ht; subst ht
            have := hres.toks t' (by rw [hq]; simp)
            rcases this with hk | ⟨i, rfl, -⟩
            · cases t' <;> first | exact ⟨rfl, rfl⟩ | exact absurd hk (by simp [isKwTok])
            · exact ⟨rfl, rfl⟩
        · simp only [hal, Bool.false_eq_true, if_false] at ht
          by_cases hstr : d = '"'
          · simp only [hstr, if_true, string] at ht
            simp at ht; subst ht; exact ⟨rfl, rfl⟩
          · simp only [hstr, if_false] at ht
            by_cases hamp : d = '&'
            · simp only [hamp, if_true] at ht
              simp at ht; subst ht
              unfold radix
              split <;> exact ⟨rfl, rfl⟩
            · simp only [hamp, if_false] at ht
              simp at ht; subst ht
              have hstart : isMinStart d = true := by
                simp [isMinStart, hws, hnum'.1, hnum'.2, hal, hstr, hamp]
              rcases minutia_spec d r hstart with ⟨t, hm, hmin⟩ | ⟨-, u, cs', hmin, -⟩
              · rw [hmin]; exact matchMinutia_plain _ _ hm
              · rw [hmin]; exact ⟨rfl, rfl⟩
      refine ⟨?_, fun t ht => (key t ht).2⟩
      cases hl : lexFrom (d :: r) false with
      | nil => rfl
      | cons t ts => exact (key t (by rw [hl]; simp)).1

/-- the line-number prefix, read off the raw tokens -/
theorem numPrefix_tokDigits (x : Str) : numPrefix x = tokDigits (lexFrom x false) := by
  rw [numPrefix_eq]
  cases x with
  | nil => rfl
  | cons c r =>
    by_cases hws : isWs c = true
    · rw [lexFrom_ws c r hws]
      simp only [whitespace, tokDigits, isBlank, if_true, List.dropWhile_cons, hws]
      exact ((headDigits_lexFrom (r.dropWhile isWs) (dropWhile_head_not isWs r)).1).symm
    · have hws' : isWs c = false := by simpa using hws
      obtain ⟨h1, h2⟩ := headDigits_lexFrom (c :: r) (by intro x hx; simp at hx; subst hx; exact hws')
      rw [tokDigits_nonblank _ h2, h1]
      simp [List.dropWhile_cons, hws']

end Lex
end Basic
