import BasicModel.Lemmas.LexAllEnd
/-
  C05 for ALL strings, part 11: a `Chain` without clashes is lexed back token by token from its
  printed text (`chain_relex`); with the line number: `lex_print_chain_numbered`.
-/
set_option linter.unusedSimpArgs false
set_option linter.unusedVariables false
namespace Basic
namespace Lex

theorem word_text_ne (w : Word) : (Token.word w).text ≠ [] := by cases w <;> decide
theorem operator_text_ne (o : Operator) : (Token.operator o).text ≠ [] := by cases o <;> decide

theorem tok_text_ne (t : Token) (h : Tok t) : t.text ≠ [] := by
  cases t with
  | unknown u => obtain ⟨c, r, rfl, -⟩ := h; simp [Token.text]
  | whitespace n =>
    have : 0 < n := h
    obtain ⟨m, rfl⟩ : ∃ m, n = m + 1 := ⟨n - 1, by omega⟩
    simp [Token.text, List.replicate_succ]
  | literal l =>
    cases l with
    | string s => simp [Token.text, Literal.text]
    | hex ds => simp [Token.text, Literal.text]
    | octal ds => simp [Token.text, Literal.text]
    | single s => obtain ⟨c, cs, rfl, -⟩ := h; simp [Token.text, Literal.text]
    | double s => obtain ⟨c, cs, rfl, -⟩ := h; simp [Token.text, Literal.text]
    | integer s => obtain ⟨c, cs, rfl, -⟩ := h; simp [Token.text, Literal.text]
  | word w => exact word_text_ne w
  | operator o => exact operator_text_ne o
  | ident i =>
    obtain ⟨c, r, e, -⟩ := printable_ident_text i h
    simp [Token.text, e]
  | _ => simp [Token.text]

/-- after `REM`: nothing, or one final `Unknown` token (the remark text) -/
def remTailOk : List Token → Bool
  | [] => true
  | [.unknown _] => true
  | _ => false

/-- a `REM` that is followed by something else than its remark text: text glued to `REM`
    (`REMARK` is `REM` + `ARK`), or a `REM` that was not the first word of its run of letters
    (`AREM:X`), so that the rest of the line was lexed as code -/
def remClash : List Token → Bool
  | [] => false
  | t :: rest => (t == .word .rem1 && !remTailOk rest) || remClash rest

theorem relex_rem1 (u : Str) (hne : u ≠ []) (hh : ∀ c ∈ u.head?, isAlpha c = false) :
    lexFrom (printTokens [.word .rem1, .unknown u]) false = [.word .rem1, .unknown u] := by
  have := lexFrom_keyword_na ("REM".toList, .word .rem1) (by decide) u hh
  simp only [beq_self_eq_true] at this
  rw [lexFrom_remark u hne] at this
  simpa [printTokens, Token.text, Word.text] using this

theorem relex_rem2 (u : Str) (hne : u ≠ []) :
    lexFrom (printTokens [.word .rem2, .unknown u]) false = [.word .rem2, .unknown u] := by
  have := lexFrom_minutia '\'' u (.word .rem2) rfl
  simp only [beq_self_eq_true] at this
  rw [lexFrom_remark u hne] at this
  simpa [printTokens, Token.text, Word.text] using this

theorem endOk_tail (a b : Token) (rest : List Token) : endOk (a :: b :: rest) = endOk (b :: rest) := by
  simp [endOk, List.getLast?_cons_cons]

/-- a chain without clashes is lexed back, token by token, from its printed text -/
theorem chain_relex (ts : List Token) : Chain ts → remClash ts = false → wordClash ts = false →
    endOk ts = true → lexFrom (printTokens ts) false = ts.flatMap rawOf := by
  induction ts with
  | nil => intros; rfl
  | cons a tl ih =>
    intro hc hr hw he
    cases tl with
    | nil =>
      by_cases h1 : a = .word .rem1
      · subst h1
        have := lexFrom_keyword_na ("REM".toList, .word .rem1) (by decide) [] (by intro c hc; simp at hc)
        simpa [printTokens, Token.text, Word.text, rawOf] using this
      by_cases h2 : a = .word .rem2
      · subst h2
        have := lexFrom_minutia '\'' [] (.word .rem2) rfl
        simpa [printTokens, Token.text, Word.text, rawOf] using this
      have := tok_rescan a hc h1 h2 [] trivial
      simpa [printTokens] using this
    | cons b rest =>
      have hrem1 : ∀ u, a = .word .rem1 → b = .unknown u → rest = [] → u ≠ [] →
          (∀ c ∈ u.head?, isAlpha c = false) →
          lexFrom (printTokens (a :: b :: rest)) false = (a :: b :: rest).flatMap rawOf := by
        intro u e1 e2 e3 hne hh
        subst e1; subst e2; subst e3
        rw [relex_rem1 u hne hh]; rfl
      rcases hc with ⟨hra, hrest, u, hu, hne, hh⟩ | ⟨h1, h2, h3, h4⟩
      · rcases hra with e | e
        · exact hrem1 u e hu hrest hne (hh e)
        · subst e; subst hu; subst hrest
          rw [relex_rem2 u hne]; rfl
      · by_cases ha : a = .word .rem1
        · -- `REM` in a normal link: only the remark text may follow
          have hr' : remTailOk (b :: rest) = true := by
            subst ha
            simp only [remClash, beq_self_eq_true, Bool.true_and, Bool.or_eq_false_iff,
              Bool.not_eq_false'] at hr
            exact hr.1
          obtain ⟨u, hb, hrest⟩ : ∃ u, b = .unknown u ∧ rest = [] := by
            cases rest with
            | nil =>
              cases b with
              | unknown u => exact ⟨u, rfl, rfl⟩
              | _ => simp [remTailOk] at hr'
            | cons c r => simp [remTailOk] at hr'
          have hne : u ≠ [] := by
            subst hb; subst hrest
            simp only [endOk, List.getLast?_cons_cons, List.getLast?_singleton, Bool.and_eq_true,
              beq_iff_eq, Bool.not_eq_true', List.isEmpty_eq_false_iff] at he
            exact he.2
          refine hrem1 u ha hb hrest hne ?_
          subst hb; subst ha
          unfold Adj at h3
          simp only [Token.isWord, Bool.and_false, Bool.false_eq_true, if_false] at h3
          intro c hc
          have : fc (.unknown u) = some c := by simpa [fc, Token.text] using hc
          rw [this] at h3
          exact h3
        · have hcb : Chain (b :: rest) := by
            rcases h4 with e | h4
            · exact absurd e ha
            · exact h4
          simp only [wordClash, Bool.or_eq_false_iff] at hw
          have hbnd : Bnd a (fc b) := by
            unfold Adj at h3; rw [if_neg (by simp [hw.1])] at h3; exact h3
          have hbt : b.text ≠ [] := tok_text_ne b (chain_head_tok b rest hcb)
          have hhead : (printTokens (b :: rest)).head? = fc b := by
            rw [printTokens_cons, fc]
            exact head_append_ne _ _ hbt
          have hrb : remClash (b :: rest) = false := by
            simp only [remClash, Bool.or_eq_false_iff] at hr
            simpa [remClash] using hr.2
          rw [printTokens_cons, tok_rescan a h2 ha h1 _ (by rw [hhead]; exact hbnd),
            ih hcb hrb hw.2 (by rw [← endOk_tail a b rest]; exact he)]
          simp [List.flatMap_cons]

/-- program lines: a clash-free chain is a fixed point of print-then-lex -/
theorem lex_print_chain_numbered (n : Nat) (hn : n ≤ 65529) (ts : List Token) (hc : Chain ts)
    (h1 : tripleClash ts = false) (h2 : doubleClash ts = false) (h3 : wordClash ts = false)
    (h4 : endOk ts = true) (h5 : remClash ts = false) : lex (printLine (some n) ts) = (some n, ts) := by
  simp only [printLine, lex, splitLineNumber_listed n hn, rawTokens_eq, chain_relex ts hc h5 h3 h4,
    postPasses_stable ts h1 h2 h3 h4]

end Lex
end Basic
