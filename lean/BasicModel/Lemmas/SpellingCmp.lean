import BasicModel.Lemmas.SpellingAlias
/-
  C16: respelled comparison operators (`=<`, `=>`, and every pair with one blank run in between)
  in arbitrary contexts whose neighbours are not themselves comparison characters.
-/
set_option linter.unusedSimpArgs false
set_option linter.unusedVariables false
namespace Basic
namespace Lex

/-- the token list ends in a comparison character, or in one followed by a blank run -/
def cmpAtEnd (A : List Token) : Bool :=
  match A.reverse with
  | a :: rest => isRawCmp a || (isBlank a && (match rest with | b :: _ => isRawCmp b | [] => false))
  | [] => false

/-- the token list starts with a comparison character, or with a blank run followed by one -/
def cmpAtStart (V : List Token) : Bool :=
  match V with
  | b :: rest => isRawCmp b || (isBlank b && (match rest with | c :: _ => isRawCmp c | [] => false))
  | [] => false

theorem rawCmp_facts (x : Token) (h : isRawCmp x = true) :
    isBlank x = false ∧ isGoHead x = false ∧ isGoTail x = false := by
  cases x with
  | operator o => cases o <;> first | (simp [isRawCmp] at h; done) | decide
  | _ => simp [isRawCmp] at h

theorem cmpAtEnd_last (A : List Token) (h : cmpAtEnd A = false) (a : Token) (ha : A.getLast? = some a) :
    isRawCmp a = false := by
  obtain ⟨P, rfl⟩ := List.getLast?_eq_some_iff.1 ha
  simp only [cmpAtEnd, List.reverse_append, List.reverse_cons, List.reverse_nil, List.nil_append,
    List.cons_append, Bool.or_eq_false_iff] at h
  exact h.1

theorem cmpAtEnd_pair (A : List Token) (h : cmpAtEnd A = false) (P : List Token) (a b : Token)
    (e : A = P ++ [a, b]) (hb : isBlank b = true) : isRawCmp a = false := by
  subst e
  simp only [cmpAtEnd, List.reverse_append, List.reverse_cons, List.reverse_nil, List.nil_append,
    List.cons_append, Bool.or_eq_false_iff, hb, Bool.true_and] at h
  exact h.2

theorem seam_cmp (A : List Token) (x : Token) (rest : List Token) (hx : isRawCmp x = true)
    (hA : cmpAtEnd A = false) : Seam A (x :: rest) := by
  obtain ⟨f1, f2, f3⟩ := rawCmp_facts x hx
  refine ⟨?_, ?_, ?_⟩
  · intro P a b z e hz
    simp at hz; subst hz
    cases hb : isBlank b with
    | false => exact tripleMatch_none_of_not_blank a b x hb
    | true =>
      have := cmpAtEnd_pair A hA P a b e hb
      exact tripleMatch_none_of_ends a b x (by simp [this]) (by simp [f3])
  · intro a y z B' _ e
    simp at e; obtain ⟨rfl, -⟩ := e
    exact tripleMatch_none_of_not_blank a x z f1
  · intro a b ha hb
    simp at hb; subst hb
    have := cmpAtEnd_last A hA a ha
    cases hm : doubleMatch a x with
    | none => rfl
    | some r => have h' := (doubleMatch_raw a x r hm).1; rw [this] at h'; cases h'

theorem triRec_cmp_head (y : Token) (V : List Token) (hy : isRawCmp y = true) (hV : cmpAtStart V = false) :
    triRec (y :: V) = y :: triRec V := by
  obtain ⟨f1, f2, f3⟩ := rawCmp_facts y hy
  apply triRec_cons_of_none
  intro v1 v2 V' e
  subst e
  cases hb : isBlank v1 with
  | false => exact tripleMatch_none_of_not_blank y v1 v2 hb
  | true =>
    simp only [cmpAtStart, hb, Bool.true_and, Bool.or_eq_false_iff] at hV
    exact tripleMatch_none_of_ends y v1 v2 (by simp [hV.2]) (by simp [f2])

/-- two adjacent comparison characters that form an operator, between neighbours that are not
    comparison characters -/
theorem G_cmp_double (A V : List Token) (x y t : Token) (hx : isRawCmp x = true) (hy : isRawCmp y = true)
    (hd : doubleMatch x y = some t) (hA : cmpAtEnd A = false) (hV : cmpAtStart V = false) :
    G (A ++ x :: y :: V) = G A ++ t :: G V := by
  obtain ⟨g1, g2, g3⟩ := rawCmp_facts y hy
  rw [G_append A _ (seam_cmp A x _ hx hA)]
  congr 1
  unfold G
  rw [triRec_cons_of_none x (y :: V) (fun y' z _ e => by
    simp at e; obtain ⟨rfl, -⟩ := e; exact tripleMatch_none_of_not_blank x y z g1),
    triRec_cmp_head y V hy hV]
  simp only [dblRec, hd]

/-- the same with one blank run in between -/
theorem G_cmp_triple (A V : List Token) (x y t : Token) (n : Nat) (hx : isRawCmp x = true)
    (hy : isRawCmp y = true) (ht : tripleMatch x (.whitespace n) y = some t)
    (hA : cmpAtEnd A = false) (hV : cmpAtStart V = false) :
    G (A ++ x :: .whitespace n :: y :: V) = G A ++ t :: G V := by
  rw [G_append A _ (seam_cmp A x _ hx hA)]
  congr 1
  unfold G
  rw [triRec, ht]
  simp only
  rw [triRec_cmp_head y V hy hV]
  simp only [List.tail_cons]
  rw [dblRec_cons_of_not_raw t _ (tripleMatch_result_not_raw _ _ _ _ ht)]

theorem tripleMatch_ws (x y : Token) (n m : Nat) :
    tripleMatch x (.whitespace n) y = tripleMatch x (.whitespace m) y := by
  cases x with
  | operator o =>
    cases y with
    | operator p => cases o <;> cases p <;> rfl
    | _ => cases o <;> rfl
  | ident i =>
    cases i with
    | plain s =>
      cases y with
      | word w => cases w <;> rfl
      | ident j => cases j <;> rfl
      | _ => rfl
    | _ => first | rfl | (cases y <;> rfl)
  | _ => first | rfl | (cases y <;> rfl)

/-! #### `trim_end` does not uncover a comparison character at the start -/

theorem trimEnd_single_head (b h : Token) (hh : (trimEnd [b]).head? = some h) (hr : isRawCmp h = true) :
    h = b := by
  cases b with
  | whitespace n => simp [trimEnd, trimEndRev] at hh
  | unknown s =>
    simp only [trimEnd, List.reverse_cons, List.reverse_nil, List.nil_append, trimEndRev] at hh
    split at hh
    · simp at hh
    · simp at hh; subst hh; simp [isRawCmp] at hr
  | _ => simpa [trimEnd, trimEndRev] using hh.symm

theorem trimEnd_single_le (b : Token) : (trimEnd [b]).length ≤ 1 := by
  cases b with
  | unknown s =>
    simp only [trimEnd, List.reverse_cons, List.reverse_nil, List.nil_append, trimEndRev]
    split <;> simp
  | _ => simp [trimEnd, trimEndRev]

theorem trimEnd_head_raw (X : List Token) (h : Token) (hh : (trimEnd X).head? = some h)
    (hr : isRawCmp h = true) : X.head? = some h := by
  cases X with
  | nil => simp [trimEnd, trimEndRev] at hh
  | cons c X' =>
    rw [trimEnd_cons] at hh
    split at hh
    · rw [trimEnd_single_head c h hh hr]; rfl
    · simpa using hh

theorem cmpAtStart_trimEnd (V : List Token) (h : cmpAtStart V = false) : cmpAtStart (trimEnd V) = false := by
  cases V with
  | nil => rfl
  | cons b X =>
    simp only [cmpAtStart, Bool.or_eq_false_iff] at h
    obtain ⟨hb, hx⟩ := h
    rw [trimEnd_cons]
    split
    · cases hs : trimEnd [b] with
      | nil => rfl
      | cons b' r =>
        have hr : r = [] := by
          have := trimEnd_single_le b
          rw [hs] at this
          simpa using this
        subst hr
        simp only [cmpAtStart, Bool.and_false, Bool.or_false]
        cases hq : isRawCmp b' with
        | false => rfl
        | true =>
          have := trimEnd_single_head b b' (by rw [hs]; rfl) hq
          subst this; rw [hb] at hq; cases hq
    · simp only [cmpAtStart, hb, Bool.false_or]
      cases hbl : isBlank b with
      | false => rfl
      | true =>
        simp only [Bool.true_and]
        cases ht : trimEnd X with
        | nil => rfl
        | cons c r =>
          simp only
          cases hq : isRawCmp c with
          | false => rfl
          | true =>
            have := trimEnd_head_raw X c (by rw [ht]; rfl) hq
            cases X with
            | nil => simp at this
            | cons c' X' =>
              simp at this; subst this
              simp only [hbl, Bool.true_and] at hx
              rw [hx] at hq; cases hq

/-! #### the theorem -/

theorem rawCmp_char (c : Char) (x : Token) (h : matchMinutia [c] = some x) (hx : isRawCmp x = true) :
    isDigit c = false ∧ isWs c = false ∧ (x == .word .rem2) = false := by
  unfold matchMinutia at h
  split at h <;> first
    | (cases h; simp [isRawCmp] at hx; done)
    | (rename_i heq; cases h; simp at heq; subst heq; decide)
    | cases h

/-- comparison characters `c1`, `c2` (adjacent, or one blank run apart) that the collapse passes
    put together to the operator `t`, between a junction whose last token is not a comparison
    character and a rest of the line that does not start with one: the line lexes to
    `… t …`, a form that does not depend on the spelling -/
theorem cmp_alias_raw (pre post blanks : Str) (A : List Token) (c1 c2 : Char) (x y t : Token)
    (h1 : matchMinutia [c1] = some x) (h2 : matchMinutia [c2] = some y)
    (hx : isRawCmp x = true) (hy : isRawCmp y = true) (hbl : ∀ c ∈ blanks, isWs c = true)
    (hm : (if blanks = [] then doubleMatch x y else tripleMatch x (.whitespace 1) y) = some t)
    (hcut : Cut pre A c1) (hA : cmpAtEnd A = false) (hV : cmpAtStart (lexFrom post false) = false) :
    postPasses (lexFrom (pre ++ c1 :: (blanks ++ c2 :: post)) false) =
      sepRec (G A ++ t :: G (trimEnd (lexFrom post false))) := by
  obtain ⟨d1, w1, r1⟩ := rawCmp_char c1 x h1 hx
  obtain ⟨d2, w2, r2⟩ := rawCmp_char c2 y h2 hy
  have hy' : lexFrom (c2 :: post) false = y :: lexFrom post false := by
    rw [lexFrom_minutia c2 post y h2, r2]
  have hys : isSolid y = true := by
    cases y with
    | operator o => rfl
    | _ => simp [isRawCmp] at hy
  have hV' := cmpAtStart_trimEnd _ hV
  rw [hcut _, lexFrom_minutia c1 _ x h1, r1, postPasses_eq]
  by_cases hb : blanks = []
  · subst hb
    simp only [if_true] at hm
    rw [List.nil_append, hy',
      show A ++ x :: y :: lexFrom post false = (A ++ [x]) ++ y :: lexFrom post false by simp,
      trimEnd_append_solid _ y _ hys]
    simp only [List.append_assoc, List.cons_append, List.nil_append]
    rw [G_cmp_double A _ x y t hx hy hm hA hV']
  · simp only [hb, if_false] at hm
    obtain ⟨k, hk⟩ := lexFrom_blanks_solid blanks hbl hb c2 post w2
    rw [hk, hy',
      show A ++ x :: Token.whitespace k :: y :: lexFrom post false =
        (A ++ [x, Token.whitespace k]) ++ y :: lexFrom post false by simp,
      trimEnd_append_solid _ y _ hys]
    simp only [List.append_assoc, List.cons_append, List.nil_append]
    rw [tripleMatch_ws x y 1 k] at hm
    rw [G_cmp_triple A _ x y t k hx hy hm hA hV']

/-- a spelling of a comparison operator: two comparison characters, adjacent or one blank run apart,
    which the collapse passes put together to `t` -/
structure CmpSpelling (t : Token) where
  c1 : Char
  c2 : Char
  blanks : Str
  x : Token
  y : Token
  h1 : matchMinutia [c1] = some x
  h2 : matchMinutia [c2] = some y
  hx : isRawCmp x = true
  hy : isRawCmp y = true
  hbl : ∀ c ∈ blanks, isWs c = true
  hm : (if blanks = [] then doubleMatch x y else tripleMatch x (.whitespace 1) y) = some t

/-- the characters of the spelling -/
def CmpSpelling.text {t : Token} (s : CmpSpelling t) : Str := s.c1 :: (s.blanks ++ [s.c2])

/-- a respelled comparison operator in context: the line lexes to a form that mentions the operator only -/
theorem cmp_alias {t : Token} (s : CmpSpelling t) (pre post : Str) (A : List Token)
    (hcut : Cut (lineBody pre) A s.c1) (hA : cmpAtEnd A = false)
    (hV : cmpAtStart (lexFrom post false) = false) :
    lex (pre ++ (s.text ++ post)) =
      (lineNo pre, sepRec (G A ++ t :: G (trimEnd (lexFrom post false)))) := by
  obtain ⟨d1, w1, -⟩ := rawCmp_char s.c1 s.x s.h1 s.hx
  have := cmp_alias_raw (lineBody pre) post s.blanks A s.c1 s.c2 s.x s.y t s.h1 s.h2 s.hx s.hy s.hbl s.hm
    hcut hA hV
  simp only [CmpSpelling.text, List.cons_append, List.append_assoc, List.nil_append]
  rw [lex_ctx pre s.c1 _ d1 w1, this]

/-- any two spellings of the same operator, in the same context, give the very same line -/
theorem cmp_alias_eq {t : Token} (s s' : CmpSpelling t) (pre post : Str) (A : List Token)
    (hcut : Cut (lineBody pre) A s.c1) (hcut' : Cut (lineBody pre) A s'.c1) (hA : cmpAtEnd A = false)
    (hV : cmpAtStart (lexFrom post false) = false) :
    lex (pre ++ (s.text ++ post)) = lex (pre ++ (s'.text ++ post)) := by
  rw [cmp_alias s pre post A hcut hA hV, cmp_alias s' pre post A hcut' hA hV]

/-- the spellings the lexer accepts (`n` blanks in between; `><` only with a blank) -/
def leSpelling (rev : Bool) (n : Nat) : CmpSpelling (.operator .lessEqual) :=
  if rev then
    { c1 := '=', c2 := '<', blanks := List.replicate n ' ', x := .operator .equal, y := .operator .less,
      h1 := rfl, h2 := rfl, hx := rfl, hy := rfl,
      hbl := by intro c hc; rw [List.eq_of_mem_replicate hc]; rfl,
      hm := by split <;> rfl }
  else
    { c1 := '<', c2 := '=', blanks := List.replicate n ' ', x := .operator .less, y := .operator .equal,
      h1 := rfl, h2 := rfl, hx := rfl, hy := rfl,
      hbl := by intro c hc; rw [List.eq_of_mem_replicate hc]; rfl,
      hm := by split <;> rfl }

def geSpelling (rev : Bool) (n : Nat) : CmpSpelling (.operator .greaterEqual) :=
  if rev then
    { c1 := '=', c2 := '>', blanks := List.replicate n ' ', x := .operator .equal, y := .operator .greater,
      h1 := rfl, h2 := rfl, hx := rfl, hy := rfl,
      hbl := by intro c hc; rw [List.eq_of_mem_replicate hc]; rfl,
      hm := by split <;> rfl }
  else
    { c1 := '>', c2 := '=', blanks := List.replicate n ' ', x := .operator .greater, y := .operator .equal,
      h1 := rfl, h2 := rfl, hx := rfl, hy := rfl,
      hbl := by intro c hc; rw [List.eq_of_mem_replicate hc]; rfl,
      hm := by split <;> rfl }

def neSpelling (n : Nat) : CmpSpelling (.operator .notEqual) :=
  { c1 := '<', c2 := '>', blanks := List.replicate n ' ', x := .operator .less, y := .operator .greater,
    h1 := rfl, h2 := rfl, hx := rfl, hy := rfl,
    hbl := by intro c hc; rw [List.eq_of_mem_replicate hc]; rfl,
    hm := by split <;> rfl }

/-- `> <` (at least one blank: `><` is not collapsed) -/
def neSpellingRev (n : Nat) : CmpSpelling (.operator .notEqual) :=
  { c1 := '>', c2 := '<', blanks := List.replicate (n + 1) ' ', x := .operator .greater, y := .operator .less,
    h1 := rfl, h2 := rfl, hx := rfl, hy := rfl,
    hbl := by intro c hc; rw [List.eq_of_mem_replicate hc]; rfl,
    hm := by simp [List.replicate_succ, tripleMatch] }

end Lex
end Basic
