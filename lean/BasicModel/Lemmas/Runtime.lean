import BasicModel.Model.Runtime
/-
  Run lemmas for the VM monad `RM = ExceptT Error (StateM Runtime)` and its stack primitives.
-/
namespace Basic
namespace Runtime

theorem run_pure {α} (a : α) (s : Runtime) : ((pure a : RM α).run).run s = (.ok a, s) := rfl

theorem run_bind {α β} (m : RM α) (f : α → RM β) (s : Runtime) :
    ((m >>= f).run).run s =
      match (m.run).run s with
      | (.ok a, s1) => ((f a).run).run s1
      | (.error e, s1) => (.error e, s1) := by
  simp only [bind, ExceptT.bind, ExceptT.mk, ExceptT.run, StateT.bind, StateT.run, ExceptT.bindCont]
  cases h : m s with
  | mk r s1 => cases r <;> rfl

theorem run_get (s : Runtime) : ((get : RM Runtime).run).run s = (.ok s, s) := rfl
theorem run_set (s1 s : Runtime) : ((set s1 : RM PUnit).run).run s = (.ok ⟨⟩, s1) := rfl
theorem run_modify (f : Runtime → Runtime) (s : Runtime) : ((modify f : RM PUnit).run).run s = (.ok ⟨⟩, f s) := rfl
theorem run_throw {α} (e : Error) (s : Runtime) : ((throw e : RM α).run).run s = (.error e, s) := rfl
theorem run_liftE {α} (r : Except Error α) (s : Runtime) : ((liftE r : RM α).run).run s = (r, s) := by
  cases r <;> rfl

theorem run_push (v : Val) (s : Runtime) :
    ((push v).run).run s =
      (if s.stack.size + 1 > Gen.stackMaxLen then .error stackOverflow else .ok (), { s with stack := s.stack.push v }) := by
  unfold push
  simp only [run_bind, run_modify, run_get, Array.size_push]
  split <;> rfl

theorem run_pop (s : Runtime) :
    (pop.run).run s =
      match s.stack.back? with
      | some v => (.ok v, { s with stack := s.stack.pop })
      | none => (.error underflow, s) := by
  unfold pop
  simp only [run_bind, run_get]
  cases s.stack.back? <;> rfl

/-! ### the stack bound as an invariant of successful runs -/

/-- the stack holds at most 65 535 values -/
def Bnd (s : Runtime) : Prop := s.stack.size ≤ Gen.stackMaxLen

/-- `m` keeps the stack bound: every successful run from a bounded state ends in a bounded state -/
def Good {α} (m : RM α) : Prop := ∀ s, Bnd s → ∀ a s', (m.run).run s = (.ok a, s') → Bnd s'

theorem Good.pure {α} (a : α) : Good (pure a : RM α) := by
  intro s hs a' s' h; rw [run_pure] at h; injection h with _ h; subst h; exact hs

theorem Good.throw {α} (e : Error) : Good (throw e : RM α) := by
  intro s hs a' s' h; rw [run_throw] at h; injection h with h _; cases h

theorem Good.liftE {α} (r : Except Error α) : Good (liftE r : RM α) := by
  intro s hs a' s' h; rw [run_liftE] at h; injection h with _ h; subst h; exact hs

theorem Good.bind {α β} {m : RM α} {f : α → RM β} (hm : Good m) (hf : ∀ a, Good (f a)) : Good (m >>= f) := by
  intro s hs b s' h
  rw [run_bind] at h
  cases hr : (m.run).run s with
  | mk r s1 =>
    rw [hr] at h
    cases r with
    | error e => simp only at h; injection h with h _; cases h
    | ok a => exact hf a s1 (hm s hs a s1 hr) b s' h

/-- after `get`, the value in hand is a bounded state -/
theorem Good.get_bind {β} {f : Runtime → RM β} (hf : ∀ s0, Bnd s0 → Good (f s0)) : Good (get >>= f) := by
  intro s hs b s' h
  rw [run_bind, run_get] at h
  exact hf s hs s hs b s' h

theorem Good.get : Good (get : RM Runtime) := by
  intro s hs a s' h; rw [run_get] at h; injection h with _ h; subst h; exact hs

theorem Good.set {s1 : Runtime} (h1 : Bnd s1) : Good (set s1 : RM PUnit) := by
  intro s hs a s' h; rw [run_set] at h; injection h with _ h; subst h; exact h1

theorem Good.modify {f : Runtime → Runtime} (hf : ∀ s, Bnd s → Bnd (f s)) : Good (modify f : RM PUnit) := by
  intro s hs a s' h; rw [run_modify] at h; injection h with _ h; subst h; exact hf s hs

/-- `push` succeeds only within the bound -/
theorem Good.push (v : Val) : Good (push v) := by
  intro s hs a s' h
  rw [run_push] at h
  split at h
  · injection h with h _; cases h
  · rename_i hle
    injection h with _ h; subst h
    show (s.stack.push v).size ≤ _
    rw [Array.size_push]; omega

theorem Good.pop : Good pop := by
  intro s hs a s' h
  rw [run_pop] at h
  split at h
  · injection h with _ h; subst h
    show s.stack.pop.size ≤ _
    rw [Array.size_pop]; unfold Bnd at hs; omega
  · injection h with h _; cases h

theorem Good.pop2 : Good pop2 :=
  Good.bind Good.pop fun _ => Good.bind Good.pop fun _ => Good.pure _

theorem Good.popN (n : Nat) : Good (popN n) := by
  unfold Runtime.popN
  apply Good.get_bind
  intro s0 h0
  split
  · exact Good.throw _
  · apply Good.bind
    · apply Good.set
      show (s0.stack.extract 0 _).size ≤ _
      rw [Array.size_extract]; unfold Bnd at h0; omega
    · intro _; exact Good.pure _

theorem Good.popVec : Good popVec := by
  unfold Runtime.popVec
  apply Good.bind Good.pop
  intro v
  split
  · split
    · exact Good.throw _
    · exact Good.popN _
  · exact Good.throw _

theorem Good.pop1Push (f : Val → Res Val) : Good (pop1Push f) :=
  Good.bind Good.pop fun _ => Good.bind (Good.liftE _) fun _ => Good.push _

theorem Good.pop2Push (f : Val → Val → Res Val) : Good (pop2Push f) := by
  unfold Runtime.pop2Push
  apply Good.bind Good.pop2
  intro x
  obtain ⟨a, b⟩ := x
  exact Good.bind (Good.liftE _) fun _ => Good.push _

theorem Good.forIn_list {α β} (l : List α) (init : β) (f : α → β → RM (ForInStep β)) (hf : ∀ a b, Good (f a b)) :
    Good (forIn l init f) := by
  induction l generalizing init with
  | nil => exact Good.pure _
  | cons hd tl ih =>
    rw [List.forIn_cons]
    apply Good.bind (hf hd init)
    intro r
    cases r with
    | done b => exact Good.pure _
    | yield b => exact ih b

end Runtime
end Basic
