import BasicModel.Lemmas.DataOrder
/-
  WHILE/WEND marks sit on their branches, and pending references lie below the end of the code
  (chain-neutral; instances 3 and 4 of the calculus of `Lemmas/GenInv.lean`).

  `WhilesOps l`: every mark recorded in `l.whiles` points at a `jump 0` / `ifNot 0` of `l.ops`.
  It holds for every fragment the generator builds and for the program image before linking.
  Consequence (`link_restore_resolves`): the references `linkWhiles` adds never displace the pending
  reference of a `restore`, so `RESTORE n` is patched to the data address of line `n`.
-/
namespace Basic
namespace DataOrder
open Link Codegen
variable {α β : Type}

/-! ### a generic walk through the visitor, for invariants that do not care about the statement stack as a whole -/

structure VGoodI (I : Inv) (g : GState) : Prop where
  var : ∀ v ∈ g.var.toList, I.E v.link
  expr : ∀ x ∈ g.expr.toList, I.E x.2
  stmt : ∀ x ∈ g.stmt.toList, I.S x.2

/-- everything the walk needs of an invariant -/
structure Walk (I : Inv) : Prop where
  okC : Ok I
  okR : RefOk I
  okM : MarkOk I
  okE : Ok I.ex
  td : TdOk I
  appS : AppS I
  emptyC : I.C {}
  emptyE : I.E {}
  done : ∀ l, I.C l → I.S l
  k : ∀ st, I.K st

variable {I : Inv}

theorem VGoodI.empty : VGoodI I {} := ⟨fun _ h => (nomatch h), fun _ h => (nomatch h), fun _ h => (nomatch h)⟩

theorem runFresh_vgoodI {m : GM α} {Q : α → Prop} (hw : Walk I) (J : Inv) (hJ : J = I ∨ J = I.ex)
    (hm : PH J m Q) (g : GState) (hg : VGoodI I g) :
    J.C (runFresh m g).2.1 ∧ VGoodI I (runFresh m g).2.2 := by
  rcases hJ with rfl | rfl
  · have h := (hm.run { g with cur := {} } ⟨hw.emptyC, hg.var, hg.expr, hg.stmt, hw.k _⟩).1
    unfold runFresh
    exact ⟨h.cur, ⟨h.var, h.expr, h.stmt⟩⟩
  · have h := (hm.run { g with cur := {} } ⟨hw.emptyE, hg.var, hg.expr, hg.stmt, hw.k _⟩).1
    unfold runFresh
    exact ⟨h.cur, ⟨h.var, h.expr, h.stmt⟩⟩

theorem visitVariable_vgoodI (hw : Walk I) (v : Variable) (s : VState) (h : VGoodI I s.g) :
    VGoodI I (visitVariable v s).g := by
  have hr := runFresh_vgoodI hw I.ex (.inr rfl) (ph_genVariable hw.okE v) s.g h
  unfold visitVariable
  generalize runFresh (genVariable v) s.g = x at hr
  rcases x with ⟨r, link, g⟩
  cases r <;>
    exact ⟨fun y hy => (mem_push_toList hy).elim (hr.2.var y) (fun e => e ▸ hr.1), hr.2.expr, hr.2.stmt⟩

theorem visitExpression_vgoodI (hw : Walk I) (e : Expr) (s : VState) (h : VGoodI I s.g) :
    VGoodI I (visitExpression e s).g := by
  have hr := runFresh_vgoodI hw I.ex (.inr rfl) (ph_genExpression hw.okE e) s.g h
  unfold visitExpression
  generalize runFresh (genExpression e) s.g = x at hr
  rcases x with ⟨r, link, g⟩
  cases r <;>
    exact ⟨hr.2.var, fun y hy => (mem_push_toList hy).elim (hr.2.expr y) (fun e => e ▸ hr.1), hr.2.stmt⟩

theorem visitStatement_vgoodI (hw : Walk I) (st : Stmt) (s : VState) (h : VGoodI I s.g) :
    VGoodI I (visitStatement st s).g := by
  have hr := runFresh_vgoodI hw I (.inl rfl)
    (ph_genStatement hw.okC hw.okR hw.okM hw.td (fun _ _ _ => hw.k _) hw.appS st) s.g h
  unfold visitStatement
  generalize runFresh (genStatement st) s.g = x at hr
  rcases x with ⟨r, link, g⟩
  cases r <;>
    exact ⟨hr.2.var, hr.2.expr, fun y hy => (mem_push_toList hy).elim (hr.2.stmt y) (fun e => e ▸ hw.done _ hr.1)⟩

mutual
theorem acceptVar_vgoodI (hw : Walk I) : ∀ (v : Variable) (s : VState), VGoodI I s.g → VGoodI I (acceptVar v s).g
  | .unary c i, s, h => by rw [acceptVar]; exact visitVariable_vgoodI hw _ _ h
  | .array c i es, s, h => by rw [acceptVar]; exact visitVariable_vgoodI hw _ _ (acceptExprs_vgoodI hw es s h)
theorem acceptExpr_vgoodI (hw : Walk I) : ∀ (e : Expr) (s : VState), VGoodI I s.g → VGoodI I (acceptExpr e s).g
  | .var v, s, h => by rw [acceptExpr]; exact visitExpression_vgoodI hw _ _ (acceptVar_vgoodI hw v s h)
  | .neg c e, s, h => by rw [acceptExpr]; exact visitExpression_vgoodI hw _ _ (acceptExpr_vgoodI hw e s h)
  | .not c e, s, h => by rw [acceptExpr]; exact visitExpression_vgoodI hw _ _ (acceptExpr_vgoodI hw e s h)
  | .bin op c l r, s, h => by
    rw [acceptExpr]
    exact visitExpression_vgoodI hw _ _ (acceptExpr_vgoodI hw r _ (acceptExpr_vgoodI hw l s h))
  | .single c b, s, h => by rw [acceptExpr] <;> first | exact visitExpression_vgoodI hw _ _ h | nofun
  | .double c b, s, h => by rw [acceptExpr] <;> first | exact visitExpression_vgoodI hw _ _ h | nofun
  | .integer c b, s, h => by rw [acceptExpr] <;> first | exact visitExpression_vgoodI hw _ _ h | nofun
  | .string c b, s, h => by rw [acceptExpr] <;> first | exact visitExpression_vgoodI hw _ _ h | nofun
theorem acceptExprs_vgoodI (hw : Walk I) : ∀ (es : List Expr) (s : VState), VGoodI I s.g → VGoodI I (acceptExprs es s).g
  | [], s, h => by rw [acceptExprs]; exact h
  | e :: es, s, h => by rw [acceptExprs]; exact acceptExprs_vgoodI hw es _ (acceptExpr_vgoodI hw e s h)
end

theorem acceptVars_vgoodI (hw : Walk I) (vs : List Variable) (s : VState) (h : VGoodI I s.g) :
    VGoodI I (acceptVars vs s).g := by
  unfold acceptVars
  induction vs generalizing s with
  | nil => exact h
  | cons v vs ih => rw [List.foldl_cons]; exact ih _ (acceptVar_vgoodI hw v s h)

mutual
theorem acceptStmt_vgoodI (hw : Walk I) : ∀ (st : Stmt) (s : VState), VGoodI I s.g → VGoodI I (acceptStmt st s).g
  | .data c es, s, h => by rw [acceptStmt]; exact visitStatement_vgoodI hw _ _ (acceptExprs_vgoodI hw es s h)
  | .print c es, s, h => by rw [acceptStmt]; exact visitStatement_vgoodI hw _ _ (acceptExprs_vgoodI hw es s h)
  | .def c v ps e, s, h => by
    rw [acceptStmt]
    exact visitStatement_vgoodI hw _ _
      (acceptExpr_vgoodI hw e _ (acceptVars_vgoodI hw ps _ (acceptVar_vgoodI hw v s h)))
  | .defdbl c a b, s, h => by
    rw [acceptStmt]; exact visitStatement_vgoodI hw _ _ (acceptVar_vgoodI hw b _ (acceptVar_vgoodI hw a s h))
  | .defint c a b, s, h => by
    rw [acceptStmt]; exact visitStatement_vgoodI hw _ _ (acceptVar_vgoodI hw b _ (acceptVar_vgoodI hw a s h))
  | .defsng c a b, s, h => by
    rw [acceptStmt]; exact visitStatement_vgoodI hw _ _ (acceptVar_vgoodI hw b _ (acceptVar_vgoodI hw a s h))
  | .defstr c a b, s, h => by
    rw [acceptStmt]; exact visitStatement_vgoodI hw _ _ (acceptVar_vgoodI hw b _ (acceptVar_vgoodI hw a s h))
  | .swap c a b, s, h => by
    rw [acceptStmt]; exact visitStatement_vgoodI hw _ _ (acceptVar_vgoodI hw b _ (acceptVar_vgoodI hw a s h))
  | .mid c v e1 e2 e3, s, h => by
    rw [acceptStmt]
    exact visitStatement_vgoodI hw _ _
      (acceptExpr_vgoodI hw e3 _ (acceptExpr_vgoodI hw e2 _ (acceptExpr_vgoodI hw e1 _ (acceptVar_vgoodI hw v s h))))
  | .for c v e1 e2 e3, s, h => by
    rw [acceptStmt]
    exact visitStatement_vgoodI hw _ _
      (acceptExpr_vgoodI hw e3 _ (acceptExpr_vgoodI hw e2 _ (acceptExpr_vgoodI hw e1 _ (acceptVar_vgoodI hw v s h))))
  | .gosub c e, s, h => by rw [acceptStmt]; exact visitStatement_vgoodI hw _ _ (acceptExpr_vgoodI hw e s h)
  | .goto c e, s, h => by rw [acceptStmt]; exact visitStatement_vgoodI hw _ _ (acceptExpr_vgoodI hw e s h)
  | .load c e, s, h => by rw [acceptStmt]; exact visitStatement_vgoodI hw _ _ (acceptExpr_vgoodI hw e s h)
  | .restore c e, s, h => by rw [acceptStmt]; exact visitStatement_vgoodI hw _ _ (acceptExpr_vgoodI hw e s h)
  | .run c e, s, h => by rw [acceptStmt]; exact visitStatement_vgoodI hw _ _ (acceptExpr_vgoodI hw e s h)
  | .save c e, s, h => by rw [acceptStmt]; exact visitStatement_vgoodI hw _ _ (acceptExpr_vgoodI hw e s h)
  | .while c e, s, h => by rw [acceptStmt]; exact visitStatement_vgoodI hw _ _ (acceptExpr_vgoodI hw e s h)
  | .if c p th el, s, h => by
    rw [acceptStmt]
    exact visitStatement_vgoodI hw _ _
      (acceptStmts_vgoodI hw el _ (acceptStmts_vgoodI hw th _ (acceptExpr_vgoodI hw p s h)))
  | .let c v e, s, h => by
    rw [acceptStmt]; exact visitStatement_vgoodI hw _ _ (acceptExpr_vgoodI hw e _ (acceptVar_vgoodI hw v s h))
  | .delete c a b, s, h => by
    rw [acceptStmt]; exact visitStatement_vgoodI hw _ _ (acceptExpr_vgoodI hw b _ (acceptExpr_vgoodI hw a s h))
  | .list c a b, s, h => by
    rw [acceptStmt]; exact visitStatement_vgoodI hw _ _ (acceptExpr_vgoodI hw b _ (acceptExpr_vgoodI hw a s h))
  | .input c e1 e2 vs, s, h => by
    rw [acceptStmt]
    exact visitStatement_vgoodI hw _ _
      (acceptVars_vgoodI hw vs _ (acceptExpr_vgoodI hw e2 _ (acceptExpr_vgoodI hw e1 s h)))
  | .onGoto c e ls, s, h => by
    rw [acceptStmt]; exact visitStatement_vgoodI hw _ _ (acceptExprs_vgoodI hw ls _ (acceptExpr_vgoodI hw e s h))
  | .onGosub c e ls, s, h => by
    rw [acceptStmt]; exact visitStatement_vgoodI hw _ _ (acceptExprs_vgoodI hw ls _ (acceptExpr_vgoodI hw e s h))
  | .renum c a b st, s, h => by
    rw [acceptStmt]
    exact visitStatement_vgoodI hw _ _
      (acceptExpr_vgoodI hw st _ (acceptExpr_vgoodI hw b _ (acceptExpr_vgoodI hw a s h)))
  | .dim c vs, s, h => by rw [acceptStmt]; exact visitStatement_vgoodI hw _ _ (acceptVars_vgoodI hw vs s h)
  | .erase c vs, s, h => by rw [acceptStmt]; exact visitStatement_vgoodI hw _ _ (acceptVars_vgoodI hw vs s h)
  | .next c vs, s, h => by rw [acceptStmt]; exact visitStatement_vgoodI hw _ _ (acceptVars_vgoodI hw vs s h)
  | .read c vs, s, h => by rw [acceptStmt]; exact visitStatement_vgoodI hw _ _ (acceptVars_vgoodI hw vs s h)
  | .clear c, s, h => by rw [acceptStmt] <;> first | exact visitStatement_vgoodI hw _ _ h | nofun
  | .cls c, s, h => by rw [acceptStmt] <;> first | exact visitStatement_vgoodI hw _ _ h | nofun
  | .cont c, s, h => by rw [acceptStmt] <;> first | exact visitStatement_vgoodI hw _ _ h | nofun
  | .end c, s, h => by rw [acceptStmt] <;> first | exact visitStatement_vgoodI hw _ _ h | nofun
  | .new c, s, h => by rw [acceptStmt] <;> first | exact visitStatement_vgoodI hw _ _ h | nofun
  | .return c, s, h => by rw [acceptStmt] <;> first | exact visitStatement_vgoodI hw _ _ h | nofun
  | .stop c, s, h => by rw [acceptStmt] <;> first | exact visitStatement_vgoodI hw _ _ h | nofun
  | .troff c, s, h => by rw [acceptStmt] <;> first | exact visitStatement_vgoodI hw _ _ h | nofun
  | .tron c, s, h => by rw [acceptStmt] <;> first | exact visitStatement_vgoodI hw _ _ h | nofun
  | .wend c, s, h => by rw [acceptStmt] <;> first | exact visitStatement_vgoodI hw _ _ h | nofun
theorem acceptStmts_vgoodI (hw : Walk I) : ∀ (sts : List Stmt) (s : VState), VGoodI I s.g → VGoodI I (acceptStmts sts s).g
  | [], s, h => by rw [acceptStmts]; exact h
  | st :: sts, s, h => by rw [acceptStmts]; exact acceptStmts_vgoodI hw sts _ (acceptStmt_vgoodI hw st s h)
end

/-- every statement fragment handed to `codegen` satisfies the statement invariant -/
theorem fragments_inv (hw : Walk I) (ast : List Stmt) : ∀ x ∈ (acceptStmts ast {}).g.stmt.toList, I.S x.2 :=
  (acceptStmts_vgoodI hw ast {} VGoodI.empty).stmt

/-! ### instance 3: marks sit on their branches -/

/-- the two instructions a WHILE/WEND mark is attached to, as the generator emits them -/
def MarkOp (op : Opcode) : Prop := op = .jump 0 ∨ op = .ifNot 0

/-- every WHILE/WEND mark of `l` points at its `jump 0` / `ifNot 0` -/
def WhilesOps (l : Link) : Prop := ∀ w ∈ l.whiles, ∃ op, l.ops[w.2.2.1]? = some op ∧ MarkOp op

theorem getElem?_push_of_some {γ : Type} {xs : Array γ} {i : Nat} {x y : γ} (h : xs[i]? = some x) :
    (xs.push y)[i]? = some x := by
  have hlt : i < xs.size := by
    rcases Nat.lt_or_ge i xs.size with h' | h'
    · exact h'
    · rw [Array.getElem?_eq_none h'] at h; cases h
  rw [Array.getElem?_push, if_neg (by omega)]
  exact h

theorem getElem?_append_of_some {γ : Type} {xs ys : Array γ} {i : Nat} {x : γ} (h : xs[i]? = some x) :
    (xs ++ ys)[i]? = some x := by
  have hlt : i < xs.size := by
    rcases Nat.lt_or_ge i xs.size with h' | h'
    · exact h'
    · rw [Array.getElem?_eq_none h'] at h; cases h
  rw [Array.getElem?_append_left hlt]
  exact h

theorem WhilesOps.empty : WhilesOps {} := fun _ h => nomatch h

theorem WhilesOps.push {l : Link} (h : WhilesOps l) (op : Opcode) : WhilesOps (l.push op).1 := by
  intro w hw
  obtain ⟨o, h1, h2⟩ := h w hw
  exact ⟨o, getElem?_push_of_some h1, h2⟩

theorem WhilesOps.appended {a b : Link} (ha : WhilesOps a) (hb : WhilesOps b) : WhilesOps (appended a b) := by
  intro w hw
  rcases List.mem_append.1 (show w ∈ a.whiles ++ _ from hw) with h | h
  · obtain ⟨o, h1, h2⟩ := ha w h
    exact ⟨o, getElem?_append_of_some h1, h2⟩
  · obtain ⟨q, hq, rfl⟩ := List.mem_map.1 h
    obtain ⟨o, h1, h2⟩ := hb q hq
    refine ⟨o, ?_, h2⟩
    show (a.ops ++ b.ops)[q.2.2.1 + a.ops.size]? = _
    rw [Array.getElem?_append_right (by omega), Nat.add_sub_cancel]
    exact h1

theorem WhilesOps.append {a b : Link} (ha : WhilesOps a) (hb : WhilesOps b) : WhilesOps (a.append b).1 := by
  rcases append_cases a b with ⟨_, _, e⟩ | ⟨_, e⟩ | ⟨_, _, e⟩ | ⟨_, _, e⟩
  · rw [e]; exact ha
  · rw [e]; exact ha.appended hb
  · rw [e]; exact ha.appended hb
  · rw [e]; exact ha.appended hb

theorem WhilesOps.mark {l : Link} (h : WhilesOps l) (k : Bool) (c : Col) (s : Symbol) (op : Opcode) (hop : MarkOp op) :
    WhilesOps (({ l with whiles := l.whiles ++ [(k, c, l.ops.size, s)] } : Link).push op).1 := by
  intro w hw
  rcases List.mem_append.1 (show w ∈ l.whiles ++ [(k, c, l.ops.size, s)] from hw) with h' | h'
  · obtain ⟨o, h1, h2⟩ := h w h'
    exact ⟨o, getElem?_push_of_some h1, h2⟩
  · rw [List.mem_singleton] at h'
    subst h'
    refine ⟨op, ?_, hop⟩
    show (l.ops.push op)[l.ops.size]? = some op
    simp

/-- variable and expression fragments carry no marks at all -/
def NoWhiles (l : Link) : Prop := l.whiles = []

theorem NoWhiles.whilesOps {l : Link} (h : NoWhiles l) : WhilesOps l := by
  intro w hw
  rw [show l.whiles = [] from h] at hw
  cases hw

theorem NoWhiles.append {a b : Link} (ha : NoWhiles a) (hb : NoWhiles b) : NoWhiles (a.append b).1 := by
  have : NoWhiles (appended a b) := by
    show a.whiles ++ b.whiles.map _ = []
    rw [show a.whiles = [] from ha, show b.whiles = [] from hb]
    rfl
  rcases append_cases a b with ⟨_, _, e⟩ | ⟨_, e⟩ | ⟨_, _, e⟩ | ⟨_, _, e⟩
  · rw [e]; exact ha
  · rw [e]; exact this
  · rw [e]; exact this
  · rw [e]; exact this

/-- the invariant: marks on their branches in the fragment under construction and in statement
    fragments; no marks in variable and expression fragments -/
def wInv : Inv := ⟨WhilesOps, NoWhiles, WhilesOps, fun _ => True⟩

theorem wOk : Ok wInv where
  push := fun _ op h => WhilesOps.push h op
  nextSymbol := fun _ h => h
  pushSymbol := fun _ _ h => h
  append := fun _ _ ha hb => WhilesOps.append ha (NoWhiles.whilesOps hb)

theorem wMark : MarkOk wInv where
  markJump := fun _ k c s h => WhilesOps.mark h k c s _ (.inl rfl)
  markIfNot := fun _ k c s h => WhilesOps.mark h k c s _ (.inr rfl)

theorem wOkE : Ok wInv.ex where
  push := fun _ _ h => h
  nextSymbol := fun _ h => h
  pushSymbol := fun _ _ h => h
  append := fun _ _ ha hb => NoWhiles.append ha hb

theorem nw_transformToData {l : Link} (h : NoWhiles l) (c : Col) : NoWhiles (transformToData l c).1 := by
  unfold transformToData
  dsimp only
  repeat' split
  all_goals exact h

theorem wWalk : Walk wInv where
  okC := wOk
  okR := RefOk.of wOk (fun _ _ _ h => h)
  okM := wMark
  okE := wOkE
  td := fun _ c h => nw_transformToData h c
  appS := fun _ _ ha hb => WhilesOps.append ha hb
  emptyC := WhilesOps.empty
  emptyE := rfl
  done := fun _ h => h
  k := fun _ => trivial

/-- every statement fragment has its marks on their branches -/
theorem fragments_whilesOps (ast : List Stmt) : ∀ x ∈ (acceptStmts ast {}).g.stmt.toList, WhilesOps x.2 :=
  fragments_inv wWalk ast

/-! ### the program image before linking -/

/-- what `codegen` keeps of the program's link, given it of the fragments: the marks, the distinct
    reference addresses -/
theorem appendAll_whilesOps : ∀ (frags : List (Col × Link)) (link : Link) (errs : List Error),
    (∀ x ∈ frags, WhilesOps x.2) → WhilesOps link → KeysDistinct link.unlinked →
    WhilesOps (codegen.appendAll frags link errs).1 ∧ KeysDistinct (codegen.appendAll frags link errs).1.unlinked
  | [], link, errs, _, hl, hk => by simp only [codegen.appendAll]; exact ⟨hl, hk⟩
  | (c, f) :: rest, link, errs, hf, hl, hk => by
    simp only [codegen.appendAll]
    have h1 : WhilesOps (link.append f).1 := hl.append (hf (c, f) List.mem_cons_self)
    have h2 : KeysDistinct (link.append f).1.unlinked := by
      rcases append_cases link f with ⟨_, _, e⟩ | ⟨_, e⟩ | ⟨_, _, e⟩ | ⟨_, _, e⟩
      · rw [e]; exact hk
      · rw [e]; exact appendUnlinked_distinct hk
      · rw [e]; exact appendUnlinked_distinct hk
      · rw [e]; exact appendUnlinked_distinct hk
    rcases hr : link.append f with ⟨l', r⟩
    rw [hr] at h1 h2
    cases r with
    | ok u => exact appendAll_whilesOps rest l' errs (fun x hx => hf x (List.mem_cons_of_mem _ hx)) h1 h2
    | error e => exact ⟨h1, h2⟩

theorem codegen_whilesOps (link : Link) (ast : List Stmt) (hl : WhilesOps link) (hk : KeysDistinct link.unlinked) :
    WhilesOps (Codegen.codegen link ast).1 ∧ KeysDistinct (Codegen.codegen link ast).1.unlinked := by
  unfold Codegen.codegen
  exact appendAll_whilesOps _ _ _ (fragments_whilesOps ast) hl hk

theorem codegenLine_whilesOps (p : Program) (line : Line) (n : Nat) (hn : line.number = some n)
    (hl : WhilesOps p.link) (hk : KeysDistinct p.link.unlinked) :
    WhilesOps (p.codegenLine line).link ∧ KeysDistinct (p.codegenLine line).link.unlinked := by
  unfold Program.codegenLine
  simp only [hn, Option.isNone_some, Bool.false_eq_true, if_false]
  split
  · exact ⟨hl, hk⟩
  · exact codegen_whilesOps (p.link.pushSymbol n) _ hl hk

theorem codegenLines_whilesOps : ∀ (lines : List Line) (p : Program), (∀ l ∈ lines, ∃ n : Nat, l.number = some n) →
    WhilesOps p.link → KeysDistinct p.link.unlinked →
    WhilesOps (p.codegenLines lines).link ∧ KeysDistinct (p.codegenLines lines).link.unlinked
  | [], p, _, hl, hk => ⟨hl, hk⟩
  | l :: ls, p, hnum, hl, hk => by
    obtain ⟨n, hn⟩ := hnum l List.mem_cons_self
    obtain ⟨h1, h2⟩ := codegenLine_whilesOps p l n hn hl hk
    exact codegenLines_whilesOps ls _ (fun x hx => hnum x (List.mem_cons_of_mem _ hx)) h1 h2

/-! ### a pending reference stays where it is -/

/-- the instruction at `a` is `op`; `x = some (c, sym)`: it waits for the symbol `sym`; `x = none`:
    nothing is pending on it -/
def PendingAt (l : Link) (a : Nat) (op : Opcode) (x : Option (Col × Symbol)) : Prop :=
  l.ops[a]? = some op ∧ l.unlinked.lookup a = x

theorem PendingAt.push {l : Link} {a : Nat} {op : Opcode} {x : Option (Col × Symbol)} (h : PendingAt l a op x) (o : Opcode) :
    PendingAt (l.push o).1 a op x := ⟨getElem?_push_of_some h.1, h.2⟩

theorem PendingAt.pushSymbol {l : Link} {a : Nat} {op : Opcode} {x : Option (Col × Symbol)} (h : PendingAt l a op x)
    (s : Symbol) : PendingAt (l.pushSymbol s) a op x := h

theorem PendingAt.append {l : Link} {a : Nat} {op : Opcode} {x : Option (Col × Symbol)} (h : PendingAt l a op x) (f : Link) :
    PendingAt (l.append f).1 a op x := by
  have hlt : a < l.ops.size := by
    rcases Nat.lt_or_ge a l.ops.size with h' | h'
    · exact h'
    · have := h.1; rw [Array.getElem?_eq_none h'] at this; cases this
  have happ : PendingAt (appended l f) a op x :=
    ⟨getElem?_append_of_some h.1, (appendUnlinked_lookup_left l f a hlt).trans h.2⟩
  rcases append_cases l f with ⟨_, _, e⟩ | ⟨_, e⟩ | ⟨_, _, e⟩ | ⟨_, _, e⟩
  · rw [e]; exact h
  · rw [e]; exact happ
  · rw [e]; exact happ
  · rw [e]; exact happ

theorem PendingAt.appendAll {a : Nat} {op : Opcode} {x : Option (Col × Symbol)} :
    ∀ (frags : List (Col × Link)) (link : Link) (errs : List Error), PendingAt link a op x →
      PendingAt (codegen.appendAll frags link errs).1 a op x
  | [], link, errs, h => by simp only [codegen.appendAll]; exact h
  | (c, f) :: rest, link, errs, h => by
    simp only [codegen.appendAll]
    have h1 := h.append f
    rcases hr : link.append f with ⟨l', r⟩
    rw [hr] at h1
    cases r with
    | ok u => exact PendingAt.appendAll rest l' errs h1
    | error e => exact h1

theorem PendingAt.codegen {l : Link} {a : Nat} {op : Opcode} {x : Option (Col × Symbol)} (h : PendingAt l a op x)
    (ast : List Stmt) : PendingAt (Codegen.codegen l ast).1 a op x := by
  unfold Codegen.codegen
  exact PendingAt.appendAll _ _ _ h

theorem PendingAt.codegenLine {p : Program} {a : Nat} {op : Opcode} {x : Option (Col × Symbol)} (h : PendingAt p.link a op x)
    (line : Line) (n : Nat) (hn : line.number = some n) : PendingAt (p.codegenLine line).link a op x := by
  unfold Program.codegenLine
  simp only [hn, Option.isNone_some, Bool.false_eq_true, if_false]
  split
  · exact h
  · exact PendingAt.codegen (l := p.link.pushSymbol n) h _

theorem PendingAt.codegenLines {a : Nat} {op : Opcode} {x : Option (Col × Symbol)} :
    ∀ (lines : List Line) (p : Program), (∀ l ∈ lines, ∃ n : Nat, l.number = some n) → PendingAt p.link a op x →
      PendingAt (p.codegenLines lines).link a op x
  | [], _, _, h => h
  | l :: ls, p, hnum, h => by
    obtain ⟨n, hn⟩ := hnum l List.mem_cons_self
    exact PendingAt.codegenLines ls _ (fun y hy => hnum y (List.mem_cons_of_mem _ hy)) (h.codegenLine l n hn)

/-! ### `linkWhiles` does not displace it -/

theorem mem_bracketAux {γ : Type} : ∀ (ws : List (Bool × γ)) (st : List γ) (pr : γ × γ),
    pr ∈ (Spec.bracketAux ws st).1 → (pr.1 ∈ st ∨ (true, pr.1) ∈ ws) ∧ (false, pr.2) ∈ ws
  | [], st, pr, h => by simp [Spec.bracketAux] at h
  | (true, x) :: rest, st, pr, h => by
    simp only [Spec.bracketAux] at h
    obtain ⟨h1, h2⟩ := mem_bracketAux rest (x :: st) pr h
    refine ⟨?_, List.mem_cons_of_mem _ h2⟩
    rcases h1 with h1 | h1
    · rcases List.mem_cons.1 h1 with e | h1
      · exact .inr (by rw [e]; exact List.mem_cons_self)
      · exact .inl h1
    · exact .inr (List.mem_cons_of_mem _ h1)
  | (false, x) :: rest, [], pr, h => by
    simp only [Spec.bracketAux] at h
    obtain ⟨h1, h2⟩ := mem_bracketAux rest [] pr h
    exact ⟨h1.elim (fun h => .inl h) (fun h => .inr (List.mem_cons_of_mem _ h)), List.mem_cons_of_mem _ h2⟩
  | (false, x) :: rest, w :: st, pr, h => by
    simp only [Spec.bracketAux] at h
    rcases List.mem_cons.1 h with e | h
    · subst e
      exact ⟨.inl List.mem_cons_self, List.mem_cons_self⟩
    · obtain ⟨h1, h2⟩ := mem_bracketAux rest st pr h
      refine ⟨?_, List.mem_cons_of_mem _ h2⟩
      rcases h1 with h1 | h1
      · exact .inl (List.mem_cons_of_mem _ h1)
      · exact .inr (List.mem_cons_of_mem _ h1)

/-- the references `linkWhiles` adds replace only references at mark addresses -/
theorem foldl_pairRefs_lookup (prs : List (Mark × Mark)) (u : List (Nat × (Col × Symbol))) (a : Nat)
    (h : ∀ pr ∈ prs, pr.1.2.1 ≠ a ∧ pr.2.2.1 ≠ a) : (prs.foldl pairRefs u).lookup a = u.lookup a := by
  induction prs generalizing u with
  | nil => rfl
  | cons pr rest ih =>
    rw [List.foldl_cons, ih _ (fun q hq => h q (List.mem_cons_of_mem _ hq))]
    obtain ⟨h1, h2⟩ := h pr List.mem_cons_self
    unfold pairRefs
    rw [unlInsert_lookup, if_neg (fun e => h2 e.symm), unlInsert_lookup, if_neg (fun e => h1 e.symm)]

theorem mem_of_lookup_nat {δ : Type} {m : List (Nat × δ)} {k : Nat} {v : δ} (h : m.lookup k = some v) : (k, v) ∈ m := by
  induction m with
  | nil => cases h
  | cons hd tl ih =>
    obtain ⟨k', v'⟩ := hd
    rw [lookup_cons_eq_nat] at h
    by_cases e : k = k'
    · rw [if_pos e] at h
      cases h
      rw [e]; exact List.mem_cons_self
    · rw [if_neg e] at h
      exact List.mem_cons_of_mem _ (ih h)

theorem lookup_isSome_of_mem_nat {δ : Type} {m : List (Nat × δ)} {p : Nat × δ} (h : p ∈ m) : (m.lookup p.1).isSome := by
  induction m with
  | nil => cases h
  | cons hd tl ih =>
    rw [lookup_cons_eq_nat]
    by_cases e2 : p.1 = hd.1
    · rw [if_pos e2]; rfl
    · rw [if_neg e2]
      rcases List.mem_cons.1 h with e3 | h3
      · exact absurd (by rw [e3]) e2
      · exact ih h3

/-- an instruction that is not a mark's branch keeps its pending reference through `linkWhiles` -/
theorem linkWhiles_keeps_pending {l : Link} (hw : WhilesOps l) {a : Nat} {op : Opcode} {x : Col × Symbol}
    (h : PendingAt l a op (some x)) (hop : ¬ MarkOp op) : (a, x) ∈ l.linkWhiles.1.unlinked := by
  rw [linkWhiles_matches]
  apply mem_of_lookup_nat
  show ((Spec.bracketMatch l.whiles).1.foldl pairRefs l.unlinked).lookup a = some x
  rw [foldl_pairRefs_lookup _ _ a, h.2]
  intro pr hpr
  obtain ⟨h1, h2⟩ := mem_bracketAux l.whiles [] pr hpr
  have key : ∀ (k : Bool) (mk : Mark), (k, mk) ∈ l.whiles → mk.2.1 ≠ a := by
    intro k mk hm e
    obtain ⟨o, ho, hmo⟩ := hw (k, mk) hm
    have : l.ops[a]? = some o := by rw [← e]; exact ho
    rw [h.1] at this
    cases this
    exact hop hmo
  refine ⟨?_, key false pr.2 h2⟩
  rcases h1 with h1 | h1
  · cases h1
  · exact key true pr.1 h1

/-- **`RESTORE n` is patched to the data address of line `n`**: in a link whose marks sit on their
    branches, an instruction `restore _` waiting for a symbol that is defined ends up as
    `restore d`, `d` the data address recorded for the symbol -/
theorem link_restore_resolves (l : Link) (hk : KeysDistinct l.unlinked) (hw : WhilesOps l) (a y : Nat) (c : Col)
    (sym : Symbol) (o d : Nat) (hp : PendingAt l a (.restore y) (some (c, sym))) (hsym : l.symbols.lookup sym = some (o, d)) :
    l.link.1.ops[a]? = some (.restore d) :=
  link_resolves l hk a c sym (linkWhiles_keeps_pending hw hp (by rintro (h | h) <;> cases h)) hsym hp.1 rfl

/-- an instruction nobody waits on is left alone by the linker -/
theorem link_keeps_unreferenced (l : Link) (hw : WhilesOps l) (a : Nat) (op : Opcode) (hop : l.ops[a]? = some op)
    (hm : ¬ MarkOp op) (hu : l.unlinked.lookup a = none) : l.link.1.ops[a]? = some op := by
  rw [link_eq]
  show (l.linkWhiles.1.unlinked.foldl linkStep ({ l.linkWhiles.1 with unlinked := [] }, l.linkWhiles.2)).1.ops[a]? = _
  rw [foldl_linkStep_ops_other]
  · rw [linkWhiles_matches]; exact hop
  · intro p hp e
    have hlk : l.linkWhiles.1.unlinked.lookup a = none := by
      rw [linkWhiles_matches]
      show ((Spec.bracketMatch l.whiles).1.foldl pairRefs l.unlinked).lookup a = none
      rw [foldl_pairRefs_lookup _ _ a, hu]
      intro pr hpr
      obtain ⟨h1, h2⟩ := mem_bracketAux l.whiles [] pr hpr
      have key : ∀ (k : Bool) (mk : Mark), (k, mk) ∈ l.whiles → mk.2.1 ≠ a := by
        intro k mk hmm e'
        obtain ⟨o, ho, hmo⟩ := hw (k, mk) hmm
        have : l.ops[a]? = some o := by rw [← e']; exact ho
        rw [hop] at this
        cases this
        exact hm hmo
      refine ⟨?_, key false pr.2 h2⟩
      rcases h1 with h1 | h1
      · cases h1
      · exact key true pr.1 h1
    have : (l.linkWhiles.1.unlinked.lookup a).isSome := by
      rw [← e]
      exact lookup_isSome_of_mem_nat hp
    rw [hlk] at this
    cases this

/-! ### instance 4: reference addresses lie below the end of the code -/

/-- every pending reference belongs to an instruction that is there -/
def RefBounded (l : Link) : Prop := ∀ p ∈ l.unlinked, p.1 < l.ops.size

/-- variable and expression fragments have no pending references -/
def NoRefs (l : Link) : Prop := l.unlinked = []

theorem RefBounded.empty : RefBounded {} := fun _ h => nomatch h

theorem RefBounded.push {l : Link} (h : RefBounded l) (op : Opcode) : RefBounded (l.push op).1 := by
  intro p hp
  have := h p hp
  show p.1 < (l.ops.push op).size
  rw [Array.size_push]; omega

theorem RefBounded.appended {a b : Link} (ha : RefBounded a) (hb : RefBounded b) : RefBounded (appended a b) := by
  intro p hp
  show p.1 < (a.ops ++ b.ops).size
  rw [Array.size_append]
  rcases mem_appendUnlinked (show p ∈ appendUnlinked a b from hp) with h | ⟨q, hq, rfl⟩
  · have := ha p h; omega
  · have := hb q hq
    show q.1 + a.ops.size < _
    omega

theorem RefBounded.append {a b : Link} (ha : RefBounded a) (hb : RefBounded b) : RefBounded (a.append b).1 := by
  rcases append_cases a b with ⟨_, _, e⟩ | ⟨_, e⟩ | ⟨_, _, e⟩ | ⟨_, _, e⟩
  · rw [e]; exact ha
  · rw [e]; exact ha.appended hb
  · rw [e]; exact ha.appended hb
  · rw [e]; exact ha.appended hb

theorem NoRefs.refBounded {l : Link} (h : NoRefs l) : RefBounded l := by
  intro p hp
  rw [show l.unlinked = [] from h] at hp
  cases hp

theorem NoRefs.append {a b : Link} (ha : NoRefs a) (hb : NoRefs b) : NoRefs (a.append b).1 := by
  have : NoRefs (appended a b) := by
    show appendUnlinked a b = []
    unfold appendUnlinked
    rw [show b.unlinked = [] from hb]
    exact ha
  rcases append_cases a b with ⟨_, _, e⟩ | ⟨_, e⟩ | ⟨_, _, e⟩ | ⟨_, _, e⟩
  · rw [e]; exact ha
  · rw [e]; exact this
  · rw [e]; exact this
  · rw [e]; exact this

/-- a reference recorded together with its instruction -/
theorem RefBounded.ref {l : Link} (h : RefBounded l) (c : Col) (s : Symbol) (op : Opcode) :
    RefBounded ((l.addUnlinked c s).push op).1 := by
  intro p hp
  show p.1 < (l.ops.push op).size
  rw [Array.size_push]
  rcases mem_unlInsert (show p ∈ unlInsert l.ops.size (c, s) l.unlinked from hp) with e | ⟨hm, _⟩
  · rw [e]; exact Nat.lt_succ_self _
  · have := h p hm; omega

def rInv : Inv := ⟨RefBounded, NoRefs, RefBounded, fun _ => True⟩

theorem rOk : Ok rInv where
  push := fun _ op h => RefBounded.push h op
  nextSymbol := fun _ h => h
  pushSymbol := fun _ _ h => h
  append := fun _ _ ha hb => RefBounded.append ha (NoRefs.refBounded hb)

theorem rMark : MarkOk rInv where
  markJump := fun l _ _ _ h => RefBounded.push (l := { l with whiles := _ }) h _
  markIfNot := fun l _ _ _ h => RefBounded.push (l := { l with whiles := _ }) h _

theorem rOkE : Ok rInv.ex where
  push := fun _ _ h => h
  nextSymbol := fun _ h => h
  pushSymbol := fun _ _ h => h
  append := fun _ _ ha hb => NoRefs.append ha hb

/-- the calculus rule for "record a reference, push its instruction" -/
theorem ph_ref {I : Inv} (hrp : ∀ l c s op, I.C l → I.C ((l.addUnlinked c s).push op).1) (c : Col) (sym : Symbol)
    (op : Opcode) {Q : β → Prop} (rest : Unit → GM β) (hrest : ∀ u, PH I (rest u) Q) :
    PH I (laddUnlinked c sym >>= fun _ => lpush op >>= rest) Q := by
  constructor
  intro g hg
  have hl : (laddUnlinked c sym).run.run g = (.ok (), { g with cur := g.cur.addUnlinked c sym }) := d_modify _ g
  rw [d_bind_ok hl, d_bind, d_lpush]
  have hg' : PGood I { g with cur := ((g.cur.addUnlinked c sym).push op).1 } := hg.setCur (hrp _ c sym op hg.cur)
  cases hr : ((g.cur.addUnlinked c sym).push op).2 with
  | ok u => exact (hrest u).run _ hg'
  | error e => exact ⟨hg', fun b hb => by cases hb⟩

theorem ph_ref_last {I : Inv} (hrp : ∀ l c s op, I.C l → I.C ((l.addUnlinked c s).push op).1) (c : Col) (sym : Symbol)
    (op : Opcode) : PH I (laddUnlinked c sym >>= fun _ => lpush op) T := by
  have := ph_ref (I := I) (Q := T) hrp c sym op (fun u => pure u) (fun _ => PH.ret trivial)
  simpa using this

theorem rRef : RefOk rInv := by
  have hrp : ∀ l c s op, rInv.C l → rInv.C ((l.addUnlinked c s).push op).1 := fun _ c s op h => RefBounded.ref h c s op
  have hC := rOk
  refine ⟨?_, ?_, ?_, ?_, ?_, ?_, ?_, ?_⟩
  · intro c sym; unfold Codegen.pushJump; exact ph_ref_last hrp c sym _
  · intro c sym; unfold Codegen.pushIfnot; exact ph_ref_last hrp c sym _
  · intro c sym; unfold Codegen.pushReturnVal; exact ph_ref_last hrp c sym _
  · intro c ln
    unfold Codegen.pushGoto
    exact PH.seq_any (PH.lift _) fun sym => ph_ref_last hrp c sym _
  · intro c ln
    unfold Codegen.pushGosub
    refine PH.seq_any (ph_lnextSymbol hC) ?_
    intro ret
    refine PH.seq_any (by unfold Codegen.pushReturnVal; exact ph_ref_last hrp c ret _) ?_
    intro _
    refine PH.seq_any (PH.lift _) ?_
    intro sym
    exact ph_ref hrp c sym _ _ (fun _ => ph_lpushSymbol hC ret)
  · intro c
    unfold Codegen.pushFor
    refine PH.seq_any (ph_lnextSymbol hC) ?_
    intro nxt
    exact ph_ref hrp c nxt _ _ (fun _ => ph_lpushSymbol hC nxt)
  · intro c ln
    unfold Codegen.pushRestore
    cases ln with
    | none =>
      simp only [Option.isSome_none, Bool.false_eq_true, if_false]
      exact ph_lpush hC _
    | some n =>
      simp only [Option.isSome_some, if_true, bind_assoc]
      exact PH.seq_any (PH.lift _) fun sym => ph_ref_last hrp c sym _
  · intro c ln
    unfold Codegen.pushRun
    refine PH.seq_any (ph_lpush hC _) ?_
    intro _
    cases ln with
    | none =>
      simp only [Option.isSome_none, Bool.false_eq_true, if_false]
      exact ph_lpush hC _
    | some n =>
      simp only [Option.isSome_some, if_true, bind_assoc]
      exact PH.seq_any (PH.lift _) fun sym => ph_ref_last hrp c sym _

theorem nr_transformToData {l : Link} (h : NoRefs l) (c : Col) : NoRefs (transformToData l c).1 := by
  unfold transformToData
  dsimp only
  repeat' split
  all_goals exact h

theorem rWalk : Walk rInv where
  okC := rOk
  okR := rRef
  okM := rMark
  okE := rOkE
  td := fun _ c h => nr_transformToData h c
  appS := fun _ _ ha hb => RefBounded.append ha hb
  emptyC := RefBounded.empty
  emptyE := rfl
  done := fun _ h => h
  k := fun _ => trivial

/-- every statement fragment has its reference addresses inside its code -/
theorem fragments_refBounded (ast : List Stmt) : ∀ x ∈ (acceptStmts ast {}).g.stmt.toList, RefBounded x.2 :=
  fragments_inv rWalk ast

theorem appendAll_refBounded : ∀ (frags : List (Col × Link)) (link : Link) (errs : List Error),
    (∀ x ∈ frags, RefBounded x.2) → RefBounded link → RefBounded (codegen.appendAll frags link errs).1
  | [], link, errs, _, hl => by simp only [codegen.appendAll]; exact hl
  | (c, f) :: rest, link, errs, hf, hl => by
    simp only [codegen.appendAll]
    have h1 : RefBounded (link.append f).1 := hl.append (hf (c, f) List.mem_cons_self)
    rcases hr : link.append f with ⟨l', r⟩
    rw [hr] at h1
    cases r with
    | ok u => exact appendAll_refBounded rest l' errs (fun x hx => hf x (List.mem_cons_of_mem _ hx)) h1
    | error e => exact h1

theorem codegenLine_refBounded (p : Program) (line : Line) (n : Nat) (hn : line.number = some n)
    (hl : RefBounded p.link) : RefBounded (p.codegenLine line).link := by
  unfold Program.codegenLine
  simp only [hn, Option.isNone_some, Bool.false_eq_true, if_false]
  split
  · exact hl
  · unfold Codegen.codegen
    exact appendAll_refBounded _ _ _ (fragments_refBounded _) hl

/-- **the compile state has no stale reference**: every pending reference points below the end of the code -/
theorem codegenLines_refBounded : ∀ (lines : List Line) (p : Program), (∀ l ∈ lines, ∃ n : Nat, l.number = some n) →
    RefBounded p.link → RefBounded (p.codegenLines lines).link
  | [], _, _, hl => hl
  | l :: ls, p, hnum, hl => by
    obtain ⟨n, hn⟩ := hnum l List.mem_cons_self
    exact codegenLines_refBounded ls _ (fun x hx => hnum x (List.mem_cons_of_mem _ hx))
      (codegenLine_refBounded p l n hn hl)

theorem RefBounded.lookup_end {l : Link} (h : RefBounded l) : l.unlinked.lookup l.ops.size = none := by
  cases hl : l.unlinked.lookup l.ops.size with
  | none => rfl
  | some x =>
    have := h _ (mem_of_lookup_nat hl)
    exact absurd this (Nat.lt_irrefl _)

/-! ### `RESTORE n` at the head of a line -/

/-- appending the fragment of `RESTORE [n]`: the instruction lands at the end of the code, waiting for
    the symbol of line `n` if there is an operand (whether or not the append overflows) -/
theorem pendingAt_append_restore (l : Link) (sub : Col) (ln : Option Nat)
    (hfree : ln = none → l.unlinked.lookup l.ops.size = none) :
    PendingAt (l.append (restoreFrag sub ln)).1 l.ops.size (.restore 0) (ln.map fun n => (sub, (n : Int))) := by
  have hops : (restoreFrag sub ln).ops = #[.restore 0] := by cases ln <;> rfl
  have hdata : (restoreFrag sub ln).data = #[] := by cases ln <;> rfl
  have happ : PendingAt (appended l (restoreFrag sub ln)) l.ops.size (.restore 0) (ln.map fun n => (sub, (n : Int))) := by
    refine ⟨?_, ?_⟩
    · show (l.ops ++ (restoreFrag sub ln).ops)[l.ops.size]? = _
      rw [hops, Array.getElem?_append_right (Nat.le_refl _)]
      simp
    · have := appendUnlinked_lookup_right l (restoreFrag sub ln) 0
      rw [Nat.zero_add] at this
      show (appendUnlinked l (restoreFrag sub ln)).lookup l.ops.size = _
      rw [this]
      cases ln with
      | none =>
        exact hfree rfl
      | some n =>
        have hr : rebase l.currentSymbol (n : Int) = (n : Int) := by
          unfold rebase
          rw [if_neg (Int.not_lt.2 (Int.natCast_nonneg n))]
        simp [restoreFrag, hr]
  rcases append_cases l (restoreFrag sub ln) with ⟨_, h, _⟩ | ⟨_, e⟩ | ⟨_, _, e⟩ | ⟨_, _, e⟩
  · rw [hdata] at h; exact absurd h (by simp)
  · rw [e]; exact happ
  · rw [e]; exact happ
  · rw [e]; exact happ

/-- **a line that begins with `RESTORE [n]`** (and compiles without a report): its `restore 0` is the
    first instruction of the line; with an operand it waits for line `n`, without one nothing is
    pending on it (given that no stale reference sits at the end of the code compiled so far) -/
theorem codegen_restore_first (link : Link) (c c2 : Col) (bits : UInt32) (rest : List Stmt)
    (hfree : restoreTarget bits = none → link.unlinked.lookup link.ops.size = none)
    (hlit : stmtsLit rest = true)
    (hclean : (Codegen.codegen link (.restore c (.single c2 bits) :: rest)).2 = []) :
    PendingAt (Codegen.codegen link (.restore c (.single c2 bits) :: rest)).1 link.ops.size (.restore 0)
      ((restoreTarget bits).map fun n => (c2, (n : Int))) := by
  unfold Codegen.codegen at hclean ⊢
  dsimp only at hclean ⊢
  obtain ⟨h0, -, -⟩ := appendAll_clean _ _ _ hclean
  rw [acceptStmts, acceptStmt_restore] at h0 ⊢
  obtain ⟨-, -, o⟩ := acceptStmts_eff rest _ hlit (⟨fun _ h => (nomatch h), fun _ h => (nomatch h)⟩ : DStk
    ({ g := { stmt := (#[] : Array (Col × Link)).push (c, restoreFrag c2 (restoreTarget bits)) }, errors := [] } : VState).g)
  obtain ⟨frs, -, hst, -⟩ := o h0
  have hfr : (acceptStmts rest
      { g := { stmt := (#[] : Array (Col × Link)).push (c, restoreFrag c2 (restoreTarget bits)) }, errors := [] }).g.stmt.toList =
      (c, restoreFrag c2 (restoreTarget bits)) :: frs := by
    rw [hst]; simp
  rw [hfr]
  simp only [codegen.appendAll]
  have h1 := pendingAt_append_restore link c2 (restoreTarget bits) hfree
  rcases hr : link.append (restoreFrag c2 (restoreTarget bits)) with ⟨l', r⟩
  rw [hr] at h1
  cases r with
  | ok u => exact PendingAt.appendAll frs l' _ h1
  | error e => exact h1

end DataOrder
end Basic
