import BasicModel.Spec.InputStmt
import BasicModel.Lemmas.FnCall
import BasicModel.Lemmas.PrintRun
import BasicModel.Thm.C17
/-
  The INPUT statement, end to end (property C17): the code the generator emits for
  `INPUT [,]["prompt";] v₁,…,vₖ` and what the VM of `Model/Runtime.lean` does with it.

  * `targetOf`, `TargetOk`, `storeCode`, `targetCode`, `inputCode` — targets and their code;
    `input_codegen_shape` — the visitor of `Model/Codegen.lean` emits exactly that code;
  * `run_step_input`, `run_step_popArr` — the two opcodes not covered elsewhere;
  * `FailsWith`, `flat_fails`, `args_fail` — a pure expression whose evaluation fails leaves the stack
    it found plus numbers and strings (so the REDO unwinding finds the right return address);
  * `target_convert`, `target_run`, `target_fails` — one target: `input name` turns the field on top of
    the stack into its value (`Spec.fieldValue`), the store code assigns it (`Spec.assignTarget`);
  * `targets_run_ok`, `targets_run_error` — all targets, left to right, against `Spec.assignAll`;
  * `input_suspends`, `input_accept_run` — the statement from its first opcode to the `input` state,
    and from an accepted reply to the state behind the statement;
  * `execute_of_runSteps_event`, `execute_of_runSteps_continue`, `execute_split` — slices of
    `Runtime.execute` in terms of `runSteps`;
  * `enter_accept`, `enter_refuse_count`, `execute_field_refused`, `redo_report_and_prompt` — the
    session around a reply.
  The property statements are in `Thm/C17Input.lean`.
-/
namespace Basic
namespace Lemmas.InputRun
open Basic.Spec Basic.Lemmas.ExprCompile Basic.Lemmas.FnCall

/-! ## the code -/

/-- the target a variable of the statement's list stands for -/
def targetOf : Variable → InTarget
  | .unary _ i => .scalar i.name
  | .array _ i es => .elem i.name es

/-- the targets covered: a scalar whose name is not a zero-argument built-in (DATE$, TIME$, INKEY$),
    or an element `A(e₁,…,eₙ)`, n ≥ 1, of an array whose name is not a built-in function, with
    subscripts in the fragment `Spec.Pure` -/
def TargetOk : Variable → Prop
  | .unary _ i => isZeroArg i.name = false
  | .array _ i es => Gen.opcodeAndArity i.name = none ∧ es ≠ [] ∧ (∀ e ∈ es, Pure e) ∧ es.length ≤ 32767

/-- the code that assigns the value on top of the stack to a target -/
def storeCode : InTarget → List Opcode
  | .scalar n => [.pop n]
  | .elem n subs => subs.flatMap flat ++ [.literal (.int (Int16.ofNat subs.length)), .popArr n]

/-- one target: convert the field (`input name`), then assign -/
def targetCode (t : InTarget) : List Opcode := .input t.name :: storeCode t

/-- the code of the statement: prompt, caps value, number of targets, the targets, the closing
    `input` with the empty name -/
def inputCode (capsN : Int16) (prompt : Str) (ts : List InTarget) : List Opcode :=
  [.literal (.str prompt), .literal (.int capsN), .literal (.int (Int16.ofNat ts.length))] ++
    ts.flatMap targetCode ++ [.input []]

theorem storeCode_length_pos (t : InTarget) : 0 < (storeCode t).length := by
  cases t <;> simp [storeCode]

theorem inputCode_length (capsN : Int16) (prompt : Str) (ts : List InTarget) :
    (inputCode capsN prompt ts).length = 3 + (ts.flatMap targetCode).length + 1 := by
  simp [inputCode]; omega

/-! ## the shape of the generated code -/

section codegen
open Basic.Codegen Basic.Link

/-- the generator's item for a variable of the list -/
def itemOf : Variable → VarItem
  | .unary c i => ⟨c, i.name, {}, none⟩
  | .array c i es => ⟨c, i.name, plain (es.flatMap flat).toArray, some es.length⟩

theorem itemOf_name (x : Variable) : (itemOf x).name = (targetOf x).name := by
  cases x <;> rfl

theorem acceptVar_target_mk (x : Variable) (hx : TargetOk x) (v : Array VarItem) (ex st : Array (Col × Link))
    (cur : Link) (errs : List Error) (hlen : (storeCode (targetOf x)).length ≤ Gen.stackMaxLen) :
    acceptVar x ⟨⟨v, ex, st, cur⟩, errs⟩ = ⟨⟨v.push (itemOf x), ex, st, cur⟩, errs⟩ := by
  cases x with
  | unary c i => exact acceptVar_unary_mk c i v ex st cur errs
  | array c i es =>
    obtain ⟨_, _, hp, _⟩ := hx
    simp only [targetOf, storeCode, List.length_append, List.length_cons, List.length_nil] at hlen
    obtain ⟨frs, hfr, h1⟩ := acceptExprs_shape_mk es hp v ex st cur errs (by omega)
    simp only [acceptVar]
    rw [h1, visitVariable_mk (.array c i es) errs v _ st cur (c, i.name, some es.length) _
      (genVariable_args_run c i es frs hfr v ex st (by omega))]
    rfl

theorem acceptVars_targets_mk : ∀ (vs : List Variable), (∀ x ∈ vs, TargetOk x) →
    ∀ (v : Array VarItem) (ex st : Array (Col × Link)) (cur : Link) (errs : List Error),
      ((vs.map targetOf).flatMap targetCode).length ≤ Gen.stackMaxLen →
      acceptVars vs ⟨⟨v, ex, st, cur⟩, errs⟩ = ⟨⟨v ++ (vs.map itemOf).toArray, ex, st, cur⟩, errs⟩
  | [], _, v, ex, st, cur, errs, _ => by simp [acceptVars]
  | x :: vs, hok, v, ex, st, cur, errs, hlen => by
    simp only [List.map_cons, List.flatMap_cons, List.length_append, targetCode, List.length_cons] at hlen
    have ih := acceptVars_targets_mk vs (fun y hy => hok y (List.mem_cons_of_mem _ hy)) (v.push (itemOf x)) ex st
      cur errs (by omega)
    unfold acceptVars at ih ⊢
    rw [List.foldl_cons, acceptVar_target_mk x (hok x List.mem_cons_self) v ex st cur errs (by omega), ih]
    congr 2
    apply Array.ext'; simp

theorem testForBuiltIn_array (c : Col) (name : Str) (l : Link) (k : Nat)
    (ho : Gen.opcodeAndArity name = none) : testForBuiltIn ⟨c, name, l, some k⟩ false = .ok () := by
  unfold testForBuiltIn
  simp only [ho]

/-- the store code of a target, as `pushAsPop` emits it -/
theorem pushAsPop_target_run (x : Variable) (hx : TargetOk x) (pv : Array VarItem) (ex st : Array (Col × Link))
    (xs : Array Opcode) (h : xs.size + (storeCode (targetOf x)).length ≤ Gen.stackMaxLen) :
    ((pushAsPop (itemOf x)).run).run ⟨pv, ex, st, plain xs⟩ =
      (.ok (itemOf x).col, ⟨pv, ex, st, plain (xs ++ (storeCode (targetOf x)).toArray)⟩) := by
  cases x with
  | unary c i =>
    simp only [targetOf, storeCode, List.length_singleton] at h
    rw [show itemOf (.unary c i) = ⟨c, i.name, {}, none⟩ from rfl, pushAsPop_scalar_run c i.name {} hx pv ex st xs h]
    simp only [targetOf, storeCode]
    congr 3
  | array c i es =>
    obtain ⟨ho, hne, _, hk⟩ := hx
    simp only [targetOf, storeCode, List.length_append, List.length_cons, List.length_nil] at h
    have hpos : es.length > 0 := by cases es with
      | nil => exact absurd rfl hne
      | cons a t => simp
    show ((pushAsPop ⟨c, i.name, plain (es.flatMap flat).toArray, some es.length⟩).run).run _ = _
    unfold pushAsPop
    rw [grun_bind, testForBuiltIn_array c i.name _ _ ho, grun_liftE]; dsimp only
    rw [if_pos hpos]
    rw [grun_bind, lappend_mk _ _ _ _ _ (by simp only [List.size_toArray]; omega)]; dsimp only
    rw [grun_bind, grun_lenVal _ _ hk]; dsimp only
    rw [grun_bind, lpush_mk _ _ _ _ _ (by simp only [Array.size_append, List.size_toArray]; omega)]; dsimp only
    rw [grun_bind, lpush_mk _ _ _ _ _ (by simp only [Array.size_append, Array.size_push, List.size_toArray]; omega)]
    dsimp only
    rw [grun_pure]
    simp only [targetOf, storeCode]
    congr 3
    apply Array.ext'; simp

/-- the loop of the generator over the targets: `input name`, then the store code, for each -/
theorem forIn_targets_run (f : VarItem → PUnit → GM (ForInStep PUnit))
    (hf : ∀ (x : Variable) (r : PUnit) (pv : Array VarItem) (ex st : Array (Col × Link)) (xs : Array Opcode),
      TargetOk x → xs.size + (targetCode (targetOf x)).length ≤ Gen.stackMaxLen →
      ((f (itemOf x) r).run).run ⟨pv, ex, st, plain xs⟩ =
        (.ok (.yield ⟨⟩), ⟨pv, ex, st, plain (xs ++ (targetCode (targetOf x)).toArray)⟩)) :
    ∀ (vs : List Variable), (∀ x ∈ vs, TargetOk x) →
      ∀ (pv : Array VarItem) (ex st : Array (Col × Link)) (xs : Array Opcode),
        xs.size + ((vs.map targetOf).flatMap targetCode).length ≤ Gen.stackMaxLen →
        ((forIn (vs.map itemOf) PUnit.unit f).run).run ⟨pv, ex, st, plain xs⟩ =
          (.ok ⟨⟩, ⟨pv, ex, st, plain (xs ++ ((vs.map targetOf).flatMap targetCode).toArray)⟩)
  | [], _, pv, ex, st, xs, _ => by
    simp only [List.map_nil, List.forIn_nil, grun_pure, List.flatMap_nil]
    rw [show xs ++ ([] : List Opcode).toArray = xs by simp]
  | x :: vs, hok, pv, ex, st, xs, hb => by
    simp only [List.map_cons, List.flatMap_cons, List.length_append] at hb ⊢
    rw [List.forIn_cons, grun_bind, hf x ⟨⟩ pv ex st xs (hok x List.mem_cons_self) (by omega)]
    simp only
    rw [forIn_targets_run f hf vs (fun y hy => hok y (List.mem_cons_of_mem _ hy)) pv ex st _
      (by simp only [Array.size_append, List.size_toArray]; omega)]
    congr 3
    apply Array.ext'; simp

/-- **Codegen shape of INPUT.**  `INPUT [,]["prompt";] v₁,…,vₖ` as the parser builds it — the caps
    expression an Integer literal, the prompt a string literal, the targets as in `TargetOk` —
    compiles to exactly one statement fragment whose code is `inputCode`: the prompt, the caps value
    and the number of targets are pushed; for each target, in the order written, `input name` and the
    code that assigns; the closing `input` with the empty name.  The fragment has no data, symbols or
    references; nothing is reported. -/
theorem input_codegen_shape (c cc pc : Col) (capsN : Int16) (prompt : Str) (vs : List Variable)
    (hok : ∀ x ∈ vs, TargetOk x) (s : VState) (hk : vs.length ≤ 32767)
    (hlen : (inputCode capsN prompt (vs.map targetOf)).length ≤ Gen.stackMaxLen) :
    acceptStmt (.input c (.integer cc capsN) (.string pc prompt) vs) s =
      { s with g := { s.g with
          stmt := s.g.stmt.push (c, plain (inputCode capsN prompt (vs.map targetOf)).toArray) } } := by
  obtain ⟨⟨v, ex, st, cur⟩, errs⟩ := s
  rw [inputCode_length] at hlen
  simp only [acceptStmt]
  obtain ⟨c1, h1⟩ := acceptExpr_shape_mk (.integer cc capsN) v ex st cur errs (by simp [flat, Gen.stackMaxLen])
  rw [h1]
  obtain ⟨c2, h2⟩ := acceptExpr_shape_mk (.string pc prompt) v (ex.push (c1, plain (flat (.integer cc capsN)).toArray))
    st cur errs (by simp [flat, Gen.stackMaxLen])
  rw [h2, acceptVars_targets_mk vs hok _ _ _ _ _ (by omega)]
  have hg : ((genStatement (.input c (.integer cc capsN) (.string pc prompt) vs)).run).run
      ⟨v ++ (vs.map itemOf).toArray,
        (ex.push (c1, plain (flat (.integer cc capsN)).toArray)).push (c2, plain (flat (.string pc prompt)).toArray),
        st, {}⟩ =
      (.ok c, ⟨v, ex, st, plain (inputCode capsN prompt (vs.map targetOf)).toArray⟩) := by
    simp only [genStatement]
    rw [grun_bind, popExpr_mk]; dsimp only
    rw [grun_bind, popExpr_mk]; dsimp only
    simp only [flat]
    rw [plain_empty, grun_bind, lappend_mk _ _ _ _ _ (by simp [Gen.stackMaxLen])]; dsimp only
    rw [grun_bind, lappend_mk _ _ _ _ _ (by simp [Gen.stackMaxLen])]; dsimp only
    rw [grun_bind, grun_lenVal _ _ hk]; dsimp only
    rw [grun_bind, lpush_mk _ _ _ _ _ (by simp [Gen.stackMaxLen])]; dsimp only
    have hl : vs.length = (vs.map itemOf).length := by simp
    rw [hl, grun_bind, popNVar_run _ v (vs.map itemOf) rfl]; dsimp only
    rw [grun_bind, forIn_targets_run _ _ vs hok v ex st _ (by simp [-List.length_flatMap]; omega)]
    · dsimp only
      rw [grun_bind, lpush_mk _ _ _ _ _ (by simp [-List.length_flatMap]; omega)]; dsimp only
      rw [grun_pure]
      congr 3
      apply Array.ext'
      simp [inputCode]
    · intro x r pv ex st xs hx hb
      simp only [targetCode, List.length_cons] at hb
      rw [grun_bind, lpush_mk _ _ _ _ _ (by omega)]; dsimp only
      rw [grun_bind, pushAsPop_target_run x hx _ _ _ _ (by simp only [Array.size_push]; omega)]; dsimp only
      rw [grun_pure, itemOf_name]
      congr 3
      apply Array.ext'; simp [targetCode]
  rw [visitStatement_mk _ errs _ _ st cur _ _ hg]

end codegen

/-! ## running the code -/

section vm
open Basic.Runtime
open Basic.Lemmas.C17 (run_pop_push run_push_room)
open Basic.Thm.C17 (doInput_running doInput_end doInput_field convertField stripQuotes)

theorem stripQuotes_eq_unquote (f : Str) : stripQuotes f = unquote f := by
  unfold stripQuotes unquote
  by_cases h : f.length ≥ 2 ∧ f.head? = some '"' ∧ f.getLast? = some '"'
  · rw [if_pos h, if_pos (by simp only [Bool.and_eq_true, decide_eq_true_eq]; exact ⟨⟨h.1, h.2.1⟩, h.2.2⟩)]
  · rw [if_neg h, if_neg (by simp only [Bool.and_eq_true, decide_eq_true_eq]; exact fun g => h ⟨g.1.1, g.1.2, g.2⟩)]

/-- the conversion the `input` opcode performs (`Thm.C17.convertField`, read off `doInput`) is the
    specification's `fieldValue` -/
theorem convertField_eq_fieldValue (name field : Str) : convertField name field = fieldValue name field := by
  unfold convertField fieldValue
  rw [stripQuotes_eq_unquote]
  by_cases h : name.getLast? = some '$'
  · simp only [h, if_true]
  · simp only [h, if_false]
    cases RStd.trim field <;> simp

theorem evalSubs_eq_evalArgs (vars : Var) : ∀ (es : List Expr), evalSubs vars es = evalArgs vars es
  | [] => rfl
  | e :: es => by simp only [evalSubs, evalArgs, evalSubs_eq_evalArgs vars es]

/-- `input name` (trace off) is `doInput name` after the `pc` has been advanced -/
theorem run_step_input (env : Env) (hie : Bool) (s : Runtime) (name : Str)
    (htr : s.tron = false) (hop : s.program.link.ops[s.pc]? = some (.input name)) :
    ((step env hie).run).run s =
      match ((doInput name).run).run { s with pc := s.pc + 1 } with
      | (.ok true, s') => (.ok (.event .running), s')
      | (.ok false, s') => (.ok .continue, s')
      | (.error e, s') => (.error e, s') := by
  unfold step
  simp only [run_bind, run_get, htr, Bool.false_eq_true, if_false, run_pure, hop, run_set]
  generalize StateT.run (ExceptT.run (doInput name)) _ = res
  rcases res with ⟨r, s'⟩
  cases r with
  | error e => rfl
  | ok b => cases b <;> rfl

/-- `popArr name` on `σ, x, i₁ … iₙ, n`: `x` is stored into the element by `Var.storeArray`; the
    variables are those `storeArray` returns in either case (the automatic dimension stays) -/
theorem run_step_popArr (env : Env) (hie : Bool) (s : Runtime) (name : Str) (σ : Array Val) (x : Val)
    (idx : List Val) (k : Int16)
    (htr : s.tron = false) (hop : s.program.link.ops[s.pc]? = some (.popArr name))
    (hst : s.stack = (σ.push x ++ idx.toArray).push (.int k)) (hk : k.toInt = idx.length) :
    ((step env hie).run).run s =
      match s.vars.storeArray name idx x with
      | (vars', .ok ()) => (.ok .continue, { s with pc := s.pc + 1, stack := σ, vars := vars' })
      | (vars', .error e) => (.error e, { s with pc := s.pc + 1, stack := σ, vars := vars' }) := by
  unfold step
  simp only [run_bind, run_get, htr, Bool.false_eq_true, if_false, run_pure, hop, run_set]
  rw [run_popVec { s with pc := s.pc + 1, tron := false } (σ.push x) idx k hst hk]
  simp only [run_pop, Array.back?_push, Array.pop_push, run_liftE]
  generalize s.vars.storeArray name idx x = res
  rcases res with ⟨v', r⟩
  cases r <;> rfl

/-! ### a failing pure expression leaves only numbers and strings above the stack it found -/

theorem push_eq_append (st : Array Val) (a : Val) : st.push a = st ++ [a].toArray := by
  apply Array.ext'; simp

/-- the code `ops` at `s.pc` fails with `err`: `k` quiet steps, then an instruction that raises
    `err` and leaves the stack of `s` plus numbers and strings; nothing else of `s` changes -/
def FailsWith (env : Env) (hie : Bool) (ops : List Opcode) (s : Runtime) (err : Error) : Prop :=
  ∃ (k : Nat) (s1 : Runtime) (ex : List Val), k < ops.length ∧ (∀ v ∈ ex, isValue v = true) ∧
    runSteps env hie k s = (.ok .continue, s1) ∧
    ((step env hie).run).run s1 = (.error err, { s with pc := s.pc + k + 1, stack := s.stack ++ ex.toArray })

theorem FailsWith.append_right {env : Env} {hie : Bool} {ops : List Opcode} {s : Runtime} {err : Error}
    (more : List Opcode) (h : FailsWith env hie ops s err) : FailsWith env hie (ops ++ more) s err := by
  obtain ⟨k, s1, ex, hk, hex, h1, h2⟩ := h
  exact ⟨k, s1, ex, by rw [List.length_append]; omega, hex, h1, h2⟩

/-- after a quiet prefix of `n` steps that pushed the values `pre` -/
theorem FailsWith.after {env : Env} {hie : Bool} {ops : List Opcode} {s : Runtime} {err : Error}
    (opsPre : List Opcode) (pre : List Val) (hpre : ∀ v ∈ pre, isValue v = true)
    (hrun : runSteps env hie opsPre.length s =
      (.ok .continue, { s with pc := s.pc + opsPre.length, stack := s.stack ++ pre.toArray }))
    (h : FailsWith env hie ops { s with pc := s.pc + opsPre.length, stack := s.stack ++ pre.toArray } err) :
    FailsWith env hie (opsPre ++ ops) s err := by
  obtain ⟨k, s1, ex, hk, hex, h1, h2⟩ := h
  refine ⟨opsPre.length + k, s1, pre ++ ex, by rw [List.length_append]; omega, ?_, ?_, ?_⟩
  · intro v hv
    rcases List.mem_append.1 hv with h | h
    · exact hpre v h
    · exact hex v h
  · rw [runSteps_ok_add hrun]; exact h1
  · rw [h2]
    have e1 : s.stack ++ pre.toArray ++ ex.toArray = s.stack ++ (pre ++ ex).toArray := by apply Array.ext'; simp
    show (Except.error err,
      ({ s with pc := s.pc + opsPre.length + k + 1, stack := s.stack ++ pre.toArray ++ ex.toArray } : Runtime)) = _
    rw [e1, Nat.add_assoc s.pc]

theorem error_bind_inj {α β : Type} {e e' : Error} {f : α → Res β} (h : ((.error e : Res α) >>= f) = .error e') :
    e = e' := Except.error.inj h

/-- the operand is there, the one-operand instruction fails -/
theorem fails_unary (env : Env) (hie : Bool) {ops : List Opcode} {s : Runtime} (oc : Opcode) (f : Val → Res Val)
    (a : Val) (err : Error) (hc : Computes env hie ops s (.ok a)) (hstep : Unary1 env hie oc f)
    (htr : s.tron = false) (hop : s.program.link.ops[s.pc + ops.length]? = some oc)
    (hroom : s.stack.size + 1 ≤ Gen.stackMaxLen) (hf : f a = .error err) :
    FailsWith env hie (ops ++ [oc]) s err := by
  obtain ⟨_, hrun⟩ : Quiet env hie ops.length s ∧ runSteps env hie ops.length s =
      (.ok .continue, { s with pc := s.pc + ops.length, stack := s.stack.push a }) := hc
  have hs := hstep { s with pc := s.pc + ops.length, stack := s.stack.push a } s.stack a htr hop rfl hroom
  rw [hf] at hs
  refine ⟨ops.length, _, [], by simp, by simp, hrun, ?_⟩
  rw [hs, show s.stack ++ ([] : List Val).toArray = s.stack by simp]

/-- **a tree of the fragment whose evaluation fails**: its code fails with the same error, and the
    stack at that moment is the one it started from plus numbers and strings (no return address) -/
theorem flat_fails (env : Env) (hie : Bool) {e : Expr} (hp : Pure e) :
    ∀ (s : Runtime), CodeAt s.program.link.ops s.pc (flat e) → s.tron = false →
      s.stack.size + (flat e).length ≤ Gen.stackMaxLen → ValueStore s.vars →
      ∀ err, eval s.vars e = .error err → FailsWith env hie (flat e) s err := by
  induction hp with
  | single c b => intro s _ _ _ _ err h; cases h
  | double c b => intro s _ _ _ _ err h; cases h
  | integer c b => intro s _ _ _ _ err h; cases h
  | string c b => intro s _ _ _ _ err h; cases h
  | scalar c i hz =>
    intro s hcode htr hroom hv err h
    simp only [eval] at h
    simp only [flat] at hcode ⊢
    have hs := run_step_push env hie s i.name htr hcode.head
    rw [h] at hs
    refine ⟨0, s, [], by simp, by simp, rfl, ?_⟩
    rw [hs, show s.stack ++ ([] : List Val).toArray = s.stack by simp]
  | call c i e hf hpe ih =>
    intro s hcode htr hroom hv err h
    obtain ⟨f, hf⟩ := Option.isSome_iff_exists.1 hf
    obtain ⟨oc, ho, hvm⟩ := builtin1_spec hf
    have hflat : flat (.var (.array c i [e])) = flat e ++ [oc] := by simp only [flat, ho]
    have heval : eval s.vars (.var (.array c i [e])) = (eval s.vars e >>= f) := by simp only [eval, hf]
    rw [hflat] at hcode hroom ⊢
    rw [heval] at h
    simp only [List.length_append, List.length_singleton] at hroom
    cases he : eval s.vars e with
    | error e' =>
      rw [he] at h
      obtain rfl := error_bind_inj h
      exact (ih s hcode.left htr (by omega) hv _ he).append_right _
    | ok a =>
      rw [he] at h
      have hc := flat_computes env hie hpe s hcode.left htr (by omega)
      rw [he] at hc
      exact fails_unary env hie oc f a err hc (unary1_of_vmFunc1 env hie hvm) htr hcode.right.head (by omega) h
  | neg c e hpe ih =>
    intro s hcode htr hroom hv err h
    simp only [flat, eval] at hcode hroom h ⊢
    simp only [List.length_append, List.length_singleton] at hroom
    cases he : eval s.vars e with
    | error e' =>
      rw [he] at h
      obtain rfl := error_bind_inj h
      exact (ih s hcode.left htr (by omega) hv _ he).append_right _
    | ok a =>
      rw [he] at h
      have hc := flat_computes env hie hpe s hcode.left htr (by omega)
      rw [he] at hc
      exact fails_unary env hie _ _ a err hc (unary1_of_vmUnary env hie rfl) htr hcode.right.head (by omega) h
  | not c e hpe ih =>
    intro s hcode htr hroom hv err h
    simp only [flat, eval] at hcode hroom h ⊢
    simp only [List.length_append, List.length_singleton] at hroom
    cases he : eval s.vars e with
    | error e' =>
      rw [he] at h
      obtain rfl := error_bind_inj h
      exact (ih s hcode.left htr (by omega) hv _ he).append_right _
    | ok a =>
      rw [he] at h
      have hc := flat_computes env hie hpe s hcode.left htr (by omega)
      rw [he] at hc
      exact fails_unary env hie _ _ a err hc (unary1_of_vmUnary env hie rfl) htr hcode.right.head (by omega) h
  | bin op c l r hl hr ihl ihr =>
    intro s hcode htr hroom hv err h
    simp only [flat, eval] at hcode hroom h ⊢
    simp only [List.length_append, List.length_singleton] at hroom
    cases hel : eval s.vars l with
    | error e' =>
      rw [hel] at h
      obtain rfl := error_bind_inj h
      exact ((ihl s hcode.left.left htr (by omega) hv _ hel).append_right _).append_right _
    | ok a =>
      have hcl := flat_computes env hie hl s hcode.left.left htr (by omega)
      rw [hel] at hcl
      obtain ⟨_, hrunl⟩ : Quiet env hie (flat l).length s ∧ runSteps env hie (flat l).length s =
          (.ok .continue, { s with pc := s.pc + (flat l).length, stack := s.stack.push a }) := hcl
      have ha : isValue a = true := eval_isValue hl hv hel
      cases her : eval s.vars r with
      | error e' =>
        rw [hel, her] at h
        have h' : (Except.error e' : Res Val) = .error err := h
        obtain rfl := Except.error.inj h'
        have hfr := ihr { s with pc := s.pc + (flat l).length, stack := s.stack.push a } hcode.left.right htr
          (by simp only [Array.size_push]; omega) hv _ her
        rw [push_eq_append] at hrunl hfr
        exact (FailsWith.after (flat l) [a] (by simpa using ha) hrunl hfr).append_right _
      | ok b =>
        rw [hel, her] at h
        have h' : meaningOf op a b = .error err := h
        have hcr := flat_computes env hie hr { s with pc := s.pc + (flat l).length, stack := s.stack.push a }
          hcode.left.right htr (by simp only [Array.size_push]; omega)
        rw [show ({ s with pc := s.pc + (flat l).length, stack := s.stack.push a } : Runtime).vars = s.vars from rfl,
          her] at hcr
        obtain ⟨_, hrunr⟩ : Quiet env hie (flat r).length { s with pc := s.pc + (flat l).length, stack := s.stack.push a } ∧
            runSteps env hie (flat r).length { s with pc := s.pc + (flat l).length, stack := s.stack.push a } =
            (.ok .continue, { s with pc := s.pc + (flat l).length + (flat r).length,
                                     stack := (s.stack.push a).push b }) := hcr
        have hop : s.program.link.ops[s.pc + (flat l).length + (flat r).length]? = some (Gen.opcodeOfBinOp op) := by
          have := hcode.right.head
          rw [List.length_append, ← Nat.add_assoc] at this
          exact this
        have hs := VmDispatch.step_binary_stack env hie
          { s with pc := s.pc + (flat l).length + (flat r).length, stack := (s.stack.push a).push b }
          (Gen.opcodeOfBinOp op) (meaningOf op) s.stack a b htr hop (vmBinary_opcodeOfBinOp op) rfl (by omega)
        rw [h'] at hs
        refine ⟨(flat l).length + (flat r).length,
          { s with pc := s.pc + (flat l).length + (flat r).length, stack := (s.stack.push a).push b }, [],
          by simp only [List.length_append, List.length_singleton]; omega, by simp, ?_, ?_⟩
        · rw [runSteps_ok_add hrunl]; exact hrunr
        · rw [hs]
          simp [Nat.add_assoc]

/-- the same for a list of trees evaluated left to right -/
theorem args_fail (env : Env) (hie : Bool) : ∀ (args : List Expr), (∀ a ∈ args, Pure a) →
    ∀ (s : Runtime), CodeAt s.program.link.ops s.pc (args.flatMap flat) → s.tron = false →
      s.stack.size + (args.flatMap flat).length ≤ Gen.stackMaxLen → ValueStore s.vars →
      ∀ err, evalArgs s.vars args = .error err → FailsWith env hie (args.flatMap flat) s err
  | [], _, s, _, _, _, _, err, h => by cases h
  | a :: rest, hp, s, hcode, htr, hroom, hv, err, h => by
    rw [List.flatMap_cons] at hcode hroom ⊢
    rw [List.length_append] at hroom
    simp only [evalArgs] at h
    have hpa := hp a List.mem_cons_self
    have hpos := flat_length_pos hpa
    cases hea : eval s.vars a with
    | error e' =>
      rw [hea] at h
      obtain rfl := error_bind_inj h
      exact (flat_fails env hie hpa s hcode.left htr (by omega) hv _ hea).append_right _
    | ok v =>
      have hca := flat_computes env hie hpa s hcode.left htr (by omega)
      rw [hea] at hca
      obtain ⟨_, hruna⟩ : Quiet env hie (flat a).length s ∧ runSteps env hie (flat a).length s =
          (.ok .continue, { s with pc := s.pc + (flat a).length, stack := s.stack.push v }) := hca
      cases her : evalArgs s.vars rest with
      | ok vs => rw [hea, her] at h; cases h
      | error e' =>
        rw [hea, her] at h
        have h' : (Except.error e' : Res (List Val)) = .error err := h
        obtain rfl := Except.error.inj h'
        have hfr := args_fail env hie rest (fun x hx => hp x (List.mem_cons_of_mem _ hx))
          { s with pc := s.pc + (flat a).length, stack := s.stack.push v } hcode.right htr
          (by simp only [Array.size_push]; omega) hv _ her
        rw [push_eq_append] at hruna hfr
        exact FailsWith.after (flat a) [v] (by simpa using eval_isValue hpa hv hea) hruna hfr

/-! ### one target -/

/-- what running a target needs: a name, and for an element subscripts of the fragment -/
def TargetRunOk : InTarget → Prop
  | .scalar n => n ≠ []
  | .elem n subs => n ≠ [] ∧ (∀ e ∈ subs, Pure e) ∧ subs.length ≤ 32767

theorem TargetRunOk.name_ne {t : InTarget} (h : TargetRunOk t) : t.name ≠ [] := by
  cases t with
  | scalar n => exact h
  | elem n subs => exact h.1

theorem targetRunOk_of_targetOk {x : Variable} (hx : TargetOk x) (hn : (targetOf x).name ≠ []) :
    TargetRunOk (targetOf x) := by
  cases x with
  | unary c i => exact hn
  | array c i es => exact ⟨hn, hx.2.2.1, hx.2.2.2⟩

/-- the subscripts of an element target can be evaluated (vacuous for a scalar) -/
def SubsDefined (vars : Var) : InTarget → Prop
  | .scalar _ => True
  | .elem _ subs => ∃ idx, evalSubs vars subs = .ok idx

/-- `input name` in `inputRunning`: the field on top of the stack becomes the value it stands for -/
theorem target_convert (env : Env) (hie : Bool) (t : InTarget) (s : Runtime) (σ : Array Val) (field : Str)
    (hok : TargetRunOk t) (hstate : s.state = .inputRunning) (htr : s.tron = false)
    (hop : s.program.link.ops[s.pc]? = some (.input t.name))
    (hst : s.stack = σ.push (.str field)) (hroom : σ.size + 1 ≤ Gen.stackMaxLen) :
    ((step env hie).run).run s =
      (.ok .continue, { s with pc := s.pc + 1, stack := σ.push (fieldValue t.name field) }) := by
  rw [run_step_input env hie s t.name htr hop,
    doInput_field t.name { s with pc := s.pc + 1 } σ field hstate hok.name_ne hst hroom, convertField_eq_fieldValue]

/-- **one target.**  From `σ, field` at the target's code: all instructions but the last answer
    `continue`; the last one — the store — gives what `Spec.assignTarget` gives: accepted, the
    variables are the new ones and the stack is `σ`; refused, the instruction fails with the store's
    error, the stack is `σ` and the variables are those `assignTarget` reports. -/
theorem target_run (env : Env) (hie : Bool) (t : InTarget) (s : Runtime) (σ : Array Val) (field : Str)
    (hok : TargetRunOk t) (hstate : s.state = .inputRunning) (htr : s.tron = false)
    (hcode : CodeAt s.program.link.ops s.pc (targetCode t))
    (hst : s.stack = σ.push (.str field))
    (hroom : σ.size + (targetCode t).length ≤ Gen.stackMaxLen)
    (hsub : SubsDefined s.vars t) :
    ∃ s1, runSteps env hie ((targetCode t).length - 1) s = (.ok .continue, s1) ∧
      ((step env hie).run).run s1 =
        match assignTarget s.vars t (fieldValue t.name field) with
        | (v', .ok ()) => (.ok .continue, { s with pc := s.pc + (targetCode t).length, stack := σ, vars := v' })
        | (v', .error e) => (.error e, { s with pc := s.pc + (targetCode t).length, stack := σ, vars := v' }) := by
  have hconv := target_convert env hie t s σ field hok hstate htr hcode.head hst
    (by simp only [targetCode, List.length_cons] at hroom; omega)
  have hrest : CodeAt s.program.link.ops (s.pc + 1) (storeCode t) := CodeAt.right (a := [Opcode.input t.name]) hcode
  cases t with
  | scalar n =>
    simp only [InTarget.name] at hconv
    refine ⟨{ s with pc := s.pc + 1, stack := σ.push (fieldValue n field) }, ?_, ?_⟩
    · show runSteps env hie 1 s = _
      rw [runSteps_one, hconv]
    · rw [run_step_pop env hie { s with pc := s.pc + 1, stack := σ.push (fieldValue n field) } n σ
        (fieldValue n field) htr hrest.head rfl]
      simp only [assignTarget, InTarget.name]
      cases s.vars.store n (fieldValue n field) <;> rfl
  | elem n subs =>
    obtain ⟨_, hp, hk⟩ := hok
    obtain ⟨idx, hidx⟩ := hsub
    simp only [InTarget.name] at hconv
    simp only [targetCode, storeCode, List.length_cons, List.length_append, List.length_nil] at hroom
    simp only [storeCode] at hrest
    have hlen := evalArgs_length (evalSubs_eq_evalArgs s.vars subs ▸ hidx)
    have hA := args_compute env hie subs hp
      { s with pc := s.pc + 1, stack := σ.push (fieldValue n field) } hrest.left htr
      (by simp only [Array.size_push]; omega)
    rw [show ({ s with pc := s.pc + 1, stack := σ.push (fieldValue n field) } : Runtime).vars = s.vars from rfl,
      ← evalSubs_eq_evalArgs, hidx] at hA
    obtain ⟨_, hrun⟩ := hA
    have hlit := run_step_literal env hie
      { s with pc := s.pc + 1 + (subs.flatMap flat).length, stack := σ.push (fieldValue n field) ++ idx.toArray }
      (.int (Int16.ofNat subs.length)) htr hrest.right.head
    rw [if_neg (by simp only [Array.size_append, Array.size_push, List.size_toArray]
                   have := args_length_le subs hp; omega)] at hlit
    refine ⟨{ s with pc := s.pc + 1 + (subs.flatMap flat).length + 1,
                     stack := (σ.push (fieldValue n field) ++ idx.toArray).push (.int (Int16.ofNat subs.length)) },
      ?_, ?_⟩
    · have hl : (targetCode (.elem n subs)).length - 1 = 1 + ((subs.flatMap flat).length + 1) := by
        simp only [targetCode, storeCode, List.length_cons, List.length_append, List.length_nil]; omega
      rw [hl, runSteps_add, runSteps_one, hconv]
      show runSteps env hie ((subs.flatMap flat).length + 1) _ = _
      rw [runSteps_ok_add hrun, runSteps_one, hlit]
    · have hpop : s.program.link.ops[s.pc + 1 + (subs.flatMap flat).length + 1]? = some (.popArr n) := by
        have := hrest.right 1 (by simp)
        rw [Nat.add_assoc] at this ⊢
        simpa using this
      rw [run_step_popArr env hie
        { s with pc := s.pc + 1 + (subs.flatMap flat).length + 1,
                 stack := (σ.push (fieldValue n field) ++ idx.toArray).push (.int (Int16.ofNat subs.length)) }
        n σ (fieldValue n field) idx (Int16.ofNat subs.length) htr hpop rfl
        (by rw [toInt_ofNat_len hk, hlen])]
      simp only [assignTarget, InTarget.name, hidx, targetCode, storeCode, List.length_cons, List.length_append,
        List.length_nil]
      generalize s.vars.storeArray n idx (fieldValue n field) = res
      rcases res with ⟨v', r⟩
      cases r with
      | error e => simp only [Nat.add_comm, Nat.add_left_comm]
      | ok u => simp only [Nat.add_comm, Nat.add_left_comm]

theorem assignTarget_ok_subsDefined {vars v : Var} {t : InTarget} {x : Val}
    (h : assignTarget vars t x = (v, .ok ())) : SubsDefined vars t := by
  cases t with
  | scalar n => trivial
  | elem n subs =>
    simp only [assignTarget] at h
    cases hs : evalSubs vars subs with
    | ok idx => exact ⟨idx, hs⟩
    | error e => rw [hs] at h; cases h

theorem fieldValue_isValue (name field : Str) : isValue (fieldValue name field) = true := by
  unfold fieldValue
  simp only
  split
  · rfl
  · split
    · rfl
    · exact ofStr_isValue _

theorem isValue_ne_ret {v : Val} (h : isValue v = true) (b : Nat) : v ≠ .ret b := by
  intro hv; subst hv; cases h

/-- **one target, refused** (whatever the reason: the store refuses the value, or a subscript cannot
    be evaluated).  Some instructions answer `continue`, the next one fails with the error
    `Spec.assignTarget` reports; at that moment the variables are those `assignTarget` reports and the
    stack is `σ` plus numbers and strings — no return address. -/
theorem target_fails (env : Env) (hie : Bool) (t : InTarget) (s : Runtime) (σ : Array Val) (field : Str)
    (v' : Var) (e : Error)
    (hok : TargetRunOk t) (hstate : s.state = .inputRunning) (htr : s.tron = false)
    (hcode : CodeAt s.program.link.ops s.pc (targetCode t))
    (hst : s.stack = σ.push (.str field))
    (hroom : σ.size + (targetCode t).length ≤ Gen.stackMaxLen) (hv : ValueStore s.vars)
    (ha : assignTarget s.vars t (fieldValue t.name field) = (v', .error e)) :
    ∃ (k : Nat) (s1 : Runtime) (junk : List Val), k < (targetCode t).length ∧ (∀ v ∈ junk, isValue v = true) ∧
      runSteps env hie k s = (.ok .continue, s1) ∧
      ((step env hie).run).run s1 =
        (.error e, { s with pc := s.pc + k + 1, stack := σ ++ junk.toArray, vars := v' }) := by
  have hpos : 0 < (targetCode t).length := by simp [targetCode]
  by_cases hsub : SubsDefined s.vars t
  · obtain ⟨s1, hrun, hstep⟩ := target_run env hie t s σ field hok hstate htr hcode hst hroom hsub
    rw [ha] at hstep
    refine ⟨(targetCode t).length - 1, s1, [], by omega, by simp, hrun, ?_⟩
    rw [hstep, show s.pc + ((targetCode t).length - 1) + 1 = s.pc + (targetCode t).length by omega,
      show σ ++ ([] : List Val).toArray = σ by simp]
  · cases t with
    | scalar n => exact absurd trivial hsub
    | elem n subs =>
      obtain ⟨_, hp, hk⟩ := hok
      have hconv := target_convert env hie (.elem n subs) s σ field ⟨‹_›, hp, hk⟩ hstate htr hcode.head hst
        (by simp only [targetCode, List.length_cons] at hroom; omega)
      simp only [InTarget.name] at hconv ha
      have hrest : CodeAt s.program.link.ops (s.pc + 1) (storeCode (.elem n subs)) :=
        CodeAt.right (a := [Opcode.input n]) hcode
      simp only [storeCode] at hrest
      simp only [targetCode, storeCode, List.length_cons, List.length_append, List.length_nil] at hroom ⊢
      cases hs : evalSubs s.vars subs with
      | ok idx => exact absurd ⟨idx, hs⟩ hsub
      | error e' =>
        simp only [assignTarget, hs, Prod.mk.injEq, Except.error.injEq] at ha
        obtain ⟨rfl, rfl⟩ := ha
        rw [evalSubs_eq_evalArgs] at hs
        obtain ⟨k, s1, ex, hk', hex, h1, h2⟩ := args_fail env hie subs hp
          { s with pc := s.pc + 1, stack := σ.push (fieldValue n field) } hrest.left htr
          (by simp only [Array.size_push]; omega) hv _ hs
        refine ⟨1 + k, s1, fieldValue n field :: ex, by omega, ?_, ?_, ?_⟩
        · intro v hv'
          rcases List.mem_cons.1 hv' with rfl | h
          · exact fieldValue_isValue n field
          · exact hex v h
        · rw [runSteps_add, runSteps_one, hconv]; exact h1
        · rw [h2]
          have e1 : σ.push (fieldValue n field) ++ ex.toArray = σ ++ (fieldValue n field :: ex).toArray := by
            apply Array.ext'; simp
          show (Except.error e',
            ({ s with pc := s.pc + 1 + k + 1, stack := σ.push (fieldValue n field) ++ ex.toArray } : Runtime)) = _
          rw [e1, Nat.add_assoc s.pc 1 k]

theorem buildArrayKey_vars (v : Var) (n : Str) (arr : List Val) : (v.buildArrayKey n arr).1.vars = v.vars := by
  rcases Thm.C06.buildArrayKey_state v n arr with h | ⟨k, h⟩
  · rw [h]
  · rw [h, Thm.C06.autoDim_vars]

/-- an accepted assignment keeps the store a store of numbers and strings -/
theorem assignTarget_valueStore {vars v : Var} {t : InTarget} {x : Val} (hv : ValueStore vars)
    (h : assignTarget vars t x = (v, .ok ())) : ValueStore v := by
  cases t with
  | scalar n =>
    simp only [assignTarget] at h
    cases hs : vars.store n x with
    | error e => rw [hs] at h; cases h
    | ok v1 =>
      rw [hs] at h
      cases h
      exact store_valueStore hv hs
  | elem n subs =>
    simp only [assignTarget] at h
    cases hs : evalSubs vars subs with
    | error e => rw [hs] at h; cases h
    | ok idx =>
      rw [hs] at h
      simp only [Var.storeArray] at h
      cases hb : vars.buildArrayKey n idx with
      | mk v1 r =>
        have hv1 : ValueStore v1 := by
          have := buildArrayKey_vars vars n idx
          rw [hb] at this
          intro p hp
          exact hv p (this ▸ hp)
        rw [hb] at h
        cases r with
        | error e => cases h
        | ok key =>
          simp only at h
          cases hst : v1.store key x with
          | error e => rw [hst] at h; cases h
          | ok v2 =>
            rw [hst] at h
            cases h
            exact store_valueStore hv1 hst

/-! ### all targets, left to right -/

theorem stack_fields_cons (base : Array Val) (f : Str) (fs : List Str) :
    base ++ (((f :: fs).map Val.str).reverse).toArray = (base ++ ((fs.map Val.str).reverse).toArray).push (.str f) := by
  apply Array.ext'; simp

/-- **all fields accepted.**  From `base, fₖ … f₁` (first field on top) at the targets' code, in
    `inputRunning`: when `Spec.assignAll` accepts every field, the code runs through without event
    or error, the variables are the ones `assignAll` computes and the stack is `base`. -/
theorem targets_run_ok (env : Env) (hie : Bool) : ∀ (ts : List InTarget) (fs : List Str) (s : Runtime)
    (base : Array Val) (v' : Var),
    (∀ t ∈ ts, TargetRunOk t) → s.state = .inputRunning → s.tron = false →
    CodeAt s.program.link.ops s.pc (ts.flatMap targetCode) →
    s.stack = base ++ ((fs.map Val.str).reverse).toArray →
    base.size + fs.length + (ts.flatMap targetCode).length ≤ Gen.stackMaxLen →
    ts.length = fs.length →
    assignAll s.vars ts fs = (v', true) →
    runSteps env hie (ts.flatMap targetCode).length s =
      (.ok .continue, { s with pc := s.pc + (ts.flatMap targetCode).length, stack := base, vars := v' })
  | [], fs, s, base, v', _, _, _, _, hst, _, hlen, ha => by
    obtain rfl : fs = [] := by cases fs with
      | nil => rfl
      | cons a t => simp at hlen
    simp only [assignAll, Prod.mk.injEq, and_true] at ha
    subst ha
    simp only [List.map_nil, List.reverse_nil] at hst
    have hst' : s.stack = base := by rw [hst]; simp
    subst hst'
    rfl
  | t :: ts, [], s, base, v', _, _, _, _, _, _, hlen, _ => by simp at hlen
  | t :: ts, f :: fs, s, base, v', hok, hstate, htr, hcode, hst, hroom, hlen, ha => by
    rw [List.flatMap_cons] at hcode hroom ⊢
    rw [List.length_append] at hroom ⊢
    rw [stack_fields_cons] at hst
    simp only [List.length_cons] at hroom hlen
    have hpos : 0 < (targetCode t).length := by simp [targetCode]
    simp only [assignAll] at ha
    cases hat : assignTarget s.vars t (fieldValue t.name f) with
    | mk v r =>
      rw [hat] at ha
      cases r with
      | error e => simp only [Prod.mk.injEq, Bool.false_eq_true, and_false] at ha
      | ok u =>
        obtain ⟨s1, hrun, hstep⟩ := target_run env hie t s _ f (hok t List.mem_cons_self) hstate htr hcode.left hst
          (by simp only [Array.size_append, List.size_toArray, List.length_reverse, List.length_map]; omega)
          (assignTarget_ok_subsDefined hat)
        rw [hat] at hstep
        have h1 : runSteps env hie (targetCode t).length s =
            (.ok .continue, { s with pc := s.pc + (targetCode t).length,
                                     stack := base ++ ((fs.map Val.str).reverse).toArray, vars := v }) := by
          rw [show (targetCode t).length = ((targetCode t).length - 1) + 1 by omega, runSteps_ok_add hrun, runSteps_one,
            hstep]
          rw [show (targetCode t).length - 1 + 1 = (targetCode t).length by omega]
        rw [runSteps_ok_add h1]
        rw [targets_run_ok env hie ts fs
          { s with pc := s.pc + (targetCode t).length,
                   stack := base ++ ((fs.map Val.str).reverse).toArray, vars := v } base v' (fun x hx => hok x (List.mem_cons_of_mem _ hx)) hstate htr
          hcode.right rfl (by omega) (by omega) ha]
        simp only [Nat.add_assoc]

/-- **a field is refused.**  When `Spec.assignAll` stops at a target that refuses (the store does not
    take the value, or a subscript cannot be evaluated), the code runs without event or error up to an
    instruction of that target, which fails; at that moment the variables are the working copy
    `assignAll` had reached — the earlier targets HAVE been assigned — and the stack is `base` plus
    values that are not return addresses (the fields not yet consumed, operands). -/
theorem targets_run_error (env : Env) (hie : Bool) : ∀ (ts : List InTarget) (fs : List Str) (s : Runtime)
    (base : Array Val) (v' : Var),
    (∀ t ∈ ts, TargetRunOk t) → s.state = .inputRunning → s.tron = false →
    CodeAt s.program.link.ops s.pc (ts.flatMap targetCode) →
    s.stack = base ++ ((fs.map Val.str).reverse).toArray →
    base.size + fs.length + (ts.flatMap targetCode).length ≤ Gen.stackMaxLen →
    ts.length = fs.length → ValueStore s.vars →
    assignAll s.vars ts fs = (v', false) →
    ∃ (k : Nat) (s1 : Runtime) (e : Error) (junk : List Val), k < (ts.flatMap targetCode).length ∧
      (∀ v ∈ junk, ∀ b, v ≠ .ret b) ∧
      runSteps env hie k s = (.ok .continue, s1) ∧
      ((step env hie).run).run s1 =
        (.error e, { s with pc := s.pc + k + 1, stack := base ++ junk.toArray, vars := v' })
  | [], fs, s, base, v', _, _, _, _, _, _, _, _, ha => by
    simp only [assignAll, Prod.mk.injEq, Bool.true_eq_false, and_false] at ha
  | t :: ts, [], s, base, v', _, _, _, _, _, _, hlen, _, _ => by simp at hlen
  | t :: ts, f :: fs, s, base, v', hok, hstate, htr, hcode, hst, hroom, hlen, hvs, ha => by
    rw [List.flatMap_cons] at hcode hroom ⊢
    rw [List.length_append] at hroom ⊢
    rw [stack_fields_cons] at hst
    simp only [List.length_cons] at hroom hlen
    have hpos : 0 < (targetCode t).length := by simp [targetCode]
    have hσ : (base ++ ((fs.map Val.str).reverse).toArray).size + (targetCode t).length ≤ Gen.stackMaxLen := by
      simp only [Array.size_append, List.size_toArray, List.length_reverse, List.length_map]; omega
    simp only [assignAll] at ha
    cases hat : assignTarget s.vars t (fieldValue t.name f) with
    | mk v r =>
      rw [hat] at ha
      cases r with
      | error e =>
        simp only [Prod.mk.injEq, and_true] at ha
        subst ha
        obtain ⟨k, s1, junk, hk, hj, hrun, hstep⟩ := target_fails env hie t s _ f v e (hok t List.mem_cons_self)
          hstate htr hcode.left hst hσ hvs hat
        refine ⟨k, s1, e, (fs.map Val.str).reverse ++ junk, by omega, ?_, hrun, ?_⟩
        · intro x hx b
          rcases List.mem_append.1 hx with h | h
          · simp only [List.mem_reverse, List.mem_map] at h
            obtain ⟨g, _, rfl⟩ := h
            exact fun h => by cases h
          · exact isValue_ne_ret (hj x h) b
        · rw [hstep]
          have e1 : base ++ ((fs.map Val.str).reverse).toArray ++ junk.toArray =
              base ++ ((fs.map Val.str).reverse ++ junk).toArray := by apply Array.ext'; simp
          rw [e1]
      | ok u =>
        obtain ⟨s1, hrun, hstep⟩ := target_run env hie t s _ f (hok t List.mem_cons_self) hstate htr hcode.left hst hσ
          (assignTarget_ok_subsDefined hat)
        rw [hat] at hstep
        have h1 : runSteps env hie (targetCode t).length s =
            (.ok .continue, { s with pc := s.pc + (targetCode t).length,
                                     stack := base ++ ((fs.map Val.str).reverse).toArray, vars := v }) := by
          rw [show (targetCode t).length = ((targetCode t).length - 1) + 1 by omega, runSteps_ok_add hrun, runSteps_one,
            hstep]
          rw [show (targetCode t).length - 1 + 1 = (targetCode t).length by omega]
        obtain ⟨k, s1', e, junk, hk, hj, hrun', hstep'⟩ := targets_run_error env hie ts fs
          { s with pc := s.pc + (targetCode t).length,
                   stack := base ++ ((fs.map Val.str).reverse).toArray, vars := v } base v'
          (fun x hx => hok x (List.mem_cons_of_mem _ hx)) hstate htr hcode.right rfl (by omega) (by omega)
          (assignTarget_valueStore hvs hat) ha
        refine ⟨(targetCode t).length + k, s1', e, junk, by omega, hj, ?_, ?_⟩
        · rw [runSteps_ok_add h1]; exact hrun'
        · rw [hstep']
          simp only [Nat.add_assoc]

/-! ### the statement -/

/-- the opcode after the three literals is an `input` -/
theorem inputCode_fourth (capsN : Int16) (prompt : Str) (ts : List InTarget) :
    ∃ name, (inputCode capsN prompt ts)[3]? = some (.input name) := by
  cases ts with
  | nil => exact ⟨[], rfl⟩
  | cons t ts => exact ⟨t.name, by simp [inputCode, targetCode]⟩

/-- **the statement suspends.**  Running, at the statement's code: the prompt text, the caps value
    and the number of targets are pushed, and the first `input` opcode stops the loop with the event
    `running`, the machine in state `input` and `pc` back ON that opcode (it is executed again after
    the reply).  Nothing else changes. -/
theorem input_suspends (env : Env) (hie : Bool) (capsN : Int16) (prompt : Str) (ts : List InTarget) (s : Runtime)
    (hstate : s.state = .running) (htr : s.tron = false)
    (hcode : CodeAt s.program.link.ops s.pc (inputCode capsN prompt ts))
    (hroom : s.stack.size + 3 ≤ Gen.stackMaxLen) :
    runSteps env hie 4 s =
      (.ok (.event .running),
        { s with pc := s.pc + 3,
                 stack := ((s.stack.push (.str prompt)).push (.int capsN)).push (.int (Int16.ofNat ts.length)),
                 state := .input }) := by
  have hlen4 : 3 < (inputCode capsN prompt ts).length := by rw [inputCode_length]; omega
  have h0 : s.program.link.ops[s.pc]? = some (.literal (.str prompt)) := by
    have := hcode 0 (by omega); simpa [inputCode] using this
  have h1 : s.program.link.ops[s.pc + 1]? = some (.literal (.int capsN)) := by
    have := hcode 1 (by omega); simpa [inputCode] using this
  have h2 : s.program.link.ops[s.pc + 1 + 1]? = some (.literal (.int (Int16.ofNat ts.length))) := by
    have := hcode 2 (by omega); simpa [inputCode, Nat.add_assoc] using this
  obtain ⟨name, hname⟩ := inputCode_fourth capsN prompt ts
  have h3 : s.program.link.ops[s.pc + 1 + 1 + 1]? = some (.input name) := by
    have := hcode 3 hlen4
    rw [List.getElem?_eq_getElem hlen4] at hname
    rw [show s.pc + 1 + 1 + 1 = s.pc + 3 by omega, this, hname]
  have l0 : ((step env hie).run).run s =
      (.ok .continue, { s with pc := s.pc + 1, stack := s.stack.push (.str prompt) }) := by
    have := run_step_literal env hie s (.str prompt) htr h0
    rw [if_neg (by omega)] at this
    exact this
  have l1 : ((step env hie).run).run { s with pc := s.pc + 1, stack := s.stack.push (.str prompt) } =
      (.ok .continue, { s with pc := s.pc + 1 + 1, stack := (s.stack.push (.str prompt)).push (.int capsN) }) := by
    have := run_step_literal env hie { s with pc := s.pc + 1, stack := s.stack.push (.str prompt) } (.int capsN) htr h1
    rw [if_neg (by simp only [Array.size_push]; omega)] at this
    exact this
  have l2 : ((step env hie).run).run
      { s with pc := s.pc + 1 + 1, stack := (s.stack.push (.str prompt)).push (.int capsN) } =
      (.ok .continue,
        { s with pc := s.pc + 1 + 1 + 1,
                 stack := ((s.stack.push (.str prompt)).push (.int capsN)).push (.int (Int16.ofNat ts.length)) }) := by
    have := run_step_literal env hie
      { s with pc := s.pc + 1 + 1, stack := (s.stack.push (.str prompt)).push (.int capsN) }
      (.int (Int16.ofNat ts.length)) htr h2
    rw [if_neg (by simp only [Array.size_push]; omega)] at this
    exact this
  have l3 : ((step env hie).run).run
      { s with pc := s.pc + 1 + 1 + 1,
               stack := ((s.stack.push (.str prompt)).push (.int capsN)).push (.int (Int16.ofNat ts.length)) } =
      (.ok (.event .running),
        { s with pc := s.pc + 3,
                 stack := ((s.stack.push (.str prompt)).push (.int capsN)).push (.int (Int16.ofNat ts.length)),
                 state := .input }) := by
    rw [run_step_input env hie
      { s with pc := s.pc + 1 + 1 + 1,
               stack := ((s.stack.push (.str prompt)).push (.int capsN)).push (.int (Int16.ofNat ts.length)) }
      name htr h3]
    rw [doInput_running name
      { s with pc := s.pc + 1 + 1 + 1 + 1,
               stack := ((s.stack.push (.str prompt)).push (.int capsN)).push (.int (Int16.ofNat ts.length)) } hstate]
    show (_, _) = (_, _)
    simp only [show s.pc + 1 + 1 + 1 + 1 - 1 = s.pc + 3 by omega]
  show andThen _ (runSteps env hie 3) = _
  rw [l0]
  show andThen _ (runSteps env hie 2) = _
  rw [l1]
  show andThen _ (runSteps env hie 1) = _
  rw [l2]
  show andThen _ (runSteps env hie 0) = _
  rw [l3]
  rfl

/-- **an accepted reply, run.**  In `inputRunning` at the first target's code, the stack being the
    statement's base, three values (prompt, caps, count), the `ret` pushed by the reply and the
    fields (first on top): when `Spec.assignAll` accepts every field, the targets' code and the
    closing `input` run through without event or error; the machine is `running` again, behind the
    statement, with the variables `assignAll` computes and the stack it had before the statement. -/
theorem input_accept_run (env : Env) (hie : Bool) (ts : List InTarget) (fs : List Str) (s : Runtime)
    (base : Array Val) (a b c : Val) (p : Nat) (v' : Var)
    (hok : ∀ t ∈ ts, TargetRunOk t) (hstate : s.state = .inputRunning) (htr : s.tron = false)
    (hcode : CodeAt s.program.link.ops s.pc (ts.flatMap targetCode ++ [.input []]))
    (hst : s.stack = ((((base.push a).push b).push c).push (.ret p)) ++ ((fs.map Val.str).reverse).toArray)
    (hroom : base.size + 4 + fs.length + (ts.flatMap targetCode).length ≤ Gen.stackMaxLen)
    (hlen : ts.length = fs.length)
    (ha : assignAll s.vars ts fs = (v', true)) :
    runSteps env hie ((ts.flatMap targetCode).length + 1) s =
      (.ok .continue, { s with pc := s.pc + ((ts.flatMap targetCode).length + 1), stack := base, vars := v',
                               state := .running }) := by
  have h1 := targets_run_ok env hie ts fs s _ v' hok hstate htr hcode.left hst
    (by simp only [Array.size_push]; omega) hlen ha
  rw [runSteps_ok_add h1, runSteps_one]
  rw [run_step_input env hie
    { s with pc := s.pc + (ts.flatMap targetCode).length, stack := (((base.push a).push b).push c).push (.ret p),
             vars := v' } [] htr hcode.right.head]
  rw [doInput_end
    { s with pc := s.pc + (ts.flatMap targetCode).length + 1, stack := (((base.push a).push b).push c).push (.ret p),
             vars := v' } base a b c (.ret p) hstate rfl]
  simp only [Nat.add_assoc]

/-! ### through `Runtime.execute` -/

/-- a slice that runs out of quantum (or meets an event) in a state that is not `stopped` returns
    what the loop returned -/
theorem execute_of_runSteps_event (env : Env) (s s' : Runtime) (q : Nat) (ev : Event)
    (hst : s.state = .running ∨ s.state = .inputRunning) (hde : s.listing.directErrors.isEmpty = true)
    (hrun : runSteps env (!s.listing.indirectErrors.isEmpty) q s = (.ok (.event ev), s'))
    (hns : s'.state ≠ .stopped) :
    execute env s q = (s', ev) := by
  unfold execute
  rcases hst with hst | hst <;>
  · simp only [hst, hde, Bool.not_true, Bool.false_eq_true, if_false]
    rw [PrintRun.executeLoop_run, hrun]
    simp only [PrintRun.loopResult]
    split
    · rename_i _ _ h; exact absurd h hns
    · rfl

theorem execute_of_runSteps_continue (env : Env) (s s' : Runtime) (q : Nat)
    (hst : s.state = .running ∨ s.state = .inputRunning) (hde : s.listing.directErrors.isEmpty = true)
    (hrun : runSteps env (!s.listing.indirectErrors.isEmpty) q s = (.ok .continue, s'))
    (hns : s'.state ≠ .stopped) :
    execute env s q = (s', .running) := by
  unfold execute
  rcases hst with hst | hst <;>
  · simp only [hst, hde, Bool.not_true, Bool.false_eq_true, if_false]
    rw [PrintRun.executeLoop_run, hrun]
    simp only [PrintRun.loopResult]
    split
    · rename_i h _; exact absurd h hns
    · rfl

/-- a slice whose first `n` instructions answer `continue` is the slice of the remaining quantum
    from the state reached (both states `running` or `inputRunning`, same listing) -/
theorem execute_split (env : Env) (s s' : Runtime) (n m : Nat)
    (hst : s.state = .running ∨ s.state = .inputRunning) (hst' : s'.state = .running ∨ s'.state = .inputRunning)
    (hl : s'.listing = s.listing) (hde : s.listing.directErrors.isEmpty = true)
    (hrun : runSteps env (!s.listing.indirectErrors.isEmpty) n s = (.ok .continue, s')) :
    execute env s (n + m) = execute env s' m := by
  have hde' : s'.listing.directErrors.isEmpty = true := by rw [hl]; exact hde
  unfold execute
  rcases hst with hst | hst <;> rcases hst' with hst' | hst' <;>
  · simp only [hst, hst', hde, hde', Bool.not_true, Bool.false_eq_true, if_false]
    rw [PrintRun.executeLoop_run, PrintRun.executeLoop_run, runSteps_ok_add hrun, hl]

/-! ### the session: `enter` with a reply, the failing slice, the REDO report -/

open Basic.Thm.C17 (fields split_spec single_var_whole_reply field_count_match_accept field_count_mismatch_redo
  enter_input_reply enter_input_too_long redo_restores_stack execute_inputRedo execute_input_prompt)

/-- for two or more targets the specification's fields are the model's -/
theorem replyFields_eq_fields (k : Nat) (reply : Str) (hk : ¬ k ≤ 1) : replyFields k reply = fields reply := by
  rw [replyFields, if_neg hk, split_spec]

/-- **the reply has the right number of fields**: `enter` pushes `ret pc` and the fields, first field
    on top, and the machine is in `inputRunning` -/
theorem enter_accept (env : Env) (w : Runtime) (reply : Str) (k : Nat) (hk1 : 1 ≤ k) (hk : k ≤ 32767)
    (hstate : w.state = .input) (htop : w.stack.back? = some (.int (Int16.ofNat k)))
    (hlen : RStd.utf8Len reply ≤ Gen.maxLineLen) (hcount : (replyFields k reply).length = k)
    (hroom : w.stack.size + 1 + k ≤ Gen.stackMaxLen) :
    enter env w reply =
      { w with stack := w.stack ++ (Val.ret w.pc :: (replyFields k reply).reverse.map Val.str).toArray,
               state := .inputRunning, printCol := 0 } := by
  have hto : (Int16.ofNat k).toInt = k := toInt_ofNat_len hk
  by_cases h1 : k ≤ 1
  · have hr : replyFields k reply = [reply] := by rw [replyFields, if_pos h1]
    rw [enter_input_reply env w _ reply hstate hlen
      (single_var_whole_reply w reply (Int16.ofNat k) htop (by omega) (by omega) (by omega)), hr]
    congr 1
  · rw [replyFields_eq_fields k reply h1] at hcount ⊢
    rw [enter_input_reply env w _ reply hstate hlen
      (field_count_match_accept w reply (Int16.ofNat k) htop (by omega) (by rw [hto, hcount]) (by omega))]

/-- **wrong number of fields**: refused by `enter` itself; only the state and the column change -/
theorem enter_refuse_count (env : Env) (w : Runtime) (reply : Str) (k : Nat) (hk1 : 1 ≤ k) (hk : k ≤ 32767)
    (hstate : w.state = .input) (htop : w.stack.back? = some (.int (Int16.ofNat k)))
    (hlen : RStd.utf8Len reply ≤ Gen.maxLineLen) (hcount : (replyFields k reply).length ≠ k) :
    enter env w reply = { w with state := .inputRedo, printCol := 0 } := by
  have hto : (Int16.ofNat k).toInt = k := toInt_ofNat_len hk
  have h1 : ¬ k ≤ 1 := by
    intro h1
    rw [replyFields, if_pos h1] at hcount
    exact hcount (by simp only [List.length_singleton]; omega)
  rw [replyFields_eq_fields k reply h1] at hcount
  exact enter_input_reply env w _ reply hstate hlen
    (field_count_mismatch_redo w reply (Int16.ofNat k) htop (by omega) (by rw [hto]; omega))

/-- **a field is refused, seen through `execute`.**  The slice after the reply fails in the
    assigning instruction of a target; `execute` cuts the stack back to the three values of the
    `input` state, puts `pc` back on the first `input` opcode and goes to `inputRedo`.  The variables
    are the working copy `Spec.assignAll` had reached: they are NOT restored.  (`ValueStore`: the
    variables hold numbers and strings, as in every reachable state — it makes sure that no operand
    of a failing subscript is mistaken for the return address.) -/
theorem execute_field_refused (env : Env) (ts : List InTarget) (fs : List Str) (sC : Runtime) (base : Array Val)
    (a b c : Val) (p : Nat) (v1 : Var) (q : Nat)
    (hok : ∀ t ∈ ts, TargetRunOk t) (hstate : sC.state = .inputRunning) (htr : sC.tron = false)
    (hde : sC.listing.directErrors.isEmpty = true)
    (hcode : CodeAt sC.program.link.ops sC.pc (ts.flatMap targetCode))
    (hst : sC.stack = ((((base.push a).push b).push c).push (.ret p)) ++ ((fs.map Val.str).reverse).toArray)
    (hroom : base.size + 4 + fs.length + (ts.flatMap targetCode).length ≤ Gen.stackMaxLen)
    (hlen : ts.length = fs.length) (hvs : ValueStore sC.vars)
    (ha : assignAll sC.vars ts fs = (v1, false)) (hq : (ts.flatMap targetCode).length ≤ q) :
    execute env sC q =
      ({ sC with pc := p, stack := ((base.push a).push b).push c, vars := v1, state := .inputRedo }, .running) := by
  obtain ⟨k, s1, e, junk, hk, hj, hrun, hstep⟩ := targets_run_error env (!sC.listing.indirectErrors.isEmpty) ts fs sC
    ((((base.push a).push b).push c).push (.ret p)) v1 hok hstate htr hcode hst
    (by simp only [Array.size_push]; omega) hlen hvs ha
  have herr := runSteps_error_mono env _ k q sC s1 _ e hrun hstep (by omega)
  have hloop : ((executeLoop env q).run).run sC =
      (.error e, { sC with pc := sC.pc + k + 1,
                           stack := (((base.push a).push b).push c).push (.ret p) ++ junk.toArray,
                           vars := v1 }) := by
    rw [PrintRun.executeLoop_run, herr]; rfl
  rw [redo_restores_stack env sC _ q e (((base.push a).push b).push c) p junk hstate hde hloop hstate rfl hj]

/-- **REDO, then the same prompt.**  In `inputRedo` with the three values of the statement on the
    stack: the next slice reports REDO FROM START and goes back to `input`, touching nothing else; the
    one after asks again — the prompt text and the caps flag are read off the same stack, so they are
    the same as before. -/
theorem redo_report_and_prompt (env : Env) (sR : Runtime) (st : Array Val) (prompt : Str) (capsVal lenVal : Val)
    (q1 q2 : Nat) (hstate : sR.state = .inputRedo)
    (hs : sR.stack = ((st.push (.str prompt)).push capsVal).push lenVal) (hroom : st.size + 3 ≤ Gen.stackMaxLen) :
    execute env sR q1 = ({ sR with state := .input }, .errors [Error.mk' Code.redoFromStart]) ∧
    execute env { sR with state := .input } q2 =
      ({ sR with state := .input, printCol := 0 }, .input (prompt ++ ['?', ' ']) (decide (capsVal ≠ .int 0))) :=
  ⟨execute_inputRedo env sR q1 hstate,
   execute_input_prompt env { sR with state := .input } q2 st prompt capsVal lenVal rfl hs hroom⟩

end vm

end Lemmas.InputRun
end Basic
