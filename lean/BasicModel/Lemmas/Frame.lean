import BasicModel.Lemmas.RtSplit
/-
  A small frame calculus for `RM` actions.

  `Frame R m`: from every state `s`, running `m` (whether it succeeds or throws) ends in a state
  `t` with `R s t`.  `FrameFrom R s₀ m` is the relativised form used while walking through a
  `do` block: from every state `s` with `R s₀ s`, running `m` ends in `t` with `R s₀ t`.
-/
namespace Basic
namespace Runtime
variable {α β : Type}
set_option linter.unusedSectionVars false

class FrameRel (R : Runtime → Runtime → Prop) : Prop where
  refl : ∀ s, R s s
  trans : ∀ {a b c}, R a b → R b c → R a c

structure Frame (R : Runtime → Runtime → Prop) (m : RM α) : Prop where
  run : ∀ s, R s (m.run.run s).2

structure FrameFrom (R : Runtime → Runtime → Prop) (s₀ : Runtime) (m : RM α) : Prop where
  run : ∀ s, R s₀ s → R s₀ (m.run.run s).2

section
variable {R : Runtime → Runtime → Prop} [FrameRel R] {s₀ : Runtime}

theorem Frame.of_from {m : RM α} (h : ∀ s₀, FrameFrom R s₀ m) : Frame R m :=
  ⟨fun s => (h s).run s (FrameRel.refl s)⟩

theorem FrameFrom.of_frame {m : RM α} (h : Frame R m) : FrameFrom R s₀ m :=
  ⟨fun s hs => FrameRel.trans hs (h.run s)⟩

theorem FrameFrom.ret (a : α) : FrameFrom R s₀ (pure a : RM α) := ⟨fun _ hs => hs⟩
theorem FrameFrom.thr (e : Error) : FrameFrom R s₀ (throw e : RM α) := ⟨fun _ hs => hs⟩
theorem FrameFrom.rd : FrameFrom R s₀ (get : RM Runtime) := ⟨fun _ hs => hs⟩
theorem FrameFrom.lift (r : Except Error α) : FrameFrom R s₀ (liftE r : RM α) := by
  constructor; intro s hs; rw [run_liftE]; exact hs

theorem FrameFrom.wr {t : Runtime} (h : R s₀ t) : FrameFrom R s₀ (set t : RM Unit) := ⟨fun _ _ => h⟩

theorem FrameFrom.mod {f : Runtime → Runtime} (h : ∀ s, R s (f s)) :
    FrameFrom R s₀ (modify f : RM Unit) := ⟨fun s hs => FrameRel.trans hs (h s)⟩

theorem FrameFrom.seq {m : RM α} {f : α → RM β}
    (hm : FrameFrom R s₀ m) (hf : ∀ a, FrameFrom R s₀ (f a)) : FrameFrom R s₀ (m >>= f) := by
  constructor
  intro s hs
  have h1 := hm.run s hs
  rw [run_bind]
  rcases h : m.run.run s with ⟨r, s'⟩
  rw [h] at h1
  cases r with
  | ok a => exact (hf a).run s' h1
  | error e => exact h1

/-- after `get` the walk continues relative to the state just read -/
theorem FrameFrom.rd_seq {f : Runtime → RM β} (hf : ∀ s, FrameFrom R s (f s)) :
    FrameFrom R s₀ (get >>= f) := by
  constructor
  intro s hs
  rw [run_bind_ok (run_get s)]
  exact FrameRel.trans hs ((hf s).run s (FrameRel.refl s))

theorem FrameFrom.forLoop {γ : Type} (l : List γ) (init : β) (f : γ → β → RM (ForInStep β))
    (hf : ∀ a b s₁, FrameFrom R s₁ (f a b)) : FrameFrom R s₀ (forIn l init f) := by
  induction l generalizing init with
  | nil => exact FrameFrom.ret _
  | cons a as ih =>
    rw [List.forIn_cons]
    refine FrameFrom.seq (hf a init s₀) ?_
    intro r
    cases r with
    | done b => exact FrameFrom.ret _
    | yield b => exact ih b

theorem Frame.seq {m : RM α} {f : α → RM β} (hm : Frame R m) (hf : ∀ a, Frame R (f a)) :
    Frame R (m >>= f) :=
  Frame.of_from fun _ => FrameFrom.seq (FrameFrom.of_frame hm) fun a => FrameFrom.of_frame (hf a)

end

/-! ### the relation satisfied by every instruction that cannot return an event -/

/-- what an ordinary instruction leaves alone: the listing, the state of the protocol, the
    compiled code, the entry address; `cont` is kept or reset to `stopped` (CLEAR) -/
structure Quiet (s t : Runtime) : Prop where
  listing : t.listing = s.listing
  state : t.state = s.state
  cont : t.cont = s.cont ∨ t.cont = .stopped
  contPc : t.contPc = s.contPc
  entry : t.entryAddress = s.entryAddress
  dirty : t.dirty = s.dirty
  prompt : t.prompt = s.prompt
  ops : t.program.link.ops = s.program.link.ops
  data : t.program.link.data = s.program.link.data
  symbols : t.program.link.symbols = s.program.link.symbols
  errors : t.program.errors = s.program.errors
  indirectErrors : t.program.indirectErrors = s.program.indirectErrors
  directAddress : t.program.directAddress = s.program.directAddress

instance : FrameRel Quiet where
  refl _ := ⟨rfl, rfl, .inl rfl, rfl, rfl, rfl, rfl, rfl, rfl, rfl, rfl, rfl, rfl⟩
  trans h1 h2 :=
    ⟨h2.listing.trans h1.listing, h2.state.trans h1.state,
     h2.cont.elim (fun h => h1.cont.elim (fun h' => .inl (h.trans h')) (fun h' => .inr (h.trans h'))) .inr,
     h2.contPc.trans h1.contPc, h2.entry.trans h1.entry, h2.dirty.trans h1.dirty,
     h2.prompt.trans h1.prompt, h2.ops.trans h1.ops, h2.data.trans h1.data,
     h2.symbols.trans h1.symbols, h2.errors.trans h1.errors,
     h2.indirectErrors.trans h1.indirectErrors, h2.directAddress.trans h1.directAddress⟩

/-- relations coarser than `Quiet` inherit every `Quiet` frame lemma -/
class QuietImplies (R : Runtime → Runtime → Prop) : Prop where
  imp : ∀ {s t}, Quiet s t → R s t

instance : QuietImplies Quiet := ⟨id⟩

theorem FrameFrom.of_quiet {R : Runtime → Runtime → Prop} [FrameRel R] [QuietImplies R]
    {s₀ : Runtime} {m : RM α} (h : Frame Quiet m) : FrameFrom R s₀ m :=
  ⟨fun s hs => FrameRel.trans hs (QuietImplies.imp (h.run s))⟩

theorem Frame.of_quiet {R : Runtime → Runtime → Prop} [QuietImplies R]
    {m : RM α} (h : Frame Quiet m) : Frame R m :=
  ⟨fun s => QuietImplies.imp (h.run s)⟩

/-- closes `Quiet s t` when `t` is `s` with some of the free fields replaced -/
macro "quiet" : tactic =>
  `(tactic| (constructor <;> first | rfl | exact Or.inl rfl | exact Or.inr rfl))

/-- closes the side goals `R s t` of the walk; extended by `macro_rules` per relation -/
syntax "frame_rel" : tactic
macro_rules | `(tactic| frame_rel) => `(tactic| quiet)

/-- the frame lemmas proved so far; extended by `macro_rules` after each helper lemma -/
syntax "frame_known" : tactic
macro_rules | `(tactic| frame_known) => `(tactic| assumption)

/-- one step of the walk through a `do` block -/
macro "frame_step" : tactic =>
  `(tactic| first
    | with_reducible exact FrameFrom.ret _
    | with_reducible exact FrameFrom.thr _
    | with_reducible exact FrameFrom.lift _
    | with_reducible exact FrameFrom.rd
    | frame_known
    | ((with_reducible apply FrameFrom.wr); frame_rel)
    | ((with_reducible apply FrameFrom.mod); intro _; frame_rel)
    | ((with_reducible apply FrameFrom.rd_seq); intro _)
    | ((with_reducible apply FrameFrom.forLoop); intro _ _ _)
    | with_reducible apply FrameFrom.seq
    | intro _
    | split)

/-- `unfold` the action first; `have`s of the do-notation are removed by `dsimp only` -/
macro "frame" : tactic =>
  `(tactic| (try dsimp only
             apply Frame.of_from; intro _; repeat' frame_step))

theorem frame_push (v : Val) : Frame Quiet (push v) := by
  constructor; intro s; rw [run_push]; quiet
macro_rules | `(tactic| frame_known) => `(tactic| with_reducible exact FrameFrom.of_quiet (frame_push _))

theorem frame_pop : Frame Quiet pop := by
  constructor; intro s; rw [run_pop]; split <;> quiet
macro_rules | `(tactic| frame_known) => `(tactic| with_reducible exact FrameFrom.of_quiet frame_pop)

theorem frame_pop2 : Frame Quiet pop2 := by
  unfold pop2; frame
macro_rules | `(tactic| frame_known) => `(tactic| with_reducible exact FrameFrom.of_quiet frame_pop2)

theorem frame_popN (n : Nat) : Frame Quiet (popN n) := by
  unfold popN; frame
macro_rules | `(tactic| frame_known) => `(tactic| with_reducible exact FrameFrom.of_quiet (frame_popN _))

theorem frame_popVec : Frame Quiet popVec := by
  unfold popVec; frame
macro_rules | `(tactic| frame_known) => `(tactic| with_reducible exact FrameFrom.of_quiet frame_popVec)

theorem frame_pop1Push (f : Val → Res Val) : Frame Quiet (pop1Push f) := by
  unfold pop1Push; frame
macro_rules | `(tactic| frame_known) => `(tactic| with_reducible exact FrameFrom.of_quiet (frame_pop1Push _))

theorem frame_pop2Push (f : Val → Val → Res Val) : Frame Quiet (pop2Push f) := by
  unfold pop2Push; frame
macro_rules | `(tactic| frame_known) => `(tactic| with_reducible exact FrameFrom.of_quiet (frame_pop2Push _))

theorem frame_doDef (name : Str) : Frame Quiet (doDef name) := by
  unfold doDef; frame
macro_rules | `(tactic| frame_known) => `(tactic| with_reducible exact FrameFrom.of_quiet (frame_doDef _))

theorem frame_doDefType (f : Var → Val → Val → Res Var) : Frame Quiet (doDefType f) := by
  unfold doDefType; frame
macro_rules | `(tactic| frame_known) => `(tactic| with_reducible exact FrameFrom.of_quiet (frame_doDefType _))

theorem frame_doFn (name : Str) : Frame Quiet (doFn name) := by
  unfold doFn; frame
macro_rules | `(tactic| frame_known) => `(tactic| with_reducible exact FrameFrom.of_quiet (frame_doFn _))

theorem frame_doLetMid : Frame Quiet doLetMid := by
  unfold doLetMid; frame
macro_rules | `(tactic| frame_known) => `(tactic| with_reducible exact FrameFrom.of_quiet frame_doLetMid)

theorem frame_doOn : Frame Quiet doOn := by
  unfold doOn; frame
macro_rules | `(tactic| frame_known) => `(tactic| with_reducible exact FrameFrom.of_quiet frame_doOn)

theorem quiet_readData (s : Runtime) :
    Quiet s { s with program := { s.program with link := s.program.link.readData.1 } } := by
  constructor <;> first | rfl | exact Or.inl rfl | (simp only [Link.readData]; split <;> rfl)

theorem frame_doRead : Frame Quiet doRead := by
  unfold doRead
  try dsimp only
  apply Frame.of_from; intro _
  apply FrameFrom.rd_seq; intro s
  apply FrameFrom.seq
  · exact FrameFrom.wr (quiet_readData s)
  · repeat' frame_step
macro_rules | `(tactic| frame_known) => `(tactic| with_reducible exact FrameFrom.of_quiet frame_doRead)

theorem frame_doSwap : Frame Quiet doSwap := by
  unfold doSwap; frame
macro_rules | `(tactic| frame_known) => `(tactic| with_reducible exact FrameFrom.of_quiet frame_doSwap)

theorem frame_doNext_loop (name : Str) : ∀ fuel, Frame Quiet (doNext.loop name fuel) := by
  intro fuel
  induction fuel with
  | zero => unfold doNext.loop; frame
  | succ k ih =>
    have ih' : ∀ s₀, FrameFrom Quiet s₀ (doNext.loop name k) := fun _ => FrameFrom.of_frame ih
    unfold doNext.loop; frame
    all_goals exact ih' _

theorem frame_doNext (name : Str) : Frame Quiet (doNext name) := by
  have := frame_doNext_loop name
  unfold doNext
  try dsimp only
  apply Frame.of_from; intro _
  apply FrameFrom.rd_seq; intro s
  exact FrameFrom.of_frame (this _)
macro_rules | `(tactic| frame_known) => `(tactic| with_reducible exact FrameFrom.of_quiet (frame_doNext _))

theorem frame_doReturn_loop : ∀ fuel rv first, Frame Quiet (doReturn.loop fuel rv first) := by
  intro fuel
  induction fuel with
  | zero => intro rv first; unfold doReturn.loop; frame
  | succ k ih =>
    intro rv first
    have ih' : ∀ rv first s₀, FrameFrom Quiet s₀ (doReturn.loop k rv first) :=
      fun _ _ _ => FrameFrom.of_frame (ih _ _)
    unfold doReturn.loop; frame
    all_goals exact ih' _ _ _

theorem frame_doReturn : Frame Quiet doReturn := by
  have := frame_doReturn_loop
  unfold doReturn
  try dsimp only
  apply Frame.of_from; intro _
  apply FrameFrom.rd_seq; intro s
  exact FrameFrom.of_frame (this _ _ _)
macro_rules | `(tactic| frame_known) => `(tactic| with_reducible exact FrameFrom.of_quiet frame_doReturn)

/-- the instructions that can return an event (or, for `jump`/`cont`/`input`, change `state`) -/
def isEventOp : Opcode → Bool
  | .jump _ | .cls | .cont | .delete | .end | .input _ | .list | .load | .loadRun | .new
  | .print | .renum | .save | .inkey => true
  | _ => false

/-- every other instruction is `Quiet`, whether it succeeds or throws -/
theorem execOp_quiet (env : Env) (h : Bool) (op : Opcode) (hop : isEventOp op = false) :
    Frame Quiet (execOp env h op) := by
  cases op <;> first
    | (simp [isEventOp] at hop; done)
    | (simp only [execOp]; frame)

end Runtime
end Basic
