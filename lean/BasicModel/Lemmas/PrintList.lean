import BasicModel.Thm.C02
/-
  The whole-list behaviour of `Parse.printList` (PRINT's item list) on lists made of rendered
  expressions of the C02 fragment, `,` and `;` — used by `Thm/C11.lean`.
-/
namespace Basic
namespace Lemmas.PrintList
open Parse Spec Lemmas.ParseExpr

/-- an item of a PRINT list -/
inductive PItem where
  | expr (e : Expr)
  | comma
  | semi

def renderItem (lit : Int16 → Str) : PItem → List Token
  | .expr e => render lit e
  | .comma => [.comma]
  | .semi => [.semicolon]

def renderItems (lit : Int16 → Str) : List PItem → List Token
  | [] => []
  | i :: is => renderItem lit i ++ renderItems lit is

/-- every expression item is followed by something that is not a binary operator (so the
    expression ends where its rendering ends) -/
def Sep (lit : Int16 → Str) (t' : List Token) : List PItem → Prop
  | [] => True
  | .expr _ :: rest => stops 0 (renderItems lit rest ++ t') ∧ Sep lit t' rest
  | _ :: rest => Sep lit t' rest

/-- the item `,` desugars to, recorded at column range `c` -/
def zoneItem (c : Col) : Expr :=
  Expr.var (.array c (.string "TAB".toList) [Expr.integer c Gen.printZone])

/-- what one item contributes to the parsed list -/
inductive ItemOut : PItem → List Expr → Prop where
  | expr (e e' : Expr) : e'.shape = e.shape → ItemOut (.expr e) [e']
  | comma (c : Col) : ItemOut .comma [zoneItem c]
  | semi : ItemOut .semi []

inductive Outs : List PItem → List Expr → Prop where
  | nil : Outs [] []
  | cons {i is o os} : ItemOut i o → Outs is os → Outs (i :: is) (o ++ os)

/-- the linefeed flag after the items: true iff the last item is an expression (or, for the empty
    list, the flag it started with) -/
def lfAfter (lf : Bool) : List PItem → Bool
  | [] => lf
  | .expr _ :: rest => lfAfter true rest
  | _ :: rest => lfAfter false rest

/-- the terminator of the list: end of line, `:` or ELSE -/
def EndTok (t' : List Token) : Prop := isEnd t'.head? = true

/-- the rendering of a fragment tree starts with a literal, `-`, NOT or `(` -/
theorem render_head {ok : Int16 → Prop} (lit : Int16 → Str) {e : Expr} (hf : Frag ok e) :
    ∃ t ts, render lit e = t :: ts ∧ isEnd (some t) = false ∧ t ≠ .semicolon ∧ t ≠ .comma := by
  induction hf with
  | int c n _ => exact ⟨_, _, rfl, rfl, nofun, nofun⟩
  | neg c x _ _ => exact ⟨_, _, rfl, rfl, nofun, nofun⟩
  | not c x _ _ => exact ⟨_, _, rfl, rfl, nofun, nofun⟩
  | bin op c l r _ _ ihl _ =>
    obtain ⟨t, ts, h, h1, h2, h3⟩ := ihl
    cases hn : needsParens (precOf op) false l with
    | true => exact ⟨.lparen, _, by simp only [render, hn, if_true]; rfl, rfl, nofun, nofun⟩
    | false =>
      refine ⟨t, ts ++ (.operator (operatorOf op) :: child lit (precOf op) true r), ?_, h1, h2, h3⟩
      simp only [render, child, hn, Bool.false_eq_true, if_false, h]; rfl

theorem printList_spec (lit : Int16 → Str) (t' : List Token) (hend : EndTok t') :
    ∀ (items : List PItem) (st : PState) (lf : Bool) (acc : List Expr), Good st →
      view st = renderItems lit items ++ t' →
      (∀ e, PItem.expr e ∈ items → Frag (Thm.C02.LitOk lit) e) → Sep lit t' items →
      ∃ N out st', Outs items out ∧ Good st' ∧ view st' = t' ∧
        ∀ fuel n, N ≤ fuel → items.length < n →
          (printList fuel n lf acc).run st =
            .ok (acc ++ out ++ (if lfAfter lf items then [Expr.string (st'.ce, st'.ce) ['\n']] else []),
                 st') := by
  intro items
  induction items with
  | nil =>
    intro st lf acc hg hv _ _
    simp only [renderItems, List.nil_append] at hv
    -- the terminator
    have hpk : ∃ t st0, peek.run st = .ok (t, st0) ∧ Good st0 ∧ view st0 = t' ∧ isEnd t = true := by
      cases ht : t' with
      | nil =>
        obtain ⟨st0, h0, hg0, hv0⟩ := peek_nil hg (hv.trans ht)
        exact ⟨none, st0, h0, hg0, hv0, rfl⟩
      | cons tk rest =>
        obtain ⟨st0, h0, hg0, hv0⟩ := peek_cons hg (hv.trans ht)
        refine ⟨some tk, st0, h0, hg0, hv0, ?_⟩
        have := hend; rw [EndTok, ht] at this; exact this
    obtain ⟨t, st0, h0, hg0, hv0, he⟩ := hpk
    refine ⟨0, [], st0, .nil, hg0, hv0, fun fuel n _ hn => ?_⟩
    obtain ⟨n, rfl⟩ : ∃ n', n = n' + 1 := ⟨n - 1, by simp at hn; omega⟩
    rw [printList]
    simp only [StateT.run_bind, h0, ok_bind, he, if_true, col_run, lfAfter, List.append_nil]
    cases lf <;> simp [StateT.run_pure] <;> rfl
  | cons i items ih =>
    intro st lf acc hg hv hfr hsep
    cases i with
    | comma =>
      have hv' : view st = .comma :: (renderItems lit items ++ t') := by rw [hv]; rfl
      obtain ⟨st0, h0, hg0, hv0⟩ := peek_cons hg hv'
      obtain ⟨st1, h1, hg1, hv1, _⟩ := next_cons hg0 hv0
      obtain ⟨N, out, st', hout, hg', hvw', hrun⟩ :=
        ih st1 false (acc ++ [zoneItem (st1.cs, st1.ce)]) hg1 hv1
          (fun e he => hfr e (List.mem_cons_of_mem _ he)) hsep
      refine ⟨N, [zoneItem (st1.cs, st1.ce)] ++ out, st', .cons (.comma _) hout, hg', hvw',
        fun fuel n hf hn => ?_⟩
      obtain ⟨n, rfl⟩ : ∃ n', n = n' + 1 := ⟨n - 1, by simp at hn; omega⟩
      rw [printList]
      simp only [StateT.run_bind, h0, ok_bind, isEnd, Bool.false_eq_true, if_false, h1, col_run]
      have := hrun fuel n hf (by simp at hn; omega)
      simp only [zoneItem, lfAfter, List.append_assoc] at this ⊢
      exact this
    | semi =>
      have hv' : view st = .semicolon :: (renderItems lit items ++ t') := by rw [hv]; rfl
      obtain ⟨st0, h0, hg0, hv0⟩ := peek_cons hg hv'
      obtain ⟨st1, h1, hg1, hv1, _⟩ := next_cons hg0 hv0
      obtain ⟨N, out, st', hout, hg', hvw', hrun⟩ :=
        ih st1 false acc hg1 hv1 (fun e he => hfr e (List.mem_cons_of_mem _ he)) hsep
      refine ⟨N, [] ++ out, st', .cons .semi hout, hg', hvw', fun fuel n hf hn => ?_⟩
      obtain ⟨n, rfl⟩ : ∃ n', n = n' + 1 := ⟨n - 1, by simp at hn; omega⟩
      rw [printList]
      simp only [StateT.run_bind, h0, ok_bind, isEnd, Bool.false_eq_true, if_false, h1]
      exact hrun fuel n hf (by simp at hn; omega)
    | expr e =>
      have hfe : Frag (Thm.C02.LitOk lit) e := hfr e (List.mem_cons_self ..)
      obtain ⟨tk, ts, hrd, hne, hns, hnc⟩ := render_head lit hfe
      have hv' : view st = render lit e ++ (renderItems lit items ++ t') := by
        rw [hv]; simp [renderItems, renderItem]
      have hv'' : view st = tk :: (ts ++ (renderItems lit items ++ t')) := by rw [hv', hrd]; rfl
      obtain ⟨st0, h0, hg0, hv0⟩ := peek_cons hg hv''
      obtain ⟨N1, e', st1, hN1, hsh, hg1, hv1⟩ :=
        Thm.C02.parse_render_then [] lit e hfe st0 (renderItems lit items ++ t') hg0
          (by rw [hv0, hrd]; rfl) hsep.1
      obtain ⟨N, out, st', hout, hg', hvw', hrun⟩ :=
        ih st1 true (acc ++ [e']) hg1 hv1 (fun x hx => hfr x (List.mem_cons_of_mem _ hx)) hsep.2
      refine ⟨max N1 N, [e'] ++ out, st', .cons (.expr e e' hsh) hout, hg', hvw',
        fun fuel n hf hn => ?_⟩
      obtain ⟨n, rfl⟩ : ∃ n', n = n' + 1 := ⟨n - 1, by simp at hn; omega⟩
      rw [printList]
      simp only [StateT.run_bind, h0, ok_bind, hne, Bool.false_eq_true, if_false]
      have hx : (expression fuel).run st0 = .ok (e', st1) := hN1 fuel (by omega)
      have := hrun fuel n (by omega) (by simp at hn; omega)
      simp only [lfAfter, List.append_assoc] at this ⊢
      cases tk <;> first
        | exact absurd rfl hns
        | exact absurd rfl hnc
        | (simp only [hx, ok_bind, StateT.run_bind]; exact this)

/-! ### sufficient conditions and read-outs -/

def startsWithSeparator : List PItem → Bool
  | .expr _ :: _ => false
  | _ => true

/-- the documented form of a PRINT list: no two expressions directly next to each other -/
def Alternating : List PItem → Prop
  | [] => True
  | .expr _ :: rest => startsWithSeparator rest = true ∧ Alternating rest
  | _ :: rest => Alternating rest

theorem stops_of_endTok {t' : List Token} (h : EndTok t') : stops 0 t' := by
  unfold EndTok at h
  cases t' with
  | nil => trivial
  | cons t ts =>
    cases t with
    | operator op => simp [isEnd] at h
    | _ => trivial

theorem sep_of_alternating (lit : Int16 → Str) {t' : List Token} (hend : EndTok t') :
    ∀ items, Alternating items → Sep lit t' items := by
  intro items
  induction items with
  | nil => intro _; trivial
  | cons i rest ih =>
    intro h
    cases i with
    | comma => exact ih h
    | semi => exact ih h
    | expr e =>
      refine ⟨?_, ih h.2⟩
      cases rest with
      | nil => exact stops_of_endTok hend
      | cons j rest' =>
        cases j with
        | expr _ => exact absurd h.1 (by simp [startsWithSeparator])
        | comma => trivial
        | semi => trivial

/-- the linefeed flag: the list ends in an expression, or is empty and the flag was set -/
theorem lfAfter_eq (lf : Bool) (items : List PItem) :
    lfAfter lf items = (match items.getLast? with
      | none => lf
      | some (.expr _) => true
      | some _ => false) := by
  induction items generalizing lf with
  | nil => rfl
  | cons i rest ih =>
    cases rest with
    | nil => cases i <;> rfl
    | cons j rest' =>
      have : (i :: j :: rest').getLast? = (j :: rest').getLast? := by simp [List.getLast?_cons_cons]
      rw [this]
      cases i <;> simp only [lfAfter] <;> rw [ih] <;>
        (cases hl : (j :: rest').getLast? with
         | none => simp at hl
         | some x => cases x <;> rfl)

theorem renderItems_plain (lit : Int16 → Str) (items : List PItem) :
    ∀ t ∈ renderItems lit items, Plain t := by
  induction items with
  | nil => intro t h; cases h
  | cons i rest ih =>
    intro t h
    simp only [renderItems, List.mem_append] at h
    rcases h with h | h
    · cases i with
      | expr e => exact Thm.C02.render_plain lit e t h
      | comma =>
        simp only [renderItem, List.mem_cons, List.not_mem_nil, or_false] at h
        subst h; exact ⟨fun _ h => (nomatch h), rfl⟩
      | semi =>
        simp only [renderItem, List.mem_cons, List.not_mem_nil, or_false] at h
        subst h; exact ⟨fun _ h => (nomatch h), rfl⟩
    · exact ih t h

end Lemmas.PrintList
end Basic
