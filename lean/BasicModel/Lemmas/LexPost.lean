import BasicModel.Lemmas.LexCanon
/-
  The post-passes `separate_words` and `collapse_doubles` (locations collected first, then applied
  from the last to the first) are equal to plain left-to-right rewrites.
-/
set_option linter.unusedSimpArgs false
namespace Basic
namespace Lex

/-! ### the post-passes as plain left-to-right rewrites -/

/-- `separate_words` without locations -/
def sepRec : List Token → List Token
  | a :: b :: rest =>
    if a.isWord && b.isWord then a :: .whitespace 1 :: sepRec (b :: rest) else a :: sepRec (b :: rest)
  | ts => ts

theorem separateWords_aux (ts : List Token) : ∀ (pre : List Token),
    (wordLocs ts pre.length).foldr (fun i ts => insertBlank ts i) (pre ++ ts) = pre ++ sepRec ts := by
  induction ts with
  | nil => intro pre; simp [wordLocs, sepRec]
  | cons a ts ih =>
    intro pre
    cases ts with
    | nil => simp [wordLocs, sepRec]
    | cons b rest =>
      have := ih (pre ++ [a])
      simp only [List.length_append, List.length_cons, List.length_nil, List.append_assoc,
        List.cons_append, List.nil_append, Nat.zero_add] at this
      simp only [wordLocs, sepRec]
      split
      · rw [List.foldr_cons, this]
        simp only [insertBlank]
        rw [show pre ++ a :: sepRec (b :: rest) = (pre ++ [a]) ++ sepRec (b :: rest) by simp,
          List.take_left' (by simp), List.drop_left' (by simp)]
        simp
      · exact this

/-- inserting from the last location to the first = one left-to-right pass -/
theorem separateWords_eq (ts : List Token) : separateWords ts = sepRec ts := by
  simpa [separateWords] using separateWords_aux ts []

/-- `collapse_doubles` without locations: greedy, left to right, a hit consumes both tokens -/
def dblRec : List Token → List Token
  | a :: b :: rest =>
    match doubleMatch a b with
    | some t => t :: dblRec rest
    | none => a :: dblRec (b :: rest)
  | ts => ts

theorem collapseDoubles_aux (n : Nat) : ∀ (ts pre : List Token), ts.length ≤ n →
    applyLocs 2 (doubleLocs ts pre.length) (pre ++ ts) = pre ++ dblRec ts := by
  induction n with
  | zero =>
    intro ts pre h
    have : ts = [] := by cases ts <;> simp_all
    subst this; simp [doubleLocs, dblRec, applyLocs]
  | succ n ih =>
    intro ts pre h
    cases ts with
    | nil => simp [doubleLocs, dblRec, applyLocs]
    | cons a ts =>
      cases ts with
      | nil => simp [doubleLocs, dblRec, applyLocs]
      | cons b rest =>
        simp only [doubleLocs, dblRec]
        cases hm : doubleMatch a b with
        | none =>
          have := ih (b :: rest) (pre ++ [a]) (by simp at h ⊢; omega)
          simpa using this
        | some t =>
          have := ih rest (pre ++ [a, b]) (by simp at h ⊢; omega)
          simp only [List.length_append, List.length_cons, List.length_nil, List.append_assoc,
            List.cons_append, List.nil_append] at this
          simp only [applyLocs, List.foldr_cons] at this ⊢
          rw [this, splice]
          simp only
          rw [show pre ++ a :: b :: dblRec rest = pre ++ ([a, b] ++ dblRec rest) by simp,
            List.take_left' rfl, ← List.append_assoc, List.drop_left' (by simp)]

/-- replacing from the last location to the first = one greedy left-to-right pass -/
theorem collapseDoubles_eq (ts : List Token) : collapseDoubles ts = dblRec ts := by
  simpa [collapseDoubles] using collapseDoubles_aux ts.length ts [] (Nat.le_refl _)

end Lex
end Basic
