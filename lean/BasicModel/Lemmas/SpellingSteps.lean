import BasicModel.Lemmas.SpellingParse
import BasicModel.Lemmas.SpellingGlue
/-
  C16, combination: the respellings as the steps of a rewriting relation on source lines; every
  step, hence every finite chain of steps in either direction, preserves the `meaning` of the line:
  its line number and its significant tokens up to the remark marker.
-/
set_option linter.unusedSimpArgs false
set_option linter.unusedVariables false
namespace Basic
namespace Lex

/-- the remark marker that was typed is kept in the listing; the parser does not tell them apart -/
def normTok : Token → Token
  | .word .rem2 => .word .rem1
  | t => t

/-- what the parser gets to see of a source line: the line number and the significant tokens, the
    remark marker normalised -/
def meaning (l : Str) : Option Nat × List Token := ((lex l).1, (sig (lex l).2).map normTok)

/-! ### case -/

theorem eq_of_foldTok_payload (l1 l2 : List Token) (h : l1.map foldTok = l2.map foldTok)
    (hp : l1.filter isPayload = l2.filter isPayload) : l1 = l2 := by
  induction l1 generalizing l2 with
  | nil => cases l2 <;> simp_all
  | cons a l1 ih =>
    cases l2 with
    | nil => simp at h
    | cons b l2 =>
      simp only [List.map_cons, List.cons.injEq] at h
      obtain ⟨hab, ht⟩ := h
      have hpab : isPayload a = isPayload b := by
        rw [← isPayload_foldTok a, ← isPayload_foldTok b, hab]
      cases ha : isPayload a with
      | true =>
        have hb : isPayload b = true := by rw [← hpab]; exact ha
        simp only [List.filter_cons, ha, hb, if_true, List.cons.injEq] at hp
        rw [hp.1, ih l2 ht hp.2]
      | false =>
        have hb : isPayload b = false := by rw [← hpab]; exact ha
        simp only [List.filter_cons, ha, hb, Bool.false_eq_true, if_false] at hp
        rw [foldTok_of_not_payload a ha, foldTok_of_not_payload b hb] at hab
        rw [hab, ih l2 ht hp]

/-- two lines that differ only in the case of ASCII letters, and not in their string literals and
    remark texts, are the same line -/
theorem lex_case (s s' : Str) (h : s.map upper = s'.map upper)
    (hp : (lex s).2.filter isPayload = (lex s').2.filter isPayload) : lex s = lex s' := by
  obtain ⟨a1, a2⟩ := lex_upper s
  obtain ⟨b1, b2⟩ := lex_upper s'
  rw [h] at a1 a2
  exact Prod.ext (a1.symm.trans b1) (eq_of_foldTok_payload _ _ (a2.symm.trans b2) hp)

/-! ### blanks -/

/-- any two legal placements of blanks between the same significant tokens lex to the same
    significant tokens (program lines) -/
theorem blanks_optional_numbered (n : Nat) (hn : n ≤ 65529) (L L' : List Token) (hP : AllPrintable L)
    (hP' : AllPrintable L') (hk : packLegal L = true) (hk' : packLegal L' = true) (hs : sig L = sig L') :
    meaning (printLine (some n) L) = meaning (printLine (some n) L') := by
  simp only [meaning, lex_packed_numbered n hn L hP hk, lex_packed_numbered n hn L' hP' hk', sig_sepRec, hs]

/-- the same for direct lines -/
theorem blanks_optional_direct (L L' : List Token) (hP : AllPrintable L) (hP' : AllPrintable L')
    (hk : packLegal L = true) (hk' : packLegal L' = true) (hs : sig L = sig L')
    (h0 : StartsPlain (printTokens L)) (h0' : StartsPlain (printTokens L')) :
    meaning (printLine none L) = meaning (printLine none L') := by
  simp only [meaning, lex_packed_direct L hP hk h0, lex_packed_direct L' hP' hk' h0', sig_sepRec, hs]

/-! ### the parser cannot tell the two remark markers apart -/

theorem normTok_of_not_rem (t : Token) (h : Parse.isRem t = false) : normTok t = t := by
  cases t with
  | word w => cases w <;> first | rfl | (simp [Parse.isRem] at h)
  | _ => rfl

theorem isRem_normTok (t : Token) : Parse.isRem (normTok t) = Parse.isRem t := by
  cases t with
  | word w => cases w <;> rfl
  | _ => rfl

/-- `BasicParser::next` on a token list with the markers normalised: the same token, the same
    columns, the same flag, the rest of the list normalised -/
theorem nextLoop_normTok (ts : List Token) : ∀ (rem : Bool) (cs ce : Nat),
    Parse.nextLoop (ts.map normTok) rem cs ce =
      ((Parse.nextLoop ts rem cs ce).1, (Parse.nextLoop ts rem cs ce).2.1.map normTok,
        (Parse.nextLoop ts rem cs ce).2.2) := by
  induction ts with
  | nil => intro rem cs ce; simp [Parse.nextLoop]
  | cons t ts ih =>
    intro rem cs ce
    cases hr : (rem || Parse.isRem t) with
    | true =>
      have hr' : (rem || Parse.isRem (normTok t)) = true := by rw [isRem_normTok]; exact hr
      simp only [List.map_cons, Parse.nextLoop, hr, hr', if_true, Lemmas.C19.nextLoop_rem]
      simp
    | false =>
      have ht : Parse.isRem t = false := by
        cases rem <;> simp at hr; exact hr
      have hn := normTok_of_not_rem t ht
      simp only [List.map_cons, hn, Parse.nextLoop, hr, Bool.false_eq_true, if_false]
      cases t with
      | whitespace n => simpa [hr] using ih (rem || Parse.isRem (.whitespace n)) ce (ce + (Token.whitespace n).text.length)
      | _ => rfl

/-! ### the rewriting relation -/

/-- one respelling of a source line -/
inductive Step : Str → Str → Prop
  /-- `?` for `PRINT` -/
  | print (pre post sep : Str) (A : List Token) (hq : Cut (lineBody pre) A '?')
      (hp : Cut (lineBody pre) A 'P') (hs : PrintSep sep post) :
      Step (pre ++ '?' :: post) (pre ++ ("PRINT".toList ++ (sep ++ post)))
  /-- `?` for `PRINT` glued to a letter -/
  | printGlued (pre : Str) (k : Char) (tl : List Char) (A : List Token) (hq : Cut (lineBody pre) A '?')
      (hp : Cut (lineBody pre) A 'P') (hk : isAlpha k = true)
      (hfirst : ∃ t ts, (alphabetic (k :: tl)).1 = t :: ts ∧ t ≠ .word .rem1) :
      Step (pre ++ '?' :: k :: tl) (pre ++ ("PRINT".toList ++ k :: tl))
  /-- `'` for `REM` -/
  | rem (pre post : Str) (A : List Token) (hq : Cut (lineBody pre) A '\'')
      (hr : Cut (lineBody pre) A 'R') (hb : ∀ c ∈ post.head?, isAlpha c = false) :
      Step (pre ++ '\'' :: post) (pre ++ ("REM".toList ++ post))
  /-- `GO TO` for `GOTO` -/
  | goto (pre post blanks : Str) (A : List Token) (hg : Cut (lineBody pre) A 'G')
      (hbl : ∀ c ∈ blanks, isWs c = true) (hne : blanks ≠ [])
      (hpost : ∀ c ∈ post.head?, isAlpha c = false) :
      Step (pre ++ ("GO".toList ++ (blanks ++ ("TO".toList ++ post)))) (pre ++ ("GOTO".toList ++ post))
  /-- `GO SUB` for `GOSUB` -/
  | gosub (pre post blanks : Str) (A : List Token) (hg : Cut (lineBody pre) A 'G')
      (hbl : ∀ c ∈ blanks, isWs c = true) (hne : blanks ≠ []) (hpost : AlphaBoundary post) :
      Step (pre ++ ("GO".toList ++ (blanks ++ ("SUB".toList ++ post)))) (pre ++ ("GOSUB".toList ++ post))
  /-- one spelling of a comparison operator for another -/
  | cmp {t : Token} (s s' : CmpSpelling t) (pre post : Str) (A : List Token)
      (hcut : Cut (lineBody pre) A s.c1) (hcut' : Cut (lineBody pre) A s'.c1) (hA : cmpAtEnd A = false)
      (hV : cmpAtStart (lexFrom post false) = false) :
      Step (pre ++ (s.text ++ post)) (pre ++ (s'.text ++ post))
  /-- upper/lower case outside string literals and remarks -/
  | case (s s' : Str) (h : s.map upper = s'.map upper)
      (hp : (lex s).2.filter isPayload = (lex s').2.filter isPayload) : Step s s'
  /-- another legal placement of blanks (program lines) -/
  | blanksNumbered (n : Nat) (hn : n ≤ 65529) (L L' : List Token) (hP : AllPrintable L)
      (hP' : AllPrintable L') (hk : packLegal L = true) (hk' : packLegal L' = true) (hs : sig L = sig L') :
      Step (printLine (some n) L) (printLine (some n) L')
  /-- another legal placement of blanks (direct lines) -/
  | blanksDirect (L L' : List Token) (hP : AllPrintable L) (hP' : AllPrintable L')
      (hk : packLegal L = true) (hk' : packLegal L' = true) (hs : sig L = sig L')
      (h0 : StartsPlain (printTokens L)) (h0' : StartsPlain (printTokens L')) :
      Step (printLine none L) (printLine none L')

theorem map_normTok_append_rem (X U : List Token) (w w' : Word) (hw : w = .rem1 ∨ w = .rem2)
    (hw' : w' = .rem1 ∨ w' = .rem2) :
    (sig (X ++ .word w :: U)).map normTok = (sig (X ++ .word w' :: U)).map normTok := by
  rw [sig_append, sig_append, sig_cons_solid _ _ rfl, sig_cons_solid _ _ rfl]
  simp only [List.map_append, List.map_cons]
  rcases hw with rfl | rfl <;> rcases hw' with rfl | rfl <;> rfl

/-- every respelling preserves the meaning of the line -/
theorem Step.meaning_eq {a b : Str} (h : Step a b) : meaning a = meaning b := by
  cases h with
  | print pre post sep A hq hp hs =>
    obtain ⟨h1, h2⟩ := print_alias pre post sep A hq hp hs
    simp only [meaning, h1, h2]
  | printGlued pre k tl A hq hp hk hfirst => simp only [meaning, print_alias_glued pre k tl A hq hp hk hfirst]
  | rem pre post A hq hr hb =>
    obtain ⟨h1, X, e1, e2⟩ := rem_alias pre post A hq hr hb
    simp only [meaning, h1, e1, e2]
    rw [map_normTok_append_rem X _ .rem2 .rem1 (Or.inr rfl) (Or.inl rfl)]
  | goto pre post blanks A hg hbl hne hpost => simp only [meaning, goto_alias pre post blanks A hg hbl hne hpost]
  | gosub pre post blanks A hg hbl hne hpost =>
    simp only [meaning, gosub_alias pre post blanks A hg hbl hne hpost]
  | cmp s s' pre post A hcut hcut' hA hV => simp only [meaning, cmp_alias_eq s s' pre post A hcut hcut' hA hV]
  | case _ _ h hp => simp only [meaning, lex_case a b h hp]
  | blanksNumbered n hn L L' hP hP' hk hk' hs => exact blanks_optional_numbered n hn L L' hP hP' hk hk' hs
  | blanksDirect L L' hP hP' hk hk' hs h0 h0' => exact blanks_optional_direct L L' hP hP' hk hk' hs h0 h0'

/-- finitely many respellings, each applied in either direction -/
inductive Respelled : Str → Str → Prop
  | refl (a : Str) : Respelled a a
  | fwd {a b c : Str} (h : Step a b) (r : Respelled b c) : Respelled a c
  | bwd {a b c : Str} (h : Step b a) (r : Respelled b c) : Respelled a c

/-- C16, combined: any finite number of respellings leaves the line number and the significant
    tokens (up to the remark marker) unchanged -/
theorem Respelled.meaning_eq {a b : Str} (h : Respelled a b) : meaning a = meaning b := by
  induction h with
  | refl a => rfl
  | fwd h _ ih => exact h.meaning_eq.trans ih
  | bwd h _ ih => exact h.meaning_eq.symm.trans ih

/-- … hence the parser, run on what it gets to see of either line, gives the same statements, the
    same columns and the same errors -/
theorem Respelled.parse_eq {a b : Str} (h : Respelled a b) :
    Parse.parse (meaning a).1 (meaning a).2 = Parse.parse (meaning b).1 (meaning b).2 := by
  rw [h.meaning_eq]

end Lex
end Basic
